package main

// The legacy channel API (events.EventEmitter): ordering, losslessness and shutdown (C16, C18).

import (
	"context"
	"sync/atomic"
	"fmt"
	"strings"
	"time"

	"berty.tech/go-orbit-db/events"
	"berty.tech/go-orbit-db/iface"
	"berty.tech/go-orbit-db/stores"
	"berty.tech/go-orbit-db/stores/kvstore"
	datastore "github.com/ipfs/go-datastore"
	dsync "github.com/ipfs/go-datastore/sync"
)

type esub struct {
	ch     <-chan events.Event
	cancel context.CancelFunc
}

func (w *World) execEmitOp(ctx context.Context, toks []string) (bool, error) {
	switch toks[0] {
	case "enew":
		w.emitter = &events.EventEmitter{}
		w.esubs = map[string]*esub{}
	case "esub":
		c, cancel := context.WithCancel(w.ctx)
		w.esubs[toks[1]] = &esub{ch: w.emitter.Subscribe(c), cancel: cancel}
	case "eemit":
		// eemit from to : emit the integers from..to (inclusive); each Emit may block while buffers are full,
		// so it runs with a deadline
		from, to := atoi(toks[1]), atoi(toks[2])
		done := make(chan struct{})
		go func() {
			for k := from; k <= to; k++ {
				w.emitter.Emit(w.ctx, k)
			}
			close(done)
		}()
		select {
		case <-done:
			w.printf("emitted %d..%d\n", from, to)
		case <-time.After(300 * time.Millisecond):
			w.printf("emitted %d..%d blocked\n", from, to)
			w.pendingEmit = done
		}
	case "eflush":
		if w.pendingEmit != nil {
			select {
			case <-w.pendingEmit:
				w.printf("flushed true\n")
			case <-time.After(2 * time.Second):
				w.printf("flushed false\n")
			}
			w.pendingEmit = nil
		}
	case "eread":
		// eread name n : read up to n events (100 ms each at most)
		s := w.esubs[toks[1]]
		n := atoi(toks[2])
		var got []string
		closed := false
	loop:
		for i := 0; i < n; i++ {
			select {
			case e, ok := <-s.ch:
				if !ok {
					closed = true
					break loop
				}
				got = append(got, fmt.Sprint(e))
			case <-time.After(100 * time.Millisecond):
				break loop
			}
		}
		w.printf("eread %s %s closed=%v\n", toks[1], joinOrDash(got), closed)
	case "efinal":
		w.printf("efinal %s\n", toks[1])
	case "ecancel":
		w.esubs[toks[1]].cancel()
	case "eclosed":
		// eclosed name : after cancellation the channel must get closed (its goroutines have ended)
		s := w.esubs[toks[1]]
		deadline := time.After(500 * time.Millisecond)
		closed := false
	wait:
		for {
			select {
			case _, ok := <-s.ch:
				if !ok {
					closed = true
					break wait
				}
			case <-deadline:
				break wait
			}
		}
		w.printf("eclosed %s %v\n", toks[1], closed)
	case "eglobal":
		// eglobal : the legacy GlobalChannel; a first caller receives an event and goes away (its context
		// ends); a second caller, with a live context, must receive what is emitted afterwards
		em := &events.EventEmitter{}
		c1, cancel1 := context.WithCancel(w.ctx)
		ch1 := em.GlobalChannel(c1)
		em.Emit(w.ctx, 1)
		first := false
		select {
		case e := <-ch1:
			first = fmt.Sprint(e) == "1"
		case <-time.After(500 * time.Millisecond):
		}
		cancel1()
		// the first channel ends
		deadline := time.After(500 * time.Millisecond)
	gone:
		for {
			select {
			case _, ok := <-ch1:
				if !ok {
					break gone
				}
			case <-deadline:
				break gone
			}
		}
		c2, cancel2 := context.WithCancel(w.ctx)
		ch2 := em.GlobalChannel(c2)
		emitted := make(chan struct{})
		go func() { em.Emit(w.ctx, 2); close(emitted) }()
		second := "none"
		select {
		case e, ok := <-ch2:
			if !ok {
				second = "closed"
			} else {
				second = fmt.Sprint(e)
			}
		case <-time.After(500 * time.Millisecond):
		}
		cancel2()
		w.printf("eglobal first=%v second=%s\n", first, second)
	case "enilbus":
		// enilbus p : a key-value store built with its public constructor and the default (nil) EventBus
		// option; a subscriber on its bus and one on its legacy channel API; one Put
		pr := w.peers[atoi(toks[1])]
		addr, err := pr.odb.DetermineAddress(ctx, fmt.Sprintf("direct-%d", time.Now().UnixNano()), "keyvalue", nil)
		if err != nil {
			return true, err
		}
		replicate := false
		st, err := kvstore.NewOrbitDBKeyValue(pr.odb.IPFS(), pr.odb.Identity(), addr, &iface.NewStoreOptions{
			Replicate:    &replicate,
			Cache:        dsync.MutexWrap(datastore.NewMapDatastore()),
			CacheDestroy: func() error { return nil },
		})
		if err != nil {
			return true, err
		}
		kv := st.(iface.KeyValueStore)
		busSub, err := kv.EventBus().Subscribe(new(stores.EventWrite))
		if err != nil {
			return true, err
		}
		lctx, lcancel := context.WithCancel(w.ctx)
		legacy := kv.Subscribe(lctx) //nolint:staticcheck
		_, perr := kv.Put(ctx, "k", []byte("v"))
		onBus, onLegacy := false, false
		select {
		case e := <-busSub.Out():
			_, onBus = e.(stores.EventWrite)
		case <-time.After(time.Second):
		}
		tmo := time.After(time.Second)
	legacyLoop:
		for {
			select {
			case e, ok := <-legacy:
				if !ok {
					break legacyLoop
				}
				if _, isW := e.(stores.EventWrite); isW {
					onLegacy = true
					break legacyLoop
				}
			case <-tmo:
				break legacyLoop
			}
		}
		lcancel()
		_ = busSub.Close()
		_ = st.Close()
		w.printf("enilbus put=%s bus=%v legacy=%v\n", errStr(perr), onBus, onLegacy)
	case "ewedge":
		// ewedge trials : a legacy subscriber whose forwarder lags (held at its hook point) until its bus
		// subscription is full and an Emit is blocked on it, is cancelled; a second subscriber keeps
		// reading. Whatever the forwarder's select picks next (the coin is flipped once per trial), the
		// emitter must get through and the second subscriber must receive every event.
		trials := atoi(toks[1])
		wedged, lost := 0, 0
		const n = 40
		for t := 0; t < trials; t++ {
			em := &events.EventEmitter{}
			ctxA, cancelA := context.WithCancel(w.ctx)
			ctxB, cancelB := context.WithCancel(w.ctx)
			_ = em.Subscribe(ctxA)
			chB := em.Subscribe(ctxB)
			var gotB int32
			go func() {
				for range chB {
					atomic.AddInt32(&gotB, 1)
				}
			}()
			w.holdHook("emitter.received")
			done := make(chan struct{})
			go func() {
				for k := 1; k <= n; k++ {
					em.Emit(w.ctx, k)
				}
				close(done)
			}()
			time.Sleep(20 * time.Millisecond) // both bus subscriptions are full by now, the emitter waits
			cancelA()
			time.Sleep(time.Millisecond)
			w.releaseHook("emitter.received")
			select {
			case <-done:
				for i := 0; i < 500 && atomic.LoadInt32(&gotB) < n; i++ {
					time.Sleep(time.Millisecond)
				}
				if atomic.LoadInt32(&gotB) != n {
					lost++
				}
			case <-time.After(time.Second):
				wedged++
			}
			cancelB()
		}
		w.printf("ewedge trials=%d wedged=%d lost=%d\n", trials, wedged, lost)
	default:
		return false, nil
	}
	return true, nil
}

var _ = strings.Join
