package main

import (
	"bufio"
	"bytes"
	"context"
	"encoding/hex"
	"encoding/json"
	"fmt"
	"github.com/libp2p/go-libp2p/p2p/host/eventbus"
	"reflect"
	"sort"
	"strings"
	"sync"
	"time"

	ipfslog "berty.tech/go-ipfs-log"
	"berty.tech/go-ipfs-log/entry"
	idp "berty.tech/go-ipfs-log/identityprovider"
	"berty.tech/go-ipfs-log/keystore"
	orbitdb "berty.tech/go-orbit-db"
	"berty.tech/go-orbit-db/accesscontroller"
	"berty.tech/go-orbit-db/address"
	"berty.tech/go-orbit-db/events"
	"berty.tech/go-orbit-db/iface"
	"berty.tech/go-orbit-db/stores/operation"
	"berty.tech/go-orbit-db/stores/replicator"
	"berty.tech/go-orbit-db/verifhook"
	cid "github.com/ipfs/go-cid"
	datastore "github.com/ipfs/go-datastore"
	dssync "github.com/ipfs/go-datastore/sync"
	"github.com/libp2p/go-libp2p/core/crypto"
	"github.com/libp2p/go-libp2p/core/event"
	"github.com/libp2p/go-libp2p/core/peer"
)

// ---- in-memory cache owned by the harness (survives store/instance close = "restart") ----

type recDS struct {
	datastore.Datastore
	c   *memCache
	key string
}

func (d *recDS) Put(ctx context.Context, k datastore.Key, v []byte) error {
	// an injected device error: the next `failPuts` Puts of the local-heads key fail (nothing is stored)
	if k.String() == "/_localHeads" {
		d.c.mu.Lock()
		fail := d.c.failPuts > 0
		if fail {
			d.c.failPuts--
		}
		d.c.mu.Unlock()
		if fail {
			return fmt.Errorf("no space left on device (injected)")
		}
	}
	if k.String() == "/_remoteHeads" {
		// the same for the remote-heads key (written at the end of a replication round)
		d.c.mu.Lock()
		fail := d.c.failRPuts > 0
		if fail {
			d.c.failRPuts--
			d.c.rputFailed++
		}
		d.c.mu.Unlock()
		if fail {
			return fmt.Errorf("no space left on device (injected)")
		}
	}
	err := d.Datastore.Put(ctx, k, v)
	if err == nil && d.c.onPut != nil {
		d.c.onPut(d.key, k.String(), v)
	}
	return err
}
func (d *recDS) Close() error { return nil }

type memCache struct {
	mu    sync.Mutex
	m     map[string]*recDS
	onPut func(db, key string, v []byte)
	// failPuts: how many of the next Puts of `_localHeads` fail
	failPuts int
	// failRPuts: how many of the next Puts of `_remoteHeads` fail; rputFailed: how many did, not yet reported
	failRPuts  int
	rputFailed int
}

func newMemCache() *memCache { return &memCache{m: map[string]*recDS{}} }

func (c *memCache) Load(directory string, a address.Address) (datastore.Datastore, error) {
	c.mu.Lock()
	defer c.mu.Unlock()
	k := directory + "|" + a.String()
	d, ok := c.m[k]
	if !ok {
		d = &recDS{Datastore: dssync.MutexWrap(datastore.NewMapDatastore()), c: c, key: k}
		c.m[k] = d
	}
	return d, nil
}
func (c *memCache) Close() error { return nil }
func (c *memCache) Destroy(directory string, a address.Address) error {
	c.mu.Lock()
	defer c.mu.Unlock()
	delete(c.m, directory+"|"+a.String())
	return nil
}

// ---- peers ----

type Peer struct {
	idx      int
	api      *fakeAPI
	ksStore  datastore.Datastore
	ks       *keystore.Keystore
	identity *idp.Identity
	cache    *memCache
	odb      orbitdb.OrbitDB
	rank     int        // rank of the identity's public key in byte order (= clock id order)
	census   *busCensus // subscriptions open on this instance's event bus
}

// per-store hook accounting
type storeAcct struct {
	spawned  int
	loadDone int
	emitted  []uintptr // ids of LoadEnd batches emitted by the store's replicator
	done     map[uintptr]bool
	loadEnds [][]ipfslog.Log // batches in emission order (to print)
	printed  int
	loadQ    [][]ipfslog.Entry // heads of every replicator Load call, in order (to print)
	printedQ int
	rev      []revent // the replicator's steps, in the order its lock sections ran (to print)
	printedR int
}

// revent is one step of a replicator, recorded from a hook inside the lock section that performs it.
type revent struct {
	kind  string // load | acq | acqfail | fetched | done | failed | deliver | cancel
	ctx   string
	hash  cid.Cid
	heads []ipfslog.Entry
}

type World struct {
	ctx    context.Context
	out    *bufio.Writer
	blocks *BlockNet
	net    *SimNet
	peers  []*Peer

	mu     sync.Mutex
	cond   *sync.Cond
	acct   map[interface{}]*storeAcct             // keyed by store (iface.Store) pointer
	byRepl map[interface{}]interface{}            // replicator -> store
	hookFn func(name string, args ...interface{}) // family-specific extra hook

	// per-scenario state
	names          map[string]int // cid -> entry number
	entries        []ipfslog.Entry
	stores         map[int]iface.Store // peer -> store of the scenario's database
	kind           string
	dbAddr         string
	scnID          string
	quiesceTimeout time.Duration
	indexHeld      bool // an op is running under withIndexHeld
	slotBase       map[interface{}]int
	reqSeq         int
	revTie         bool // scenario opened its stores with a custom sort function (ties by clock id, reversed)
	lenBefore      int  // log length before the write in progress
	heldFirst      map[string]chan struct{}
	heldTaken      map[string]chan struct{}
	spinStop       chan struct{} // events family: readers spinning on the view
	spinWG         sync.WaitGroup
	spinPause      int32
	loadCancelled  bool                        // restart … ctx=cancelled
	noLoad         bool                        // restart … noload
	legacyOf       map[int]<-chan events.Event // legacy channels handed out just before a store was closed
	sigOverride    *int                        // forge: the `sig` flag to declare instead of the measured one (a malleated signature verifies, but nobody signed it)
	lastStore      iface.Store                 // address family: the store of the last successful createdb
	acSimple       bool                        // scenario flag ac=simple: the `simple` access controller instead of the default `ipfs` one
	acWrite        []string                    // its write list
	reuseOpts      bool                        // address family: each peer passes one options value to every create/open
	peerOpts       map[int]*orbitdb.CreateDBOptions
	unserved       map[int]bool // peers whose instance stopped taking direct-channel messages
	sentMark       int
	barrierSeq     int
	tampered       map[string]ipfslog.Entry
	dbs            []*dbCtx
	curDB          int
	evc            map[int]*evCounter
	evSubs         []event.Subscription
	obsSuffix      string
	lastAddr       string
	closedStores   []iface.Store
	closedOf       map[int]iface.Store
	leakBase       int
	evw            map[int]*evWatch
	emitter        *events.EventEmitter
	esubs          map[string]*esub
	pendingEmit    chan struct{}
	roots          map[string]int
	extraStores    []iface.Store
	lastSnapOK     bool // the last `snapsave` succeeded
	maxHist        *int // `maxhist=N`: every store of the scenario is built with MaxHistory = N
	heldHooks      map[string]chan struct{}
	hookWaiting    map[string]int
	lastForged     string
	gate           *gateCtl
	cancels        map[string]context.CancelFunc
	expectPub      bool
}

func NewWorld(ctx context.Context, n int, out *bufio.Writer) (*World, error) {
	w := &World{ctx: ctx, out: out, blocks: NewBlockNet(n), acct: map[interface{}]*storeAcct{}, byRepl: map[interface{}]interface{}{}, quiesceTimeout: 5 * time.Second}
	w.cond = sync.NewCond(&w.mu)
	var ids []peer.ID
	for i := 0; i < n; i++ {
		_, pub, err := crypto.GenerateEd25519Key(nil)
		if err != nil {
			return nil, err
		}
		id, _ := peer.IDFromPublicKey(pub)
		ids = append(ids, id)
	}
	w.net = NewSimNet(ids)
	for i := 0; i < n; i++ {
		p := &Peer{idx: i, cache: newMemCache()}
		p.api = &fakeAPI{dag: &fakeDag{net: w.blocks, p: i}, key: &fakeKeyAPI{id: ids[i]}}
		p.ksStore = dssync.MutexWrap(datastore.NewMapDatastore())
		ks, err := keystore.NewKeystore(p.ksStore)
		if err != nil {
			return nil, err
		}
		p.ks = ks
		ident, err := idp.CreateIdentity(ctx, &idp.CreateIdentityOptions{Keystore: ks, Type: "orbitdb", ID: ids[i].String()})
		if err != nil {
			return nil, err
		}
		p.identity = ident
		w.peers = append(w.peers, p)
		if err := w.startInstance(p); err != nil {
			return nil, err
		}
	}
	// clock-id ranks
	order := make([]int, n)
	for i := range order {
		order[i] = i
	}
	sort.Slice(order, func(a, b int) bool {
		return bytes.Compare(w.peers[order[a]].identity.PublicKey, w.peers[order[b]].identity.PublicKey) < 0
	})
	for r, i := range order {
		w.peers[i].rank = r
	}
	verifhook.Set(w.hook)
	return w, nil
}

// startInstanceFresh recreates the identity from the (persistent) keystore, as a restarted process would.
func (w *World) startInstanceFresh(p *Peer) error {
	ks, err := keystore.NewKeystore(p.ksStore)
	if err != nil {
		return err
	}
	p.ks = ks
	ident, err := idp.CreateIdentity(w.ctx, &idp.CreateIdentityOptions{Keystore: ks, Type: "orbitdb", ID: w.net.ids[p.idx].String()})
	if err != nil {
		return err
	}
	p.identity = ident
	return w.startInstance(p)
}

func (w *World) startInstance(p *Peer) error {
	dir := fmt.Sprintf("mem-%d", p.idx)
	id := w.net.ids[p.idx].String()
	// the instance's bus is what NewOrbitDB would make by default, plus libp2p's own metrics hook: every
	// subscription added to it and removed from it is counted
	p.census = newBusCensus()
	odb, err := orbitdb.NewOrbitDB(w.ctx, p.api, &orbitdb.NewOrbitDBOptions{
		ID: &id, Directory: &dir, Keystore: p.ks, Cache: p.cache, Identity: p.identity,
		PubSub: &switchPS{net: w.net, p: p.idx, api: p.api}, DirectChannelFactory: w.net.dcFactory(p.idx),
		EventBus: eventbus.NewBus(eventbus.WithMetricsTracer(p.census)),
	})
	if err != nil {
		return err
	}
	p.odb = odb
	w.registerStoreTypes(p)
	return nil
}

func (w *World) hook(name string, args ...interface{}) {
	w.mu.Lock()
	switch name {
	case "store.sync.spawn":
		w.acctOf(args[0]).spawned++
	case "replicator.load.done":
		if s, ok := w.byRepl[ptrOf(args[0])]; ok {
			w.acctOf(s).loadDone++
		}
	case "replicator.loadend":
		if s, ok := w.byRepl[ptrOf(args[0])]; ok {
			logs := args[1].([]ipfslog.Log)
			a := w.acctOf(s)
			a.emitted = append(a.emitted, logsID(logs))
			a.loadEnds = append(a.loadEnds, append([]ipfslog.Log(nil), logs...))
		}
	case "replicator.load.queued":
		if s, ok := w.byRepl[ptrOf(args[0])]; ok {
			a := w.acctOf(s)
			hs := append([]ipfslog.Entry(nil), args[2].([]ipfslog.Entry)...)
			a.loadQ = append(a.loadQ, hs)
			name := "live"
			if c, ok := args[1].(context.Context); ok {
				if v, ok := c.Value(reqKey{}).(string); ok {
					name = v
				}
			}
			a.rev = append(a.rev, revent{kind: "load", ctx: name, heads: hs})
		}
	case "replicator.slot.acquired", "replicator.slot.failed", "replicator.next.queued", "replicator.done", "replicator.failed":
		if s, ok := w.byRepl[ptrOf(args[0])]; ok {
			kind := map[string]string{"replicator.slot.acquired": "acq", "replicator.slot.failed": "acqfail",
				"replicator.next.queued": "fetched", "replicator.done": "done", "replicator.failed": "failed"}[name]
			a := w.acctOf(s)
			a.rev = append(a.rev, revent{kind: kind, hash: args[1].(cid.Cid)})
		}
	case "store.loadend.done":
		logs := args[1].([]ipfslog.Log)
		w.acctOf(args[0]).done[logsID(logs)] = true
		w.acctOf(args[0]).rev = append(w.acctOf(args[0]).rev, revent{kind: "deliver"})
	}
	f := w.hookFn
	var wait chan struct{}
	if ch, ok := w.heldHooks[name]; ok {
		wait = ch
		w.hookWaiting[name]++
	} else if ch, ok := w.heldFirst[name]; ok {
		// only the first goroutine to arrive is held; the others pass
		wait = ch
		delete(w.heldFirst, name)
		w.heldTaken[name] = ch
		w.hookWaiting[name]++
	}
	w.cond.Broadcast()
	w.mu.Unlock()
	if wait != nil {
		<-wait
	}
	if f != nil {
		f(name, args...)
	}
}

// holdHook makes every goroutine that reaches the named hook point wait until releaseHook.
func (w *World) holdHook(name string) {
	w.mu.Lock()
	if w.heldHooks == nil {
		w.heldHooks = map[string]chan struct{}{}
		w.hookWaiting = map[string]int{}
	}
	if _, ok := w.heldHooks[name]; !ok {
		w.heldHooks[name] = make(chan struct{})
		w.hookWaiting[name] = 0
	}
	w.mu.Unlock()
}

// holdFirst makes the first goroutine that reaches the named hook point wait until releaseHook.
func (w *World) holdFirst(name string) {
	w.mu.Lock()
	if w.heldFirst == nil {
		w.heldFirst = map[string]chan struct{}{}
		w.heldTaken = map[string]chan struct{}{}
	}
	if w.hookWaiting == nil {
		w.hookWaiting = map[string]int{}
	}
	w.heldFirst[name] = make(chan struct{})
	w.hookWaiting[name] = 0
	w.mu.Unlock()
}

func (w *World) releaseHook(name string) {
	w.mu.Lock()
	if ch, ok := w.heldFirst[name]; ok {
		close(ch)
		delete(w.heldFirst, name)
	}
	if ch, ok := w.heldTaken[name]; ok {
		close(ch)
		delete(w.heldTaken, name)
	}
	if ch, ok := w.heldHooks[name]; ok {
		close(ch)
		delete(w.heldHooks, name)
	}
	w.mu.Unlock()
}

// waitHook waits until n goroutines are blocked at the named hook point.
func (w *World) waitHook(name string, n int) bool {
	deadline := time.Now().Add(150 * time.Millisecond)
	for time.Now().Before(deadline) {
		w.mu.Lock()
		got := w.hookWaiting[name]
		w.mu.Unlock()
		if got >= n {
			return true
		}
		time.Sleep(100 * time.Microsecond)
	}
	return false
}

func ptrOf(x interface{}) uintptr {
	v := reflect.ValueOf(x)
	switch v.Kind() {
	case reflect.Ptr, reflect.Map, reflect.Chan, reflect.Func, reflect.UnsafePointer, reflect.Slice:
		return v.Pointer()
	}
	return 0
}

// recordCancel notes the end of a request context in every replicator's step sequence.
func (w *World) recordCancel(name string) {
	w.mu.Lock()
	for _, a := range w.acct {
		a.rev = append(a.rev, revent{kind: "cancel", ctx: name})
	}
	w.mu.Unlock()
}

// reqKey carries the script's name of a request context (`ctx=c1`) into the replicator's hooks.
type reqKey struct{}

// nameOfHash is the scenario-local name of an entry hash (hashes that were never declared print as h?).
func (w *World) nameOfHash(c cid.Cid) string {
	if n, ok := w.names[c.String()]; ok {
		return fmt.Sprintf("e%d", n)
	}
	return "e0"
}

// storeKey identifies a store by the address of its (leading, embedded) BaseStore.
func storeKey(s interface{}) interface{} { return ptrOf(s) }

func logsID(logs []ipfslog.Log) uintptr {
	if len(logs) == 0 {
		return 0
	}
	return ptrOf(logs[0])
}

func (w *World) acctOf(s interface{}) *storeAcct {
	if _, isKey := s.(uintptr); !isKey {
		s = storeKey(s)
	}
	a, ok := w.acct[s]
	if !ok {
		a = &storeAcct{done: map[uintptr]bool{}}
		w.acct[s] = a
	}
	return a
}

// register a store so its replicator's hooks can be attributed to it
func (w *World) registerStore(s iface.Store) {
	// the number of fetch slots of a fresh replicator: what must be free again whenever it is at rest
	base := s.Replicator().(statser).VerifStats().FreeSlots
	w.mu.Lock()
	w.byRepl[ptrOf(s.Replicator())] = storeKey(s)
	w.acctOf(s)
	if w.slotBase == nil {
		w.slotBase = map[interface{}]int{}
	}
	w.slotBase[storeKey(s)] = base
	w.mu.Unlock()
	// a store listens on the topic named by its own address (what keeps the databases of one instance,
	// and the databases of one name, apart on pubsub)
	for _, pr := range w.peers {
		if pr.identity != nil && s.Identity() != nil && pr.identity.ID == s.Identity().ID {
			if w.net.topicOf(pr.idx, s.Address().String()) == nil {
				w.printf("sub %d missing\n", pr.idx)
			}
		}
	}
}

type statser interface{ VerifStats() replicator.VerifStats }

// quiesce waits until store s has no spawned-but-unfinished Load, its replicator has nothing
// added/fetching/buffered, and its main loop has handled every LoadEnd its replicator emitted.
func (w *World) quiesce(s iface.Store) bool {
	deadline := time.Now().Add(w.quiesceTimeout)
	for {
		st := s.Replicator().(statser).VerifStats()
		w.mu.Lock()
		a := w.acctOf(s)
		ok := a.spawned == a.loadDone && st.Buffer == 0
		if ok {
			for _, id := range a.emitted {
				if !a.done[id] {
					ok = false
					break
				}
			}
		}
		w.mu.Unlock()
		if ok {
			return true
		}
		if time.Now().After(deadline) {
			return false
		}
		time.Sleep(200 * time.Microsecond)
	}
}

// ---- entry naming and printing ----

func hx(b []byte) string {
	if len(b) == 0 {
		return "-"
	}
	if len(b) > 256 {
		return fmt.Sprintf("#%d", len(b))
	}
	return hex.EncodeToString(b)
}

func (w *World) printf(format string, a ...interface{}) { fmt.Fprintf(w.out, format, a...) }

// name returns the scenario-local name of an entry, declaring it on first sight.
func (w *World) name(e ipfslog.Entry) string {
	if e == nil {
		return "nil"
	}
	k := e.GetHash().String()
	if n, ok := w.names[k]; ok {
		return fmt.Sprintf("e%d", n)
	}
	// a hash-only entry (a resumed replication queue names what it has to fetch by hash) of a block that
	// is not an entry of the scenario: nothing to declare
	if c := e.GetClock(); c == nil {
		return "e0"
	} else if lc, ok := c.(*entry.LamportClock); ok && lc == nil {
		return "e0"
	}
	n := len(w.entries) + 1
	w.names[k] = n
	w.entries = append(w.entries, e)
	w.declare(n, e)
	return fmt.Sprintf("e%d", n)
}

// nameOfCid names a hash without declaring it (unknown hashes print as x<suffix>).
func (w *World) nameOfCid(c cid.Cid) string {
	if n, ok := w.names[c.String()]; ok {
		return fmt.Sprintf("e%d", n)
	}
	s := c.String()
	return "x" + s[len(s)-6:]
}

func (w *World) names2(es []ipfslog.Entry) string {
	if len(es) == 0 {
		return "-"
	}
	out := make([]string, len(es))
	for i, e := range es {
		out[i] = w.name(e)
	}
	return strings.Join(out, ",")
}

func (w *World) cids2(cs []cid.Cid) string {
	if len(cs) == 0 {
		return "-"
	}
	out := make([]string, len(cs))
	for i, c := range cs {
		out[i] = w.nameOfCid(c)
	}
	return strings.Join(out, ",")
}

// writerOf maps an identity id / public key to a peer index (or -1).
func (w *World) peerOfIdentID(id string) int {
	for _, p := range w.peers {
		if p.identity.ID == id {
			return p.idx
		}
	}
	return -1
}
func (w *World) peerOfPubKey(k []byte) int {
	for _, p := range w.peers {
		if bytes.Equal(p.identity.PublicKey, k) {
			return p.idx
		}
	}
	return -1
}

func opString(payload []byte) string {
	op := struct {
		Key   *string `json:"key"`
		Op    string  `json:"op"`
		Value []byte  `json:"value"`
		Docs  []*struct {
			Key   string `json:"key"`
			Value []byte `json:"value"`
		} `json:"docs"`
	}{}
	if err := json.Unmarshal(payload, &op); err != nil {
		return "op=BAD"
	}
	switch {
	case op.Op == "PUTALL" && op.Key != nil && *op.Key == "":
		var ds []string
		for _, d := range op.Docs {
			if d == nil {
				continue // a `null` member (hand-made entry): not a document
			}
			ds = append(ds, hx([]byte(d.Key))+":"+hx(d.Value))
		}
		if len(ds) == 0 {
			return "op=PUTALL docs=-"
		}
		return "op=PUTALL docs=" + strings.Join(ds, ",")
	case op.Key == nil && op.Op == "ADD":
		return "op=ADD v=" + hx(op.Value)
	case op.Key != nil && op.Op == "PUT":
		return "op=PUT k=" + hx([]byte(*op.Key)) + " v=" + hx(op.Value)
	case op.Key != nil && op.Op == "DEL":
		return "op=DEL k=" + hx([]byte(*op.Key))
	}
	return "op=OTHER"
}

func (w *World) declare(n int, e ipfslog.Entry) {
	logID := "other"
	if e.GetLogID() == w.dbAddr {
		logID = "db"
	} else if k := w.dbIndexOfAddr(e.GetLogID()); k >= 0 {
		logID = fmt.Sprintf("db%d", k)
	}
	ident, key := -1, -1
	if e.GetIdentity() != nil {
		ident = w.peerOfIdentID(e.GetIdentity().ID)
	}
	key = w.peerOfPubKey(e.GetKey())
	cidRank := -1
	if e.GetClock() != nil {
		if q := w.peerOfPubKey(e.GetClock().GetID()); q >= 0 {
			cidRank = w.rankOf(q)
		}
	}
	t := -1
	if e.GetClock() != nil {
		t = e.GetClock().GetTime()
	}
	w.printf("entry e%d log=%s t=%d cid=%d ident=%d key=%d %s next=%s refs=%s %s\n", n, logID, t, cidRank, ident, key, w.identFlags(e),
		w.cids2(e.GetNext()), w.cids2(e.GetRefs()), opString(e.GetPayload()))
}

// identFlags describes the identity block of an entry independently of any verification code:
// ipk = the peer whose public key the block carries, isig = 1 iff the block's signatures are exactly the
// genuine signatures of the peer whose id it names.
func (w *World) identFlags(e ipfslog.Entry) string {
	id := e.GetIdentity()
	if id == nil {
		return "ipk=-1 isig=0"
	}
	ipk := w.peerOfPubKey(id.PublicKey)
	isig := 0
	if q := w.peerOfIdentID(id.ID); q >= 0 && id.Signatures != nil {
		g := w.peers[q].identity.Signatures
		if g != nil && bytes.Equal(g.ID, id.Signatures.ID) && bytes.Equal(g.PublicKey, id.Signatures.PublicKey) && id.Type == w.peers[q].identity.Type {
			isig = 1
		}
	}
	return fmt.Sprintf("ipk=%d isig=%d", ipk, isig)
}

// ---- observations ----

func sortedKV(m map[string][]byte) string {
	if len(m) == 0 {
		return "-"
	}
	keys := make([]string, 0, len(m))
	for k := range m {
		keys = append(keys, k)
	}
	sort.Strings(keys)
	out := make([]string, len(keys))
	for i, k := range keys {
		out[i] = hx([]byte(k)) + ":" + hx(m[k])
	}
	return strings.Join(out, ",")
}

func (w *World) cacheHeads(s iface.Store, key string) string {
	raw, err := s.Cache().Get(w.ctx, datastore.NewKey(key))
	if err != nil {
		return "none"
	}
	var hs []*entry.Entry
	if err := json.Unmarshal(raw, &hs); err != nil {
		return "bad"
	}
	out := make([]string, len(hs))
	for i, h := range hs {
		out[i] = w.nameOfCid(h.GetHash())
	}
	if len(out) == 0 {
		return "-"
	}
	return strings.Join(out, ",")
}

// docAll lists a document store's index through its public Query.
func docAll(ctx context.Context, d iface.DocumentStore) map[string][]byte {
	res, err := d.Query(ctx, func(interface{}) (bool, error) { return true, nil })
	out := map[string][]byte{}
	if err != nil {
		out["!err"] = []byte(err.Error())
		return out
	}
	for _, r := range res {
		m, ok := r.(map[string]interface{})
		if !ok {
			continue
		}
		id, _ := m["_id"].(string)
		b, _ := json.Marshal(m)
		out[id] = b
	}
	return out
}

func (w *World) observe(p int) {
	s, ok := w.stores[p]
	if !ok {
		w.printf("obs %d closed\n", p)
		return
	}
	lg := s.OpLog()
	vals := lg.Values().Slice()
	heads := lg.Heads().Slice()
	st := s.ReplicationStatus()
	idx := "-"
	switch v := s.(type) {
	case iface.KeyValueStore:
		idx = sortedKV(v.All())
	case iface.DocumentStore:
		idx = sortedKV(docAll(w.ctx, v))
	case iface.EventLogStore:
		n := -1
		ops, err := v.List(w.ctx, &iface.StreamOptions{Amount: &n})
		if err != nil {
			idx = "err"
		} else {
			idx = w.opsNames(ops)
		}
	}
	w.printf("obs %d values=%s heads=%s len=%d idx=%s status=%d/%d local=%s remote=%s%s\n", p,
		w.names2(vals), w.names2(heads), lg.Len(), idx, st.GetProgress(), st.GetMax(),
		w.cacheHeads(s, "_localHeads"), w.cacheHeads(s, "_remoteHeads"), w.obsSuffix)
}

func (w *World) opsNames(ops []operation.Operation) string {
	if len(ops) == 0 {
		return "-"
	}
	out := make([]string, len(ops))
	for i, o := range ops {
		out[i] = w.name(o.GetEntry())
	}
	return strings.Join(out, ",")
}

// flushLoadEnds prints the LoadEnd batches store s's replicator emitted since the last call.
func (w *World) flushLoadEnds(p int, s iface.Store) {
	w.mu.Lock()
	a := w.acctOf(s)
	batches := a.loadEnds[a.printed:]
	a.printed = len(a.loadEnds)
	loads := a.loadQ[a.printedQ:]
	a.printedQ = len(a.loadQ)
	w.mu.Unlock()
	for _, hs := range loads {
		// what Sync handed to the replicator (one line per Load call)
		w.printf("loadq %d %s\n", p, w.names2(hs))
	}
	w.mu.Lock()
	revs := a.rev[a.printedR:]
	a.printedR = len(a.rev)
	w.mu.Unlock()
	for _, ev := range revs {
		switch ev.kind {
		case "load":
			w.printf("rev %d load ctx=%s heads=%s\n", p, ev.ctx, w.names2(ev.heads))
		case "deliver":
			w.printf("rev %d deliver\n", p)
		case "cancel":
			w.printf("rev %d cancel ctx=%s\n", p, ev.ctx)
		default:
			w.printf("rev %d %s %s\n", p, ev.kind, w.nameOfHash(ev.hash))
		}
	}
	// injected failures of the `_remoteHeads` Put hit the first batches of this flush, in order
	c := w.peers[p].cache
	c.mu.Lock()
	nfail := c.rputFailed
	c.rputFailed = 0
	c.mu.Unlock()
	if nfail > 0 {
		w.printf("rputfail %d %d\n", p, nfail)
	}
	for _, logs := range batches {
		parts := make([]string, len(logs))
		for i, l := range logs {
			parts[i] = w.names2(l.GetEntries().Slice()) + "/" + w.names2(l.Heads().Slice())
		}
		w.printf("loadend %d %s\n", p, strings.Join(parts, ";"))
	}
}

// ---- scenario lifecycle ----

func (w *World) resetScenario(id string) {
	w.closeStores()
	w.reuseOpts = false
	w.revTie = false
	w.peerOpts = nil
	w.unserved = nil
	for _, pr := range w.peers {
		pr.cache.mu.Lock()
		pr.cache.failPuts = 0
		pr.cache.failRPuts = 0
		pr.cache.rputFailed = 0
		pr.cache.mu.Unlock()
	}
	w.blocks.Reset()
	w.net.ResetLinks()
	w.mu.Lock()
	w.acct = map[interface{}]*storeAcct{}
	w.byRepl = map[interface{}]interface{}{}
	w.hookFn = nil
	w.mu.Unlock()
	for _, es := range w.extraStores {
		_ = es.Close()
		for p := range w.peers {
			w.net.closeTopic(p, es.Address().String())
		}
	}
	w.extraStores = nil
	w.roots = nil
	w.lastAddr = ""
	w.lastStore = nil
	w.closedStores = nil
	w.closedOf = map[int]iface.Store{}
	for _, es := range w.esubs {
		es.cancel()
	}
	w.esubs = nil
	w.emitter = nil
	// every scenario starts from empty local caches (the keystores, i.e. the identities, are kept)
	for _, p := range w.peers {
		p.cache.mu.Lock()
		p.cache.m = map[string]*recDS{}
		p.cache.mu.Unlock()
	}
	w.gate = nil
	w.mu.Lock()
	for n, ch := range w.heldHooks {
		close(ch)
		delete(w.heldHooks, n)
	}
	w.hookWaiting = map[string]int{}
	w.mu.Unlock()
	w.tampered = nil
	w.lastForged = ""
	for _, c := range w.cancels {
		c()
	}
	w.cancels = nil
	w.names = map[string]int{}
	w.entries = nil
	w.stores = map[int]iface.Store{}
	w.scnID = id
}

func (w *World) closeStores() {
	if w.spinStop != nil {
		close(w.spinStop)
		w.spinStop = nil
		w.spinWG.Wait()
	}
	w.saveCurrentDB()
	for _, d := range w.dbs {
		for p, s := range d.stores {
			_ = s.Close()
			w.net.closeTopic(p, s.Address().String())
		}
	}
	for p, s := range w.stores {
		_ = s.Close()
		w.net.closeTopic(p, s.Address().String())
	}
	for _, sub := range w.evSubs {
		_ = sub.Close()
	}
	w.evSubs = nil
	w.evc = nil
	w.evw = nil
	w.dbs = nil
	w.curDB = 0
	w.stores = map[int]iface.Store{}
}

// revTieSort is a custom SortFn: Lamport time ascending, ties broken by clock id DESCENDING (the default
// breaks them ascending). It is the default order of a world in which the writers' ranks are reversed,
// which is how the trace presents it to the model (rankOf).
func revTieSort(a, b ipfslog.Entry) (int, error) {
	ta, tb := a.GetClock().GetTime(), b.GetClock().GetTime()
	if ta != tb {
		if ta < tb {
			return -1, nil
		}
		return 1, nil
	}
	if c := bytes.Compare(b.GetClock().GetID(), a.GetClock().GetID()); c != 0 {
		return c, nil
	}
	return 1, nil
}

// rankOf is the rank of peer q's key in the order the scenario's stores sort clock ids by.
func (w *World) rankOf(q int) int {
	if w.revTie {
		return len(w.peers) - 1 - w.peers[q].rank
	}
	return w.peers[q].rank
}

// storeOptions are the options every open of the scenario's database passes.
func (w *World) storeOptions() *orbitdb.CreateDBOptions {
	o := &orbitdb.CreateDBOptions{}
	if w.revTie {
		o.SortFn = revTieSort
	}
	if w.acSimple {
		o.AccessController = w.simpleAC()
	}
	return o
}

// simpleAC: the `simple` access controller keeps its write list only in the options it is created
// from (nothing is stored with the database): every peer passes the same list at every open.
func (w *World) simpleAC() accesscontroller.ManifestParams {
	return accesscontroller.NewSimpleManifestParams("simple", map[string][]string{"write": append([]string(nil), w.acWrite...)})
}

func aclParams(write []string) accesscontroller.ManifestParams {
	ac := accesscontroller.NewEmptyManifestParams()
	ac.SetAccess("write", write)
	return ac
}

// openDB creates the scenario database on the first peer of `peers` and opens it on the others.
func (w *World) openDB(kind, name string, write []string, peers []int) error {
	w.kind = kind
	var addr string
	for i, p := range peers {
		var s iface.Store
		var err error
		target := name
		opts := w.storeOptions()
		if w.reuseOpts {
			// one options value per peer for every database it opens (the library writes into it)
			if w.peerOpts == nil {
				w.peerOpts = map[int]*orbitdb.CreateDBOptions{}
			}
			if w.peerOpts[p] == nil {
				w.peerOpts[p] = &orbitdb.CreateDBOptions{}
			}
			opts = w.peerOpts[p]
			opts.AccessController = nil
			opts.Overwrite = nil
			opts.LocalOnly = nil
			opts.Create = nil
			opts.StoreType = nil
		}
		if w.acSimple {
			opts.AccessController = w.simpleAC()
		} else if i == 0 {
			opts.AccessController = aclParams(write)
		}
		if i != 0 {
			target = addr
		}
		switch kind {
		case "kv":
			s, err = w.peers[p].odb.KeyValue(w.ctx, target, opts)
		case "doc":
			s, err = w.peers[p].odb.Docs(w.ctx, target, opts)
		case "log":
			s, err = w.peers[p].odb.Log(w.ctx, target, opts)
		default:
			return fmt.Errorf("unknown kind %s", kind)
		}
		if err != nil {
			return fmt.Errorf("open %s on peer %d: %w", kind, p, err)
		}
		if i == 0 {
			addr = s.Address().String()
			w.dbAddr = addr
		}
		if w.acSimple {
			w.printf("actype %d %s\n", p, s.AccessController().Type())
		}
		w.stores[p] = s
		w.registerStore(s)
	}
	return nil
}
