package main

// Concurrent writers on one store (C17): n goroutines write at once; the hook after the log append
// holds each writer, and they are let through to the head-cache put in a scripted order.

import (
	"context"
	"fmt"
	"sort"
	"strings"
	"sync"
	"time"

	ipfslog "berty.tech/go-ipfs-log"
	"berty.tech/go-orbit-db/iface"
	"berty.tech/go-orbit-db/stores/operation"
)

type heldWriter struct {
	hash string
	ch   chan struct{}
}

// cwrite p n order=<perm|fifo|lifo> : n concurrent writes on p's store. Writers are held after their log
// append (hook store.add.appended) and released one at a time: `lifo` lets the most recent appender
// persist its head first, `fifo` the oldest, a permutation (e.g. 2,0,1) picks by arrival index.
func (w *World) cwrite(ctx context.Context, toks []string) {
	p := atoi(toks[1])
	n := atoi(toks[2])
	a := kvArgs(toks[3:])
	order := a["order"]
	s := w.stores[p]
	var mu sync.Mutex
	var held []*heldWriter
	puts := 0
	w.mu.Lock()
	w.hookFn = func(name string, args ...interface{}) {
		if len(args) == 0 || ptrOf(args[0]) != ptrOf(s) {
			return
		}
		switch name {
		case "store.add.appended":
			hw := &heldWriter{hash: args[1].(ipfslog.Entry).GetHash().String(), ch: make(chan struct{})}
			mu.Lock()
			held = append(held, hw)
			mu.Unlock()
			<-hw.ch
		case "store.add.headput":
			mu.Lock()
			puts++
			mu.Unlock()
		}
	}
	w.mu.Unlock()
	type res struct {
		i   int
		op  operation.Operation
		err error
	}
	results := make(chan res, n)
	var wg sync.WaitGroup
	for i := 0; i < n; i++ {
		wg.Add(1)
		go func(i int) {
			defer wg.Done()
			var op operation.Operation
			var err error
			switch st := s.(type) {
			case iface.KeyValueStore:
				op, err = st.Put(ctx, fmt.Sprintf("c%d", i%3), []byte(fmt.Sprintf("w%d", i)))
			case iface.EventLogStore:
				op, err = st.Add(ctx, []byte(fmt.Sprintf("w%d", i)))
			case iface.DocumentStore:
				op, err = st.Put(ctx, docOf([]byte(fmt.Sprintf("c%d", i%3)), []byte(fmt.Sprintf("w%d", i))))
			}
			results <- res{i, op, err}
		}(i)
	}
	// release loop: wait for writers to arrive (as many as can: a write path that serialises appends
	// lets only one arrive at a time), pick one according to `order`, let it persist its head
	released := 0
	var relOrder []string
	deadline := time.Now().Add(10 * time.Second)
	for released < n && time.Now().Before(deadline) {
		// let arrivals settle
		last := -1
		for k := 0; k < 40; k++ {
			mu.Lock()
			cur := len(held)
			mu.Unlock()
			if cur == n-released && cur > 0 {
				break
			}
			if cur == last && cur > 0 && k > 10 {
				break
			}
			last = cur
			time.Sleep(250 * time.Microsecond)
		}
		mu.Lock()
		if len(held) == 0 {
			mu.Unlock()
			continue
		}
		idx := 0
		switch {
		case order == "lifo":
			idx = len(held) - 1
		case order == "fifo" || order == "":
			idx = 0
		default:
			perm := ints(order)
			idx = perm[released%len(perm)] % len(held)
		}
		hw := held[idx]
		held = append(held[:idx], held[idx+1:]...)
		before := puts
		mu.Unlock()
		relOrder = append(relOrder, hw.hash)
		close(hw.ch)
		released++
		// wait until it has persisted its head
		for k := 0; k < 4000; k++ {
			mu.Lock()
			done := puts > before
			mu.Unlock()
			if done {
				break
			}
			time.Sleep(100 * time.Microsecond)
		}
	}
	wg.Wait()
	w.mu.Lock()
	w.hookFn = nil
	w.mu.Unlock()
	close(results)
	var acks []res
	for r := range results {
		acks = append(acks, r)
	}
	sort.Slice(acks, func(i, j int) bool { return acks[i].i < acks[j].i })
	// declare the entries in log order (the order of the appends)
	names := map[string]string{}
	for _, e := range s.OpLog().Values().Slice() {
		names[e.GetHash().String()] = w.name(e)
	}
	var ackS, relS []string
	for _, r := range acks {
		if r.err != nil {
			ackS = append(ackS, "err")
		} else {
			ackS = append(ackS, w.name(r.op.GetEntry()))
		}
	}
	for _, h := range relOrder {
		relS = append(relS, names[h])
	}
	w.printf("cacks %d acks=%s putorder=%s\n", p, strings.Join(ackS, ","), strings.Join(relS, ","))
}

// staleidx p <keyhex> <v1hex> <v2hex> : two writes of the same key by two goroutines; the first is held
// right after its index took its snapshot of the log, the second is started meanwhile, then the first
// is released. Whatever the interleaving, the view must end up as the replay of the log.
func (w *World) staleIdx(ctx context.Context, toks []string) {
	p := atoi(toks[1])
	key, v1, v2 := unhx(toks[2]), unhx(toks[3]), unhx(toks[4])
	s := w.stores[p]
	const hook = "index.snapshot.taken"
	put := func(v []byte) (operation.Operation, error) {
		switch st := s.(type) {
		case iface.KeyValueStore:
			return st.Put(ctx, string(key), v)
		case iface.DocumentStore:
			return st.Put(ctx, docOf(key, v))
		}
		return nil, fmt.Errorf("staleidx: unsupported store")
	}
	type res struct {
		op  operation.Operation
		err error
	}
	r1, r2 := make(chan res, 1), make(chan res, 1)
	w.holdFirst(hook)
	go func() { op, err := put(v1); r1 <- res{op, err} }()
	held := w.waitHook(hook, 1)
	go func() { op, err := put(v2); r2 <- res{op, err} }()
	var a2 *res
	select {
	case x := <-r2:
		a2 = &x
	case <-time.After(20 * time.Millisecond):
	}
	w.releaseHook(hook)
	a1 := <-r1
	if a2 == nil {
		x := <-r2
		a2 = &x
	}
	for _, e := range s.OpLog().Values().Slice() {
		w.name(e)
	}
	var ackS []string
	for _, r := range []res{a1, *a2} {
		if r.err != nil {
			ackS = append(ackS, "err")
		} else {
			ackS = append(ackS, w.name(r.op.GetEntry()))
		}
	}
	w.printf("cacks %d acks=%s putorder=- held=%v\n", p, strings.Join(ackS, ","), held)
}

func (w *World) execConcOp(ctx context.Context, toks []string) (bool, error) {
	if toks[0] == "staleidx" {
		w.staleIdx(ctx, toks)
		return true, nil
	}
	if toks[0] == "cwrite" {
		w.cwrite(ctx, toks)
		return true, nil
	}
	return false, nil
}
