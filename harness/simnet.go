package main

// Scripted transports: an iface.PubSubInterface and an iface.DirectChannel whose traffic is
// recorded and delivered only on the harness's command (deliver, drop, duplicate, reorder).

import (
	"context"
	"sync"

	"berty.tech/go-orbit-db/events"
	"berty.tech/go-orbit-db/iface"
	"github.com/libp2p/go-libp2p/core/peer"
)

// Msg is a recorded outgoing message.
type Msg struct {
	Seq     int
	Kind    string // "pub" (topic publish) or "dc" (direct channel send)
	From    int
	To      int    // dc only
	Topic   string // pub only
	Payload []byte
}

type simTopic struct {
	net    *SimNet
	p      int
	name   string
	mu     sync.Mutex
	msgs   []chan *iface.EventPubSubMessage
	peers  []chan events.Event
	closed bool
}

type SimNet struct {
	openSubs int32 // core mode: subscriptions of the underlying pubsub API that were never closed
	mu              sync.Mutex
	cond            *sync.Cond
	ids             []peer.ID
	up              [][]bool                     // link state (mirrors BlockNet.link)
	topics          []map[string]*simTopic       // per peer: topic name -> subscription
	sent            []*Msg                       // every message sent so far
	emit            []iface.DirectChannelEmitter // per peer: the instance's payload emitter
	publishToNobody bool                         // when true Peers() reports peers even if none (not used)
	coreMode        bool                         // scenario flag ps=coreapi: stores subscribe through the library's pubsubcoreapi adapter
	polls           map[string]int               // coreMode: membership polls per (peer, topic)
	hidden          map[string]bool              // coreMode: (peer, other peer) pairs the peer's adapter does not see for the moment
}

func NewSimNet(ids []peer.ID) *SimNet {
	n := &SimNet{ids: ids}
	n.cond = sync.NewCond(&n.mu)
	for range ids {
		n.topics = append(n.topics, map[string]*simTopic{})
		row := make([]bool, len(ids))
		for j := range row {
			row[j] = true
		}
		n.up = append(n.up, row)
	}
	n.emit = make([]iface.DirectChannelEmitter, len(ids))
	return n
}

func (n *SimNet) SetLink(p, q int, up bool) {
	n.mu.Lock()
	n.up[p][q] = up
	n.up[q][p] = up
	n.mu.Unlock()
}

func (n *SimNet) ResetLinks() {
	n.mu.Lock()
	for i := range n.up {
		for j := range n.up[i] {
			n.up[i][j] = true
		}
	}
	n.sent = nil
	n.mu.Unlock()
}

// Sent returns the messages recorded from index `from` on.
func (n *SimNet) Sent(from int) []*Msg {
	n.mu.Lock()
	defer n.mu.Unlock()
	if from >= len(n.sent) {
		return nil
	}
	return append([]*Msg(nil), n.sent[from:]...)
}

func (n *SimNet) SentCount() int {
	n.mu.Lock()
	defer n.mu.Unlock()
	return len(n.sent)
}

func (n *SimNet) record(m *Msg) {
	n.mu.Lock()
	m.Seq = len(n.sent)
	n.sent = append(n.sent, m)
	n.cond.Broadcast()
	n.mu.Unlock()
}

// ---- pubsub ----

type simPubSub struct {
	net *SimNet
	p   int
}

func (s *simPubSub) TopicSubscribe(ctx context.Context, topic string) (iface.PubSubTopic, error) {
	s.net.mu.Lock()
	defer s.net.mu.Unlock()
	t, ok := s.net.topics[s.p][topic]
	if !ok || t.closed {
		t = &simTopic{net: s.net, p: s.p, name: topic}
		s.net.topics[s.p][topic] = t
	}
	return t, nil
}

func (t *simTopic) Publish(ctx context.Context, m []byte) error {
	t.net.record(&Msg{Kind: "pub", From: t.p, Topic: t.name, Payload: append([]byte(nil), m...)})
	return nil
}

func (t *simTopic) Peers(ctx context.Context) ([]peer.ID, error) {
	t.net.mu.Lock()
	defer t.net.mu.Unlock()
	var out []peer.ID
	for q := range t.net.ids {
		if q == t.p || !t.net.up[t.p][q] {
			continue
		}
		if ot, ok := t.net.topics[q][t.name]; ok && !ot.closed {
			out = append(out, t.net.ids[q])
		}
	}
	return out, nil
}

func (t *simTopic) WatchPeers(ctx context.Context) (<-chan events.Event, error) {
	ch := make(chan events.Event)
	t.mu.Lock()
	t.peers = append(t.peers, ch)
	t.mu.Unlock()
	return ch, nil
}

func (t *simTopic) WatchMessages(ctx context.Context) (<-chan *iface.EventPubSubMessage, error) {
	ch := make(chan *iface.EventPubSubMessage)
	t.mu.Lock()
	t.msgs = append(t.msgs, ch)
	t.mu.Unlock()
	return ch, nil
}

func (t *simTopic) Topic() string { return t.name }

// topicOf returns peer p's live subscription to a topic, if any.
func (n *SimNet) topicOf(p int, name string) *simTopic {
	n.mu.Lock()
	defer n.mu.Unlock()
	t, ok := n.topics[p][name]
	if !ok || t.closed {
		return nil
	}
	return t
}

// closeTopic marks p's subscription closed and closes its channels (store closed).
func (n *SimNet) closeTopic(p int, name string) {
	n.mu.Lock()
	t, ok := n.topics[p][name]
	if ok {
		delete(n.topics[p], name)
	}
	n.mu.Unlock()
	if !ok {
		return
	}
	t.mu.Lock()
	t.closed = true
	for _, c := range t.msgs {
		close(c)
	}
	for _, c := range t.peers {
		close(c)
	}
	t.msgs, t.peers = nil, nil
	t.mu.Unlock()
}

// deliverMsg hands a payload to every message watcher of the subscription, then a barrier
// message (valid JSON, no heads: "nothing to synchronize") so that on return the first one has
// been fully handled by the (sequential) listener loop. Returns false on timeout.
func (t *simTopic) deliverMsg(ctx context.Context, payload []byte, barrier []byte) bool {
	t.mu.Lock()
	chans := append([]chan *iface.EventPubSubMessage(nil), t.msgs...)
	t.mu.Unlock()
	for _, c := range chans {
		select {
		case c <- &iface.EventPubSubMessage{Content: payload}:
		case <-ctx.Done():
			return false
		}
		if barrier != nil {
			// through the library's adapter the message first sits in the adapter's buffered channel
			// (128 slots): once 130 barriers have been taken in after it, the listener has finished
			// with the message itself
			k := 1
			if t.net.coreMode {
				k = 130
			}
			for i := 0; i < k; i++ {
				select {
				case c <- &iface.EventPubSubMessage{Content: barrier}:
				case <-ctx.Done():
					return false
				}
			}
		}
	}
	return true
}

func (t *simTopic) deliverPeerEvent(ctx context.Context, e events.Event) bool {
	t.mu.Lock()
	chans := append([]chan events.Event(nil), t.peers...)
	t.mu.Unlock()
	for _, c := range chans {
		select {
		case c <- e:
		case <-ctx.Done():
			return false
		}
	}
	return true
}

// ---- direct channel ----

type simDC struct {
	net *SimNet
	p   int
}

func (d *simDC) Send(ctx context.Context, to peer.ID, payload []byte) error {
	q := -1
	for i, id := range d.net.ids {
		if id == to {
			q = i
		}
	}
	d.net.record(&Msg{Kind: "dc", From: d.p, To: q, Payload: append([]byte(nil), payload...)})
	return nil
}
func (d *simDC) Connect(context.Context, peer.ID) error { return nil }
func (d *simDC) Close() error                           { return nil }

func (n *SimNet) dcFactory(p int) iface.DirectChannelFactory {
	return func(ctx context.Context, e iface.DirectChannelEmitter, o *iface.DirectChannelOptions) (iface.DirectChannel, error) {
		n.mu.Lock()
		n.emit[p] = e
		n.mu.Unlock()
		return &simDC{net: n, p: p}, nil
	}
}
