package main

// Store events (C16): a subscriber on the instance bus that queries the store from inside its handler.

import (
	"sync/atomic"
	"context"
	"strings"
	"sync"
	"time"

	ipfslog "berty.tech/go-ipfs-log"
	"berty.tech/go-orbit-db/iface"
	"berty.tech/go-orbit-db/stores"
	"github.com/libp2p/go-libp2p/core/event"
)

type evRecord struct {
	kind    string
	entries []ipfslog.Entry
	values  []ipfslog.Entry
	idx     string
}

type evWatch struct {
	mu   sync.Mutex
	recs []evRecord
	sub  event.Subscription
}

func (w *World) idxString(s iface.Store) string {
	switch v := s.(type) {
	case iface.KeyValueStore:
		return sortedKV(v.All())
	case iface.DocumentStore:
		return sortedKV(docAll(w.ctx, v))
	}
	return "-"
}

func (w *World) execEventOp(ctx context.Context, toks []string) (bool, error) {
	switch toks[0] {
	case "evwatch":
		p := atoi(toks[1])
		s := w.stores[p]
		sub, err := s.EventBus().Subscribe([]interface{}{new(stores.EventWrite), new(stores.EventReplicated)})
		if err != nil {
			return true, err
		}
		ew := &evWatch{sub: sub}
		if w.evw == nil {
			w.evw = map[int]*evWatch{}
		}
		w.evw[p] = ew
		w.evSubs = append(w.evSubs, sub)
		addr := s.Address().String()
		go func() {
			for e := range sub.Out() {
				var rec evRecord
				switch x := e.(type) {
				case stores.EventWrite:
					if x.Address.String() != addr {
						continue
					}
					rec = evRecord{kind: "write", entries: []ipfslog.Entry{x.Entry}}
				case stores.EventReplicated:
					if x.Address.String() != addr {
						continue
					}
					rec = evRecord{kind: "replicated", entries: x.Entries}
				default:
					continue
				}
				// query the store from inside the handler
				rec.values = s.OpLog().Values().Slice()
				rec.idx = w.idxString(s)
				ew.mu.Lock()
				ew.recs = append(ew.recs, rec)
				ew.mu.Unlock()
			}
		}()
	case "evspin":
		// evspin p n : n goroutines keep reading p's view (they hold the view's read lock most of the
		// time): a write must still be in the view before its event goes out
		p, n := atoi(toks[1]), atoi(toks[2])
		s := w.stores[p]
		if w.spinStop == nil {
			w.spinStop = make(chan struct{})
		}
		stop := w.spinStop
		for i := 0; i < n; i++ {
			w.spinWG.Add(1)
			go func() {
				defer w.spinWG.Done()
				for {
					select {
					case <-stop:
						return
					default:
					}
					if atomic.LoadInt32(&w.spinPause) != 0 {
						time.Sleep(200 * time.Microsecond) // the recorder is being read out
						continue
					}
					_ = w.idxString(s)
				}
			}()
		}
	case "evflush":
		p := atoi(toks[1])
		ew := w.evw[p]
		if ew == nil {
			return true, nil
		}
		// let the handler goroutine catch up with the bus: until nothing new has been recorded for a few
		// milliseconds (the handler queries the store, which busy readers can slow down)
		atomic.StoreInt32(&w.spinPause, 1)
		defer atomic.StoreInt32(&w.spinPause, 0)
		last, stable := -1, 0
		for deadline := time.Now().Add(500 * time.Millisecond); time.Now().Before(deadline) && stable < 5; {
			time.Sleep(2 * time.Millisecond)
			ew.mu.Lock()
			n := len(ew.recs)
			ew.mu.Unlock()
			if n == last {
				stable++
			} else {
				last, stable = n, 0
			}
		}
		ew.mu.Lock()
		recs := ew.recs
		ew.recs = nil
		ew.mu.Unlock()
		for _, r := range recs {
			w.printf("event %d %s entries=%s values=%s idx=%s\n", p, r.kind, w.names2(r.entries), w.names2(r.values), r.idx)
		}
		w.printf("evflushed %d n=%d\n", p, len(recs))
	default:
		return false, nil
	}
	return true, nil
}

var _ = strings.Join
