package main

// Close and Drop (C18): idempotence, prompt and harmless operations afterwards, goroutine leaks, scope
// of Drop.

import (
	"berty.tech/go-orbit-db/events"
	"context"
	"fmt"
	"runtime"
	"sort"
	"strings"
	"sync/atomic"
	"time"

	ipfslog "berty.tech/go-ipfs-log"
	orbitdb "berty.tech/go-orbit-db"
	"berty.tech/go-orbit-db/iface"
)

// timed runs f with a deadline; result: ok / err / panic / hang
func timed(d time.Duration, f func() error) string {
	res := make(chan string, 1)
	go func() {
		defer func() {
			if r := recover(); r != nil {
				res <- "panic"
			}
		}()
		if err := f(); err != nil {
			res <- "err"
		} else {
			res <- "ok"
		}
	}()
	select {
	case r := <-res:
		return r
	case <-time.After(d):
		return "hang"
	}
}

// orbitGoroutines counts goroutines running go-orbit-db code of the store layer (stores, replicator,
// legacy emitter), i.e. what a store starts and must stop when closed.
func orbitGoroutines() (int, string) {
	buf := make([]byte, 1<<22)
	n := runtime.Stack(buf, true)
	count := 0
	kinds := map[string]int{}
	for _, g := range strings.Split(string(buf[:n]), "\n\n") {
		if strings.Contains(g, "verif/harness.orbitGoroutines") {
			continue
		}
		for _, pkg := range []string{"go-orbit-db/stores/basestore.", "go-orbit-db/stores/replicator.", "go-orbit-db/events.", "go-orbit-db/stores/kvstore.", "go-orbit-db/stores/eventlogstore.", "go-orbit-db/stores/documentstore."} {
			if strings.Contains(g, pkg) {
				count++
				// first orbit-db frame, for the report
				for _, line := range strings.Split(g, "\n") {
					if strings.Contains(line, pkg) {
						f := strings.TrimSpace(line)
						if i := strings.LastIndex(f, "("); i > 0 {
							f = f[:i]
						}
						f = f[strings.LastIndex(f, "/")+1:]
						f = strings.NewReplacer("(*", "", ")", "", " ", "").Replace(f)
						kinds[f]++
						break
					}
				}
				break
			}
		}
	}
	var ks []string
	for k, v := range kinds {
		ks = append(ks, fmt.Sprintf("%s:%d", k, v))
	}
	sort.Strings(ks)
	return count, strings.Join(ks, ",")
}

func (w *World) execCloseOp(ctx context.Context, toks []string) (bool, error) {
	switch toks[0] {
	case "closestore":
		// Close twice: both calls must return without error
		p := atoi(toks[1])
		s := w.stores[p]
		// a subscriber on the store's legacy channel API (its context is the caller's, it stays live):
		// closing the store must end the channel it was given
		if w.legacyOf == nil {
			w.legacyOf = map[int]<-chan events.Event{}
		}
		w.legacyOf[p] = s.Subscribe(w.ctx) //nolint:staticcheck
		r1 := timed(2*time.Second, s.Close)
		r2 := timed(2*time.Second, s.Close)
		w.net.closeTopic(p, w.dbAddr)
		w.closedStores = append(w.closedStores, s)
		w.closedOf[p] = s
		delete(w.stores, p)
		if w.curDB < len(w.dbs) {
			if w.dbs[w.curDB].closed == nil {
				w.dbs[w.curDB].closed = map[int]bool{}
			}
			w.dbs[w.curDB].closed[p] = true
		}
		w.printf("closed %d first=%s second=%s\n", p, r1, r2)
	case "reopenstore":
		// reopenstore p : the SAME instance opens the database again (a new handle) and loads it
		p := atoi(toks[1])
		pr := w.peers[p]
		var s iface.Store
		var err error
		opts := w.storeOptions()
		switch w.kind {
		case "kv":
			s, err = pr.odb.KeyValue(ctx, w.dbAddr, opts)
		case "doc":
			s, err = pr.odb.Docs(ctx, w.dbAddr, opts)
		case "log":
			s, err = pr.odb.Log(ctx, w.dbAddr, opts)
		}
		if err != nil {
			w.printf("restarted %d openerr identity=true\n", p)
			return true, nil
		}
		w.stores[p] = s
		if w.curDB < len(w.dbs) && w.dbs[w.curDB].closed != nil {
			delete(w.dbs[w.curDB].closed, p)
		}
		w.registerStore(s)
		res := "ok"
		if err := s.Load(ctx, -1); err != nil {
			res = "err"
		}
		w.printf("restarted %d %s identity=true\n", p, res)
	case "staleclose":
		// staleclose p : Close called once more on the OLD handle while a newer handle of the same
		// database is open on the instance (a leftover `defer old.Close()`)
		p := atoi(toks[1])
		old := w.closedOf[p]
		if old == nil {
			return true, nil
		}
		w.printf("afterclose %d close=%s\n", p, timed(2*time.Second, old.Close))
	case "leveldrop":
		// leveldrop p : a second instance of peer p over the library's OWN cache manager (leveldb, in
		// memory): open a database, close the handle, open it again, then Drop through the OLD handle;
		// the Drop, a write through the new handle and closing the instance must all return
		p := atoi(toks[1])
		pr := w.peers[p]
		dir := ":memory:"
		id := w.net.ids[pr.idx].String() + "-lvl"
		// (the direct-channel factory registers the instance's emitter with the simulated network:
		// keep the main instance's registration)
		w.net.mu.Lock()
		mainEmitter := w.net.emit[pr.idx]
		w.net.mu.Unlock()
		odb, err := orbitdb.NewOrbitDB(ctx, pr.api, &orbitdb.NewOrbitDBOptions{
			ID: &id, Directory: &dir, Keystore: pr.ks, Identity: pr.identity,
			PubSub: &simPubSub{net: w.net, p: pr.idx}, DirectChannelFactory: w.net.dcFactory(pr.idx),
		})
		w.net.mu.Lock()
		w.net.emit[pr.idx] = mainEmitter
		w.net.mu.Unlock()
		if err != nil {
			return true, err
		}
		name := fmt.Sprintf("leveldrop-%d", w.barrierSeq)
		w.barrierSeq++
		var parts []string
		add := func(n string, f func() error) { parts = append(parts, n+"="+timed(2*time.Second, f)) }
		h1, err := odb.Log(ctx, name, nil)
		if err != nil {
			return true, err
		}
		_, _ = h1.Add(ctx, []byte("x"))
		addr := h1.Address().String()
		add("close", h1.Close)
		var h2 iface.EventLogStore
		add("open", func() error { var e error; h2, e = odb.Log(ctx, addr, nil); return e })
		add("drop", h1.Drop)
		if h2 != nil {
			add("add", func() error { _, e := h2.Add(ctx, []byte("y")); return e })
			add("close", h2.Close)
		}
		parts = append(parts, "closeinstance="+timed(3*time.Second, odb.Close))
		w.net.closeTopic(p, addr)
		w.printf("leveldropped %d %s\n", p, strings.Join(parts, " "))
	case "afterclose":
		// operations on a closed store return promptly (an error or a harmless result), never panic or hang
		p := atoi(toks[1])
		s := w.closedOf[p]
		if s == nil {
			return true, nil
		}
		var parts []string
		add := func(name string, f func() error) { parts = append(parts, name+"="+timed(time.Second, f)) }
		switch st := s.(type) {
		case iface.KeyValueStore:
			add("put", func() error {
				op, err := st.Put(ctx, "k", []byte("v"))
				if err == nil {
					w.printf("ack %d %s\n", p, w.name(op.GetEntry()))
				}
				return err
			})
			add("get", func() error { _, err := st.Get(ctx, "k"); return err })
			add("all", func() error { _ = st.All(); return nil })
		case iface.EventLogStore:
			add("add", func() error {
				op, err := st.Add(ctx, []byte("v"))
				if err == nil {
					w.printf("ack %d %s\n", p, w.name(op.GetEntry()))
				}
				return err
			})
			add("list", func() error { n := -1; _, err := st.List(ctx, &iface.StreamOptions{Amount: &n}); return err })
		case iface.DocumentStore:
			add("put", func() error {
				op, err := st.Put(ctx, docOf([]byte("d"), []byte("v")))
				if err == nil {
					w.printf("ack %d %s\n", p, w.name(op.GetEntry()))
				}
				return err
			})
			add("query", func() error {
				_, err := st.Query(ctx, func(interface{}) (bool, error) { return true, nil })
				return err
			})
		}
		add("load", func() error { return s.Load(ctx, -1) })
		add("sync", func() error { return s.Sync(ctx, cloneEntries(w.anyHeads())) })
		add("close", s.Close)
		if ch := w.legacyOf[p]; ch != nil {
			// the legacy channel handed out before the store was closed has been closed
			add("legacy", func() error {
				for range ch {
				}
				return nil
			})
			delete(w.legacyOf, p)
		}
		time.Sleep(2 * time.Millisecond)
		w.printf("afterclose %d %s\n", p, strings.Join(parts, " "))
	case "dropstore":
		p := atoi(toks[1])
		s := w.stores[p]
		// `closed`: the handle is closed first (the usual order of a clean-up): dropping it afterwards
		// must still remove the local data
		if len(toks) > 2 && toks[2] == "closed" {
			_ = s.Close()
		}
		r := timed(2*time.Second, s.Drop)
		w.net.closeTopic(p, w.dbAddr)
		delete(w.stores, p)
		// which databases still have local data on this peer
		w.peers[p].cache.mu.Lock()
		var left []string
		for k := range w.peers[p].cache.m {
			addr := k[strings.Index(k, "|")+1:]
			if i := w.dbIndexOfAddr(addr); i >= 0 {
				left = append(left, fmt.Sprint(i))
			}
		}
		w.peers[p].cache.mu.Unlock()
		sort.Strings(left)
		w.printf("dropped %d %s db=%d left=%s\n", p, r, w.curDB, joinOrDash(left))
	case "leakcheck":
		// after every store of the scenario is closed, the store-layer goroutines are back to the baseline
		var n int
		var kinds string
		for i := 0; i < 100; i++ {
			n, kinds = orbitGoroutines()
			if n <= w.leakBase {
				break
			}
			time.Sleep(2 * time.Millisecond)
		}
		// … and (through the pubsubcoreapi adapter) the node is no longer subscribed to anything
		var subs int32
		for i := 0; i < 100; i++ {
			if subs = atomic.LoadInt32(&w.net.openSubs); subs <= 0 {
				break
			}
			time.Sleep(2 * time.Millisecond)
		}
		w.printf("leak extra=%d kinds=%s subs=%d\n", n-w.leakBase, joinOrDash(strings.Split(kinds, ",")), subs)
		// … and on the bus of each (still open) instance only the instance's own listener is left
		for i, pr := range w.peers {
			if pr.census == nil {
				continue
			}
			own := w.ownBusSubs(i)
			own["EventPubSubPayload"]++
			if o := pr.census.open(own); o != "-" {
				w.printf("buscensus %d %s\n", i, o)
			}
		}
	default:
		return false, nil
	}
	return true, nil
}

func (w *World) anyHeads() []ipfslog.Entry {
	for _, s := range w.stores {
		if hs := s.OpLog().Heads().Slice(); len(hs) > 0 {
			return hs
		}
	}
	return nil
}
