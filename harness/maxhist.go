package main

import (
	"berty.tech/go-ipfs-log/identityprovider"
	"berty.tech/go-orbit-db/address"
	"berty.tech/go-orbit-db/iface"
	"berty.tech/go-orbit-db/stores/documentstore"
	"berty.tech/go-orbit-db/stores/eventlogstore"
	"berty.tech/go-orbit-db/stores/kvstore"
	coreiface "github.com/ipfs/kubo/core/coreiface"
)

// registerStoreTypes (re-)registers the three store types on peer p's instance. With `maxhist=N` in the
// scenario line every store is built with the maximum-history option N - the option has no way in through
// Create/Open, an application sets it in a store constructor of its own, which is what this is.
func (w *World) registerStoreTypes(p *Peer) {
	if p.odb == nil {
		return
	}
	wrap := func(inner iface.StoreConstructor) iface.StoreConstructor {
		return func(api coreiface.CoreAPI, id *identityprovider.Identity, addr address.Address, opts *iface.NewStoreOptions) (iface.Store, error) {
			if w.maxHist != nil {
				mh := *w.maxHist
				opts.MaxHistory = &mh
			}
			return inner(api, id, addr, opts)
		}
	}
	p.odb.RegisterStoreType("eventlog", wrap(eventlogstore.NewOrbitDBEventLogStore))
	p.odb.RegisterStoreType("keyvalue", wrap(kvstore.NewOrbitDBKeyValue))
	p.odb.RegisterStoreType("docstore", wrap(documentstore.NewOrbitDBDocumentStore))
}
