package main

// A census of the subscriptions on every instance's event bus (C18): the buses are made by the harness
// with libp2p's own metrics hook, which is told of every subscription added and removed, by event type.

import (
	"fmt"
	"reflect"
	"sort"
	"strings"
	"sync"
)

type busCensus struct {
	mu   sync.Mutex
	subs map[string]int // event type -> subscriptions currently open
}

func newBusCensus() *busCensus { return &busCensus{subs: map[string]int{}} }

func (c *busCensus) EventEmitted(reflect.Type) {}
func (c *busCensus) AddSubscriber(t reflect.Type) {
	c.mu.Lock()
	c.subs[typeName(t)]++
	c.mu.Unlock()
}
func (c *busCensus) RemoveSubscriber(t reflect.Type) {
	c.mu.Lock()
	c.subs[typeName(t)]--
	c.mu.Unlock()
}
func (c *busCensus) SubscriberQueueLength(string, int) {}
func (c *busCensus) SubscriberQueueFull(string, bool)  {}
func (c *busCensus) SubscriberEventQueued(string)      {}

func typeName(t reflect.Type) string {
	if t == nil {
		return "nil"
	}
	s := t.String()
	if i := strings.LastIndexByte(s, '.'); i >= 0 {
		s = s[i+1:]
	}
	return s
}

// open returns "type:n,…" for the types with subscriptions still open, minus `own` (the harness's own).
func (c *busCensus) open(own map[string]int) string {
	c.mu.Lock()
	defer c.mu.Unlock()
	var out []string
	for t, n := range c.subs {
		if n-own[t] > 0 {
			out = append(out, fmt.Sprintf("%s:%d", t, n-own[t]))
		}
	}
	sort.Strings(out)
	if len(out) == 0 {
		return "-"
	}
	return strings.Join(out, ",")
}

// ownBusSubs: the subscriptions the harness itself holds on peer p's bus, by event type
func (w *World) ownBusSubs(p int) map[string]int {
	own := map[string]int{}
	if _, ok := w.evc[p]; ok {
		for _, t := range []string{"EventWrite", "EventReplicated", "EventReplicate", "EventReplicateProgress", "EventLoad", "EventReady", "EventNewPeer"} {
			own[t]++
		}
	}
	return own
}
