package main

// The script executor: runs one scenario script (a list of op lines) against real go-orbit-db
// stores and writes the trace: every op echoed as `op …` followed by what the implementation did.

import (
	"sort"
	"sync/atomic"
	"berty.tech/go-orbit-db/address"
	"context"
	"encoding/hex"
	"encoding/json"
	"fmt"
	"runtime"
	"strconv"
	"strings"
	"time"

	ipfslog "berty.tech/go-ipfs-log"
	"berty.tech/go-orbit-db/iface"
	"berty.tech/go-orbit-db/stores/operation"
	cid "github.com/ipfs/go-cid"
)

func unhx(s string) []byte {
	if s == "-" || s == "" {
		return []byte{}
	}
	b, err := hex.DecodeString(s)
	if err != nil {
		panic("bad hex " + s)
	}
	return b
}

func atoi(s string) int {
	n, err := strconv.Atoi(s)
	if err != nil {
		panic("bad int " + s)
	}
	return n
}

func kvArgs(toks []string) map[string]string {
	m := map[string]string{}
	for _, t := range toks {
		if i := strings.IndexByte(t, '='); i > 0 {
			m[t[:i]] = t[i+1:]
		}
	}
	return m
}

func ints(s string) []int {
	if s == "" || s == "-" {
		return nil
	}
	var out []int
	for _, x := range strings.Split(s, ",") {
		out = append(out, atoi(x))
	}
	return out
}

func errStr(err error) string {
	if err == nil {
		return "ok"
	}
	return "err"
}

// entryByName resolves e<N> to the entry declared under that name.
func (w *World) entryByName(n string) ipfslog.Entry {
	i := atoi(strings.TrimSuffix(strings.TrimSuffix(strings.TrimPrefix(n, "e"), "!"), "~"))
	if i < 1 || i > len(w.entries) {
		return nil
	}
	return w.entries[i-1]
}

func docOf(k, v []byte) map[string]interface{} {
	return map[string]interface{}{"_id": string(k), "v": string(v)}
}

// RunScript executes the script; returns an error only for harness-level failures.
func (w *World) RunScript(lines []string) (err error) {
	defer func() {
		if r := recover(); r != nil {
			w.printf("panic %v @ %s\n", strings.ReplaceAll(fmt.Sprint(r), "\n", " "), panicSite())
			err = nil
		}
		w.out.Flush()
	}()
	for _, line := range lines {
		line = strings.TrimSpace(line)
		if line == "" || strings.HasPrefix(line, "#") {
			continue
		}
		toks := strings.Fields(line)
		if toks[0] == "scn" {
			w.resetScenario(toks[1])
			a := kvArgs(toks[2:])
			w.revTie = a["sortfn"] == "revtie"
			w.printf("%s\n", line)
			for _, p := range w.peers {
				w.printf("peer %d rank=%d\n", p.idx, w.rankOf(p.idx))
			}
			var write []string
			if a["acl"] == "*" {
				write = []string{"*"}
			} else {
				for _, i := range ints(a["acl"]) {
					write = append(write, w.peers[i].identity.ID)
				}
			}
			name := a["name"]
			if name == "" {
				name = "db-" + toks[1]
			}
			w.reuseOpts = a["reuse"] == "1"
			w.net.mu.Lock()
			w.net.coreMode = a["ps"] == "coreapi"
			w.net.polls, w.net.hidden = nil, nil
			w.net.mu.Unlock()
			atomic.StoreInt32(&w.net.openSubs, 0)
			w.acSimple = a["ac"] == "simple"
			w.maxHist = nil
			if v, ok := a["maxhist"]; ok {
				n := atoi(v)
				w.maxHist = &n
			}
			w.acWrite = write
			if a["unreach"] == "fail" {
				w.blocks.mu.Lock()
				w.blocks.FailUnreachable = true
				w.blocks.mu.Unlock()
			}
			if a["leak"] == "1" {
				// baseline of store-layer goroutines before this scenario opens anything
				for i := 0; i < 200; i++ {
					w.leakBase, _ = orbitGoroutines()
					if w.leakBase == 0 {
						break
					}
					time.Sleep(time.Millisecond)
				}
			}
			if a["kind"] != "none" {
				if err := w.openDB(a["kind"], name, write, ints(a["peers"])); err != nil {
					return err
				}
				w.dbs = []*dbCtx{{kind: a["kind"], addr: w.dbAddr, stores: w.stores}}
				w.curDB = 0
				if a["events"] == "1" {
					for _, p := range ints(a["peers"]) {
						w.watchStoreEvents(p)
					}
				}
			}
			continue
		}
		if toks[0] == "query" || toks[0] == "get" {
			p := atoi(toks[1])
			for i, t := range toks {
				if j := strings.IndexByte(t, '@'); j >= 0 {
					toks[i] = t[:j] + w.resolveAt(p, t[j:])
				}
			}
			line = strings.Join(toks, " ")
			if strings.Contains(line, "e0") && len(w.stores[p].OpLog().Values().Slice()) == 0 {
				continue // no entry to use as a bound
			}
		}
		if toks[0] == "forge" || toks[0] == "inject" || toks[0] == "dropblock" || ((toks[0] == "hold" || toks[0] == "waitget" || toks[0] == "syncasync" || toks[0] == "release") && strings.Contains(line, "@")) {
			for i, t := range toks {
				if strings.Contains(t, "@") {
					toks[i] = w.resolveSymbols(t)
				}
			}
			line = strings.Join(toks, " ")
			// an op that refers to "the last forged entry" when nothing was forged is skipped (only entry
			// NAMES count: a payload value such as v=e0 is not a reference)
			refsNothing := false
			for _, t := range toks[1:] {
				k, v, isKV := strings.Cut(t, "=")
				if !isKV {
					k, v = "", t
				}
				if k == "k" || k == "v" || k == "raw" || k == "recipe" || k == "route" {
					continue
				}
				for _, n := range strings.Split(v, ",") {
					if n == "e0" {
						refsNothing = true
					}
				}
			}
			if refsNothing {
				continue
			}
		}
		if toks[0] == "openaddr" && len(toks) > 2 && w.lastAddr != "" {
			// @rlast@ / @nlast@ in an address template: root and path of the last database created
			if a, err := address.Parse(w.lastAddr); err == nil {
				t := string(unhx(toks[2]))
				t = strings.ReplaceAll(t, "@rlast@", "@"+w.rootName(a.GetRoot().String())+"@")
				t = strings.ReplaceAll(t, "@nlast@", w.maskRoots(a.GetPath()))
				toks[2] = hx([]byte(t))
				line = strings.Join(toks, " ")
			}
		}
		w.printf("op %s\n", line)
		if err := w.execOp(toks); err != nil {
			return fmt.Errorf("%s: %w", line, err)
		}
	}
	w.closeStores()
	w.printf("end\n")
	return nil
}

func (w *World) ack(p int, op operation.Operation, err error) {
	if err != nil {
		// a write that failed AFTER its entry was appended (the head could not be persisted): the entry
		// is in the log, the caller was told the write failed
		if s, ok := w.stores[p]; ok && s.OpLog().Len() > w.lenBefore {
			for _, e := range s.OpLog().Values().Slice() {
				if _, named := w.names[e.GetHash().String()]; !named {
					w.printf("ackfail %d %s\n", p, w.name(e))
					return
				}
			}
		}
		w.printf("ack %d err\n", p)
		return
	}
	w.printf("ack %d %s\n", p, w.name(op.GetEntry()))
	w.waitPub(p, w.sentMark, w.expectPub)
}

// beforeWrite records whether the write will be announced (the store publishes only when the topic has peers).
func (w *World) beforeWrite(p int) {
	if s, ok := w.stores[p]; ok {
		w.lenBefore = s.OpLog().Len()
	}
	w.sentMark = w.net.SentCount()
	w.expectPub = w.hasTopicPeers(p)
}

// withIndexHeld runs f (a write or a merge on a watched store) with the store held just before it
// refreshes its index, long enough for an event emitted too early to reach the watcher's handler,
// which then sees a state that does not contain what the event announces.
func (w *World) withIndexHeld(f func() error) error {
	const hook = "store.index.updating"
	w.holdHook(hook)
	done := make(chan error, 1)
	go func() { done <- f() }()
	deadline := time.Now().Add(100 * time.Millisecond)
	finished := false
	var err error
	for time.Now().Before(deadline) {
		select {
		case err = <-done:
			finished = true
		default:
		}
		w.mu.Lock()
		n := w.hookWaiting[hook]
		w.mu.Unlock()
		if finished || n >= 1 {
			break
		}
		time.Sleep(100 * time.Microsecond)
	}
	if !finished {
		time.Sleep(2 * time.Millisecond)
	}
	w.releaseHook(hook)
	if !finished {
		err = <-done
	}
	return err
}

func (w *World) execOp(toks []string) error {
	switch toks[0] {
	case "put", "del", "add", "docput", "docdel", "docputall", "sync":
		if p := atoi(toks[1]); w.evw != nil && w.evw[p] != nil && !w.indexHeld {
			w.indexHeld = true
			defer func() { w.indexHeld = false }()
			return w.withIndexHeld(func() error { return w.execOp(toks) })
		}
	}
	ctx, cancel := context.WithTimeout(w.ctx, 30*time.Second)
	defer cancel()
	switch toks[0] {
	case "put", "del", "add", "docput", "docdel", "docputall":
		w.beforeWrite(atoi(toks[1]))
	}
	switch toks[0] {
	case "put", "del":
		p := atoi(toks[1])
		s := w.stores[p].(iface.KeyValueStore)
		var op operation.Operation
		var err error
		if toks[0] == "put" {
			op, err = s.Put(ctx, string(unhx(toks[2])), unhx(toks[3]))
		} else {
			op, err = s.Delete(ctx, string(unhx(toks[2])))
		}
		w.ack(p, op, err)
	case "add":
		p := atoi(toks[1])
		op, err := w.stores[p].(iface.EventLogStore).Add(ctx, unhx(toks[2]))
		w.ack(p, op, err)
	case "docput":
		p := atoi(toks[1])
		op, err := w.stores[p].(iface.DocumentStore).Put(ctx, docOf(unhx(toks[2]), unhx(toks[3])))
		w.ack(p, op, err)
	case "docdel":
		p := atoi(toks[1])
		op, err := w.stores[p].(iface.DocumentStore).Delete(ctx, string(unhx(toks[2])))
		w.ack(p, op, err)
	case "doctorn":
		// doctorn p : a batch put of two documents lands WHILE a Query is reading (the caller's filter is
		// the meeting point: on its first call it lets a concurrent writer run its PutAll to the end): the
		// Query must return a state the replica held — both documents of the old batch or both of the new
		p := atoi(toks[1])
		d := w.stores[p].(iface.DocumentStore)
		mk := func(gen string) []interface{} {
			return []interface{}{docOf([]byte("torn-a"), []byte(gen)), docOf([]byte("torn-b"), []byte(gen))}
		}
		op, err := d.PutAll(ctx, mk("g1"))
		w.ack(p, op, err)
		first := true
		var op2 operation.Operation
		var err2 error
		res, qerr := d.Query(ctx, func(doc interface{}) (bool, error) {
			if first {
				first = false
				done := make(chan struct{})
				go func() { op2, err2 = d.PutAll(ctx, mk("g2")); close(done) }()
				select {
				case <-done:
				case <-time.After(2 * time.Second):
				}
			}
			m, _ := doc.(map[string]interface{})
			id, _ := m["_id"].(string)
			return id == "torn-a" || id == "torn-b", nil
		})
		w.ack(p, op2, err2)
		gens := map[string]bool{}
		for _, r := range res {
			if m, ok := r.(map[string]interface{}); ok {
				gens[fmt.Sprint(m["v"])] = true
			}
		}
		var gs []string
		for g := range gens {
			gs = append(gs, g)
		}
		sort.Strings(gs)
		w.printf("doctorn %d err=%v n=%d gens=%s\n", p, qerr != nil, len(res), joinOrDash(gs))
	case "docputall", "docputbatch":
		p := atoi(toks[1])
		var docs []interface{}
		if toks[2] != "-" {
			for _, kv := range strings.Split(toks[2], ",") {
				i := strings.IndexByte(kv, ':')
				docs = append(docs, docOf(unhx(kv[:i]), unhx(kv[i+1:])))
			}
		}
		d := w.stores[p].(iface.DocumentStore)
		if toks[0] == "docputall" {
			op, err := d.PutAll(ctx, docs)
			w.ack(p, op, err)
		} else {
			// PutBatch is a sequence of Puts: declare every entry it created, in order
			before := d.OpLog().Values().Slice()
			op, err := d.PutBatch(ctx, docs)
			after := d.OpLog().Values().Slice()
			seen := map[string]bool{}
			for _, e := range before {
				seen[e.GetHash().String()] = true
			}
			var created []string
			for _, e := range after {
				if !seen[e.GetHash().String()] {
					created = append(created, w.name(e))
				}
			}
			if err != nil {
				w.printf("ackbatch %d err created=%s\n", p, strings.Join(created, ","))
			} else {
				_ = op
				w.printf("ackbatch %d ok created=%s\n", p, strings.Join(created, ","))
			}
		}
	case "sync":
		p, q := atoi(toks[1]), atoi(toks[2])
		heads := w.stores[q].OpLog().Heads().Slice()
		// hand over decoded copies, as a peer would receive them
		w.printf("heads %d %s\n", q, w.names2(heads))
		err := w.stores[p].Sync(ctx, cloneEntries(heads))
		ok := w.quiesce(w.stores[p])
		w.flushLoadEnds(p, w.stores[p])
		w.printf("synced %d %s quiesce=%v\n", p, errStr(err), ok)
	case "obs":
		w.observe(atoi(toks[1]))
	case "query":
		w.execQuery(ctx, toks)
	case "get":
		p := atoi(toks[1])
		e := w.entryByName(toks[2])
		op, err := w.stores[p].(iface.EventLogStore).Get(ctx, e.GetHash())
		if err != nil {
			w.printf("got %d err\n", p)
		} else {
			w.printf("got %d %s\n", p, w.name(op.GetEntry()))
		}
	case "docget":
		p := atoi(toks[1])
		a := kvArgs(toks[3:])
		res, err := w.stores[p].(iface.DocumentStore).Get(ctx, string(unhx(toks[2])),
			&iface.DocumentStoreGetOptions{CaseInsensitive: a["ci"] == "1", PartialMatches: a["partial"] == "1"})
		w.printf("docgot %d %s %s\n", p, errStr(err), docResults(res))
	case "docquery":
		p := atoi(toks[1])
		pred := toks[2]
		res, err := w.stores[p].(iface.DocumentStore).Query(ctx, func(doc interface{}) (bool, error) {
			m := doc.(map[string]interface{})
			v, _ := m["v"].(string)
			id, _ := m["_id"].(string)
			switch {
			case pred == "all":
				return true, nil
			case pred == "none":
				return false, nil
			case strings.HasPrefix(pred, "vlen>"):
				return len(v) > atoi(pred[5:]), nil
			case strings.HasPrefix(pred, "idhas:"):
				return strings.Contains(id, string(unhx(pred[6:]))), nil
			}
			return false, fmt.Errorf("bad predicate")
		})
		w.printf("docgot %d %s %s\n", p, errStr(err), docResults(res))
	default:
		return w.execOpExtra(ctx, toks)
	}
	return nil
}

func docResults(res []interface{}) string {
	m := map[string][]byte{}
	for _, r := range res {
		mm, ok := r.(map[string]interface{})
		if !ok {
			continue
		}
		id, _ := mm["_id"].(string)
		b, _ := json.Marshal(mm)
		m[id] = b
	}
	return sortedKV(m) + fmt.Sprintf(" n=%d", len(res))
}

func (w *World) execQuery(ctx context.Context, toks []string) {
	p := atoi(toks[1])
	a := kvArgs(toks[2:])
	o := &iface.StreamOptions{}
	setc := func(k string, dst **cid.Cid) {
		if v, ok := a[k]; ok {
			c := w.entryByName(v).GetHash()
			*dst = &c
		}
	}
	setc("gt", &o.GT)
	setc("gte", &o.GTE)
	setc("lt", &o.LT)
	setc("lte", &o.LTE)
	if v, ok := a["amount"]; ok && v != "unset" {
		n := atoi(v)
		o.Amount = &n
	}
	ops, err := w.stores[p].(iface.EventLogStore).List(ctx, o)
	if err != nil {
		w.printf("result %d err\n", p)
		return
	}
	w.printf("result %d %s\n", p, w.opsNames(ops))
}

// cloneEntries round-trips entries through JSON, as the message marshaler does on the wire.
func cloneEntries(es []ipfslog.Entry) []ipfslog.Entry {
	msg := &iface.MessageExchangeHeads{}
	for _, e := range es {
		msg.Heads = append(msg.Heads, asEntry(e))
	}
	b, err := json.Marshal(msg)
	if err != nil {
		panic(err)
	}
	out := &iface.MessageExchangeHeads{}
	if err := json.Unmarshal(b, out); err != nil {
		panic(err)
	}
	res := make([]ipfslog.Entry, len(out.Heads))
	for i, h := range out.Heads {
		res[i] = h
	}
	return res
}

// resolveAt turns `@k` into the name of the k-th entry (mod length) of replica p's listing.
func (w *World) resolveAt(p int, tok string) string {
	if !strings.HasPrefix(tok, "@") {
		return tok
	}
	vals := w.stores[p].OpLog().Values().Slice()
	if len(vals) == 0 {
		return "e0"
	}
	return w.name(vals[atoi(tok[1:])%len(vals)])
}

func (w *World) execOpExtra(ctx context.Context, toks []string) error {
	if ok, err := w.execNetOp(ctx, toks); ok || err != nil {
		return err
	}
	if ok, err := w.execGateOp(ctx, toks); ok || err != nil {
		return err
	}
	if ok, err := w.execForgeOp(ctx, toks); ok || err != nil {
		return err
	}
	if ok, err := w.execGarbageOp(ctx, toks); ok || err != nil {
		return err
	}
	if ok, err := w.execTransportOp(ctx, toks); ok || err != nil {
		return err
	}
	if ok, err := w.execMultiDBOp(ctx, toks); ok || err != nil {
		return err
	}
	if ok, err := w.execAddrOp(ctx, toks); ok || err != nil {
		return err
	}
	if ok, err := w.execSnapOp(ctx, toks); ok || err != nil {
		return err
	}
	if ok, err := w.execConcOp(ctx, toks); ok || err != nil {
		return err
	}
	if ok, err := w.execEmitOp(ctx, toks); ok || err != nil {
		return err
	}
	if ok, err := w.execEventOp(ctx, toks); ok || err != nil {
		return err
	}
	if ok, err := w.execCloseOp(ctx, toks); ok || err != nil {
		return err
	}
	if toks[0] == "unchanged" {
		w.observe(atoi(toks[1]))
		return nil
	}
	if toks[0] == "final10" || toks[0] == "final11" || toks[0] == "final12" || toks[0] == "final17" || toks[0] == "final18" {
		w.printf("%s\n", strings.Join(toks, " "))
		return nil
	}
	return fmt.Errorf("unknown op %s", toks[0])
}

// resolveSymbols replaces @last (the most recently declared entry) and @heads<p> (peer p's current heads).
func (w *World) resolveSymbols(tok string) string {
	i := strings.IndexByte(tok, '=')
	key, val := tok[:i+1], tok[i+1:]
	if i < 0 {
		key, val = "", tok
	}
	var out []string
	for _, part := range strings.Split(val, ",") {
		switch {
		case part == "@last":
			if w.lastForged != "" {
				out = append(out, w.lastForged)
			} else {
				out = append(out, fmt.Sprintf("e%d", len(w.entries)))
			}
		case strings.HasPrefix(part, "@heads"):
			p := atoi(part[6:])
			if s, ok := w.stores[p]; ok {
				for _, h := range s.OpLog().Heads().Slice() {
					out = append(out, w.name(h))
				}
			}
		default:
			out = append(out, part)
		}
	}
	if len(out) == 0 {
		return key + "e0"
	}
	return key + strings.Join(out, ",")
}

// panicSite names the innermost non-runtime frames of the current panic (for the trace)
func panicSite() string {
	pcs := make([]uintptr, 32)
	n := runtime.Callers(3, pcs)
	frames := runtime.CallersFrames(pcs[:n])
	var out []string
	for {
		f, more := frames.Next()
		if !strings.HasPrefix(f.Function, "runtime.") && len(out) < 4 {
			out = append(out, fmt.Sprintf("%s:%d", f.Function[strings.LastIndex(f.Function, "/")+1:], f.Line))
		}
		if !more {
			break
		}
	}
	return strings.Join(out, "<-")
}
