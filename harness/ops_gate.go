package main

// Gate-controlled replication: hold / release block fetches, issue Sync calls without waiting,
// cancel their contexts, sample replicator bookkeeping mid-flight.

import (
	"context"
	"fmt"
	"strings"
	"sync"
	"time"

	ipfslog "berty.tech/go-ipfs-log"
	"berty.tech/go-orbit-db/stores/replicator"
	cid "github.com/ipfs/go-cid"
)

type gateCtl struct {
	mu      sync.Mutex
	held    map[string]bool // "<peer>/<cid>" -> held
	ch      chan struct{}   // closed and replaced on every change
	waiting map[string]int  // how many Gets are currently blocked per key
	fail    map[string]bool // "<peer>/<cid>" -> fail the Get
}

func newGateCtl() *gateCtl {
	return &gateCtl{held: map[string]bool{}, waiting: map[string]int{}, fail: map[string]bool{}, ch: make(chan struct{})}
}

func gkey(p int, c cid.Cid) string { return fmt.Sprintf("%d/%s", p, c.String()) }

func (g *gateCtl) gate(p int, c cid.Cid, ctx context.Context) {
	k := gkey(p, c)
	for {
		g.mu.Lock()
		if !g.held[k] {
			g.mu.Unlock()
			return
		}
		g.waiting[k]++
		ch := g.ch
		g.mu.Unlock()
		select {
		case <-ch:
		case <-ctx.Done():
		}
		g.mu.Lock()
		g.waiting[k]--
		g.mu.Unlock()
		if ctx.Err() != nil {
			return
		}
	}
}

func (g *gateCtl) set(p int, c cid.Cid, held bool) {
	g.mu.Lock()
	g.held[gkey(p, c)] = held
	close(g.ch)
	g.ch = make(chan struct{})
	g.mu.Unlock()
}

func (g *gateCtl) isWaiting(p int, c cid.Cid) bool {
	g.mu.Lock()
	defer g.mu.Unlock()
	return g.waiting[gkey(p, c)] > 0
}

func (w *World) gates() *gateCtl {
	if w.gate == nil {
		w.gate = newGateCtl()
		w.blocks.SetGate(w.gate.gate)
		w.blocks.mu.Lock()
		g := w.gate
		w.blocks.failGet = func(p int, c cid.Cid) error {
			g.mu.Lock()
			defer g.mu.Unlock()
			if g.fail[gkey(p, c)] {
				return fmt.Errorf("injected fetch failure")
			}
			return nil
		}
		w.blocks.mu.Unlock()
	}
	return w.gate
}

func (w *World) entriesByNames(s string) []ipfslog.Entry {
	var out []ipfslog.Entry
	if s == "-" || s == "" {
		return out
	}
	for _, n := range strings.Split(s, ",") {
		if t, ok := w.tampered[n]; ok {
			out = append(out, t)
			continue
		}
		e := w.entryByName(n)
		if e == nil {
			panic("unknown entry " + n)
		}
		out = append(out, e)
	}
	return out
}

func (w *World) printStats(p int) {
	s, ok := w.stores[p]
	if !ok {
		w.printf("stats %d closed\n", p)
		return
	}
	st := s.Replicator().(interface{ VerifStats() replicator.VerifStats }).VerifStats()
	w.printf("stats %d added=%d fetching=%d fetched=%d queue=%d buffer=%d inprogress=%d failed=%d free=%d of=%d\n", p, st.Added, st.Fetching, st.Fetched, st.Queue, st.Buffer, st.InProgress, st.Failed, st.FreeSlots, w.slotBase[storeKey(s)])
}

func (w *World) execGateOp(ctx context.Context, toks []string) (bool, error) {
	switch toks[0] {
	case "hold", "release":
		p := atoi(toks[1])
		for _, e := range w.entriesByNames(toks[2]) {
			w.gates().set(p, e.GetHash(), toks[0] == "hold")
		}
	case "failget", "okget":
		p := atoi(toks[1])
		g := w.gates()
		g.mu.Lock()
		for _, e := range w.entriesByNames(toks[2]) {
			g.fail[gkey(p, e.GetHash())] = toks[0] == "failget"
		}
		g.mu.Unlock()
	case "syncasync":
		// syncasync p heads=e1,e2 [ctx=<name>|cancelled]
		p := atoi(toks[1])
		a := kvArgs(toks[2:])
		heads := cloneEntries(w.entriesByNames(a["heads"]))
		sctx := w.ctx
		if name, ok := a["ctx"]; ok {
			w.reqSeq++
			rname := name
			if name == "cancelled" {
				rname = fmt.Sprintf("x%d", w.reqSeq)
			}
			c, cancel := context.WithCancel(context.WithValue(w.ctx, reqKey{}, rname))
			if name == "cancelled" {
				cancel()
				w.recordCancel(rname)
			} else {
				if w.cancels == nil {
					w.cancels = map[string]context.CancelFunc{}
				}
				w.cancels[name] = cancel
			}
			sctx = c
		}
		err := w.stores[p].Sync(sctx, heads)
		w.printf("syncing %d %s\n", p, errStr(err))
	case "cancel":
		if c, ok := w.cancels[toks[1]]; ok {
			// recorded in the same sequence as the replicators' steps, under the lock their hooks take
			w.mu.Lock()
			c()
			for _, a := range w.acct {
				a.rev = append(a.rev, revent{kind: "cancel", ctx: toks[1]})
			}
			w.mu.Unlock()
		}
		// give the cancelled workers a moment to unwind
		time.Sleep(2 * time.Millisecond)
	case "waitget":
		// waitget p eN : wait until a Get of eN by p is blocked at the gate
		p := atoi(toks[1])
		e := w.entryByName(toks[2])
		deadline := time.Now().Add(150 * time.Millisecond)
		okw := false
		for time.Now().Before(deadline) {
			if w.gates().isWaiting(p, e.GetHash()) {
				okw = true
				break
			}
			time.Sleep(100 * time.Microsecond)
		}
		w.printf("waiting %d %s %v\n", p, toks[2], okw)
	case "settle":
		// settle p [ms] : wait for quiescence (bounded), print the batches merged meanwhile
		p := atoi(toks[1])
		old := w.quiesceTimeout
		if len(toks) > 2 {
			w.quiesceTimeout = time.Duration(atoi(toks[2])) * time.Millisecond
		}
		ok := w.quiesce(w.stores[p])
		w.quiesceTimeout = old
		w.flushLoadEnds(p, w.stores[p])
		w.printf("settled %d quiesce=%v\n", p, ok)
	case "failput":
		// failput p [n] : the next n (default 1) Puts of the local-heads key on p's cache fail
		n := 1
		if len(toks) > 2 {
			n = atoi(toks[2])
		}
		c := w.peers[atoi(toks[1])].cache
		c.mu.Lock()
		c.failPuts = n
		c.mu.Unlock()
	case "failrput":
		// failrput p [n] : the next n (default 1) Puts of the remote-heads key on p's cache fail
		n := 1
		if len(toks) > 2 {
			n = atoi(toks[2])
		}
		c := w.peers[atoi(toks[1])].cache
		c.mu.Lock()
		c.failRPuts = n
		c.mu.Unlock()
	case "stats":
		w.printStats(atoi(toks[1]))
	case "holdhook":
		w.holdHook(toks[1])
	case "releasehook":
		w.releaseHook(toks[1])
		time.Sleep(time.Millisecond)
	case "waithook":
		n := 1
		if len(toks) > 2 {
			n = atoi(toks[2])
		}
		w.printf("hookwait %s %v\n", toks[1], w.waitHook(toks[1], n))
	default:
		return false, nil
	}
	return true, nil
}
