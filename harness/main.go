package main

import (
	"bufio"
	"context"
	"flag"
	"fmt"
	"math/rand"
	"os"
	"strings"

	ipfslog "berty.tech/go-ipfs-log"
	"berty.tech/go-ipfs-log/entry"
)

func asEntry(e ipfslog.Entry) *entry.Entry {
	if x, ok := e.(*entry.Entry); ok {
		return x
	}
	panic("not an *entry.Entry")
}

type genFn func(r *rand.Rand, id string, size int, total int) []string

var families = map[string]genFn{
	"kv":         genKV,
	"doc":        genDoc,
	"log":        genLog,
	"routes":     genRoutes,
	"reload":     genReload,
	"status":     genStatus,
	"forge":      genForge,
	"garbage":    genGarbage,
	"transport":  genTransport,
	"oneonone":   genOneOnOne,
	"multidb":    genMultiDB,
	"cancel":     genCancel,
	"limit":      genLimit,
	"close":      genClose,
	"events":     genEvents,
	"concurrent": genConcurrent,
	"address":    genAddress,
	"snapshot":   genSnapshot,
}

func main() {
	family := flag.String("family", "kv", "scenario family")
	seed := flag.Int64("seed", 1, "PRNG seed")
	count := flag.Int("count", 10, "number of scenarios")
	size := flag.Int("size", 12, "scenario size parameter")
	npeers := flag.Int("peers", 4, "number of peers in the world")
	replay := flag.String("replay", "", "script or trace file to re-execute instead of generating")
	scriptOnly := flag.Bool("script-only", false, "print generated scripts, do not execute")
	flag.Parse()

	out := bufio.NewWriterSize(os.Stdout, 1<<20)
	defer out.Flush()
	ctx := context.Background()

	var scripts [][]string
	if *replay != "" {
		scripts = readScripts(*replay)
	} else {
		gen, ok := families[*family]
		if !ok {
			fmt.Fprintf(os.Stderr, "unknown family %s\n", *family)
			os.Exit(2)
		}
		r := rand.New(rand.NewSource(*seed))
		for i := 0; i < *count; i++ {
			id := fmt.Sprintf("%s-%d-%d", *family, *seed, i)
			scripts = append(scripts, gen(r, id, *size, *npeers))
		}
	}
	if *scriptOnly {
		for _, s := range scripts {
			for _, l := range s {
				fmt.Fprintln(out, l)
			}
		}
		return
	}
	w, err := NewWorld(ctx, *npeers, out)
	if err != nil {
		fmt.Fprintf(os.Stderr, "world: %v\n", err)
		os.Exit(2)
	}
	for _, s := range scripts {
		if err := w.RunScript(s); err != nil {
			out.Flush()
			fmt.Fprintf(os.Stderr, "harness error: %v\n", err)
			os.Exit(2)
		}
	}
}

// readScripts extracts the scripts from a script file or from a trace (lines `scn …` and `op …`).
func readScripts(path string) [][]string {
	f, err := os.Open(path)
	if err != nil {
		fmt.Fprintf(os.Stderr, "%v\n", err)
		os.Exit(2)
	}
	defer f.Close()
	var scripts [][]string
	sc := bufio.NewScanner(f)
	sc.Buffer(make([]byte, 1<<20), 1<<26)
	isTrace := false
	var all []string
	for sc.Scan() {
		all = append(all, sc.Text())
		if strings.HasPrefix(sc.Text(), "op ") {
			isTrace = true
		}
	}
	for _, l := range all {
		switch {
		case strings.HasPrefix(l, "scn "):
			scripts = append(scripts, []string{l})
		case isTrace && strings.HasPrefix(l, "op "):
			scripts[len(scripts)-1] = append(scripts[len(scripts)-1], strings.TrimPrefix(l, "op "))
		case !isTrace && strings.TrimSpace(l) != "" && len(scripts) > 0:
			scripts[len(scripts)-1] = append(scripts[len(scripts)-1], l)
		}
	}
	return scripts
}
