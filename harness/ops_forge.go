package main

// Forged, tampered and foreign-database entries (C03, C04, C10): built with the real entry package and
// a second signer, stored in the attacker's block store, delivered by any route.

import (
	"context"
	"encoding/json"
	"fmt"
	"math/big"
	"strings"
	"time"

	ipfslog "berty.tech/go-ipfs-log"
	"berty.tech/go-ipfs-log/entry"
	idp "berty.tech/go-ipfs-log/identityprovider"
	"berty.tech/go-orbit-db/iface"
	"berty.tech/go-orbit-db/stores/operation"
	cid "github.com/ipfs/go-cid"
	cbornode "github.com/ipfs/go-ipld-cbor"
	ipld "github.com/ipfs/go-ipld-format"
	mh "github.com/multiformats/go-multihash"
)

// signerProvider signs with `as`'s key whatever identity block is named in the entry.
type signerProvider struct {
	idp.Interface
	as *idp.Identity
}

func (s *signerProvider) Sign(ctx context.Context, _ *idp.Identity, data []byte) ([]byte, error) {
	return s.as.Provider.Sign(ctx, s.as, data)
}

func (w *World) maxTime() int {
	m := 0
	for _, e := range w.entries {
		if e.GetClock() != nil && e.GetClock().GetTime() > m {
			m = e.GetClock().GetTime()
		}
	}
	return m
}

func (w *World) payloadFor(k, v []byte) []byte {
	var op operation.Operation
	ks := string(k)
	switch w.kind {
	case "log":
		op = operation.NewOperation(nil, "ADD", v)
	case "doc":
		b, _ := json.Marshal(docOf(k, v))
		op = operation.NewOperation(&ks, "PUT", b)
	default:
		op = operation.NewOperation(&ks, "PUT", v)
	}
	b, _ := op.Marshal()
	return b
}

// declareForged declares an entry the harness built, with the flags the model needs; the flags are
// *measured* with the real Verify / re-encode, not assumed from the recipe.
func (w *World) declareForged(p int, e *entry.Entry) string {
	k := e.GetHash().String()
	if n, ok := w.names[k]; ok {
		return fmt.Sprintf("e%d", n)
	}
	n := len(w.entries) + 1
	w.names[k] = n
	w.entries = append(w.entries, e)
	io := w.stores0().IO()
	sig := 0
	if err := e.Verify(w.peers[p].identity.Provider, io); err == nil {
		sig = 1
	}
	if w.sigOverride != nil {
		sig = *w.sigOverride
	}
	hashok := 0
	func() {
		defer func() { _ = recover() }()
		if h, err := io.Write(w.ctx, w.peers[p].api, e, nil); err == nil && h.String() == e.GetHash().String() {
			hashok = 1
		}
	}()
	logID := "other"
	if e.GetLogID() == w.dbAddr {
		logID = "db"
	}
	ident, key, cidRank, t := -1, -1, -1, -1
	if e.GetIdentity() != nil {
		ident = w.peerOfIdentID(e.GetIdentity().ID)
	}
	key = w.peerOfPubKey(e.GetKey())
	if e.GetClock() != nil {
		if q := w.peerOfPubKey(e.GetClock().GetID()); q >= 0 {
			cidRank = w.rankOf(q)
		}
		t = e.GetClock().GetTime()
	}
	w.printf("entry e%d log=%s t=%d cid=%d ident=%d key=%d %s next=%s refs=%s %s sig=%d hashok=%d\n", n, logID, t, cidRank, ident, key, w.identFlags(e),
		w.cids2(e.GetNext()), w.cids2(e.GetRefs()), opString(e.GetPayload()), sig, hashok)
	return fmt.Sprintf("e%d", n)
}

// firstServedEntry returns the first declared entry whose block some peer still holds.
func (w *World) firstServedEntry() ipfslog.Entry {
	byHash := map[string]ipfslog.Entry{}
	for _, e := range w.entries {
		byHash[e.GetHash().String()] = e
	}
	held := func(c cid.Cid) bool {
		for p := range w.peers {
			if w.blocks.Has(p, c) {
				return true
			}
		}
		return false
	}
	// served = its block and the blocks of everything it names, transitively, are held by somebody
	memo := map[string]bool{}
	var served func(c cid.Cid, depth int) bool
	served = func(c cid.Cid, depth int) bool {
		k := c.String()
		if v, ok := memo[k]; ok {
			return v
		}
		memo[k] = true // (cycles cannot occur; guards re-entry)
		ok := held(c) && depth < 10000
		if e, known := byHash[k]; ok && known {
			for _, n := range append(append([]cid.Cid{}, e.GetNext()...), e.GetRefs()...) {
				if !served(n, depth+1) {
					ok = false
					break
				}
			}
		}
		memo[k] = ok
		return ok
	}
	for _, e := range w.entries {
		if served(e.GetHash(), 0) {
			return e
		}
	}
	return nil
}

func (w *World) stores0() iface.Store {
	for _, s := range w.stores {
		return s
	}
	panic("no store")
}

// forge a recipe=<r> [as=<w>] [base=<p>] [extra=eN] [k=<hex>] [v=<hex>] [raw=<hex payload>]
func (w *World) forge(ctx context.Context, toks []string) {
	a := atoi(toks[1])
	args := kvArgs(toks[2:])
	recipe := args["recipe"]
	att := w.peers[a]
	victim := att
	if v, ok := args["as"]; ok {
		victim = w.peers[atoi(v)]
	}
	var next []cid.Cid
	if b, ok := args["base"]; ok && b != "none" {
		if s, ok := w.stores[atoi(b)]; ok {
			hs := s.OpLog().Heads().Slice()
			for i := len(hs) - 1; i >= 0; i-- {
				next = append(next, hs[i].GetHash())
			}
		}
	}
	if x, ok := args["extra"]; ok {
		next = append(next, w.entryByName(x).GetHash())
	}
	if args["badparent"] == "noclock" {
		// a parent that is an entry-shaped block WITHOUT the `clock` field (whoever writes an entry chooses
		// what its links point to): made from the block of an entry of the attacker's own, stored like any
		// block; it is not an entry of the scenario (no name: `e0` in the trace)
		if c, err := w.clocklessBlock(ctx, att); err == nil {
			next = append(next, c)
		} else {
			w.lastForged = "e0"
			w.printf("forged %d err %s\n", a, strings.ReplaceAll(err.Error(), "\n", " "))
			return
		}
	}
	if next == nil {
		next = []cid.Cid{}
	}
	refs := []cid.Cid{}
	if x, ok := args["xrefs"]; ok {
		// named in `refs` only (not a parent): Join does not take such an entry out of the heads
		refs = append(refs, w.entryByName(x).GetHash())
	}
	io := w.stores0().IO()
	if recipe == "malleate" {
		// an exact copy of a GENUINE entry (the head of `base`'s log, whoever wrote it) whose ECDSA
		// signature (r, s) is rewritten to (r, n-s): just as valid for the same content and key, but other
		// bytes, hence another address. Anybody who has seen the entry can make one; the writer never
		// wrote it. Declared with sig=0: it is not a signature the writer produced.
		var src *entry.Entry
		if b, ok := args["base"]; ok && b != "none" {
			if s, ok := w.stores[atoi(b)]; ok {
				if hs := s.OpLog().Heads().Slice(); len(hs) > 0 {
					src, _ = hs[0].(*entry.Entry)
				}
			}
		}
		if src == nil || len(src.GetSig()) == 0 {
			w.lastForged = "e0"
			w.printf("forged %d err nothing-to-copy\n", a)
			return
		}
		flipped := flipS(src.GetSig())
		if flipped == nil {
			w.lastForged = "e0"
			w.printf("forged %d err not-a-der-signature\n", a)
			return
		}
		t := src.Copy().(*entry.Entry)
		t.SetSig(flipped)
		h, err := entry.ToMultihashWithIO(ctx, t, att.api, nil, io)
		if err != nil {
			w.lastForged = "e0"
			w.printf("forged %d err %s\n", a, strings.ReplaceAll(err.Error(), "\n", " "))
			return
		}
		t.SetHash(h)
		zero := 0
		w.sigOverride = &zero
		w.lastForged = w.declareForged(a, t)
		w.sigOverride = nil
		w.printf("forged %d %s\n", a, w.lastForged)
		return
	}
	if recipe == "reencode" {
		// the block of a GENUINE entry (the head of `base`'s log) written again with other bytes for the
		// same content (the hex of the signature in upper case): another block, another address, and it
		// decodes to the very same entry, signature and all. Anybody who has seen the entry can make one.
		// Declared as it is: signature valid, address NOT the address of its content (hashok=0).
		var src *entry.Entry
		if b, ok := args["base"]; ok && b != "none" {
			if s, ok := w.stores[atoi(b)]; ok {
				if hs := s.OpLog().Heads().Slice(); len(hs) > 0 {
					src, _ = hs[0].(*entry.Entry)
				}
			}
		}
		fail := func(why string) {
			w.lastForged = "e0"
			w.printf("forged %d err %s\n", a, why)
		}
		if src == nil {
			fail("nothing-to-copy")
			return
		}
		var nd ipld.Node
		for _, pr := range w.peers {
			if n, err := pr.api.Dag().Get(ctx, src.GetHash()); err == nil {
				nd = n
				break
			}
		}
		if nd == nil {
			fail("block-not-found")
			return
		}
		var m map[string]interface{}
		if err := cbornode.DecodeInto(nd.RawData(), &m); err != nil {
			fail("undecodable")
			return
		}
		if args["how"] == "v0" {
			// … or the same content under the version number 0: the decoder reads the block into an entry
			// of that version, the encoder has no form for it - fetched, it can never be written again
			m["v"] = 0
		} else {
			sg, _ := m["sig"].(string)
			if strings.ToUpper(sg) == sg {
				fail("nothing-to-change")
				return
			}
			m["sig"] = strings.ToUpper(sg)
		}
		twin, err := cbornode.WrapObject(m, mh.SHA2_256, -1)
		if err != nil {
			fail("unencodable")
			return
		}
		_ = att.api.Dag().Add(ctx, twin)
		t := src.Copy().(*entry.Entry)
		t.SetHash(twin.Cid())
		w.lastForged = w.declareForged(a, t)
		w.printf("forged %d %s\n", a, w.lastForged)
		return
	}
	data := &entry.Entry{
		LogID:   w.dbAddr,
		Payload: w.payloadFor(unhx(args["k"]), unhx(args["v"])),
		Next:    next,
		Refs:    refs,
		Clock:   entry.NewLamportClock(att.identity.PublicKey, w.maxTime()+1),
	}
	if raw, ok := args["raw"]; ok {
		// a payload written by hand (a writer is not bound to what the store API produces)
		data.Payload = unhx(raw)
	}
	if recipe == "otherlog" {
		data.LogID = "/orbitdb/zdpuAmSomeOtherDatabaseRootCidXXXXXXXXXXXXXXXXXXXXXXXX/other"
	}
	ident := att.identity
	switch recipe {
	case "copiedid":
		// a writer's id, the attacker's key and signatures
		ident = &idp.Identity{ID: victim.identity.ID, PublicKey: att.identity.PublicKey, Signatures: att.identity.Signatures,
			Type: att.identity.Type, Provider: &signerProvider{att.identity.Provider, att.identity}}
	case "selfsigned":
		// a writer's id, the attacker's key, the id signed with the attacker's key, and a well-formed
		// signature by the wrong key where the key named by the id should have signed the attacker's key
		sid, err := att.identity.Provider.Sign(ctx, att.identity, []byte(victim.identity.ID))
		if err != nil {
			w.lastForged = "e0"
			w.printf("forged %d err %s\n", a, strings.ReplaceAll(err.Error(), "\n", " "))
			return
		}
		ident = &idp.Identity{ID: victim.identity.ID, PublicKey: att.identity.PublicKey,
			Signatures: &idp.IdentitySignature{ID: sid, PublicKey: att.identity.Signatures.PublicKey},
			Type:       att.identity.Type, Provider: &signerProvider{att.identity.Provider, att.identity}}
	case "othertype":
		// a writer's id, the attacker's key, junk signatures, and an identity type no provider checks
		ident = &idp.Identity{ID: victim.identity.ID, PublicKey: att.identity.PublicKey,
			Signatures: &idp.IdentitySignature{ID: []byte("junk"), PublicKey: []byte("junk")},
			Type:       "other", Provider: &signerProvider{att.identity.Provider, att.identity}}
	case "foreignkey":
		// the writer's whole identity block (so Key = the writer's key) but signed by the attacker
		ident = &idp.Identity{ID: victim.identity.ID, PublicKey: victim.identity.PublicKey, Signatures: victim.identity.Signatures,
			Type: victim.identity.Type, Provider: &signerProvider{att.identity.Provider, att.identity}}
	}
	ie, err := entry.CreateEntryWithIO(ctx, att.api, ident, data, nil, io)
	if err != nil {
		w.lastForged = "e0"
		w.printf("forged %d err %s\n", a, strings.ReplaceAll(err.Error(), "\n", " "))
		return
	}
	e := ie.(*entry.Entry)
	rehash := true
	switch recipe {
	case "honest", "own", "copiedid", "foreignkey", "otherlog", "othertype", "selfsigned":
	case "copiedblock":
		// entry signed with the attacker's key (Key = attacker) but carrying the writer's identity block
		e.SetIdentity(victim.identity.Filtered())
	case "mut-payload":
		e.SetPayload(w.payloadFor(unhx(args["k"]), []byte("tampered")))
	case "mut-time":
		e.SetClock(entry.NewLamportClock(e.GetClock().GetID(), e.GetClock().GetTime()+1))
	case "mut-clockid":
		e.SetClock(entry.NewLamportClock(victim.identity.PublicKey, e.GetClock().GetTime()))
	case "mut-next":
		e.SetNext([]cid.Cid{})
		if first := w.firstServedEntry(); len(next) == 0 && first != nil {
			e.SetNext([]cid.Cid{first.GetHash()})
		}
	case "mut-refs":
		// (an entry whose block was dropped is never referenced: a writer naming a block nobody serves
		// stalls the fetch of its own entry, which is outside what the properties quantify over)
		if first := w.firstServedEntry(); first != nil {
			e.SetRefs([]cid.Cid{first.GetHash()})
		} else {
			// (a nil refs list would be a non-canonical encoding, which Sync re-encodes differently: not a
			// single-field mutation of the wire form)
			w.lastForged = "e0" // (nothing was forged: a following `@last` must not pick an older entry)
			w.printf("forged %d err nothing-to-reference\n", a)
			return
		}
	case "mut-key":
		e.SetKey(victim.identity.PublicKey)
	case "mut-sig":
		s := append([]byte(nil), e.GetSig()...)
		s[len(s)/2] ^= 0x01
		e.SetSig(s)
	case "mut-identid":
		f := *e.GetIdentity()
		f.ID = victim.identity.ID
		e.SetIdentity(&f)
	case "mut-identpk":
		f := *e.GetIdentity()
		f.PublicKey = victim.identity.PublicKey
		e.SetIdentity(&f)
	case "mut-identsig":
		f := *e.GetIdentity()
		f.Signatures = victim.identity.Signatures
		e.SetIdentity(&f)
	case "mut-identsigpk":
		// only the outer signature of the identity block replaced by another well-formed one
		f := *e.GetIdentity()
		f.Signatures = &idp.IdentitySignature{ID: f.Signatures.ID, PublicKey: victim.identity.Signatures.PublicKey}
		e.SetIdentity(&f)
	case "mut-identtype":
		f := *e.GetIdentity()
		f.Type = "other"
		e.SetIdentity(&f)
	case "mut-logid":
		e.SetLogID(w.dbAddr + "x")
	case "noident":
		// the identity block removed altogether (an entry-shaped block somebody serves: reachable only as
		// an ancestor, a head without identity is refused when the message is decoded)
		e.SetIdentity(nil)
	case "badhash":
		// content changed, claimed address kept. The address still names the original (valid) entry,
		// which is what anyone fetching it gets; the tampered form exists only inside messages and is
		// written `eN!` in the trace.
		name := w.declareForged(a, e)
		t := e.Copy().(*entry.Entry)
		t.SetPayload(w.payloadFor(unhx(args["k"]), []byte("tampered")))
		if w.tampered == nil {
			w.tampered = map[string]ipfslog.Entry{}
		}
		w.tampered[name+"!"] = t
		w.lastForged = name + "!"
		w.printf("forged %d %s!\n", a, name)
		return
	case "wronghash":
		// an exact copy of a genuine entry — signature and all — that claims another address (the signature
		// does not cover the hash). Written `eN~` in the trace; exists only inside messages.
		name := w.declareForged(a, e)
		t := e.Copy().(*entry.Entry)
		other := w.firstServedEntry()
		if other == nil || other.GetHash().Equals(e.GetHash()) {
			w.lastForged = "e0"
			w.printf("forged %d err nothing-to-claim\n", a)
			return
		}
		t.SetHash(other.GetHash())
		if args["claim"] == "nowhere" {
			// … or an address under which NO block exists: whoever goes and fetches it waits
			if nd, err := cbornode.WrapObject(map[string]interface{}{"nowhere": name}, mh.SHA2_256, -1); err == nil {
				t.SetHash(nd.Cid())
			}
		}
		if w.tampered == nil {
			w.tampered = map[string]ipfslog.Entry{}
		}
		w.tampered[name+"~"] = t
		w.lastForged = name + "~"
		w.printf("forged %d %s~\n", a, name)
		return
	default:
		panic("unknown recipe " + recipe)
	}
	if rehash && recipe != "honest" && recipe != "own" && recipe != "copiedid" && recipe != "foreignkey" && recipe != "otherlog" && recipe != "othertype" && recipe != "selfsigned" {
		var h cid.Cid
		var err error
		func() {
			defer func() {
				if r := recover(); r != nil {
					err = fmt.Errorf("encoder panicked: %v", r)
				}
			}()
			h, err = entry.ToMultihashWithIO(ctx, e, att.api, nil, io)
		}()
		if err != nil {
			w.lastForged = "e0"
			w.printf("forged %d err %s\n", a, strings.ReplaceAll(err.Error(), "\n", " "))
			return
		}
		e.SetHash(h)
	}
	w.lastForged = w.declareForged(a, e)
	w.printf("forged %d %s\n", a, w.lastForged)
}

// inject q heads=e1,e2 route=sync|pub|dc from=<a>
func (w *World) inject(ctx context.Context, toks []string) {
	q := atoi(toks[1])
	args := kvArgs(toks[2:])
	heads := w.entriesByNames(args["heads"])
	from := 0
	if f, ok := args["from"]; ok {
		from = atoi(f)
	}
	msg := &iface.MessageExchangeHeads{Address: w.dbAddr}
	for _, h := range heads {
		msg.Heads = append(msg.Heads, asEntry(h))
	}
	payload, _ := json.Marshal(msg)
	switch args["route"] {
	case "pub":
		t := w.net.topicOf(q, w.dbAddr)
		if t == nil {
			w.printf("delivered %d nosub\n", q)
			return
		}
		ok := t.deliverMsg(ctx, payload, barrierPayload(w.dbAddr))
		ok = w.quiesce(w.stores[q]) && ok
		w.flushLoadEnds(q, w.stores[q])
		w.printf("delivered %d quiesce=%v\n", q, ok)
	case "dc":
		w.deliverDC(ctx, q, from, payload)
	case "loadmore":
		// the public LoadMoreFrom: entries handed straight to the replicator, without Sync's checks
		var es []ipfslog.Entry
		out := &iface.MessageExchangeHeads{}
		_ = json.Unmarshal(payload, out)
		for _, h := range out.Heads {
			es = append(es, h)
		}
		// (quiescence accounting pairs every Load that returns with a spawn: Sync announces its own)
		w.mu.Lock()
		w.acctOf(w.stores[q]).spawned++
		w.mu.Unlock()
		done := make(chan struct{})
		go func() { w.stores[q].LoadMoreFrom(ctx, 0, es); close(done) }()
		select {
		case <-done:
		case <-time.After(w.quiesceTimeout):
		}
		ok := w.quiesce(w.stores[q])
		w.flushLoadEnds(q, w.stores[q])
		w.printf("loadedmore %d quiesce=%v\n", q, ok)
	default:
		var es []ipfslog.Entry
		out := &iface.MessageExchangeHeads{}
		_ = json.Unmarshal(payload, out)
		for _, h := range out.Heads {
			es = append(es, h)
		}
		err := w.stores[q].Sync(ctx, es)
		ok := w.quiesce(w.stores[q])
		w.flushLoadEnds(q, w.stores[q])
		w.printf("synced %d %s quiesce=%v\n", q, errStr(err), ok)
	}
}

func (w *World) execForgeOp(ctx context.Context, toks []string) (bool, error) {
	switch toks[0] {
	case "forge":
		w.forge(ctx, toks)
	case "inject":
		w.inject(ctx, toks)
	case "dropblock":
		// dropblock eN : nobody serves this block any more (its author went away, or never stored it)
		e := w.entryByName(toks[1])
		w.blocks.Drop(e.GetHash())
		w.printf("blockgone %s\n", toks[1])
	default:
		return false, nil
	}
	return true, nil
}

// flipS rewrites a strict-DER ECDSA signature (r, s) into (r, n-s), the other signature that verifies
// for the same message and key (n: the order of the secp256k1 group)
func flipS(der []byte) []byte {
	if len(der) < 8 || der[0] != 0x30 || int(der[1]) != len(der)-2 || der[2] != 0x02 {
		return nil
	}
	rLen := int(der[3])
	if 5+rLen >= len(der) || der[4+rLen] != 0x02 {
		return nil
	}
	r := der[4 : 4+rLen]
	sLen := int(der[5+rLen])
	if 6+rLen+sLen != len(der) {
		return nil
	}
	sv := der[6+rLen : 6+rLen+sLen]
	n, _ := new(big.Int).SetString("FFFFFFFFFFFFFFFFFFFFFFFFFFFFFFFEBAAEDCE6AF48A03BBFD25E8CD0364141", 16)
	f := new(big.Int).Sub(n, new(big.Int).SetBytes(sv))
	if f.Sign() <= 0 {
		return nil
	}
	sb := f.Bytes()
	if sb[0]&0x80 != 0 {
		sb = append([]byte{0}, sb...)
	}
	out := []byte{0x30, byte(2 + len(r) + 2 + len(sb)), 0x02, byte(len(r))}
	out = append(out, r...)
	out = append(out, 0x02, byte(len(sb)))
	return append(out, sb...)
}

// clocklessBlock stores, on the attacker's node, a copy of the block of a fresh honest entry of its own
// with the `clock` field removed, and returns its address.
func (w *World) clocklessBlock(ctx context.Context, att *Peer) (cid.Cid, error) {
	io := w.stores0().IO()
	data := &entry.Entry{
		LogID:   w.dbAddr,
		Payload: w.payloadFor([]byte("zz"), []byte("template")),
		Next:    []cid.Cid{},
		Refs:    []cid.Cid{},
		Clock:   entry.NewLamportClock(att.identity.PublicKey, 1),
	}
	ie, err := entry.CreateEntryWithIO(ctx, att.api, att.identity, data, nil, io)
	if err != nil {
		return cid.Undef, err
	}
	nd, err := att.api.Dag().Get(ctx, ie.GetHash())
	if err != nil {
		return cid.Undef, err
	}
	var m map[string]interface{}
	if err := cbornode.DecodeInto(nd.RawData(), &m); err != nil {
		return cid.Undef, err
	}
	delete(m, "clock")
	bad, err := cbornode.WrapObject(m, mh.SHA2_256, -1)
	if err != nil {
		return cid.Undef, err
	}
	// (the template itself is nobody's business)
	w.blocks.Drop(ie.GetHash())
	if err := att.api.Dag().Add(ctx, bad); err != nil {
		return cid.Undef, err
	}
	return bad.Cid(), nil
}
