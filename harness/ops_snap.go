package main

// Snapshots (C13): SaveSnapshot on a live store, then a fresh instance over the same cache and
// LoadFromSnapshot.

import (
	"context"
	"fmt"
	"strings"

	"berty.tech/go-orbit-db/iface"
	"berty.tech/go-orbit-db/stores/basestore"
)

func guarded(f func() error) (res string) {
	defer func() {
		if r := recover(); r != nil {
			res = "panic"
		}
	}()
	if err := f(); err != nil {
		return "err"
	}
	return "ok"
}

func (w *World) execSnapOp(ctx context.Context, toks []string) (bool, error) {
	switch toks[0] {
	case "addbig":
		// addbig p <size> : an entry whose payload value has `size` bytes
		p := atoi(toks[1])
		n := atoi(toks[2])
		val := []byte(strings.Repeat("x", n))
		w.beforeWrite(p)
		switch s := w.stores[p].(type) {
		case iface.EventLogStore:
			op, err := s.Add(ctx, val)
			w.ack(p, op, err)
		case iface.KeyValueStore:
			op, err := s.Put(ctx, "big", val)
			w.ack(p, op, err)
		default:
			return true, fmt.Errorf("addbig: unsupported store")
		}
	case "snapsave":
		p := atoi(toks[1])
		res := guarded(func() error { _, err := basestore.SaveSnapshot(ctx, w.stores[p]); return err })
		w.printf("snapsaved %d %s\n", p, res)
	case "restartsnap":
		// a fresh instance on the same keystore and cache, reopening the database and loading the snapshot
		p := atoi(toks[1])
		pr := w.peers[p]
		if s, ok := w.stores[p]; ok {
			_ = s.Close()
			w.net.closeTopic(p, w.dbAddr)
			delete(w.stores, p)
		}
		_ = pr.odb.Close()
		if err := w.startInstanceFresh(pr); err != nil {
			return true, err
		}
		var s iface.Store
		var err error
		opts := &iface.CreateDBOptions{}
		switch w.kind {
		case "kv":
			s, err = pr.odb.KeyValue(ctx, w.dbAddr, opts)
		case "doc":
			s, err = pr.odb.Docs(ctx, w.dbAddr, opts)
		case "log":
			s, err = pr.odb.Log(ctx, w.dbAddr, opts)
		}
		if err != nil {
			w.printf("snaploaded %d openerr\n", p)
			return true, nil
		}
		w.stores[p] = s
		w.registerStore(s)
		res := guarded(func() error { return s.LoadFromSnapshot(ctx) })
		ok := w.quiesce(s)
		w.flushLoadEnds(p, s)
		w.printf("snaploaded %d %s quiesce=%v\n", p, res, ok)
	default:
		return false, nil
	}
	return true, nil
}
