package main

// Snapshots (C13): SaveSnapshot on a live store, then a fresh instance over the same cache and
// LoadFromSnapshot.

import (
	"context"
	"fmt"
	"os"
	"sort"
	"strings"
	"time"

	ipfslog "berty.tech/go-ipfs-log"
	logiface "berty.tech/go-ipfs-log/iface"
	"berty.tech/go-orbit-db/iface"
	"berty.tech/go-orbit-db/stores/basestore"
)

// racingStore / racingLog: a view of a store whose log grows while it is being looked at — before each
// of the first `left` looks at the log (heads, length, entries, values) one more write lands, as it
// would from a concurrent writer.
type racingStore struct {
	iface.Store
	log *racingLog
}

func (r *racingStore) OpLog() ipfslog.Log { return r.log }

type racingLog struct {
	ipfslog.Log
	left  int
	write func()
}

func (l *racingLog) tick() {
	if l.left > 0 {
		l.left--
		l.write()
	}
}
func (l *racingLog) Heads() logiface.IPFSLogOrderedEntries      { l.tick(); return l.Log.Heads() }
func (l *racingLog) Len() int                                   { l.tick(); return l.Log.Len() }
func (l *racingLog) GetEntries() logiface.IPFSLogOrderedEntries { l.tick(); return l.Log.GetEntries() }
func (l *racingLog) Values() logiface.IPFSLogOrderedEntries     { l.tick(); return l.Log.Values() }

// queueNames: what the replicator still had to fetch when the snapshot was saved (it is saved along)
func (w *World) queueNames(p int) string {
	var out []string
	for _, c := range w.stores[p].Replicator().GetQueue() {
		out = append(out, w.nameOfHash(c))
	}
	sort.Strings(out)
	if len(out) == 0 {
		return "-"
	}
	return strings.Join(out, ",")
}

func guarded(f func() error) (res string) {
	defer func() {
		if r := recover(); r != nil {
			res = "panic"
		}
	}()
	if err := f(); err != nil {
		return "err"
	}
	return "ok"
}

func (w *World) execSnapOp(ctx context.Context, toks []string) (bool, error) {
	switch toks[0] {
	case "addbig":
		// addbig p <size> : an entry whose payload value has `size` bytes
		p := atoi(toks[1])
		n := atoi(toks[2])
		val := []byte(strings.Repeat("x", n))
		w.beforeWrite(p)
		switch s := w.stores[p].(type) {
		case iface.EventLogStore:
			op, err := s.Add(ctx, val)
			w.ack(p, op, err)
		case iface.KeyValueStore:
			op, err := s.Put(ctx, "big", val)
			w.ack(p, op, err)
		default:
			return true, fmt.Errorf("addbig: unsupported store")
		}
	case "snapsave":
		p := atoi(toks[1])
		// (a save that does not come back - it takes the replicator's lock to read its queue - holds that
		// lock for good: nothing of the scenario can go on; said, and the process ends)
		done := make(chan string, 1)
		go func() {
			done <- guarded(func() error { _, err := basestore.SaveSnapshot(ctx, w.stores[p]); return err })
		}()
		var res string
		select {
		case res = <-done:
		case <-time.After(20 * time.Second):
			w.printf("snapsaved %d hung\n", p)
			w.printf("end\n")
			w.out.Flush()
			os.Exit(3)
		}
		w.lastSnapOK = res == "ok"
		w.printf("snapsaved %d %s queue=%s\n", p, res, w.queueNames(p))
	case "snapsaverace":
		// snapsaverace p n : SaveSnapshot while up to n writes by p land, one before each look at the log
		p := atoi(toks[1])
		n := atoi(toks[2])
		k := 0
		rl := &racingLog{Log: w.stores[p].OpLog(), left: n}
		rl.write = func() {
			k++
			w.beforeWrite(p)
			switch s := w.stores[p].(type) {
			case iface.EventLogStore:
				op, err := s.Add(ctx, []byte(fmt.Sprintf("race%d", k)))
				w.ack(p, op, err)
			case iface.KeyValueStore:
				op, err := s.Put(ctx, "r", []byte(fmt.Sprintf("race%d", k)))
				w.ack(p, op, err)
			}
		}
		res := guarded(func() error {
			_, err := basestore.SaveSnapshot(ctx, &racingStore{Store: w.stores[p], log: rl})
			return err
		})
		w.printf("snapsaved %d %s race=%d queue=%s\n", p, res, k, w.queueNames(p))
	case "restartsnap":
		// a fresh instance on the same keystore and cache, reopening the database and loading the snapshot
		p := atoi(toks[1])
		pr := w.peers[p]
		if s, ok := w.stores[p]; ok {
			_ = s.Close()
			w.net.closeTopic(p, w.dbAddr)
			delete(w.stores, p)
		}
		_ = pr.odb.Close()
		if err := w.startInstanceFresh(pr); err != nil {
			return true, err
		}
		var s iface.Store
		var err error
		opts := w.storeOptions()
		switch w.kind {
		case "kv":
			s, err = pr.odb.KeyValue(ctx, w.dbAddr, opts)
		case "doc":
			s, err = pr.odb.Docs(ctx, w.dbAddr, opts)
		case "log":
			s, err = pr.odb.Log(ctx, w.dbAddr, opts)
		}
		if err != nil {
			w.printf("snaploaded %d openerr\n", p)
			return true, nil
		}
		w.stores[p] = s
		w.registerStore(s)
		// pre=N : the store first loads the newest N entries of its log (a user who looked at the latest
		// entries before asking for everything): the snapshot must still bring what lies below them
		for _, t := range toks[2:] {
			// (only when the snapshot that will be loaded is the one just saved: after a save that failed
			// - an entry too large for it - the older snapshot is loaded and the cache leads further)
			if strings.HasPrefix(t, "pre=") && w.lastSnapOK {
				_ = guarded(func() error { return s.Load(ctx, atoi(t[4:])) })
				w.quiesce(s)
			}
		}
		res := guarded(func() error { return s.LoadFromSnapshot(ctx) })
		ok := w.quiesce(s)
		w.flushLoadEnds(p, s)
		w.printf("snaploaded %d %s quiesce=%v\n", p, res, ok)
	default:
		return false, nil
	}
	return true, nil
}
