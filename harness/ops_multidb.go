package main

// Several databases on the same instances (C09): `opendb` creates another database and makes it the
// current one, `usedb k` switches; `obsdb p k` observes database k on peer p including the store
// events emitted for it so far.

import (
	"reflect"
	datastore "github.com/ipfs/go-datastore"
	"berty.tech/go-orbit-db/stores/basestore"
	"context"
	"fmt"
	"sort"
	"strings"
	"sync"
	"time"

	"berty.tech/go-orbit-db/baseorbitdb"
	"berty.tech/go-orbit-db/iface"
	"berty.tech/go-orbit-db/stores"
	"github.com/libp2p/go-libp2p/core/event"
	"github.com/libp2p/go-libp2p/core/peer"
	"github.com/libp2p/go-libp2p/p2p/host/eventbus"
)

type dbCtx struct {
	kind   string
	addr   string
	stores map[int]iface.Store
	closed map[int]bool // peers that closed (not dropped) this database: a restart reopens it
}

type evCounter struct {
	mu sync.Mutex
	n  map[string]map[string]int // address -> event kind -> count
}

func (c *evCounter) add(addr, kind string) {
	c.mu.Lock()
	if c.n[addr] == nil {
		c.n[addr] = map[string]int{}
	}
	c.n[addr][kind]++
	c.mu.Unlock()
}

func (c *evCounter) get(addr string) string {
	c.mu.Lock()
	defer c.mu.Unlock()
	m := c.n[addr]
	if len(m) == 0 {
		return "-"
	}
	var ks []string
	for k := range m {
		ks = append(ks, k)
	}
	sort.Strings(ks)
	var out []string
	for _, k := range ks {
		out = append(out, fmt.Sprintf("%s:%d", k, m[k]))
	}
	return strings.Join(out, ",")
}

// watchStoreEvents counts, per database address, the store events emitted on peer p's instance bus.
func (w *World) watchStoreEvents(p int) {
	if w.evc == nil {
		w.evc = map[int]*evCounter{}
	}
	if _, ok := w.evc[p]; ok {
		return
	}
	c := &evCounter{n: map[string]map[string]int{}}
	w.evc[p] = c
	sub, err := w.peers[p].odb.EventBus().Subscribe([]interface{}{
		new(stores.EventWrite), new(stores.EventReplicated), new(stores.EventReplicate),
		new(stores.EventReplicateProgress), new(stores.EventLoad), new(stores.EventReady), new(stores.EventNewPeer),
	})
	if err != nil {
		panic(err)
	}
	w.evSubs = append(w.evSubs, sub)
	go func() {
		for e := range sub.Out() {
			switch x := e.(type) {
			case stores.EventWrite:
				c.add(x.Address.String(), "write")
			case stores.EventReplicated:
				c.add(x.Address.String(), "replicated")
			case stores.EventReplicate:
				c.add(x.Address.String(), "replicate")
			case stores.EventReplicateProgress:
				c.add(x.Address.String(), "progress")
			case stores.EventLoad:
				c.add(x.Address.String(), "load")
			case stores.EventReady:
				c.add(x.Address.String(), "ready")
			case stores.EventNewPeer:
				// every store of the instance emits on the shared bus: an event that does not say which
				// database it is about cannot be told from another database's (looked up by reflection:
				// the harness must build whether or not the field exists)
				f := reflect.ValueOf(x).FieldByName("Address")
				if !f.IsValid() || f.IsNil() {
					c.add("noaddr", "newpeer")
				}
			}
		}
	}()
}

func (w *World) saveCurrentDB() {
	if w.curDB < len(w.dbs) {
		w.dbs[w.curDB].stores = w.stores
	}
}

func (w *World) switchDB(k int) {
	w.saveCurrentDB()
	w.curDB = k
	w.stores = w.dbs[k].stores
	w.kind = w.dbs[k].kind
	w.dbAddr = w.dbs[k].addr
}

func (w *World) dbIndexOfAddr(addr string) int {
	for i, d := range w.dbs {
		if d.addr == addr {
			return i
		}
	}
	return -1
}

func (w *World) execMultiDBOp(ctx context.Context, toks []string) (bool, error) {
	switch toks[0] {
	case "opendb":
		a := kvArgs(toks[1:])
		var write []string
		if a["acl"] == "*" {
			write = []string{"*"}
		} else {
			for _, i := range ints(a["acl"]) {
				write = append(write, w.peers[i].identity.ID)
			}
		}
		w.saveCurrentDB()
		w.stores = map[int]iface.Store{}
		name := fmt.Sprintf("db-%s-%d", w.scnID, len(w.dbs))
		if err := w.openDB(a["kind"], name, write, ints(a["peers"])); err != nil {
			return true, err
		}
		w.dbs = append(w.dbs, &dbCtx{kind: a["kind"], addr: w.dbAddr, stores: w.stores})
		w.curDB = len(w.dbs) - 1
		for _, p := range ints(a["peers"]) {
			w.watchStoreEvents(p)
		}
		w.printf("opened db=%d\n", w.curDB)
	case "usedb":
		w.switchDB(atoi(toks[1]))
	case "obsdb":
		p, k := atoi(toks[1]), atoi(toks[2])
		cur := w.curDB
		w.switchDB(k)
		w.observeDB(p, k)
		w.switchDB(cur)
	case "pause":
		time.Sleep(time.Duration(atoi(toks[1])) * time.Millisecond)
	case "snapcross":
		// snapcross p from to : the snapshot of database `from` (saved now) is what p's store of database
		// `to` finds under its own cache key (a cache shared between databases, a directory restored
		// under the wrong address): loading it must not bring another database's entries into `to`
		p, from, to := atoi(toks[1]), atoi(toks[2]), atoi(toks[3])
		w.saveCurrentDB()
		var sf, st iface.Store
		if from < len(w.dbs) && to < len(w.dbs) {
			sf, st = w.dbs[from].stores[p], w.dbs[to].stores[p]
		}
		if sf == nil || st == nil || from == to {
			w.printf("snapcrossed %d skip\n", p)
			return true, nil
		}
		res := guarded(func() error {
			if _, err := basestore.SaveSnapshot(ctx, sf); err != nil {
				return err
			}
			for _, k := range []string{"snapshot", "queue"} {
				if v, err := sf.Cache().Get(ctx, datastore.NewKey(k)); err == nil {
					if err := st.Cache().Put(ctx, datastore.NewKey(k), v); err != nil {
						return err
					}
				}
			}
			return st.LoadFromSnapshot(ctx)
		})
		ok := w.quiesce(st)
		w.printf("snapcrossed %d %s quiesce=%v\n", p, res, ok)
	case "exchangeall":
		w.exchangeAll(ctx, atoi(toks[1]), atoi(toks[2]))
	default:
		return false, nil
	}
	return true, nil
}

// exchangeall p q : two peers sharing several databases meet: every store of p sees q join its topic and
// sends its heads over the direct channel; the messages reach q's instance back to back (they sit in
// the monitor's buffer together) and only then is q given time to handle them.
func (w *World) exchangeAll(ctx context.Context, p, q int) {
	cur := w.curDB
	w.saveCurrentDB()
	type sent struct {
		k           int
		msg         *Msg
		addr, heads string
	}
	var msgs []sent
	for k, d := range w.dbs {
		if d.stores[p] == nil || d.stores[q] == nil {
			continue
		}
		t := w.net.topicOf(p, d.addr)
		if t == nil {
			continue
		}
		before := w.net.SentCount()
		t.deliverPeerEvent(ctx, &iface.EventPubSubJoin{Topic: d.addr, Peer: w.net.ids[q]})
		var m *Msg
		deadline := time.Now().Add(2 * time.Second)
		for m == nil && time.Now().Before(deadline) {
			for _, x := range w.net.Sent(before) {
				if x.Kind == "dc" && x.From == p && x.To == q {
					m = x
				}
			}
			if m == nil {
				time.Sleep(200 * time.Microsecond)
			}
		}
		if m != nil {
			msgs = append(msgs, sent{k: k, msg: m})
		}
	}
	for i := range msgs {
		// (declares the entries of the messages, in order, before anything is delivered)
		w.switchDB(msgs[i].k)
		msgs[i].addr, msgs[i].heads = w.msgHeads(msgs[i].msg)
	}
	// all payloads at once, then one barrier
	w.net.mu.Lock()
	em := w.net.emit[q]
	w.net.mu.Unlock()
	bus := w.peers[q].odb.EventBus()
	sub, err := bus.Subscribe(new(baseorbitdb.EventExchangeHeads), eventbus.BufSize(256))
	if err != nil {
		panic(err)
	}
	w.barrierSeq++
	barrierID := peer.ID(fmt.Sprintf("verif-barrier-%d", w.barrierSeq))
	go func() {
		for _, sm := range msgs {
			_ = em.Emit(&iface.EventPubSubPayload{Payload: sm.msg.Payload, Peer: w.net.ids[p]})
		}
		_ = em.Emit(&iface.EventPubSubPayload{Payload: barrierPayload(w.dbs[0].addr), Peer: barrierID})
	}()
	ok := false
	deadline := time.After(w.quiesceTimeout)
loop:
	for {
		select {
		case e := <-sub.Out():
			if ev, isEv := e.(baseorbitdb.EventExchangeHeads); isEv && ev.Peer == barrierID {
				ok = true
				break loop
			}
		case <-deadline:
			break loop
		}
	}
	sub.Close()
	for _, sm := range msgs {
		w.switchDB(sm.k)
		w.printf("op usedb %d\n", sm.k)
		w.printf("op exchange %d %d\n", p, q)
		w.printf("msg m%d from=%d addr=%s heads=%s\n", sm.msg.Seq, p, sm.addr, sm.heads)
		s := w.stores[q]
		qok := w.quiesce(s) && ok
		w.flushLoadEnds(q, s)
		w.printf("delivered %d quiesce=%v\n", q, qok)
		// what the sender's database held and what the receiver's now lists
		w.printf("burst %d db=%d from=%d sender=%s receiver=%s\n", q, sm.k, p,
			w.names2(w.dbs[sm.k].stores[p].OpLog().Values().Slice()), w.names2(s.OpLog().Values().Slice()))
	}
	w.switchDB(cur)
	w.printf("op usedb %d\n", cur)
	w.printf("op exchangeall-done\n")
}

// observeDB is observe() with the database index and the store-event counters for that database.
func (w *World) observeDB(p, k int) {
	s, ok := w.stores[p]
	if !ok {
		w.printf("obs %d db=%d closed\n", p, k)
		return
	}
	ev := "-"
	if c, ok := w.evc[p]; ok {
		ev = c.get(s.Address().String())
	}
	w.obsSuffix = fmt.Sprintf(" db=%d events=%s", k, ev)
	if c, ok := w.evc[p]; ok {
		if o := c.get("noaddr"); o != "" && o != "-" {
			w.obsSuffix += " orphan=" + o
		}
	}
	w.observe(p)
	w.obsSuffix = ""
}

var _ event.Subscription
