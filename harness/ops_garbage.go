package main

// Malformed network messages (C12): arbitrary bytes delivered on the database's pubsub topic or as a
// direct-channel payload. The process must not panic (a panic in a store goroutine kills the harness
// process: the check attributes the crash to the scenario that was running), later valid messages must
// still be handled, and no database's contents may change.

import (
	"context"
	"encoding/json"
	"fmt"
	"math/rand"
	"strings"

	"berty.tech/go-orbit-db/iface"
)

// garbage q route=pub|dc kind=<k> [seed=<n>] [from=<p>]
func (w *World) garbage(ctx context.Context, toks []string) {
	q := atoi(toks[1])
	a := kvArgs(toks[2:])
	w.blocks.mu.Lock()
	w.blocks.NotFoundFast = true
	w.blocks.mu.Unlock()
	payload := w.garbagePayload(a)
	w.printf("bytes %d len=%d head=%s\n", q, len(payload), hx(payload[:min(len(payload), 48)]))
	w.out.Flush() // the next step may kill the process
	switch a["route"] {
	case "dc":
		from := 0
		if f, ok := a["from"]; ok {
			from = atoi(f)
		}
		w.deliverDC(ctx, q, from, payload)
	default:
		t := w.net.topicOf(q, w.dbAddr)
		if t == nil {
			w.printf("delivered %d nosub\n", q)
			return
		}
		ok := t.deliverMsg(ctx, payload, barrierPayload(w.dbAddr))
		ok = w.quiesce(w.stores[q]) && ok
		w.flushLoadEnds(q, w.stores[q])
		w.printf("delivered %d quiesce=%v\n", q, ok)
	}
}

func min(a, b int) int {
	if a < b {
		return a
	}
	return b
}

// a real message carrying peer p's current heads
func (w *World) realMessage(p int) []byte {
	msg := &iface.MessageExchangeHeads{Address: w.dbAddr}
	if s, ok := w.stores[p]; ok {
		for _, h := range s.OpLog().Heads().Slice() {
			msg.Heads = append(msg.Heads, asEntry(h))
		}
	}
	b, _ := json.Marshal(msg)
	return b
}

func (w *World) garbagePayload(a map[string]string) []byte {
	seed := int64(1)
	if s, ok := a["seed"]; ok {
		seed = int64(atoi(s))
	}
	r := rand.New(rand.NewSource(seed))
	src := 0
	if s, ok := a["src"]; ok {
		src = atoi(s)
	}
	real := w.realMessage(src)
	addr, _ := json.Marshal(w.dbAddr)
	wrap := func(heads string) []byte { return []byte(fmt.Sprintf(`{"address":%s,"heads":%s}`, addr, heads)) }
	switch a["kind"] {
	case "random":
		b := make([]byte, r.Intn(200))
		r.Read(b)
		return b
	case "empty":
		return []byte{}
	case "nullheads":
		return wrap(`[null]`)
	case "emptyobj":
		return wrap(`[{}]`)
	case "nullmix":
		return wrap(`[null,{},null]`)
	case "illtyped":
		return [][]byte{wrap(`"x"`), wrap(`5`), wrap(`{"a":1}`), wrap(`[1,2]`), wrap(`[[]]`), []byte(`[]`), []byte(`"s"`), []byte(`{"address":5,"heads":[]}`), []byte(`{"heads":[{"hash":5}]}`)}[r.Intn(9)]
	case "truncated":
		if len(real) < 2 {
			return real
		}
		return real[:1+r.Intn(len(real)-1)]
	case "flip":
		b := append([]byte(nil), real...)
		if len(b) > 0 {
			for n := 1 + r.Intn(3); n > 0; n-- {
				b[r.Intn(len(b))] ^= byte(1 << uint(r.Intn(8)))
			}
		}
		return b
	case "dropfield":
		// remove one (or more) fields from the first head of a real message
		var m map[string]interface{}
		if json.Unmarshal(real, &m) != nil {
			return real
		}
		hs, _ := m["heads"].([]interface{})
		if len(hs) == 0 {
			return wrap(`[{}]`)
		}
		h, _ := hs[0].(map[string]interface{})
		fields := []string{"identity", "clock", "hash", "next", "refs", "key", "sig", "payload", "id", "v"}
		drop := a["fields"]
		if drop == "" {
			drop = fields[r.Intn(len(fields))]
		}
		for _, f := range strings.Split(drop, "+") {
			switch {
			case strings.HasPrefix(f, "null:"):
				h[f[5:]] = nil
			case strings.HasPrefix(f, "identity."):
				if id, ok := h["identity"].(map[string]interface{}); ok {
					delete(id, f[9:])
				}
			case strings.HasPrefix(f, "clock."):
				if c, ok := h["clock"].(map[string]interface{}); ok {
					delete(c, f[6:])
				}
			default:
				delete(h, f)
			}
		}
		b, _ := json.Marshal(m)
		return b
	case "wronghash":
		// a real message whose first head claims another address: every signed field is intact (the
		// signature does not cover the hash), so it passes the access and signature checks and fails the
		// hash check: Sync refuses the message as a whole with an error
		var m map[string]interface{}
		if json.Unmarshal(real, &m) != nil {
			return real
		}
		hs, _ := m["heads"].([]interface{})
		if len(hs) == 0 {
			return wrap(`[{}]`)
		}
		if h, ok := hs[0].(map[string]interface{}); ok {
			h["hash"] = map[string]interface{}{"/": "zdpuAuK3BHpS7NvMBivynypqciYCuy2UW77XYBPUYRnLjnw13"}
		}
		b, _ := json.Marshal(m)
		return b
	case "wrongaddr":
		var m map[string]interface{}
		_ = json.Unmarshal(real, &m)
		m["address"] = "/orbitdb/zdpuAuK3BHpS7NvMBivynypqciYCuy2UW77XYBPUYRnLjnw13/nothing"
		b, _ := json.Marshal(m)
		return b
	case "deep":
		return []byte(strings.Repeat("[", 2000) + strings.Repeat("]", 2000))
	case "valid":
		return real
	}
	return []byte("?")
}

func (w *World) execGarbageOp(ctx context.Context, toks []string) (bool, error) {
	if toks[0] == "garbage" {
		w.garbage(ctx, toks)
		return true, nil
	}
	return false, nil
}
