package main

// Addresses (C14): DetermineAddress / Create / Open / Parse on names from a grammar.

import (
	ipfsac "berty.tech/go-orbit-db/accesscontroller/ipfs"
	"time"
	"context"
	"fmt"
	"path"
	"sort"
	"strings"

	orbitdb "berty.tech/go-orbit-db"
	"berty.tech/go-orbit-db/accesscontroller"
	"berty.tech/go-orbit-db/address"
	"berty.tech/go-orbit-db/iface"
)

func (w *World) rootName(c string) string {
	if w.roots == nil {
		w.roots = map[string]int{}
	}
	if n, ok := w.roots[c]; ok {
		return fmt.Sprintf("r%d", n)
	}
	w.roots[c] = len(w.roots) + 1
	return fmt.Sprintf("r%d", len(w.roots))
}

// substitute @rN (a root seen before) inside a name
func (w *World) expandName(hexName string) string {
	name := string(unhx(hexName))
	for c, n := range w.roots {
		name = strings.ReplaceAll(name, fmt.Sprintf("@r%d@", n), c)
	}
	return name
}

func storeTypeOf(kind string) string {
	switch kind {
	case "kv":
		return "keyvalue"
	case "doc":
		return "docstore"
	case "log":
		return "eventlog"
	}
	return kind
}

func (w *World) aclOf(s string) []string {
	if s == "*" {
		return []string{"*"}
	}
	var out []string
	for _, i := range ints(s) {
		out = append(out, w.peers[i].identity.ID)
	}
	return out
}

// maskRoots writes every known root CID as its placeholder @rN@
func (w *World) maskRoots(s string) string {
	for c, n := range w.roots {
		s = strings.ReplaceAll(s, c, fmt.Sprintf("@r%d@", n))
	}
	return s
}

func (w *World) addrLine(tag string, p int, a address.Address, err error) {
	if err != nil {
		w.printf("%s %d err\n", tag, p)
		return
	}
	root := w.rootName(a.GetRoot().String())
	w.printf("%s %d root=%s path=%s str=%s\n", tag, p, root, hx([]byte(w.maskRoots(a.GetPath()))), hx([]byte(w.maskRoots(a.String()))))
}

// dbOpts returns the options value for a create/open by peer p: a fresh one, or — in scenarios with
// reuse=1 — the one value this peer passes to every call (a caller keeping its options around), with
// the fields the operations set explicitly cleared.
func (w *World) dbOpts(p int) *orbitdb.CreateDBOptions {
	if !w.reuseOpts {
		return &orbitdb.CreateDBOptions{}
	}
	if w.peerOpts == nil {
		w.peerOpts = map[int]*orbitdb.CreateDBOptions{}
	}
	o := w.peerOpts[p]
	if o == nil {
		o = &orbitdb.CreateDBOptions{}
		w.peerOpts[p] = o
	}
	o.AccessController = nil
	o.Overwrite = nil
	o.LocalOnly = nil
	o.Create = nil
	o.StoreType = nil
	o.Directory = nil
	return o
}

func (w *World) execAddrOp(ctx context.Context, toks []string) (bool, error) {
	switch toks[0] {
	case "detaddr":
		// detaddr p <namehex> <kind> <acl|default>
		p := atoi(toks[1])
		name := w.expandName(toks[2])
		opts := &orbitdb.DetermineAddressOptions{}
		if toks[4] != "default" {
			opts.AccessController = aclParams(w.aclOf(toks[4]))
		}
		a, err := w.peers[p].odb.DetermineAddress(ctx, name, storeTypeOf(toks[3]), opts)
		w.addrLine("addr", p, a, err)
	case "pathjoin":
		// pathjoin <namehex> : Go's path.Join("/orbitdb", "ROOT", name), for the differential test of the Lean model
		w.printf("joined %s\n", hx([]byte(path.Join("/orbitdb", "ROOT", string(unhx(toks[1]))))))
	case "createdb":
		// createdb p <namehex> <kind> <acl|default> [overwrite]
		p := atoi(toks[1])
		name := w.expandName(toks[2])
		opts := w.dbOpts(p)
		if toks[4] != "default" {
			opts.AccessController = aclParams(w.aclOf(toks[4]))
		}
		if len(toks) > 5 && toks[5] == "overwrite" {
			t := true
			opts.Overwrite = &t
		}
		if toks[len(toks)-1] == "dir=alt" {
			// a per-database directory: the store's cache lives there; whether the database exists
			// locally is still recorded with the instance
			dir := fmt.Sprintf("mem-alt-%d", p)
			opts.Directory = &dir
		}
		s, err := w.peers[p].odb.Create(ctx, name, storeTypeOf(toks[3]), opts)
		if err != nil {
			w.printf("created %d err\n", p)
			return true, nil
		}
		w.describeStore("created", p, s)
		w.lastAddr = s.Address().String()
		w.lastStore = s
		w.extraStores = append(w.extraStores, s)
	case "reuseopts":
		// reuseopts p <namehex> <kind> : ONE options value, used first for Open(name, Create: true) — "open
		// or create" — and then for a plain Create of the same name: the caller never asked to overwrite,
		// the second call is over an existing local database and must be refused
		p := atoi(toks[1])
		name := w.expandName(toks[2]) + "-reused-options"
		opts := w.dbOpts(p)
		t := true
		st := storeTypeOf(toks[3])
		opts.Create = &t
		opts.StoreType = &st
		first, second := "err", "err"
		if s1, err := w.peers[p].odb.Open(ctx, name, opts); err == nil {
			first = "ok"
			_ = s1.Close()
		}
		if s2, err := w.peers[p].odb.Create(ctx, name, st, opts); err == nil {
			second = "ok"
			_ = s2.Close()
		}
		ow := "unset"
		if opts.Overwrite != nil {
			ow = fmt.Sprint(*opts.Overwrite)
		}
		w.printf("reuseopts %d first=%s second=%s overwrite=%s\n", p, first, second, ow)
	case "reuseac":
		// reuseac p q <namehex> <kind> : ONE (empty) access controller parameters value, handed first to
		// peer p's DetermineAddress and then to peer q's Create of another name: with no write list given the
		// creator's own id is the default — q's, not the id p's call left behind in the shared value
		p, q := atoi(toks[1]), atoi(toks[2])
		base := w.expandName(toks[3])
		st := storeTypeOf(toks[4])
		ac := accesscontroller.NewEmptyManifestParams()
		first, second, wl := "err", "err", "-"
		if _, err := w.peers[p].odb.DetermineAddress(ctx, base+"-shared-ac-a", st, &orbitdb.DetermineAddressOptions{AccessController: ac}); err == nil {
			first = "ok"
		}
		if s2, err := w.peers[q].odb.Create(ctx, base+"-shared-ac-b", st, &orbitdb.CreateDBOptions{AccessController: ac}); err == nil {
			second = "ok"
			ids, _ := s2.AccessController().GetAuthorizedByRole("write")
			var ws []string
			for _, id := range ids {
				if id == "*" {
					ws = append(ws, "*")
				} else {
					ws = append(ws, fmt.Sprint(w.peerOfIdentID(id)))
				}
			}
			sort.Strings(ws)
			wl = joinOrDash(ws)
			_ = s2.Close()
		}
		left := "-"
		if ac.GetName() != "" || ac.GetType() != "" || len(ac.GetAllAccess()) != 0 {
			left = hx([]byte(fmt.Sprintf("name=%q type=%q access=%d", ac.GetName(), ac.GetType(), len(ac.GetAllAccess()))))
		}
		w.printf("reuseac %d %d first=%s second=%s write=%s left=%s\n", p, q, first, second, wl, left)
	case "reusefront":
		// reusefront p <namehex> <kind> : ONE options value, handed first to the typed front end (Log,
		// KeyValue, Docs: "open or create" of that type) and then to a plain Open of a name that was never
		// created: the caller never set Create, the open of an unknown name must be refused
		p := atoi(toks[1])
		base := w.expandName(toks[2])
		opts := w.dbOpts(p)
		first, second := "err", "err"
		var s1 iface.Store
		var err error
		switch toks[3] {
		case "kv":
			s1, err = w.peers[p].odb.KeyValue(ctx, base+"-front", opts)
		case "doc":
			s1, err = w.peers[p].odb.Docs(ctx, base+"-front", opts)
		default:
			s1, err = w.peers[p].odb.Log(ctx, base+"-front", opts)
		}
		if err == nil {
			first = "ok"
			_ = s1.Close()
		}
		if s2, err := w.peers[p].odb.Open(ctx, base+"-front-never-created", opts); err == nil {
			second = "ok"
			_ = s2.Close()
		}
		cr := "unset"
		if opts.Create != nil {
			cr = fmt.Sprint(*opts.Create)
		}
		w.printf("reusefront %d first=%s second=%s create=%s\n", p, first, second, cr)
	case "openaddr":
		// openaddr p <strhex with @rN@> [localonly]
		p := atoi(toks[1])
		addr := w.expandName(toks[2])
		opts := w.dbOpts(p)
		if len(toks) > 3 && toks[3] == "localonly" {
			t := true
			opts.LocalOnly = &t
		}
		s, err := w.peers[p].odb.Open(ctx, addr, opts)
		if err != nil {
			w.printf("opened %d err\n", p)
			return true, nil
		}
		w.describeStore("opened", p, s)
		w.extraStores = append(w.extraStores, s)
	case "openlast", "parselast":
		// the address of the last successfully created database of this scenario
		if w.lastAddr == "" {
			w.printf("nolast\n")
			return true, nil
		}
		if toks[0] == "parselast" {
			a, err := address.Parse(w.lastAddr)
			w.addrLine("parsed", 0, a, err)
			return true, nil
		}
		p := atoi(toks[1])
		opts := w.dbOpts(p)
		if len(toks) > 2 && toks[2] == "localonly" {
			t := true
			opts.LocalOnly = &t
		}
		// blind=actype|aclist : the access controller of the database cannot be resolved by this instance
		// at this moment (its type is not registered here / its write-list block cannot be fetched): the
		// open must be refused, never answered with a store under some other write list
		undo := func() {}
		octx := ctx
		switch toks[len(toks)-1] {
		case "blind=actype":
			if w.lastStore != nil {
				ty := w.lastStore.AccessController().Type()
				odb := w.peers[p].odb
				odb.UnregisterAccessControllerType(ty)
				undo = func() { _ = odb.RegisterAccessControllerType(ipfsac.NewIPFSAccessController) }
			}
		case "blind=aclist":
			if w.lastStore != nil {
				if params, err := w.lastStore.AccessController().Save(ctx); err == nil && params.GetAddress().Defined() {
					n, holders := w.blocks.Take(params.GetAddress())
					w.blocks.mu.Lock()
					old := w.blocks.FailUnreachable
					w.blocks.FailUnreachable = true
					w.blocks.mu.Unlock()
					var cancel context.CancelFunc
					octx, cancel = context.WithTimeout(ctx, 2*time.Second)
					undo = func() {
						cancel()
						w.blocks.mu.Lock()
						w.blocks.FailUnreachable = old
						w.blocks.mu.Unlock()
						if n != nil {
							w.blocks.Restore(n, holders)
						}
					}
				}
			}
		}
		s, err := w.peers[p].odb.Open(octx, w.lastAddr, opts)
		undo()
		if err != nil {
			w.printf("opened %d err\n", p)
			return true, nil
		}
		w.describeStore("opened", p, s)
		w.extraStores = append(w.extraStores, s)
	case "parseaddr":
		a, err := address.Parse(w.expandName(toks[1]))
		w.addrLine("parsed", 0, a, err)
	case "closeextra":
		for _, s := range w.extraStores {
			_ = s.Close()
			for p := range w.peers {
				w.net.closeTopic(p, s.Address().String())
			}
		}
		w.extraStores = nil
	default:
		return false, nil
	}
	return true, nil
}

func (w *World) describeStore(tag string, p int, s iface.Store) {
	wl, _ := s.AccessController().GetAuthorizedByRole("write")
	var ws []string
	for _, id := range wl {
		if id == "*" {
			ws = append(ws, "*")
		} else {
			ws = append(ws, fmt.Sprint(w.peerOfIdentID(id)))
		}
	}
	sort.Strings(ws)
	a := s.Address()
	root := w.rootName(a.GetRoot().String())
	w.printf("%s %d root=%s path=%s type=%s write=%s str=%s\n", tag, p, root, hx([]byte(w.maskRoots(a.GetPath()))), s.Type(), joinOrDash(ws), hx([]byte(w.maskRoots(a.String()))))
}
