package main

// Scenario generators: PRNG → script (op lines). Every random choice comes from the one *rand.Rand.

import (
	"fmt"
	"math/rand"
	"strings"
)

type Gen struct {
	r     *rand.Rand
	lines []string
}

func (g *Gen) add(format string, a ...interface{}) { g.lines = append(g.lines, fmt.Sprintf(format, a...)) }

func (g *Gen) pick(n int) int { return g.r.Intn(n) }

func joinInts(xs []int) string {
	s := make([]string, len(xs))
	for i, x := range xs {
		s[i] = fmt.Sprint(x)
	}
	return strings.Join(s, ",")
}

// choosePeers picks k distinct peers out of total, in random order.
func (g *Gen) choosePeers(total int) []int {
	k := 1 + g.pick(total)
	if k == 1 && g.pick(3) > 0 && total > 1 {
		k = 2 + g.pick(total-1)
	}
	perm := g.r.Perm(total)
	return perm[:k]
}

var keyPool = [][]byte{[]byte("k"), []byte("K"), []byte("key2"), []byte("é✓"), []byte("a.b"), []byte("x/y"), {}, {0xff, 0x00}, []byte("Key2"), []byte("zz-9")}

func (g *Gen) keys(n int) [][]byte {
	perm := g.r.Perm(len(keyPool))
	var out [][]byte
	for i := 0; i < n; i++ {
		out = append(out, keyPool[perm[i]])
	}
	return out
}

func (g *Gen) value() []byte {
	switch g.pick(6) {
	case 0:
		return []byte{}
	case 1:
		return []byte{byte(g.pick(256))}
	case 2:
		return []byte("v" + fmt.Sprint(g.pick(1000)))
	}
	b := make([]byte, 1+g.pick(6))
	g.r.Read(b)
	return b
}

func (g *Gen) obsAll(peers []int) {
	for _, p := range peers {
		g.add("obs %d", p)
	}
}

func (g *Gen) finalSync(peers []int) {
	for round := 0; round < 2; round++ {
		for _, p := range peers {
			for _, q := range peers {
				if p != q {
					g.add("sync %d %d", p, q)
				}
			}
		}
	}
	g.obsAll(peers)
}

// genKV: key-value histories with interleaved replication, observed after every step on every replica.
func genKV(r *rand.Rand, id string, size int, total int) []string {
	g := &Gen{r: r}
	peers := g.choosePeers(total)
	keys := g.keys(1 + g.pick(4))
	g.add("scn %s kind=kv acl=%s peers=%s", id, joinInts(peers), joinInts(peers))
	steps := 2 + g.pick(size)
	for i := 0; i < steps; i++ {
		p := peers[g.pick(len(peers))]
		c := g.pick(100)
		switch {
		case c < 50 || len(peers) == 1 && c < 75:
			g.add("put %d %s %s", p, hx(keys[g.pick(len(keys))]), hx(g.value()))
		case c < 70 || len(peers) == 1:
			g.add("del %d %s", p, hx(keys[g.pick(len(keys))]))
		default:
			q := peers[g.pick(len(peers))]
			for q == p {
				q = peers[g.pick(len(peers))]
			}
			g.add("sync %d %d", p, q)
		}
		g.obsAll(peers)
	}
	g.finalSync(peers)
	return g.lines
}

// genDoc: document histories mixing Put, PutBatch, PutAll, Delete, then Get/Query combinations.
func genDoc(r *rand.Rand, id string, size int, total int) []string {
	g := &Gen{r: r}
	peers := g.choosePeers(total)
	docKeys := [][]byte{[]byte("doc1"), []byte("Doc1"), []byte("DOC2"), []byte("a-b"), []byte("ab"), []byte("x.y"), []byte("Z9"), []byte("z9!")}
	nk := 2 + g.pick(len(docKeys)-1)
	docKeys = docKeys[:nk]
	g.add("scn %s kind=doc acl=%s peers=%s", id, joinInts(peers), joinInts(peers))
	steps := 2 + g.pick(size)
	batch := func() string {
		n := 1 + g.pick(3)
		var parts []string
		used := map[int]bool{}
		for i := 0; i < n; i++ {
			k := g.pick(len(docKeys))
			if used[k] {
				continue
			}
			used[k] = true
			parts = append(parts, hx(docKeys[k])+":"+hx([]byte(fmt.Sprintf("b%d", g.pick(100)))))
		}
		return strings.Join(parts, ",")
	}
	for i := 0; i < steps; i++ {
		p := peers[g.pick(len(peers))]
		c := g.pick(100)
		switch {
		case c < 30:
			g.add("docput %d %s %s", p, hx(docKeys[g.pick(len(docKeys))]), hx([]byte(fmt.Sprintf("v%d", g.pick(100)))))
		case c < 50:
			g.add("docputall %d %s", p, batch())
		case c < 60:
			g.add("docputbatch %d %s", p, batch())
		case c < 78 || len(peers) == 1:
			g.add("docdel %d %s", p, hx(docKeys[g.pick(len(docKeys))]))
		default:
			q := peers[g.pick(len(peers))]
			for q == p {
				q = peers[g.pick(len(peers))]
			}
			g.add("sync %d %d", p, q)
		}
		g.obsAll(peers)
		if g.pick(4) == 0 {
			g.docQueries(p, docKeys, 2)
		}
	}
	g.finalSync(peers)
	g.docQueries(peers[0], docKeys, 6)
	return g.lines
}

func (g *Gen) docQueries(p int, docKeys [][]byte, n int) {
	searches := [][]byte{[]byte("doc"), []byte("DOC"), []byte("1"), []byte("z9"), []byte("-"), []byte("b"), []byte("nomatch"), {}}
	for i := 0; i < n; i++ {
		var k []byte
		if g.pick(2) == 0 {
			k = docKeys[g.pick(len(docKeys))]
		} else {
			k = searches[g.pick(len(searches))]
		}
		g.add("docget %d %s ci=%d partial=%d", p, hx(k), g.pick(2), g.pick(2))
	}
	preds := []string{"all", "none", "vlen>2", "idhas:" + hx([]byte("oc")), "idhas:" + hx([]byte("9"))}
	g.add("docquery %d %s", p, preds[g.pick(len(preds))])
}

// genLog: event-log histories; listing after every merge; range queries over every bound kind.
func genLog(r *rand.Rand, id string, size int, total int) []string {
	g := &Gen{r: r}
	peers := g.choosePeers(total)
	g.add("scn %s kind=log acl=%s peers=%s", id, joinInts(peers), joinInts(peers))
	steps := 2 + g.pick(size)
	nAdded := 0
	for i := 0; i < steps; i++ {
		p := peers[g.pick(len(peers))]
		if g.pick(100) < 65 || len(peers) == 1 {
			g.add("add %d %s", p, hx(g.value()))
			nAdded++
		} else {
			q := peers[g.pick(len(peers))]
			for q == p {
				q = peers[g.pick(len(peers))]
			}
			g.add("sync %d %d", p, q)
		}
		g.obsAll(peers)
		if g.pick(3) == 0 {
			g.logQueries(p, nAdded, 2)
		}
	}
	g.finalSync(peers)
	g.logQueries(peers[0], nAdded, 8)
	return g.lines
}

// logQueries emits range queries whose bounds are named symbolically (`@k` = the k-th entry of the
// replica's current listing, resolved by the executor), so that bounds are always entries of the log.
func (g *Gen) logQueries(p int, nAdded int, n int) {
	amounts := []string{"unset", "0", "1", "2", "3", fmt.Sprint(nAdded), fmt.Sprint(nAdded + 3), "-1", "-5"}
	kinds := []string{"gt", "gte", "lt", "lte", "none"}
	for i := 0; i < n; i++ {
		k := kinds[g.pick(len(kinds))]
		am := amounts[g.pick(len(amounts))]
		if k == "none" {
			g.add("query %d amount=%s", p, am)
		} else {
			g.add("query %d %s=@%d amount=%s", p, k, g.pick(nAdded+1), am)
		}
	}
	if nAdded > 0 {
		g.add("get %d @%d", p, g.pick(nAdded+1))
	}
}

// genRoutes: the same entries reach replicas by different routes (manual sync, announcements delivered
// late / twice / out of order, head exchange on join, load from the cache after a restart), with link
// cuts and heals; a final phase heals everything and exchanges heads between every ordered pair.
func genRoutes(r *rand.Rand, id string, size int, total int) []string {
	g := &Gen{r: r}
	peers := g.choosePeers(total)
	if len(peers) < 2 {
		peers = g.r.Perm(total)[:2]
	}
	kind := []string{"kv", "log", "doc"}[g.pick(3)]
	keys := g.keys(1 + g.pick(3))
	g.add("scn %s kind=%s acl=%s peers=%s", id, kind, joinInts(peers), joinInts(peers))
	up := map[[2]int]bool{}
	for _, p := range peers {
		for _, q := range peers {
			up[[2]int{p, q}] = true
		}
	}
	other := func(p int) int {
		q := peers[g.pick(len(peers))]
		for q == p {
			q = peers[g.pick(len(peers))]
		}
		return q
	}
	write := func(p int) {
		switch kind {
		case "kv":
			if g.pick(4) == 0 {
				g.add("del %d %s", p, hx(keys[g.pick(len(keys))]))
			} else {
				g.add("put %d %s %s", p, hx(keys[g.pick(len(keys))]), hx(g.value()))
			}
		case "log":
			g.add("add %d %s", p, hx(g.value()))
		case "doc":
			g.add("docput %d %s %s", p, hx([]byte(fmt.Sprintf("d%d", g.pick(3)))), hx([]byte(fmt.Sprintf("v%d", g.pick(50)))))
		}
	}
	steps := 3 + g.pick(size)
	for i := 0; i < steps; i++ {
		p := peers[g.pick(len(peers))]
		q := other(p)
		c := g.pick(100)
		switch {
		case c < 35:
			write(p)
		case c < 47:
			if up[[2]int{p, q}] {
				g.add("sync %d %d", p, q)
			}
		case c < 62:
			if up[[2]int{p, q}] {
				g.add("pubdeliver %d %d %d", q, p, g.pick(50))
			}
		case c < 77:
			if up[[2]int{p, q}] {
				mode := []string{"", "", "", " drop", " dup"}[g.pick(5)]
				g.add("exchange %d %d%s", p, q, mode)
			}
		case c < 85:
			up[[2]int{p, q}], up[[2]int{q, p}] = false, false
			g.add("cut %d %d", p, q)
		case c < 92:
			up[[2]int{p, q}], up[[2]int{q, p}] = true, true
			g.add("heal %d %d", p, q)
		default:
			g.add("restart %d", p)
		}
		g.obsAll(peers)
	}
	for _, p := range peers {
		for _, q := range peers {
			if p < q && !up[[2]int{p, q}] {
				g.add("heal %d %d", p, q)
			}
		}
	}
	for _, p := range peers {
		for _, q := range peers {
			if p != q {
				g.add("exchange %d %d", p, q)
			}
		}
	}
	g.obsAll(peers)
	g.add("final")
	return g.lines
}

// genStatus: replication status sampled mid-flight. Several writers build separate branches; one
// replica is told about their heads one at a time while some fetches are held back at the gate, and is
// observed after every step; then everything is released.
func genStatus(r *rand.Rand, id string, size int, total int) []string {
	g := &Gen{r: r}
	peers := g.r.Perm(total)
	if total > 3 && g.pick(2) == 0 {
		peers = peers[:3]
	}
	obsr := peers[0]
	g.add("scn %s kind=log acl=%s peers=%s", id, joinInts(peers), joinInts(peers))
	// each writer (including the observer) writes its own chain
	type br struct{ p, first, n int }
	var brs []br
	next := 1
	for _, p := range peers {
		n := 1 + g.pick(size)
		if p == obsr {
			n = g.pick(size)
		}
		for i := 0; i < n; i++ {
			g.add("add %d %s", p, hx(g.value()))
		}
		brs = append(brs, br{p, next, n})
		next += n
	}
	g.add("obs %d", obsr)
	var held []string
	order := g.r.Perm(len(brs))
	for _, i := range order {
		b := brs[i]
		if b.p == obsr || b.n == 0 {
			continue
		}
		head := fmt.Sprintf("e%d", b.first+b.n-1)
		if g.pick(3) > 0 {
			// hold the whole branch so only the announcement (not the fetch) has happened
			var names []string
			for k := b.first; k < b.first+b.n; k++ {
				names = append(names, fmt.Sprintf("e%d", k))
			}
			g.add("hold %d %s", obsr, strings.Join(names, ","))
			held = append(held, strings.Join(names, ","))
			g.add("syncasync %d heads=%s", obsr, head)
			g.add("waitget %d %s", obsr, head)
		} else {
			g.add("syncasync %d heads=%s", obsr, head)
			if len(held) > 0 {
				g.add("settle %d 20", obsr)
			} else {
				g.add("settle %d", obsr)
			}
		}
		g.add("obs %d", obsr)
		if g.pick(3) == 0 {
			g.add("add %d %s", obsr, hx(g.value()))
			g.add("obs %d", obsr)
		}
	}
	for _, h := range held {
		g.add("release %d %s", obsr, h)
	}
	g.add("settle %d", obsr)
	g.add("obs %d", obsr)
	return g.lines
}
