package main

// Scenario generators: PRNG → script (op lines). Every random choice comes from the one *rand.Rand.

import (
	"encoding/hex"
	"fmt"
	"math/rand"
	"strings"
)

type Gen struct {
	r     *rand.Rand
	lines []string
}

func (g *Gen) add(format string, a ...interface{}) {
	g.lines = append(g.lines, fmt.Sprintf(format, a...))
}

func (g *Gen) pick(n int) int { return g.r.Intn(n) }

func joinInts(xs []int) string {
	s := make([]string, len(xs))
	for i, x := range xs {
		s[i] = fmt.Sprint(x)
	}
	return strings.Join(s, ",")
}

// choosePeers picks k distinct peers out of total, in random order.
func (g *Gen) choosePeers(total int) []int {
	k := 1 + g.pick(total)
	if k == 1 && g.pick(3) > 0 && total > 1 {
		k = 2 + g.pick(total-1)
	}
	perm := g.r.Perm(total)
	return perm[:k]
}

var keyPool = [][]byte{[]byte("k"), []byte("K"), []byte("key2"), []byte("é✓"), []byte("a.b"), []byte("x/y"), {}, {0xff, 0x00}, []byte("Key2"), []byte("zz-9")}

func (g *Gen) keys(n int) [][]byte {
	perm := g.r.Perm(len(keyPool))
	var out [][]byte
	for i := 0; i < n; i++ {
		out = append(out, keyPool[perm[i]])
	}
	return out
}

func (g *Gen) value() []byte {
	switch g.pick(6) {
	case 0:
		return []byte{}
	case 1:
		return []byte{byte(g.pick(256))}
	case 2:
		return []byte("v" + fmt.Sprint(g.pick(1000)))
	}
	b := make([]byte, 1+g.pick(6))
	g.r.Read(b)
	return b
}

func (g *Gen) obsAll(peers []int) {
	for _, p := range peers {
		g.add("obs %d", p)
	}
}

func (g *Gen) finalSync(peers []int) {
	for round := 0; round < 2; round++ {
		for _, p := range peers {
			for _, q := range peers {
				if p != q {
					g.add("sync %d %d", p, q)
				}
			}
		}
	}
	g.obsAll(peers)
}

// genKV: key-value histories with interleaved replication, observed after every step on every replica.
func genKV(r *rand.Rand, id string, size int, total int) []string {
	g := &Gen{r: r}
	peers := g.choosePeers(total)
	keys := g.keys(1 + g.pick(4))
	g.add("scn %s kind=kv acl=%s peers=%s%s", id, joinInts(peers), joinInts(peers), g.acFlag())
	steps := 2 + g.pick(size)
	for i := 0; i < steps; i++ {
		p := peers[g.pick(len(peers))]
		c := g.pick(100)
		switch {
		case c < 50 || len(peers) == 1 && c < 75:
			g.add("put %d %s %s", p, hx(keys[g.pick(len(keys))]), hx(g.value()))
		case c < 70 || len(peers) == 1:
			g.add("del %d %s", p, hx(keys[g.pick(len(keys))]))
		default:
			q := peers[g.pick(len(peers))]
			for q == p {
				q = peers[g.pick(len(peers))]
			}
			g.syncMaybeFailing(p, q)
		}
		g.obsAll(peers)
	}
	g.finalSync(peers)
	return g.lines
}

// genDoc: document histories mixing Put, PutBatch, PutAll, Delete, then Get/Query combinations.
func genDoc(r *rand.Rand, id string, size int, total int) []string {
	g := &Gen{r: r}
	peers := g.choosePeers(total)
	docKeys := [][]byte{[]byte("doc1"), []byte("Doc1"), []byte("DOC2"), []byte("a-b"), []byte("ab"), []byte("x.y"), []byte("Z9"), []byte("z9!")}
	nk := 2 + g.pick(len(docKeys)-1)
	docKeys = docKeys[:nk]
	g.add("scn %s kind=doc acl=%s peers=%s%s", id, joinInts(peers), joinInts(peers), g.acFlag())
	steps := 2 + g.pick(size)
	batch := func() string {
		n := 1 + g.pick(3)
		var parts []string
		used := map[int]bool{}
		for i := 0; i < n; i++ {
			k := g.pick(len(docKeys))
			if used[k] {
				continue
			}
			used[k] = true
			parts = append(parts, hx(docKeys[k])+":"+hx([]byte(fmt.Sprintf("b%d", g.pick(100)))))
		}
		return strings.Join(parts, ",")
	}
	for i := 0; i < steps; i++ {
		p := peers[g.pick(len(peers))]
		c := g.pick(100)
		switch {
		case c < 30:
			g.add("docput %d %s %s", p, hx(docKeys[g.pick(len(docKeys))]), hx([]byte(fmt.Sprintf("v%d", g.pick(100)))))
		case c < 50:
			g.add("docputall %d %s", p, batch())
		case c < 60:
			g.add("docputbatch %d %s", p, batch())
		case c < 78 || len(peers) == 1:
			g.add("docdel %d %s", p, hx(docKeys[g.pick(len(docKeys))]))
		default:
			q := peers[g.pick(len(peers))]
			for q == p {
				q = peers[g.pick(len(peers))]
			}
			g.syncMaybeFailing(p, q)
		}
		g.obsAll(peers)
		if g.pick(4) == 0 {
			g.docQueries(p, docKeys, 2)
		}
		if g.pick(10) == 0 {
			// a batch put lands while a Query of this replica is reading
			g.add("doctorn %d", p)
			g.obsAll(peers)
		}
	}
	g.finalSync(peers)
	g.docQueries(peers[0], docKeys, 6)
	return g.lines
}

func (g *Gen) docQueries(p int, docKeys [][]byte, n int) {
	searches := [][]byte{[]byte("doc"), []byte("DOC"), []byte("1"), []byte("z9"), []byte("-"), []byte("b"), []byte("nomatch"), {}}
	for i := 0; i < n; i++ {
		var k []byte
		if g.pick(2) == 0 {
			k = docKeys[g.pick(len(docKeys))]
		} else {
			k = searches[g.pick(len(searches))]
		}
		g.add("docget %d %s ci=%d partial=%d", p, hx(k), g.pick(2), g.pick(2))
	}
	preds := []string{"all", "none", "vlen>2", "idhas:" + hx([]byte("oc")), "idhas:" + hx([]byte("9"))}
	g.add("docquery %d %s", p, preds[g.pick(len(preds))])
}

// genLog: event-log histories; listing after every merge; range queries over every bound kind.
func genLog(r *rand.Rand, id string, size int, total int) []string {
	g := &Gen{r: r}
	peers := g.choosePeers(total)
	g.add("scn %s kind=log acl=%s peers=%s%s", id, joinInts(peers), joinInts(peers), g.acFlag())
	steps := 2 + g.pick(size)
	nAdded := 0
	for i := 0; i < steps; i++ {
		p := peers[g.pick(len(peers))]
		if g.pick(100) < 65 || len(peers) == 1 {
			g.add("add %d %s", p, hx(g.value()))
			nAdded++
		} else {
			q := peers[g.pick(len(peers))]
			for q == p {
				q = peers[g.pick(len(peers))]
			}
			g.add("sync %d %d", p, q)
		}
		g.obsAll(peers)
		if g.pick(3) == 0 {
			g.logQueries(p, nAdded, 2)
		}
	}
	g.finalSync(peers)
	g.logQueries(peers[0], nAdded, 8)
	return g.lines
}

// logQueries emits range queries whose bounds are named symbolically (`@k` = the k-th entry of the
// replica's current listing, resolved by the executor), so that bounds are always entries of the log.
func (g *Gen) logQueries(p int, nAdded int, n int) {
	// (the integer boundaries are amounts too: "no limit" is written MaxInt by some callers)
	amounts := []string{"unset", "0", "1", "2", "3", fmt.Sprint(nAdded), fmt.Sprint(nAdded + 3), "-1", "-5",
		"9223372036854775807", "9223372036854775806", "2147483647", "2147483648", "-9223372036854775808", "4611686018427387904"}
	kinds := []string{"gt", "gte", "lt", "lte", "none"}
	for i := 0; i < n; i++ {
		k := kinds[g.pick(len(kinds))]
		am := amounts[g.pick(len(amounts))]
		if k == "none" {
			g.add("query %d amount=%s", p, am)
		} else {
			g.add("query %d %s=@%d amount=%s", p, k, g.pick(nAdded+1), am)
		}
	}
	if nAdded > 0 {
		g.add("get %d @%d", p, g.pick(nAdded+1))
	}
}

// genRoutes: the same entries reach replicas by different routes (manual sync, announcements delivered
// late / twice / out of order, head exchange on join, load from the cache after a restart), with link
// cuts and heals; a final phase heals everything and exchanges heads between every ordered pair.
func genRoutes(r *rand.Rand, id string, size int, total int) []string {
	g := &Gen{r: r}
	peers := g.choosePeers(total)
	if len(peers) < 2 {
		peers = g.r.Perm(total)[:2]
	}
	kind := []string{"kv", "log", "doc"}[g.pick(3)]
	keys := g.keys(1 + g.pick(3))
	// in a third of the scenarios a block that no connected peer holds is "not found" at once (instead
	// of the fetch waiting for a provider), and announcements still get through a cut link (relayed by
	// the rest of the mesh): replicas then hold heads whose ancestors they failed to fetch
	failfast := g.pick(3) == 0
	if failfast {
		g.add("scn %s kind=%s acl=%s peers=%s unreach=fail%s", id, kind, joinInts(peers), joinInts(peers), g.psFlag())
	} else {
		g.add("scn %s kind=%s acl=%s peers=%s%s", id, kind, joinInts(peers), joinInts(peers), g.psFlag())
	}
	up := map[[2]int]bool{}
	for _, p := range peers {
		for _, q := range peers {
			up[[2]int{p, q}] = true
		}
	}
	allUp := func(p int) bool {
		for _, q := range peers {
			if !up[[2]int{p, q}] {
				return false
			}
		}
		return true
	}
	other := func(p int) int {
		q := peers[g.pick(len(peers))]
		for q == p {
			q = peers[g.pick(len(peers))]
		}
		return q
	}
	write := func(p int) {
		switch kind {
		case "kv":
			if g.pick(4) == 0 {
				g.add("del %d %s", p, hx(keys[g.pick(len(keys))]))
			} else {
				g.add("put %d %s %s", p, hx(keys[g.pick(len(keys))]), hx(g.value()))
			}
		case "log":
			g.add("add %d %s", p, hx(g.value()))
		case "doc":
			g.add("docput %d %s %s", p, hx([]byte(fmt.Sprintf("d%d", g.pick(3)))), hx([]byte(fmt.Sprintf("v%d", g.pick(50)))))
		}
	}
	steps := 3 + g.pick(size)
	for i := 0; i < steps; i++ {
		p := peers[g.pick(len(peers))]
		q := other(p)
		c := g.pick(100)
		switch {
		case c < 35:
			write(p)
		case c < 47:
			if up[[2]int{p, q}] {
				g.add("sync %d %d", p, q)
			}
		case c < 62:
			if up[[2]int{p, q}] || (failfast && g.pick(2) == 0) {
				g.add("pubdeliver %d %d %d", q, p, g.pick(50))
			}
		case c < 77:
			if up[[2]int{p, q}] {
				mode := []string{"", "", "", " drop", " dup"}[g.pick(5)]
				g.add("exchange %d %d%s", p, q, mode)
			}
		case c < 85:
			up[[2]int{p, q}], up[[2]int{q, p}] = false, false
			g.add("cut %d %d", p, q)
		case c < 92:
			up[[2]int{p, q}], up[[2]int{q, p}] = true, true
			g.add("heal %d %d", p, q)
		default:
			// (with failing lookups a reload is only comparable when every provider is reachable)
			if !failfast || allUp(p) {
				g.add("restart %d", p)
			}
		}
		g.obsAll(peers)
	}
	for _, p := range peers {
		for _, q := range peers {
			if p < q && !up[[2]int{p, q}] {
				g.add("heal %d %d", p, q)
			}
		}
	}
	for _, p := range peers {
		for _, q := range peers {
			if p != q {
				g.add("exchange %d %d", p, q)
			}
		}
	}
	g.obsAll(peers)
	g.add("final")
	return g.lines
}

// genReload: writers that keep writing across restarts. In every round one replica receives from a
// neighbour (by Sync, announcement or exchange), writes, is restarted (new instance, same keystore and
// cache, Load), writes again, and then exchanges with the others in both directions — so entries made
// before and after a reload meet on every replica in different arrival orders.
func genReload(r *rand.Rand, id string, size int, total int) []string {
	g := &Gen{r: r}
	peers := g.r.Perm(total)[:2+g.pick(2)]
	kind := []string{"kv", "log", "doc"}[g.pick(3)]
	keys := g.keys(1 + g.pick(2))
	sortfn := ""
	if g.pick(3) == 0 {
		sortfn = " sortfn=revtie"
	}
	g.add("scn %s kind=%s acl=%s peers=%s%s%s", id, kind, joinInts(peers), joinInts(peers), sortfn, g.psFlag())
	write := func(p int) {
		switch kind {
		case "kv":
			g.add("put %d %s %s", p, hx(keys[g.pick(len(keys))]), hx(g.value()))
		case "log":
			g.add("add %d %s", p, hx(g.value()))
		case "doc":
			g.add("docput %d %s %s", p, hx([]byte(fmt.Sprintf("d%d", g.pick(3)))), hx([]byte(fmt.Sprintf("v%d", g.pick(50)))))
		}
	}
	deliver := func(to, from int) {
		switch g.pick(3) {
		case 0:
			g.add("sync %d %d", to, from)
		case 1:
			g.add("exchange %d %d", from, to)
		default:
			g.add("sync %d %d", to, from)
		}
	}
	rounds := 1 + g.pick(1+size/4)
	for i := 0; i < rounds; i++ {
		p := peers[g.pick(len(peers))]
		q := peers[g.pick(len(peers))]
		for q == p {
			q = peers[g.pick(len(peers))]
		}
		for k := g.pick(3); k > 0; k-- {
			write(q)
		}
		if g.pick(4) != 0 {
			deliver(p, q)
		}
		for k := g.pick(3); k > 0; k-- {
			write(p)
		}
		orphan := false
		if kind == "log" && g.pick(3) == 0 {
			// a device error on the head write: the write must NOT be acknowledged (its entry is in
			// the log but nothing durable points to it); whatever is acknowledged must come back
			g.add("failput %d", p)
			write(p)
			if g.pick(2) == 0 {
				write(p) // a later successful write names the orphan as its parent: it is covered again
			} else {
				orphan = true // the entry of the failed write lives in memory only: it must not travel
			}
		}
		if g.pick(3) == 0 && !orphan {
			deliver(q, p)
		}
		g.add("obs %d", p)
		if g.pick(4) == 0 {
			// a reload whose context has already ended must say that it loaded nothing (F32)
			g.add("restart %d ctx=cancelled", p)
			g.add("obs %d", p)
		}
		g.add("restart %d", p)
		g.add("obs %d", p)
		for k := g.pick(3); k > 0; k-- {
			write(p)
		}
		if g.pick(2) == 0 {
			write(q)
		}
		deliver(p, q)
		deliver(q, p)
		g.obsAll(peers)
	}
	for _, p := range peers {
		for _, q := range peers {
			if p != q {
				g.add("exchange %d %d", p, q)
			}
		}
	}
	g.obsAll(peers)
	g.add("final")
	return g.lines
}

// genStatus: replication status sampled mid-flight. Several writers build separate branches; one
// replica is told about their heads one at a time while some fetches are held back at the gate, and is
// observed after every step; then everything is released.
func genStatus(r *rand.Rand, id string, size int, total int) []string {
	g := &Gen{r: r}
	peers := g.r.Perm(total)
	if total > 3 && g.pick(2) == 0 {
		peers = peers[:3]
	}
	obsr := peers[0]
	g.add("scn %s kind=log acl=%s peers=%s", id, joinInts(peers), joinInts(peers))
	// each writer (including the observer) writes its own chain
	type br struct{ p, first, n int }
	var brs []br
	next := 1
	for _, p := range peers {
		n := 1 + g.pick(size)
		if p == obsr {
			n = g.pick(size)
		}
		for i := 0; i < n; i++ {
			g.add("add %d %s", p, hx(g.value()))
		}
		brs = append(brs, br{p, next, n})
		next += n
	}
	g.add("obs %d", obsr)
	var held []string
	order := g.r.Perm(len(brs))
	for _, i := range order {
		b := brs[i]
		if b.p == obsr || b.n == 0 {
			continue
		}
		head := fmt.Sprintf("e%d", b.first+b.n-1)
		if g.pick(3) > 0 {
			// hold the whole branch so only the announcement (not the fetch) has happened
			var names []string
			for k := b.first; k < b.first+b.n; k++ {
				names = append(names, fmt.Sprintf("e%d", k))
			}
			g.add("hold %d %s", obsr, strings.Join(names, ","))
			held = append(held, strings.Join(names, ","))
			g.add("syncasync %d heads=%s", obsr, head)
			g.add("waitget %d %s", obsr, head)
		} else {
			g.add("syncasync %d heads=%s", obsr, head)
			if len(held) > 0 {
				g.add("settle %d 20", obsr)
			} else {
				g.add("settle %d", obsr)
			}
		}
		g.add("obs %d", obsr)
		if g.pick(3) == 0 {
			g.add("add %d %s", obsr, hx(g.value()))
			g.add("obs %d", obsr)
		}
	}
	for _, h := range held {
		g.add("release %d %s", obsr, h)
	}
	g.add("settle %d", obsr)
	g.add("obs %d", obsr)
	return g.lines
}

var forgeRecipes = []string{"own", "copiedid", "copiedblock", "foreignkey", "otherlog", "badhash", "wronghash", "wronghash", "malleate", "malleate", "noident",
	"mut-payload", "mut-time", "mut-clockid", "mut-next", "mut-refs", "mut-key", "mut-sig",
	"mut-identid", "mut-identpk", "mut-identsig", "mut-logid", "othertype", "mut-identtype", "selfsigned", "mut-identsigpk"}

// genForge: write lists of every shape, non-writers, forged / tampered / foreign entries delivered by
// every route, alone, mixed with valid heads at any position, or hidden behind a colluding writer's
// entry; then an honest re-announcement of everything.
// acFlag: a quarter of the scenarios run under the `simple` access controller (write list passed by
// every peer at every open) instead of the default `ipfs` one (write list stored with the database)
// psFlag: in a third of the scenarios the stores subscribe through the library's default pubsub adapter
// (pubsubcoreapi over the scripted network: joins found by its polling diff, its message filter, its
// cached topic objects) instead of the directly scripted pubsub
func (g *Gen) psFlag() string {
	if g.pick(3) == 0 {
		return " ps=coreapi"
	}
	return ""
}

// syncMaybeFailing: a manual sync; now and then the device refuses the `_remoteHeads` Put that ends the
// replication round (merged and indexed, neither cached nor reported)
func (g *Gen) syncMaybeFailing(p, q int) {
	if g.pick(8) == 0 {
		g.add("failrput %d", p)
	}
	g.add("sync %d %d", p, q)
}

func (g *Gen) acFlag() string {
	if g.pick(4) == 0 {
		return " ac=simple"
	}
	return ""
}

func genForge(r *rand.Rand, id string, size int, total int) []string {
	g := &Gen{r: r}
	perm := g.r.Perm(total)
	att := perm[0]      // the attacker: opens the database but never writes through its store
	members := perm[1:] // replicas that use the database normally
	kind := []string{"kv", "log"}[g.pick(2)]
	// write list shape
	var writers []int
	acl := ""
	switch g.pick(5) {
	case 0:
		acl = "*"
		writers = append([]int{}, members...)
	case 1: // creator only
		writers = []int{members[0]}
		acl = joinInts(writers)
	case 2: // the attacker is a legitimate writer too (tampering recipes need a valid original)
		writers = append([]int{att}, members[:1+g.pick(len(members))]...)
		acl = joinInts(writers)
	default:
		writers = members[:1+g.pick(len(members))]
		acl = joinInts(writers)
	}
	isWriter := map[int]bool{}
	for _, p := range writers {
		isWriter[p] = true
	}
	if acl == "*" {
		isWriter[att] = true
	}
	peers := append([]int{members[0]}, members[1:]...)
	peers = append(peers, att)
	g.add("scn %s kind=%s acl=%s peers=%s%s", id, kind, acl, joinInts(peers), g.acFlag())
	// in half of the scenarios every member has a subscriber that queries the store from inside its
	// handler: what a replicated event announces must be listed (rejected logs included in a batch
	// must not be announced)
	watched := g.pick(2) == 0
	if watched {
		for _, m := range members {
			g.add("evwatch %d", m)
		}
	}
	keys := g.keys(2)
	write := func(p int) {
		if kind == "kv" {
			g.add("put %d %s %s", p, hx(keys[g.pick(2)]), hx(g.value()))
		} else {
			g.add("add %d %s", p, hx(g.value()))
		}
	}
	honestWriters := []int{}
	for _, p := range members {
		if isWriter[p] {
			honestWriters = append(honestWriters, p)
		}
	}
	// one writer is reserved for collusion: it only ever writes through forged-but-honest entries, so
	// that no identity writes through two logs (which could give two entries the same (time, writer))
	colluder := -1
	if len(honestWriters) > 1 {
		colluder = honestWriters[len(honestWriters)-1]
		honestWriters = honestWriters[:len(honestWriters)-1]
	}
	steps := 2 + g.pick(size)
	nForged := 0
	entryCount := 0 // upper bound on entries created so far is unknown to the generator; use symbolic @last
	_ = entryCount
	for i := 0; i < steps; i++ {
		c := g.pick(100)
		switch {
		case c < 30 && len(honestWriters) > 0:
			write(honestWriters[g.pick(len(honestWriters))])
		case c < 40:
			// a local write by someone who may not be a writer
			if p := members[g.pick(len(members))]; p != colluder {
				write(p)
			}
		case c < 55 && len(members) > 1:
			p := members[g.pick(len(members))]
			q := members[g.pick(len(members))]
			if p != q {
				g.add("sync %d %d", p, q)
			}
		case c < 63 && c >= 59 && colluder >= 0 && len(honestWriters) > 0:
			// a genuine entry written again with other bytes (another address, the same valid signature),
			// named by a colluding writer's honest entry: one signed entry is ONE member of the log
			hw := honestWriters[g.pick(len(honestWriters))]
			write(hw)
			q := members[g.pick(len(members))]
			route := []string{"sync", "pub", "dc"}[g.pick(3)]
			// (written again with other bytes, or under the version number 0, which decodes and has no encoding)
			g.add("forge %d recipe=reencode base=%d%s", att, hw, []string{"", " how=v0"}[g.pick(2)])
			g.add("forge %d recipe=honest base=%d extra=@last k=%s v=%s", colluder, colluder, hx(keys[0]), hx(g.value()))
			g.add("inject %d heads=@last route=%s from=%d", q, route, colluder)
		case c < 59 && colluder >= 0:
			// a colluding writer's honest entry whose parent is an entry-shaped block WITHOUT a clock: the
			// entry is valid and must arrive, the block must be a failed fetch, not a dead process
			q := members[g.pick(len(members))]
			route := []string{"sync", "pub", "dc"}[g.pick(3)]
			g.add("forge %d recipe=honest base=%d badparent=noclock k=%s v=%s", colluder, colluder, hx(keys[0]), hx(g.value()))
			g.add("inject %d heads=@last route=%s from=%d", q, route, colluder)
		default:
			rec := forgeRecipes[g.pick(len(forgeRecipes))]
			as := members[g.pick(len(members))]
			if len(honestWriters) > 0 && g.pick(3) > 0 {
				as = honestWriters[g.pick(len(honestWriters))]
			}
			base := "none"
			if g.pick(2) == 0 || rec == "malleate" {
				base = fmt.Sprint(members[g.pick(len(members))])
			}
			shape := g.pick(4)
			route := []string{"sync", "pub", "dc", "sync", "pub", "dc", "loadmore"}[g.pick(7)]
			if rec == "wronghash" && route == "loadmore" {
				// (a copy claiming another entry's address IS that entry for a caller that hands it over by hash)
				route = "dc"
			}
			// (LoadMoreFrom is a local call that skips Sync: whoever makes it answers for the blocks
			// being fetchable, so nothing unserved goes that way)
			served := route == "loadmore"
			// a head that names a writer but is not signed by it may point to a block nobody serves
			// (only when it is delivered as a head: hidden behind a colluding WRITER's entry it is that
			// writer who names an unservable ancestor, which the properties do not quantify over)
			if (rec == "foreignkey" || rec == "mut-sig" || rec == "mut-payload") && shape < 3 && !served && g.pick(3) == 0 {
				g.add("forge %d recipe=own base=none k=%s v=%s", att, hx(keys[g.pick(2)]), hx(g.value()))
				g.add("dropblock @last")
				g.add("forge %d recipe=%s as=%d base=%s extra=@last k=%s v=%s", att, rec, as, base, hx(keys[g.pick(2)]), hx(g.value()))
			} else if rec == "wronghash" && g.pick(2) == 0 {
				// (the address it claims is one under which no block exists)
				g.add("forge %d recipe=%s as=%d base=%s claim=nowhere k=%s v=%s", att, rec, as, base, hx(keys[g.pick(2)]), hx(g.value()))
			} else {
				g.add("forge %d recipe=%s as=%d base=%s k=%s v=%s", att, rec, as, base, hx(keys[g.pick(2)]), hx(g.value()))
			}
			nForged++
			q := members[g.pick(len(members))]
			// a head that Sync's access check refuses may name a block that nobody serves
			refusedAtSync := map[string]bool{"copiedid": true, "copiedblock": true, "othertype": true, "selfsigned": true,
				"mut-identpk": true, "mut-identsig": true, "mut-identtype": true, "mut-identsigpk": true, "mut-key": true}
			if (refusedAtSync[rec] || (rec == "own" && !isWriter[att])) && shape < 3 && !served && g.pick(3) == 0 {
				g.add("dropblock @last")
			}
			switch shape {
			case 0: // alone
				g.add("inject %d heads=@last route=%s from=%d", q, route, att)
			case 1: // mixed with the valid heads of some member, forged first
				g.add("inject %d heads=@last,@heads%d route=%s from=%d", q, members[g.pick(len(members))], route, att)
			case 2: // valid heads first
				g.add("inject %d heads=@heads%d,@last route=%s from=%d", q, members[g.pick(len(members))], route, att)
			case 3: // hidden behind a colluding writer's honest entry (a wrongly addressed entry cannot be
				// fetched by its address, so `badhash` is only ever delivered as a head)
				if colluder >= 0 && rec != "badhash" && rec != "wronghash" {
					cw := colluder
					// named as a parent (`next`) or only as a reference (`refs`) of the colluder's entry
					how := []string{"extra", "extra", "xrefs"}[g.pick(3)]
					g.add("forge %d recipe=honest base=%d %s=@last k=%s v=%s", cw, cw, how, hx(keys[0]), hx(g.value()))
					g.add("inject %d heads=@last route=%s from=%d", q, route, cw)
				} else {
					g.add("inject %d heads=@last route=%s from=%d", q, route, att)
				}
			}
		}
		if watched {
			for _, m := range members {
				g.add("evflush %d", m)
			}
		}
		g.obsAll(members)
	}
	// honest re-announcement of everything, twice; in half of the scenarios over the direct channel
	// (head exchange on join: q sends what it holds to p), which the instance must still be serving
	overDC := g.pick(2) == 0
	if overDC && isWriter[att] && len(honestWriters) > 0 {
		// a message the instance cannot handle (a signed head claiming the wrong address makes Sync fail)
		// reaches every member over the direct channel just before: it may be dropped as a whole, the
		// channel must go on being served
		g.add("forge %d recipe=wronghash as=%d base=none k=%s v=%s", att, att, hx(keys[0]), hx(g.value()))
		for _, m := range members {
			g.add("inject %d heads=@last route=dc from=%d", m, att)
		}
	}
	if overDC && len(honestWriters) > 0 {
		// a last honest write that the others can only learn about over the direct channel
		write(honestWriters[g.pick(len(honestWriters))])
		if watched {
			for _, m := range members {
				g.add("evflush %d", m)
			}
		}
	}
	for round := 0; round < 2; round++ {
		for _, p := range members {
			for _, q := range members {
				if p != q {
					if overDC {
						g.add("exchange %d %d", q, p)
					} else {
						g.add("sync %d %d", p, q)
					}
				}
			}
		}
	}
	g.obsAll(members)
	g.add("final10")
	// the reload route: what was refused on arrival must not come back through Load after a restart
	// (the cached heads lead to everything a colluding writer's entry names)
	if !watched && g.pick(2) == 0 {
		for _, m := range members {
			g.add("restart %d", m)
		}
		g.obsAll(members)
	} else if !watched && g.pick(2) == 0 {
		// … nor through a snapshot: the loader fetches the log again from the recorded heads, through
		// every link (F47)
		m := members[g.pick(len(members))]
		g.add("snapsave %d", m)
		g.add("restartsnap %d", m)
		g.add("obs %d", m)
	}
	return g.lines
}

var garbageKinds = []string{"random", "empty", "nullheads", "emptyobj", "nullmix", "illtyped", "truncated", "flip", "flip", "dropfield", "dropfield", "dropfield", "wrongaddr", "wronghash", "wronghash", "deep"}
var dropFields = []string{"identity", "clock", "hash", "next", "refs", "key", "sig", "payload", "id", "v", "null:identity", "null:clock", "null:hash",
	"identity.id", "identity.publicKey", "identity.signatures", "identity.type", "clock.id", "clock.time", "identity+clock", "identity+hash", "clock+hash", "next+refs", "identity+clock+hash"}

// genGarbage: malformed messages on the topic and the direct channel, interleaved with writes and
// valid messages; state is observed before and after every malformed message.
func genGarbage(r *rand.Rand, id string, size int, total int) []string {
	g := &Gen{r: r}
	peers := g.r.Perm(total)[:2+g.pick(total-1)]
	kind := []string{"kv", "log", "doc"}[g.pick(3)]
	g.add("scn %s kind=%s acl=%s peers=%s", id, kind, joinInts(peers), joinInts(peers))
	write := func(p int) {
		switch kind {
		case "kv":
			g.add("put %d %s %s", p, hx([]byte("k")), hx(g.value()))
		case "log":
			g.add("add %d %s", p, hx(g.value()))
		default:
			g.add("docput %d %s %s", p, hx([]byte("d1")), hx([]byte(fmt.Sprintf("v%d", g.pick(50)))))
		}
	}
	write(peers[0])
	steps := 3 + g.pick(size)
	for i := 0; i < steps; i++ {
		src := peers[g.pick(len(peers))]
		q := peers[g.pick(len(peers))]
		c := g.pick(100)
		switch {
		case c < 25:
			write(src)
		case c < 35 && src != q:
			g.add("garbage %d route=%s kind=valid src=%d from=%d", q, []string{"pub", "dc"}[g.pick(2)], src, src)
		default:
			k := garbageKinds[g.pick(len(garbageKinds))]
			extra := ""
			if k == "dropfield" {
				extra = " fields=" + dropFields[g.pick(len(dropFields))]
			}
			g.add("obs %d", q)
			g.add("garbage %d route=%s kind=%s seed=%d src=%d from=%d%s", q, []string{"pub", "dc"}[g.pick(2)], k, g.pick(100000), src, src, extra)
			g.add("unchanged %d", q)
		}
	}
	if kind == "log" && g.pick(2) == 0 {
		// the same for an event log: the entry is not listed, everything else is — before and after it
		a := peers[g.pick(len(peers))]
		q := peers[g.pick(len(peers))]
		for q == a {
			q = peers[g.pick(len(peers))]
		}
		g.add("forge %d recipe=own base=%d k=%s v=%s raw=%s", a, a, hx([]byte("d1")), hx([]byte("x")), hx([]byte("certainly not an operation")))
		g.add("inject %d heads=@last route=%s from=%d", q, []string{"pub", "dc"}[g.pick(2)], a)
		g.add("obs %d", q)
		g.add("query %d amount=-1", q)
		write(q)
		g.add("obs %d", q)
		g.add("query %d amount=-1", q)
		g.add("query %d amount=2", q)
	}
	if kind != "log" && g.pick(2) == 0 {
		// a writer is not bound to what the store API writes: a validly signed entry whose payload is not
		// an operation at all, names an operation the view does not know (on a key that has a value), or
		// (document stores) whose batch holds a `null` member reaches the others like any other entry: it
		// changes nothing, and what is written afterwards still shows
		a := peers[g.pick(len(peers))]
		q := peers[g.pick(len(peers))]
		for q == a {
			q = peers[g.pick(len(peers))]
		}
		raws := []string{"certainly not an operation", `{"op":"XYZ","key":"k","value":"eA=="}`, `{"op":"XYZ","key":"d1","value":"eA=="}`, `{"key":"","op":"PUTALL","docs":[null]}`}
		raw := raws[g.pick(len(raws))]
		if kind == "kv" && raw == raws[3] {
			raw = raws[0]
		}
		g.add("forge %d recipe=own base=%d k=%s v=%s raw=%s", a, a, hx([]byte("d1")), hx([]byte("x")), hx([]byte(raw)))
		g.add("inject %d heads=@last route=%s from=%d", q, []string{"pub", "dc"}[g.pick(2)], a)
		g.add("obs %d", q)
		write(q)
		g.add("obs %d", q)
	}
	// later valid traffic must still be handled
	for _, p := range peers {
		for _, q := range peers {
			if p != q {
				g.add("garbage %d route=%s kind=valid src=%d from=%d", q, []string{"pub", "dc"}[g.pick(2)], p, p)
			}
		}
	}
	g.finalSync(peers)
	g.add("final12")
	return g.lines
}

// genTransport: membership snapshot sequences for pubsubcoreapi, self/remote message streams,
// pairwise pubsub channels, direct-channel frames around every boundary.
func genTransport(r *rand.Rand, id string, size int, total int) []string {
	g := &Gen{r: r}
	g.add("scn %s kind=none acl=* peers=", id)
	snapshot := func() string {
		n := g.pick(5)
		perm := g.r.Perm(6)
		var xs []string
		for i := 0; i < n; i++ {
			xs = append(xs, fmt.Sprint(1+perm[i]))
		}
		if len(xs) == 0 {
			return "-"
		}
		return strings.Join(xs, ",")
	}
	for k := 0; k < 2+g.pick(3); k++ {
		var snaps []string
		for i := 0; i < 1+g.pick(size); i++ {
			snaps = append(snaps, snapshot())
		}
		if g.pick(3) == 0 {
			// a second watcher on the same topic once the first has ended; the membership it starts
			// from is the one the first watcher last saw
			var snaps2 []string
			snaps2 = append(snaps2, snaps[len(snaps)-1])
			for i := 0; i < g.pick(size); i++ {
				snaps2 = append(snaps2, snapshot())
			}
			g.add("tpeers %s %s", strings.Join(snaps, ";"), strings.Join(snaps2, ";"))
		} else {
			g.add("tpeers %s", strings.Join(snaps, ";"))
		}
	}
	for k := 0; k < 2; k++ {
		var ms []string
		for i := 0; i < g.pick(8); i++ {
			from := []int{0, 0, 1, 2, 3}[g.pick(5)]
			ms = append(ms, fmt.Sprintf("%d:%s", from, hx(g.value())))
		}
		if len(ms) == 0 {
			g.add("tmsgs -")
		} else {
			g.add("tmsgs %s", strings.Join(ms, ","))
		}
	}
	// frames: boundary lengths, honest sends, truncations, garbage
	lens := []string{"0", "1", "127", "128", "300", "4194303:16", "4194304:8", "4194305:8", "2147483648", "4294967296",
		"9223372036854775807", "9223372036854775808", "9223372036854775809", "18446744073709551615", "16384:16384", "5:3", "5:5", "5:9"}
	for i := 0; i < 4+g.pick(6); i++ {
		switch g.pick(5) {
		case 4:
			// a payload that does not arrive in one read: the stream hands over at most `chunk` bytes at a time
			b := make([]byte, 1+g.pick(200))
			g.r.Read(b)
			g.add("tframe send:%s chunk=%d", hex.EncodeToString(b), []int{1, 3, 7, 64}[g.pick(4)])
		case 0:
			b := make([]byte, g.pick(40))
			g.r.Read(b)
			g.add("tframe send:%s", hx(b))
		case 1:
			b := make([]byte, g.pick(12))
			g.r.Read(b)
			g.add("tframe %s", hx(b))
		default:
			g.add("tframe len:%s", lens[g.pick(len(lens))])
		}
	}
	g.add("tframe send:%s", hx([]byte("after")))
	return g.lines
}

// genOneOnOne: the pairwise pubsub channel (slow: Connect polls once per second) — a few per run.
func genOneOnOne(r *rand.Rand, id string, size int, total int) []string {
	g := &Gen{r: r}
	g.add("scn %s kind=none acl=* peers=", id)
	a := 1 + g.pick(5)
	b := 1 + g.pick(5)
	for b == a {
		b = 1 + g.pick(5)
	}
	pay := func() string {
		n := g.pick(4)
		var xs []string
		for i := 0; i < n; i++ {
			xs = append(xs, "x"+hx(g.value()))
		}
		if len(xs) == 0 {
			return "-"
		}
		return strings.Join(xs, ",")
	}
	if g.pick(2) == 0 {
		// two stores of one instance see the peer join in the same poll and both connect to it
		pb := pay()
		for pb == "-" {
			pb = pay()
		}
		g.add("tone %d %d %s %s conc", a, b, pay(), pb)
	} else {
		g.add("tone %d %d %s %s", a, b, pay(), pay())
	}
	if g.pick(3) == 0 && !strings.Contains(g.lines[len(g.lines)-1], " conc") {
		g.lines[len(g.lines)-1] += " twoctx"
	}
	if g.pick(2) == 0 {
		// a third peer publishes on the pairwise topic
		g.lines[len(g.lines)-1] += " third=" + hx(g.value())
	}
	return g.lines
}

// genMultiDB: 2-4 databases of mixed types and write lists on the same instances (default shared event
// bus); writes and replications in one database, every database on every peer observed after each step.
func genMultiDB(r *rand.Rand, id string, size int, total int) []string {
	g := &Gen{r: r}
	peers := g.r.Perm(total)[:2+g.pick(total-1)]
	kinds := []string{"kv", "log", "doc"}
	ndb := 2 + g.pick(3)
	dbKind := make([]string, ndb)
	dbPeers := make([][]int, ndb)
	for k := 0; k < ndb; k++ {
		dbKind[k] = kinds[g.pick(3)]
		// every database is opened on at least the first two peers
		n := 2 + g.pick(len(peers)-1)
		dbPeers[k] = peers[:n]
	}
	// in half of the scenarios every peer passes ONE options value to all the databases it opens
	reuse := ""
	if g.pick(2) == 0 {
		reuse = " reuse=1"
	}
	g.add("scn %s kind=%s acl=%s peers=%s events=1%s", id, dbKind[0], joinInts(dbPeers[0]), joinInts(dbPeers[0]), reuse)
	for k := 1; k < ndb; k++ {
		acl := joinInts(dbPeers[k])
		if g.pick(3) == 0 {
			acl = "*"
		}
		g.add("opendb kind=%s acl=%s peers=%s", dbKind[k], acl, joinInts(dbPeers[k]))
	}
	obsEverything := func() {
		g.add("pause 3")
		for k := 0; k < ndb; k++ {
			for _, p := range dbPeers[k] {
				g.add("obsdb %d %d", p, k)
			}
		}
	}
	obsEverything()
	steps := 3 + g.pick(size)
	for i := 0; i < steps; i++ {
		k := g.pick(ndb)
		g.add("usedb %d", k)
		p := dbPeers[k][g.pick(len(dbPeers[k]))]
		if g.pick(100) < 60 {
			switch dbKind[k] {
			case "kv":
				g.add("put %d %s %s", p, hx([]byte("k")), hx(g.value()))
			case "log":
				g.add("add %d %s", p, hx(g.value()))
			default:
				g.add("docput %d %s %s", p, hx([]byte("d")), hx([]byte(fmt.Sprintf("v%d", g.pick(50)))))
			}
		} else {
			q := dbPeers[k][g.pick(len(dbPeers[k]))]
			if q != p {
				switch g.pick(3) {
				case 0:
					g.add("sync %d %d", p, q)
				case 1:
					g.add("pubdeliver %d %d %d", p, q, g.pick(20))
				default:
					// the two peers meet: heads of every database they share, back to back
					g.add("exchangeall %d %d", q, p)
				}
			}
		}
		obsEverything()
		if ndb > 1 && g.pick(8) == 0 {
			// a store finds another database's snapshot under its own cache key
			a, b := g.pick(ndb), g.pick(ndb)
			if a != b {
				g.add("snapcross %d %d %d", peers[g.pick(2)], a, b)
				obsEverything()
			}
		}
		if g.pick(6) == 0 {
			// the instance goes down and comes back: every database reloads from ITS OWN cache
			g.add("restart %d", p)
			obsEverything()
		}
	}
	return g.lines
}

// genCancel: replication requests cancelled or failing at every point (before they start, while a
// worker is about to wait for a slot, in the middle of a fetch, between fetch and join, block
// unavailable), in any number and mix, followed — once they have returned — by an uncancelled request
// for the same or newer heads.
func genCancel(r *rand.Rand, id string, size int, total int) []string {
	g := &Gen{r: r}
	perm := g.r.Perm(total)
	src, dst := perm[0], perm[1]
	g.add("scn %s kind=log acl=%d,%d peers=%d,%d", id, src, dst, src, dst)
	n := 2 + g.pick(size)
	for i := 0; i < n; i++ {
		g.add("add %d %s", src, hx(g.value()))
	}
	nreq := 1 + g.pick(3)
	ctxn := 0
	for k := 0; k < nreq; k++ {
		head := 1 + g.pick(n) // announce some (maybe old) head of the chain
		ctxn++
		ctx := fmt.Sprintf("c%d", ctxn)
		switch g.pick(6) {
		case 0: // cancelled before it starts
			g.add("syncasync %d heads=e%d ctx=cancelled", dst, head)
		case 1: // cancelled just before its worker asks for a slot
			g.add("holdhook replicator.slot.wait")
			g.add("syncasync %d heads=e%d ctx=%s", dst, head, ctx)
			g.add("waithook replicator.slot.wait")
			g.add("cancel %s", ctx)
			g.add("releasehook replicator.slot.wait")
		case 2: // cancelled in the middle of a fetch
			victim := 1 + g.pick(head)
			g.add("hold %d e%d", dst, victim)
			g.add("syncasync %d heads=e%d ctx=%s", dst, head, ctx)
			g.add("waitget %d e%d", dst, victim)
			g.add("cancel %s", ctx)
			g.add("release %d e%d", dst, victim)
		case 3: // cancelled between fetch and join
			g.add("holdhook replicator.before.done")
			g.add("syncasync %d heads=e%d ctx=%s", dst, head, ctx)
			g.add("waithook replicator.before.done")
			g.add("cancel %s", ctx)
			g.add("releasehook replicator.before.done")
		case 4: // a block is unavailable
			victim := 1 + g.pick(head)
			g.add("failget %d e%d", dst, victim)
			g.add("syncasync %d heads=e%d", dst, head)
			g.add("settle %d", dst)
			g.add("okget %d e%d", dst, victim)
		default: // an ordinary request
			g.add("syncasync %d heads=e%d", dst, head)
		}
		g.add("settle %d", dst)
		g.add("stats %d", dst)
		g.add("obs %d", dst)
	}
	if g.pick(2) == 0 {
		g.add("add %d %s", src, hx(g.value()))
	}
	g.add("sync %d %d", dst, src)
	g.add("obs %d", dst)
	g.add("final11")
	return g.lines
}

// genLimit: persisted logs with one or several heads (local and replicated entries), reloaded with every
// limit from below zero to beyond the log length.
func limitWrite(g *Gen, kind string, w int) {
	switch kind {
	case "log":
		g.add("add %d %s", w, hx(g.value()))
	case "kv":
		g.add("put %d %s %s", w, hx([]byte{byte('a' + g.pick(3))}), hx(g.value()))
	default:
		g.add("docput %d %s %s", w, hx([]byte{'d', byte('1' + g.pick(3))}), hx([]byte(fmt.Sprintf("v%d", g.pick(50)))))
	}
}

func genLimit(r *rand.Rand, id string, size int, total int) []string {
	g := &Gen{r: r}
	// a third of the scenarios start with a replica that lags behind (needs three peers)
	lag := total >= 3 && g.pick(3) == 0
	np := 1 + g.pick(3)
	if lag {
		np = 3
	}
	peers := g.r.Perm(total)[:np]
	kind := []string{"log", "kv", "doc"}[g.pick(3)]
	// in a third of the scenarios the database is opened with a custom sort function (it must govern the
	// store's own log exactly as it governs the logs Load builds)
	sortfn := ""
	if g.pick(3) == 0 {
		sortfn = " sortfn=revtie"
	}
	// a writer that opens nothing: in a third of the scenarios it contributes an entry made by hand
	extra := -1
	if g.pick(2) == 0 {
		for i := 0; i < total; i++ {
			in := false
			for _, q := range peers {
				in = in || q == i
			}
			if !in {
				extra = i
				break
			}
		}
	}
	acl := joinInts(peers)
	if extra >= 0 {
		acl = joinInts(append(append([]int{}, peers...), extra))
	}
	// a quarter of the scenarios build their stores with the maximum-history option: the limit of a Load
	// that is given none (or a non-positive one). Only non-positive values: they must all mean "everything"
	// (a positive one would make EVERY restart of the scenario a limited load, and the steps of this family
	// between two observations assume fully loaded stores after an unlimited restart)
	if g.pick(4) == 0 {
		sortfn += fmt.Sprintf(" maxhist=%d", []int{0, -1, -7}[g.pick(3)])
	}
	g.add("scn %s kind=%s acl=%s peers=%s%s", id, kind, acl, joinInts(peers), sortfn)
	p := peers[0]
	n := 0
	if lag {
		// a replica that lags: r holds a prefix of w's chain, the observer all of it; the observer is
		// reopened with a limit (newest entries only) and r announces what it has — entries BELOW the
		// heads of the partially loaded log arrive, the heads do not move, the view must still follow
		w, r := peers[1], peers[2]
		limitWrite(g, kind, w)
		limitWrite(g, kind, w)
		g.add("sync %d %d", r, w)
		limitWrite(g, kind, w)
		limitWrite(g, kind, w)
		g.add("sync %d %d", p, w)
		g.add("obs %d", p)
		g.add("restart %d %d", p, 1+g.pick(2))
		g.add("obs %d", p)
		g.add("sync %d %d", p, r)
		g.add("obs %d", p)
		g.add("restart %d -1", p)
		g.add("obs %d", p)
		n += 4
	}
	steps := 1 + g.pick(size)
	for i := 0; i < steps; i++ {
		w := peers[g.pick(len(peers))]
		limitWrite(g, kind, w)
		n++
		if g.pick(3) == 0 && len(peers) > 1 {
			q := peers[g.pick(len(peers))]
			if q != w {
				g.add("sync %d %d", q, w)
			}
		}
	}
	if extra >= 0 && len(peers) > 1 {
		// an entry by a writer who never writes through a store of its own (so that no identity has two
		// clocks), on top of a member's log, that names as a parent an entry written for ANOTHER log: the
		// foreign entry is never merged (it is not part of the persisted log) and must not count against
		// a limit either
		g.add("forge %d recipe=otherlog base=none k=%s v=%s", extra, hx([]byte("k")), hx(g.value()))
		g.add("forge %d recipe=honest base=%d extra=@last k=%s v=%s", extra, peers[1], hx([]byte{'d', '1'}), hx([]byte("v7")))
		g.add("inject %d heads=@last route=sync from=%d", p, extra)
		n++
	}
	// the observer pulls from everyone (possibly leaving several heads)
	for _, q := range peers[1:] {
		if g.pick(4) > 0 {
			g.add("sync %d %d", p, q)
		}
	}
	g.add("obs %d", p)
	for _, a := range g.r.Perm(n + 6) {
		g.add("restart %d %d", p, a-2)
		g.add("obs %d", p)
		// now and then the partially loaded store takes part in a replication round (or writes) before
		// the next restart: nothing the cache pointed to may be forgotten by it
		if len(peers) > 1 && g.pick(4) == 0 {
			w := peers[1+g.pick(len(peers)-1)]
			limitWrite(g, kind, w)
			g.add("sync %d %d", p, w)
			g.add("obs %d", p)
		} else if g.pick(6) == 0 {
			limitWrite(g, kind, p)
			g.add("obs %d", p)
		} else if g.pick(5) == 0 {
			// "load more" on the store as it is: everything, beyond the log length, anything above the limit
			// it was opened with — or below it: the load then TRIMS the live log, and the key-value and
			// document views must lose the keys of the trimmed entries (F45)
			m := -1
			switch {
			case a-2 > 1 && g.pick(4) == 0:
				m = 1 + g.pick(a-3)
			case a-2 > 0 && g.pick(2) == 0:
				m = a - 2 + 1 + g.pick(6)
			case g.pick(2) == 0:
				m = 1000 + g.pick(3) // beyond any log length
			}
			g.add("liveload %d %d", p, m)
			g.add("obs %d", p)
		} else if len(peers) > 1 && g.pick(5) == 0 {
			// a replica that lags behind announces what it has: entries BELOW the heads of the partially
			// loaded log arrive (the heads do not move, the view must still follow)
			g.add("sync %d %d", p, peers[1+g.pick(len(peers)-1)])
			g.add("obs %d", p)
		}
	}
	g.add("restart %d -1", p)
	g.add("obs %d", p)
	return g.lines
}

var nameSegs = []string{"a", "db", "x y", "é✓", ".", "..", "", "A", "a.b", "..a", "victim", "@r1@", "@r1@", "orbitdb", "/orbitdb"}

func (g *Gen) dbName() string {
	n := 1 + g.pick(4)
	var segs []string
	for i := 0; i < n; i++ {
		segs = append(segs, nameSegs[g.pick(len(nameSegs))])
	}
	name := strings.Join(segs, "/")
	if g.pick(8) == 0 {
		name = "/" + name
	}
	if g.pick(8) == 0 {
		name += "/"
	}
	return name
}

// genAddress: names from a grammar (unicode, spaces, nested, empty, dotted and parent-directory
// segments, names that look like addresses or re-enter another database's root), every type, explicit
// and default write lists, two or three peers with different identities.
func genAddress(r *rand.Rand, id string, size int, total int) []string {
	g := &Gen{r: r}
	// in half of the scenarios every peer keeps ONE options value and passes it to all its calls
	if g.pick(2) == 0 {
		g.add("scn %s kind=none acl=* peers= reuse=1", id)
	} else {
		g.add("scn %s kind=none acl=* peers=", id)
	}
	kinds := []string{"kv", "log", "doc"}
	acls := []string{"default", "0", "1", "0,1", "1,0", "*", "2"}
	// a victim database so that @r1@ exists
	g.add("detaddr 0 %s log 0", hx([]byte("victim")))
	g.add("createdb 0 %s log 0", hx([]byte("victim")))
	steps := 4 + g.pick(size)
	for i := 0; i < steps; i++ {
		name := hx([]byte(g.dbName()))
		kind := kinds[g.pick(3)]
		acl := acls[g.pick(len(acls))]
		p := g.pick(3)
		q := g.pick(3)
		if g.pick(6) == 0 {
			// one options value for "open or create" and then for a plain Create of the same name
			g.add("reuseopts %d %s %s", p, name, kind)
		}
		if g.pick(8) == 0 {
			// one access controller parameters value through two peers; one options value through a typed
			// front end and then a plain Open
			g.add("reuseac %d %d %s %s", p, q, name, kind)
		}
		if g.pick(8) == 0 {
			g.add("reusefront %d %s %s", p, name, kind)
		}
		g.add("pathjoin %s", name)
		g.add("detaddr %d %s %s %s", p, name, kind, acl)
		g.add("detaddr %d %s %s %s", q, name, kind, acl)
		// a third of the creations pass a per-database `Directory` option
		dir := ""
		if g.pick(3) == 0 {
			dir = " dir=alt"
		}
		switch g.pick(4) {
		case 0:
			g.add("createdb %d %s %s %s%s", p, name, kind, acl, dir)
			g.add("createdb %d %s %s %s%s", p, name, kind, acl, dir)           // again: refused
			g.add("createdb %d %s %s %s overwrite%s", p, name, kind, acl, dir) // unless overwrite
			g.add("openlast %d", q)
			g.add("openlast %d localonly", q)
			g.add("openlast %d localonly", p)
			if g.pick(2) == 0 {
				// an instance that cannot resolve the database's access controller right now must refuse
				g.add("openlast %d %s", []int{p, q}[g.pick(2)], []string{"blind=actype", "blind=aclist"}[g.pick(2)])
				g.add("openlast %d", q)
			}
		case 1:
			g.add("createdb %d %s %s %s%s", p, name, kind, acl, dir)
			g.add("parselast")
		}
		if g.pick(3) == 0 {
			// an address given by the user: the last database's, spelled in ways that clean to it or
			// that climb out of another database's root (the victim's) into it, and the other way round
			tmpl := []string{
				"/orbitdb/@rlast@/@nlast@", "@rlast@/@nlast@", "/orbitdb/@rlast@/./@nlast@", "/orbitdb/@rlast@//@nlast@/",
				"/orbitdb/@r1@/../@rlast@/@nlast@", "/orbitdb/@rlast@/../@r1@/victim", "/orbitdb/@rlast@/x/../../@r1@/victim",
				"/orbitdb/@r1@/victim/../../@rlast@/@nlast@", "/orbitdb/@rlast@/@nlast@/../x", "/orbitdb/../orbitdb/@rlast@/@nlast@",
			}
			ti := g.pick(10)
			lo := ""
			// (local-only only with the canonical spelling: the code finds the local copy by the cleaned
			// cache key, the model by the parsed address — U10 in Model/OpenCreate.lean)
			if ti == 0 && g.pick(2) == 0 {
				lo = " localonly"
			}
			g.add("openaddr %d %s%s", []int{p, q}[g.pick(2)], hx([]byte(tmpl[ti])), lo)
		}
		g.add("closeextra")
	}
	return g.lines
}

// genSnapshot: every log shape (empty, chain, fork, multi-writer, replicated, replication in progress)
// and payload sizes around the frame-length boundary; save, fresh instance, load from the snapshot.
func genSnapshot(r *rand.Rand, id string, size int, total int) []string {
	g := &Gen{r: r}
	peers := g.r.Perm(total)[:1+g.pick(3)]
	kind := []string{"log", "kv"}[g.pick(2)]
	// in a third of the multi-peer scenarios the snapshot is saved while the replicator still has
	// something to fetch (an aborted request): the saved queue is resumed by the instance that loads it
	pendingQueue := len(peers) > 1 && g.pick(3) == 0
	if pendingQueue {
		g.add("scn %s kind=%s acl=%s peers=%s unreach=fail", id, kind, joinInts(peers), joinInts(peers))
	} else {
		g.add("scn %s kind=%s acl=%s peers=%s", id, kind, joinInts(peers), joinInts(peers))
	}
	p := peers[0]
	sizes := []int{0, 1, 255, 256, 1000, 30000, 36700, 36800, 36900, 49000, 65536, 300000}
	steps := g.pick(size)
	for i := 0; i < steps; i++ {
		w := peers[g.pick(len(peers))]
		c := g.pick(100)
		switch {
		case c < 50:
			if kind == "log" {
				g.add("add %d %s", w, hx(g.value()))
			} else {
				g.add("put %d %s %s", w, hx([]byte{byte('a' + g.pick(3))}), hx(g.value()))
			}
		case c < 62:
			g.add("addbig %d %d", w, sizes[g.pick(len(sizes))])
		case c < 85 && len(peers) > 1:
			q := peers[g.pick(len(peers))]
			if q != w {
				g.add("sync %d %d", q, w)
			}
		default:
			g.add("snapsave %d", p)
		}
	}
	for _, q := range peers[1:] {
		if g.pick(3) > 0 {
			g.add("sync %d %d", p, q)
		}
	}
	if pendingQueue {
		q := peers[1]
		if kind == "log" {
			g.add("add %d %s", q, hx(g.value()))
		} else {
			g.add("put %d %s %s", q, hx([]byte{byte('a' + g.pick(3))}), hx(g.value()))
		}
		g.add("syncasync %d heads=@heads%d ctx=cancelled", p, q)
		g.add("settle %d", p)
		// whoever loads the snapshot cannot reach the block: the resumed fetch fails and stays queued
		for _, o := range peers[1:] {
			g.add("cut %d %d", p, o)
		}
	}
	if !pendingQueue && len(peers) > 1 && g.pick(4) == 0 {
		// a snapshot saved WHILE a fetch is in flight (the request is held at the block): the save must come
		// back, and record what is still to be fetched
		q := peers[1]
		if kind == "log" {
			g.add("add %d %s", q, hx(g.value()))
		} else {
			g.add("put %d %s %s", q, hx([]byte{byte('a' + g.pick(3))}), hx(g.value()))
		}
		g.add("hold %d @heads%d", p, q)
		g.add("syncasync %d heads=@heads%d", p, q)
		g.add("waitget %d @heads%d", p, q)
		g.add("snapsave %d", p)
		g.add("release %d @heads%d", p, q)
		g.add("settle %d", p)
	}
	g.add("obs %d", p)
	raced := g.pick(3) == 0
	if raced {
		// the log grows while the snapshot is being written
		g.add("snapsaverace %d %d", p, 1+g.pick(4))
	} else {
		g.add("snapsave %d", p)
	}
	late := 0
	if !pendingQueue && g.pick(2) == 0 {
		// acknowledged writes AFTER the snapshot: the cache names the last of them, the snapshot does not
		// hold them; the store that loads the snapshot and then writes must not forget them (F33)
		late = 1 + g.pick(3)
		for i := 0; i < late; i++ {
			if kind == "log" {
				g.add("add %d %s", p, hx(g.value()))
			} else {
				g.add("put %d %s %s", p, hx([]byte{byte('a' + g.pick(3))}), hx(g.value()))
			}
		}
		g.add("obs %d", p)
	}
	if late == 0 && !raced && !pendingQueue && g.pick(3) == 0 {
		// the store has looked at its newest entries before it asks for the snapshot: what lies below them
		// must still come
		g.add("restartsnap %d pre=%d", p, 1+g.pick(3))
	} else {
		g.add("restartsnap %d", p)
	}
	g.add("obs %d", p)
	if late > 0 {
		// (this write ties with the first late one — same writer, same Lamport time — and the order of
		// tied entries is undetermined: a key of its own keeps the view independent of it)
		if kind == "log" {
			g.add("add %d %s", p, hx(g.value()))
		} else {
			g.add("put %d %s %s", p, hx([]byte{'z'}), hx(g.value()))
		}
		g.add("obs %d", p)
		g.add("restart %d -1", p)
		g.add("obs %d", p)
	}
	return g.lines
}

// genConcurrent: 2-8 goroutines write to one store at once; the order in which they persist their
// heads is scripted (oldest first, newest first, or a permutation); then close, reopen, load.
func genConcurrent(r *rand.Rand, id string, size int, total int) []string {
	g := &Gen{r: r}
	p := g.pick(total)
	kind := []string{"log", "kv", "doc"}[g.pick(3)]
	g.add("scn %s kind=%s acl=%d peers=%d", id, kind, p, p)
	rounds := 1 + g.pick(3)
	for k := 0; k < rounds; k++ {
		if g.pick(2) == 0 {
			switch kind {
			case "log":
				g.add("add %d %s", p, hx(g.value()))
			case "kv":
				g.add("put %d %s %s", p, hx([]byte("k")), hx(g.value()))
			default:
				g.add("docput %d %s %s", p, hx([]byte("d")), hx([]byte("v")))
			}
		}
		n := 2 + g.pick(7)
		order := []string{"lifo", "fifo", "lifo"}[g.pick(3)]
		if g.pick(3) == 0 {
			order = joinInts(g.r.Perm(n))
		}
		g.add("cwrite %d %d order=%s", p, n, order)
		g.add("obs %d", p)
		// two writers of one key, the first held between copying the log and rebuilding the view
		if kind != "log" && g.pick(2) == 0 {
			key := []string{"k", "d", "c0", "z"}[g.pick(4)]
			g.add("staleidx %d %s %s %s", p, hx([]byte(key)), hx([]byte(fmt.Sprintf("s%d", g.pick(1000)))), hx([]byte(fmt.Sprintf("t%d", g.pick(1000)))))
			g.add("obs %d", p)
		}
	}
	g.add("restart %d", p)
	g.add("obs %d", p)
	g.add("final17")
	return g.lines
}

// genEvents: (a) store events: writes and replications on 2-3 replicas with a bus subscriber that queries
// the store from inside its handler; (b) the legacy channel API with subscribers of every pace,
// including stalls longer than the 16-slot buffer, and a drainer held mid-send by the hook.
func genEvents(r *rand.Rand, id string, size int, total int) []string {
	g := &Gen{r: r}
	if g.pick(2) == 0 {
		peers := g.r.Perm(total)[:2+g.pick(2)]
		kind := []string{"kv", "log", "doc"}[g.pick(3)]
		g.add("scn %s kind=%s acl=%s peers=%s", id, kind, joinInts(peers), joinInts(peers))
		for _, p := range peers {
			g.add("evwatch %d", p)
		}
		if kind != "log" && g.pick(2) == 0 {
			// readers that keep the view busy while writes and merges update it
			for _, p := range peers {
				g.add("evspin %d 3", p)
			}
		}
		steps := 3 + g.pick(size)
		for i := 0; i < steps; i++ {
			p := peers[g.pick(len(peers))]
			if g.pick(100) < 60 {
				switch kind {
				case "kv":
					g.add("put %d %s %s", p, hx([]byte{byte('a' + g.pick(2))}), hx(g.value()))
				case "log":
					g.add("add %d %s", p, hx(g.value()))
				default:
					g.add("docput %d %s %s", p, hx([]byte{byte('a' + g.pick(2))}), hx([]byte(fmt.Sprintf("v%d", g.pick(50)))))
				}
			} else {
				q := peers[g.pick(len(peers))]
				if q != p {
					g.add("sync %d %d", p, q)
				}
			}
			for _, q := range peers {
				g.add("evflush %d", q)
			}
		}
		if g.pick(3) == 0 {
			// a store built with its public constructor and the default bus: its legacy channel API must
			// hear what its bus carries
			g.add("enilbus %d", peers[0])
		}
		return g.lines
	}
	g.add("scn %s kind=none acl=* peers=", id)
	if g.pick(6) == 0 {
		// the legacy global channel, a second caller after the first one has gone
		g.add("eglobal")
		return g.lines
	}
	if g.pick(4) == 0 {
		// a lagging legacy subscriber unsubscribes while an emitter waits on its full subscription
		g.add("ewedge %d", 6+g.pick(5))
		return g.lines
	}
	g.add("enew")
	nsub := 1 + g.pick(2)
	names := []string{"a", "b"}[:nsub]
	for _, n := range names {
		g.add("esub %s", n)
	}
	next := 1
	held := false
	for i := 0; i < 3+g.pick(size); i++ {
		switch g.pick(6) {
		case 0, 1:
			k := 1 + g.pick(30)
			g.add("eemit %d %d", next, next+k-1)
			next += k
			g.add("pause 2")
		case 2:
			if !held && next > 17 {
				g.add("holdhook emitter.dequeued")
				held = true
			}
		case 3:
			if held {
				g.add("releasehook emitter.dequeued")
				held = false
			}
		default:
			g.add("eread %s %d", names[g.pick(nsub)], 1+g.pick(20))
		}
	}
	if held {
		g.add("releasehook emitter.dequeued")
	}
	g.add("eflush")
	for _, n := range names {
		g.add("eread %s %d", n, next+5)
	}
	g.add("efinal %d", next-1)
	for _, n := range names {
		g.add("ecancel %s", n)
		g.add("eclosed %s", n)
	}
	return g.lines
}

// genClose: Close (twice) at PRNG-chosen moments — idle, with a replication held mid-fetch, right after
// concurrent writes — then operations on the closed store, reopen + load, Drop of one of several
// databases, and a goroutine census once everything is closed.
func genClose(r *rand.Rand, id string, size int, total int) []string {
	g := &Gen{r: r}
	peers := g.r.Perm(total)[:2]
	p, q := peers[0], peers[1]
	kind := []string{"kv", "log", "doc"}[g.pick(3)]
	g.add("scn %s kind=%s acl=%s peers=%s leak=1", id, kind, joinInts(peers), joinInts(peers))
	write := func(w int) {
		switch kind {
		case "kv":
			g.add("put %d %s %s", w, hx([]byte{byte('a' + g.pick(2))}), hx(g.value()))
		case "log":
			g.add("add %d %s", w, hx(g.value()))
		default:
			g.add("docput %d %s %s", w, hx([]byte{byte('a' + g.pick(2))}), hx([]byte(fmt.Sprintf("v%d", g.pick(50)))))
		}
	}
	second := g.pick(2) == 0
	if !second {
		// one database: now and then through the pubsubcoreapi adapter (its subscriptions of the
		// underlying pubsub must be closed with the store: the census at the end counts them)
		g.lines[0] += g.psFlag()
	}
	if second {
		g.add("opendb kind=log acl=%s peers=%s", joinInts(peers), joinInts(peers))
		g.add("add %d %s", p, hx(g.value()))
		g.add("usedb 0")
	}
	n := 1 + g.pick(size)
	for i := 0; i < n; i++ {
		write([]int{p, q}[g.pick(2)])
	}
	if g.pick(2) == 0 {
		g.add("sync %d %d", p, q)
	}
	g.add("obs %d", p)
	switch g.pick(3) {
	case 0: // idle
	case 1: // a replication is in flight, held in the middle of a fetch
		write(q)
		g.add("hold %d @last", p)
		g.add("syncasync %d heads=@heads%d", p, q)
		g.add("waitget %d @last", p)
	case 2: // right after a burst of concurrent writes
		g.add("cwrite %d %d order=lifo", p, 2+g.pick(4))
	}
	g.add("closestore %d", p)
	g.add("afterclose %d", p)
	if second {
		// the other side cannot know: its heads for the closed database still arrive; the instance has
		// no store for them, and must go on serving its other database
		g.add("dclate %d %d", p, q)
		g.add("usedb 1")
		g.add("add %d %s", q, hx(g.value()))
		g.add("exchange %d %d", q, p)
		g.add("obsdb %d 1", p)
		g.add("usedb 0")
	}
	if g.pick(4) == 0 {
		g.add("leveldrop %d", q)
	}
	if g.pick(2) == 0 {
		// the same instance opens the database again; Close is then called once more on the old
		// handle: the new handle must stay registered (heads sent to the instance still reach it)
		g.add("reopenstore %d", p)
		g.add("obs %d", p)
		g.add("staleclose %d", p)
		write(q)
		g.add("exchange %d %d", q, p)
		g.add("obs %d", p)
	}
	g.add("restart %d", p)
	g.add("obs %d", p)
	g.add("final18 %d", p)
	if second && g.pick(2) == 0 {
		g.add("dropstore %d%s", p, []string{"", " closed"}[g.pick(2)])
		g.add("usedb 1")
		g.add("obsdb %d 1", p)
		g.add("usedb 0")
	} else {
		g.add("closestore %d", p)
	}
	g.add("closestore %d", q)
	if second {
		g.add("usedb 1")
		g.add("closestore %d", p)
		g.add("closestore %d", q)
	}
	g.add("leakcheck")
	return g.lines
}
