package main

// A fake coreiface.CoreAPI implementing only what go-orbit-db and go-ipfs-log call:
// Dag().Get/Add, Dag().Pinning(), Key().Self(). Blocks live in per-peer maps; a peer
// sees another peer's blocks only while the simulated link between them is up. A Get
// for a block that is not reachable waits until it becomes reachable or the context ends
// (as bitswap would).

import (
	"context"
	"fmt"
	"io"
	"sync"

	"github.com/ipfs/boxo/files"
	"github.com/ipfs/kubo/core/coreiface/options"
	mh "github.com/multiformats/go-multihash"

	"github.com/ipfs/boxo/path"
	cid "github.com/ipfs/go-cid"
	ipld "github.com/ipfs/go-ipld-format"
	coreiface "github.com/ipfs/kubo/core/coreiface"
	"github.com/libp2p/go-libp2p/core/peer"
)

type BlockNet struct {
	mu      sync.Mutex
	changed chan struct{}
	blocks  []map[cid.Cid]ipld.Node
	link    [][]bool
	// gate, when set, is called (without the lock) before every Get; it may block.
	gate func(p int, c cid.Cid, ctx context.Context)
	// onPut, when set, is called (with the lock held) for every new block stored by peer p.
	onPut func(p int, c cid.Cid)
	// failGet, when set, may return an error for a Get.
	failGet func(p int, c cid.Cid) error
	files   map[string][]byte
	// NotFoundFast makes a Get of a block no peer holds fail at once instead of waiting.
	NotFoundFast bool
	// FailUnreachable makes a Get of a block that no currently connected peer holds fail at once
	// (a lookup that finds no provider) instead of waiting for a provider to appear.
	FailUnreachable bool
}

func NewBlockNet(n int) *BlockNet {
	b := &BlockNet{changed: make(chan struct{})}
	for i := 0; i < n; i++ {
		b.blocks = append(b.blocks, map[cid.Cid]ipld.Node{})
		row := make([]bool, n)
		for j := range row {
			row[j] = true
		}
		b.link = append(b.link, row)
	}
	return b
}

func (b *BlockNet) bump() {
	close(b.changed)
	b.changed = make(chan struct{})
}

func (b *BlockNet) SetLink(p, q int, up bool) {
	b.mu.Lock()
	b.link[p][q] = up
	b.link[q][p] = up
	b.bump()
	b.mu.Unlock()
}

func (b *BlockNet) SetGate(g func(p int, c cid.Cid, ctx context.Context)) {
	b.mu.Lock()
	b.gate = g
	b.mu.Unlock()
}

// Reset drops every block and heals every link.
func (b *BlockNet) Reset() {
	b.mu.Lock()
	for i := range b.blocks {
		b.blocks[i] = map[cid.Cid]ipld.Node{}
		for j := range b.link[i] {
			b.link[i][j] = true
		}
	}
	b.gate = nil
	b.onPut = nil
	b.failGet = nil
	b.NotFoundFast = false
	b.FailUnreachable = false
	b.bump()
	b.mu.Unlock()
}

func (b *BlockNet) put(p int, n ipld.Node) {
	b.mu.Lock()
	if _, ok := b.blocks[p][n.Cid()]; !ok {
		b.blocks[p][n.Cid()] = n
		if b.onPut != nil {
			b.onPut(p, n.Cid())
		}
		b.bump()
	}
	b.mu.Unlock()
}

// Drop removes a block from every peer.
func (b *BlockNet) Drop(c cid.Cid) {
	b.mu.Lock()
	for i := range b.blocks {
		delete(b.blocks[i], c)
	}
	b.mu.Unlock()
}

// Has reports whether peer p holds the block locally.
// Take removes a block from every peer and returns it with the peers that held it (to put it back)
func (b *BlockNet) Take(c cid.Cid) (ipld.Node, []int) {
	b.mu.Lock()
	defer b.mu.Unlock()
	var n ipld.Node
	var holders []int
	for i := range b.blocks {
		if x, ok := b.blocks[i][c]; ok {
			n = x
			holders = append(holders, i)
			delete(b.blocks[i], c)
		}
	}
	return n, holders
}

func (b *BlockNet) Restore(n ipld.Node, holders []int) {
	b.mu.Lock()
	for _, i := range holders {
		b.blocks[i][n.Cid()] = n
	}
	b.bump()
	b.mu.Unlock()
}

func (b *BlockNet) Has(p int, c cid.Cid) bool {
	b.mu.Lock()
	defer b.mu.Unlock()
	_, ok := b.blocks[p][c]
	return ok
}

func (b *BlockNet) get(ctx context.Context, p int, c cid.Cid) (ipld.Node, error) {
	b.mu.Lock()
	g := b.gate
	f := b.failGet
	b.mu.Unlock()
	if g != nil {
		g(p, c, ctx)
	}
	if f != nil {
		if err := f(p, c); err != nil {
			return nil, err
		}
	}
	for {
		if err := ctx.Err(); err != nil {
			return nil, err
		}
		b.mu.Lock()
		if n, ok := b.blocks[p][c]; ok {
			b.mu.Unlock()
			return n, nil
		}
		for q := range b.blocks {
			if q != p && b.link[p][q] {
				if n, ok := b.blocks[q][c]; ok {
					b.blocks[p][c] = n
					if b.onPut != nil {
						b.onPut(p, c)
					}
					b.mu.Unlock()
					return n, nil
				}
			}
		}
		if b.FailUnreachable {
			b.mu.Unlock()
			return nil, ipld.ErrNotFound{Cid: c}
		}
		if b.NotFoundFast {
			// nobody anywhere holds this block: fail like a lookup that found no provider
			held := false
			for q := range b.blocks {
				if _, ok := b.blocks[q][c]; ok {
					held = true
				}
			}
			if !held {
				b.mu.Unlock()
				return nil, ipld.ErrNotFound{Cid: c}
			}
		}
		ch := b.changed
		b.mu.Unlock()
		select {
		case <-ch:
		case <-ctx.Done():
			return nil, ctx.Err()
		}
	}
}

type fakeDag struct {
	net *BlockNet
	p   int
}

func (d *fakeDag) Get(ctx context.Context, c cid.Cid) (ipld.Node, error) {
	return d.net.get(ctx, d.p, c)
}
func (d *fakeDag) GetMany(ctx context.Context, cs []cid.Cid) <-chan *ipld.NodeOption {
	ch := make(chan *ipld.NodeOption, len(cs))
	go func() {
		defer close(ch)
		for _, c := range cs {
			n, err := d.Get(ctx, c)
			ch <- &ipld.NodeOption{Node: n, Err: err}
		}
	}()
	return ch
}
func (d *fakeDag) Add(ctx context.Context, n ipld.Node) error {
	d.net.put(d.p, n)
	return nil
}
func (d *fakeDag) AddMany(ctx context.Context, ns []ipld.Node) error {
	for _, n := range ns {
		d.net.put(d.p, n)
	}
	return nil
}
func (d *fakeDag) Remove(ctx context.Context, c cid.Cid) error       { return nil }
func (d *fakeDag) RemoveMany(ctx context.Context, c []cid.Cid) error { return nil }
func (d *fakeDag) Pinning() ipld.NodeAdder                           { return d }

type fakeKey struct{ id peer.ID }

func (k *fakeKey) Name() string    { return "self" }
func (k *fakeKey) Path() path.Path { return nil }
func (k *fakeKey) ID() peer.ID     { return k.id }

type fakeKeyAPI struct {
	coreiface.KeyAPI
	id peer.ID
}

func (k *fakeKeyAPI) Self(ctx context.Context) (coreiface.Key, error) { return &fakeKey{k.id}, nil }

type fakeAPI struct {
	coreiface.CoreAPI
	dag *fakeDag
	key *fakeKeyAPI
}

func (a *fakeAPI) Dag() coreiface.APIDagService { return a.dag }
func (a *fakeAPI) Key() coreiface.KeyAPI        { return a.key }

// ---- Unixfs (snapshots): files are kept whole, addressed by the sha2-256 of their bytes ----

type fakeUnixfs struct {
	coreiface.UnixfsAPI
	net *BlockNet
}

func (u *fakeUnixfs) Add(ctx context.Context, n files.Node, _ ...options.UnixfsAddOption) (path.ImmutablePath, error) {
	f, ok := n.(files.File)
	if !ok {
		return path.ImmutablePath{}, fmt.Errorf("fake unixfs: only plain files")
	}
	data, err := io.ReadAll(f)
	if err != nil {
		return path.ImmutablePath{}, err
	}
	h, err := mh.Sum(data, mh.SHA2_256, -1)
	if err != nil {
		return path.ImmutablePath{}, err
	}
	c := cid.NewCidV1(cid.Raw, h)
	u.net.mu.Lock()
	if u.net.files == nil {
		u.net.files = map[string][]byte{}
	}
	u.net.files[c.String()] = data
	u.net.mu.Unlock()
	return path.FromCid(c), nil
}

func (u *fakeUnixfs) Get(ctx context.Context, p path.Path) (files.Node, error) {
	segs := p.Segments()
	if len(segs) < 2 {
		return nil, fmt.Errorf("fake unixfs: bad path %s", p.String())
	}
	u.net.mu.Lock()
	data, ok := u.net.files[segs[1]]
	u.net.mu.Unlock()
	if !ok {
		return nil, fmt.Errorf("fake unixfs: %s not found", segs[1])
	}
	return files.NewBytesFile(data), nil
}

func (a *fakeAPI) Unixfs() coreiface.UnixfsAPI { return &fakeUnixfs{net: a.dag.net} }
