package main

// The scripted network seen through the library's DEFAULT pubsub adapter (pubsub/pubsubcoreapi): in
// scenarios flagged `ps=coreapi` every instance gets the real adapter over a fake
// coreiface.PubSubAPI whose membership, subscriptions and publications are the SimNet's. Peer joins
// are then found by the adapter's own polling diff, messages pass through its self-filter, and a
// store that is opened again watches the adapter's cached topic object.

import (
	"sync/atomic"
	"context"
	"io"
	"sync"
	"time"

	"berty.tech/go-orbit-db/iface"
	"berty.tech/go-orbit-db/pubsub/pubsubcoreapi"
	coreiface "github.com/ipfs/kubo/core/coreiface"
	"github.com/ipfs/kubo/core/coreiface/options"
	"github.com/libp2p/go-libp2p/core/peer"
)

type simCorePS struct {
	net *SimNet
	p   int
}

func (s *simCorePS) Ls(context.Context) ([]string, error) { return nil, nil }

func (s *simCorePS) Peers(ctx context.Context, opts ...options.PubSubPeersOption) ([]peer.ID, error) {
	o, _ := options.PubSubPeersOptions(opts...)
	n := s.net
	n.mu.Lock()
	defer n.mu.Unlock()
	if n.polls == nil {
		n.polls = map[string]int{}
	}
	n.polls[pollKey(s.p, o.Topic)]++
	var out []peer.ID
	for q := range n.ids {
		if q == s.p || !n.up[s.p][q] || n.hidden[pollKey(s.p, n.ids[q].String())] {
			continue
		}
		if ot, ok := n.topics[q][o.Topic]; ok && !ot.closed {
			out = append(out, n.ids[q])
		}
	}
	return out, nil
}

func pollKey(p int, s string) string { return string(rune('a'+p)) + "|" + s }

func (s *simCorePS) Publish(ctx context.Context, topic string, data []byte) error {
	s.net.record(&Msg{Kind: "pub", From: s.p, Topic: topic, Payload: append([]byte(nil), data...)})
	return nil
}

type simSub struct {
	ch     chan *iface.EventPubSubMessage
	from   peer.ID
	net    *SimNet
	closed int32
}

// Close: the node's subscription ends only here (kubo does not bind it to the context of Subscribe)
func (s *simSub) Close() error {
	if atomic.CompareAndSwapInt32(&s.closed, 0, 1) {
		atomic.AddInt32(&s.net.openSubs, -1)
	}
	return nil
}
func (s *simSub) Next(ctx context.Context) (coreiface.PubSubMessage, error) {
	select {
	case m, ok := <-s.ch:
		if !ok {
			return nil, io.EOF
		}
		return &fakeMsg{from: s.from, data: m.Content}, nil
	case <-ctx.Done():
		return nil, ctx.Err()
	}
}

func (s *simCorePS) Subscribe(ctx context.Context, topic string, opts ...options.PubSubSubscribeOption) (coreiface.PubSubSubscription, error) {
	n := s.net
	n.mu.Lock()
	t, ok := n.topics[s.p][topic]
	if !ok || t.closed {
		t = &simTopic{net: n, p: s.p, name: topic}
		n.topics[s.p][topic] = t
	}
	n.mu.Unlock()
	ch := make(chan *iface.EventPubSubMessage)
	t.mu.Lock()
	t.msgs = append(t.msgs, ch)
	t.mu.Unlock()
	// whatever the script delivers comes from "somebody else" (the adapter drops the node's own messages)
	atomic.AddInt32(&n.openSubs, 1)
	return &simSub{ch: ch, from: n.ids[(s.p+1)%len(n.ids)], net: n}, nil
}

type apiWithPS struct {
	coreiface.CoreAPI
	ps coreiface.PubSubAPI
}

func (a *apiWithPS) PubSub() coreiface.PubSubAPI { return a.ps }

// switchPS is what every instance gets as its PubSub option: the directly scripted SimNet, or (scenario
// flag ps=coreapi) the library's own adapter over it. One adapter per instance, as NewOrbitDB would make.
type switchPS struct {
	net  *SimNet
	p    int
	api  coreiface.CoreAPI
	mu   sync.Mutex
	core iface.PubSubInterface
}

func (s *switchPS) TopicSubscribe(ctx context.Context, topic string) (iface.PubSubTopic, error) {
	s.net.mu.Lock()
	coreMode := s.net.coreMode
	s.net.mu.Unlock()
	if !coreMode {
		return (&simPubSub{net: s.net, p: s.p}).TopicSubscribe(ctx, topic)
	}
	s.mu.Lock()
	if s.core == nil {
		s.core = pubsubcoreapi.NewPubSub(&apiWithPS{CoreAPI: s.api, ps: &simCorePS{net: s.net, p: s.p}}, s.net.ids[s.p], 300*time.Microsecond, nil, nil)
	}
	c := s.core
	s.mu.Unlock()
	return c.TopicSubscribe(ctx, topic)
}

// waitPolls waits until p's adapter has polled the members of the topic `k` more times.
func (n *SimNet) waitPolls(p int, topic string, k int) bool {
	key := pollKey(p, topic)
	n.mu.Lock()
	start := n.polls[key]
	n.mu.Unlock()
	deadline := time.Now().Add(2 * time.Second)
	for time.Now().Before(deadline) {
		n.mu.Lock()
		now := n.polls[key]
		n.mu.Unlock()
		if now >= start+k {
			return true
		}
		time.Sleep(100 * time.Microsecond)
	}
	return false
}

// rejoin makes p's adapter see q leave the topic and come back: the next poll reports the join.
func (n *SimNet) rejoin(p, q int, topic string) {
	hk := pollKey(p, n.ids[q].String())
	n.mu.Lock()
	if n.hidden == nil {
		n.hidden = map[string]bool{}
	}
	n.hidden[hk] = true
	n.mu.Unlock()
	n.waitPolls(p, topic, 2)
	n.mu.Lock()
	delete(n.hidden, hk)
	n.mu.Unlock()
	n.waitPolls(p, topic, 2)
}
