package main

// Network and lifecycle ops: announcements over the scripted pubsub, head exchange on join over the
// scripted direct channel, link cuts, instance restart.

import (
	"context"
	"encoding/json"
	"fmt"
	"os"
	"strings"
	"time"

	ipfslog "berty.tech/go-ipfs-log"
	"berty.tech/go-orbit-db/baseorbitdb"
	"berty.tech/go-orbit-db/iface"
	"github.com/libp2p/go-libp2p/core/peer"
	"github.com/libp2p/go-libp2p/p2p/host/eventbus"
)

// msgHeads decodes the heads of a recorded exchange-heads message (names them), or "undecodable".
func (w *World) msgHeads(m *Msg) (string, string) {
	msg := &iface.MessageExchangeHeads{}
	if err := json.Unmarshal(m.Payload, msg); err != nil {
		return "?", "undecodable"
	}
	es := make([]ipfslog.Entry, len(msg.Heads))
	for i, h := range msg.Heads {
		es[i] = h
	}
	addr := "other"
	if k := w.dbIndexOfAddr(msg.Address); k >= 0 && len(w.dbs) > 1 {
		addr = fmt.Sprintf("db%d", k)
	} else if msg.Address == w.dbAddr {
		addr = "db"
	}
	return addr, w.names2(es)
}

// waitPub waits for the announcement peer p's store publishes after a write (if it has topic peers).
func (w *World) waitPub(p int, from int, expect bool) {
	if !expect {
		return
	}
	deadline := time.Now().Add(2 * time.Second)
	for {
		found := false
		for _, m := range w.net.Sent(from) {
			if m.Kind == "pub" && m.From == p {
				found = true
			}
		}
		if found {
			if len(w.dbs) > 1 {
				time.Sleep(3 * time.Millisecond) // let cross-database publishes (if any) happen
			}
			for _, m := range w.net.Sent(from) {
				if m.Kind == "pub" && m.From == p {
					addr, heads := w.msgHeads(m)
					w.printf("pub %d m%d topic=%s addr=%s heads=%s\n", p, m.Seq, w.topicName(m.Topic), addr, heads)
					if len(w.dbs) <= 1 {
						break
					}
				}
			}
			return
		}
		if time.Now().After(deadline) {
			w.printf("pub %d none\n", p)
			return
		}
		time.Sleep(200 * time.Microsecond)
	}
}

func (w *World) topicName(t string) string {
	if k := w.dbIndexOfAddr(t); k >= 0 && len(w.dbs) > 1 {
		return fmt.Sprintf("db%d", k)
	}
	if t == w.dbAddr {
		return "db"
	}
	return "other"
}

func (w *World) hasTopicPeers(p int) bool {
	t := w.net.topicOf(p, w.dbAddr)
	if t == nil {
		return false
	}
	ps, _ := t.Peers(w.ctx)
	return len(ps) > 0
}

func barrierPayload(addr string) []byte {
	b, _ := json.Marshal(&iface.MessageExchangeHeads{Address: addr, Heads: nil})
	return b
}

// nthMsg returns the i-th (mod n) recorded message of the given kind from p (to q for dc).
func (w *World) nthMsg(kind string, p, q, i int) *Msg {
	var ms []*Msg
	for _, m := range w.net.Sent(0) {
		if m.Kind == kind && m.From == p && ((kind == "pub" && m.Topic == w.dbAddr) || (kind != "pub" && m.To == q)) {
			ms = append(ms, m)
		}
	}
	if len(ms) == 0 {
		return nil
	}
	return ms[i%len(ms)]
}

func (w *World) deliverPub(ctx context.Context, q int, m *Msg) {
	t := w.net.topicOf(q, m.Topic)
	if t == nil {
		w.printf("delivered %d nosub\n", q)
		return
	}
	ok := t.deliverMsg(ctx, m.Payload, barrierPayload(m.Topic))
	s := w.stores[q]
	qok := ok
	if s != nil {
		qok = w.quiesce(s) && ok
		w.flushLoadEnds(q, s)
	}
	w.printf("delivered %d quiesce=%v\n", q, qok)
}

// deliverDC hands a direct-channel payload to q's instance and waits until it has been handled
// (a second, empty-heads payload for the same address acts as a barrier).
func (w *World) deliverDC(ctx context.Context, q int, from int, payload []byte) {
	w.deliverDCTo(ctx, q, from, payload, false)
}

// deliverDCTo: with `late` the payload is handed to q's instance although q has no store open for the
// current database any more (the sender cannot know that the store was closed a moment ago)
func (w *World) deliverDCTo(ctx context.Context, q int, from int, payload []byte, late bool) {
	if w.stores[q] == nil && !late {
		w.printf("delivered %d nosub\n", q)
		return
	}
	bus := w.peers[q].odb.EventBus()
	sub, err := bus.Subscribe(new(baseorbitdb.EventExchangeHeads), eventbus.BufSize(64))
	if err != nil {
		panic(err)
	}
	defer sub.Close()
	// drain the stateful replay
	drain := func() {
		for {
			select {
			case <-sub.Out():
			default:
				return
			}
		}
	}
	drain()
	w.net.mu.Lock()
	em := w.net.emit[q]
	w.net.mu.Unlock()
	w.barrierSeq++
	barrierID := peer.ID(fmt.Sprintf("verif-barrier-%d", w.barrierSeq))
	// (the emit blocks while the instance's direct-channel goroutine is not reading: bound it, so
	// that an instance that stopped serving its channel shows up as an unhandled message, not a hang)
	if w.unserved[q] {
		w.printf("delivered %d quiesce=false unserved\n", q)
		return
	}
	// the barrier is a (headless) message for a database q HAS open: a message for a database without a
	// store is dropped before the instance reports having handled it
	barrierAddr := w.dbAddr
	if late {
		barrierAddr = ""
		for _, d := range w.dbs {
			if st := d.stores[q]; st != nil && (d.closed == nil || !d.closed[q]) {
				barrierAddr = d.addr
			}
		}
		if barrierAddr == "" {
			w.printf("delivered %d nosub\n", q)
			return
		}
	}
	emitted := make(chan struct{})
	go func() {
		_ = em.Emit(&iface.EventPubSubPayload{Payload: payload, Peer: w.net.ids[from]})
		_ = em.Emit(&iface.EventPubSubPayload{Payload: barrierPayload(barrierAddr), Peer: barrierID})
		close(emitted)
	}()
	ok := false
	deadline := time.After(w.quiesceTimeout)
	select {
	case <-emitted:
	case <-deadline:
		if w.unserved == nil {
			w.unserved = map[int]bool{}
		}
		w.unserved[q] = true
		w.printf("delivered %d quiesce=false unserved\n", q)
		return
	}
loop:
	for {
		select {
		case e := <-sub.Out():
			if ev, isEv := e.(baseorbitdb.EventExchangeHeads); isEv && ev.Peer == barrierID {
				ok = true
				break loop
			}
		case <-deadline:
			break loop
		case <-ctx.Done():
			break loop
		}
	}
	if !ok && ctx.Err() == nil {
		// the barrier message was never handled: the instance has stopped serving its channel
		if w.unserved == nil {
			w.unserved = map[int]bool{}
		}
		w.unserved[q] = true
		w.printf("delivered %d quiesce=false unserved\n", q)
		return
	}
	s := w.stores[q]
	if s != nil {
		ok = w.quiesce(s) && ok
		w.flushLoadEnds(q, s)
	}
	w.printf("delivered %d quiesce=%v\n", q, ok)
}

func (w *World) execNetOp(ctx context.Context, toks []string) (bool, error) {
	switch toks[0] {
	case "pubdeliver":
		// pubdeliver q p i : deliver to q the i-th announcement published by p
		q, p, i := atoi(toks[1]), atoi(toks[2]), atoi(toks[3])
		m := w.nthMsg("pub", p, -1, i)
		if m == nil {
			w.printf("msg none\n")
			return true, nil
		}
		addr, heads := w.msgHeads(m)
		w.printf("msg m%d from=%d addr=%s heads=%s\n", m.Seq, p, addr, heads)
		w.deliverPub(ctx, q, m)
	case "exchange":
		// exchange p q : p observes q joining the topic, sends its cached heads to q, q handles them
		p, q := atoi(toks[1]), atoi(toks[2])
		t := w.net.topicOf(p, w.dbAddr)
		if t == nil {
			w.printf("msg none\n")
			return true, nil
		}
		before := w.net.SentCount()
		if w.net.coreMode {
			// the adapter finds the join by polling: q disappears from p's view of the topic and comes back
			w.net.rejoin(p, q, w.dbAddr)
		} else {
			t.deliverPeerEvent(ctx, &iface.EventPubSubJoin{Topic: w.dbAddr, Peer: w.net.ids[q]})
		}
		var m *Msg
		deadline := time.Now().Add(2 * time.Second)
		for m == nil && time.Now().Before(deadline) {
			for _, x := range w.net.Sent(before) {
				if x.Kind == "dc" && x.From == p && x.To == q {
					m = x
				}
			}
			if m == nil {
				time.Sleep(200 * time.Microsecond)
			}
		}
		if m == nil {
			w.printf("msg none\n")
			return true, nil
		}
		addr, heads := w.msgHeads(m)
		w.printf("msg m%d from=%d addr=%s heads=%s\n", m.Seq, p, addr, heads)
		if len(toks) > 3 && toks[3] == "drop" {
			w.printf("delivered %d dropped\n", q)
			return true, nil
		}
		w.deliverDC(ctx, q, p, m.Payload)
		if len(toks) > 3 && toks[3] == "dup" {
			w.deliverDC(ctx, q, p, m.Payload)
		}
	case "dclate":
		// dclate p q : q's heads for the current database reach p's instance over the direct channel
		// after p closed its store of that database
		p, q := atoi(toks[1]), atoi(toks[2])
		sq := w.stores[q]
		if sq == nil {
			w.printf("delivered %d nosub\n", p)
			return true, nil
		}
		msg := &iface.MessageExchangeHeads{Address: w.dbAddr}
		for _, h := range sq.OpLog().Heads().Slice() {
			msg.Heads = append(msg.Heads, asEntry(h))
		}
		payload, _ := json.Marshal(msg)
		w.deliverDCTo(ctx, p, q, payload, true)
	case "liveload":
		// liveload p n : Load(n) on the store as it is (no restart): whatever it holds, no limit may panic
		p, n := atoi(toks[1]), atoi(toks[2])
		s := w.stores[p]
		if s == nil {
			w.printf("liveloaded %d nostore\n", p)
			return true, nil
		}
		res := guarded(func() error { return s.Load(ctx, n) })
		ok := w.quiesce(s)
		w.printf("liveloaded %d %s quiesce=%v\n", p, res, ok)
	case "loadasync":
		// loadasync p : Load(-1) on the open store, not waited for (a fetch of p is being held: the load
		// sits in the middle of a head, holding the join mutex)
		p := atoi(toks[1])
		if s := w.stores[p]; s != nil {
			go func() { _ = guarded(func() error { return s.Load(w.ctx, -1) }) }()
		}
	case "final":
		w.printf("final\n")
	case "cut", "heal":
		p, q := atoi(toks[1]), atoi(toks[2])
		w.blocks.SetLink(p, q, toks[0] == "heal")
		w.net.SetLink(p, q, toks[0] == "heal")
	case "restart":
		// restart p amount : close the whole instance, start a new one on the same keystore and
		// cache, reopen the database and Load(amount)
		p := atoi(toks[1])
		amount := -1
		if len(toks) > 2 && !strings.HasPrefix(toks[2], "ctx=") && toks[2] != "noload" {
			amount = atoi(toks[2])
		}
		// ctx=cancelled : the Load of the current database runs under a context that has already ended
		w.loadCancelled = toks[len(toks)-1] == "ctx=cancelled"
		// noload : the current database is opened and NOT loaded (a producer that only appends)
		w.noLoad = toks[len(toks)-1] == "noload"
		err := w.restart(ctx, p, amount)
		w.loadCancelled = false
		w.noLoad = false
		return true, err
	default:
		return false, nil
	}
	return true, nil
}

func (w *World) restart(ctx context.Context, p int, amount int) error {
	pr := w.peers[p]
	idBefore := pr.odb.Identity().ID
	w.saveCurrentDB()
	// the whole instance goes down: every database this peer had open
	type reopen struct {
		k    int
		kind string
		addr string
	}
	var todo []reopen
	for k, d := range w.dbs {
		if s, ok := d.stores[p]; ok {
			_ = s.Close()
			w.net.closeTopic(p, d.addr)
			delete(d.stores, p)
			todo = append(todo, reopen{k, d.kind, d.addr})
		} else if d.closed[p] {
			delete(d.closed, p)
			todo = append(todo, reopen{k, d.kind, d.addr})
		}
	}
	_ = pr.odb.Close()
	// the instance is closed: nothing of the library listens on its bus any more (what the harness itself
	// subscribed to is left out: store events of the watchers)
	if pr.census != nil {
		time.Sleep(2 * time.Millisecond)
		w.printf("buscensus %d %s\n", p, pr.census.open(w.ownBusSubs(p)))
	}
	pr.identity = nil
	if err := w.startInstanceFresh(pr); err != nil {
		return err
	}
	sameID := pr.odb.Identity().ID == idBefore
	if w.evc != nil {
		delete(w.evc, p)
		w.watchStoreEvents(p)
	}
	res := "ok"
	for _, t := range todo {
		var s iface.Store
		var err error
		opts := w.storeOptions()
		switch t.kind {
		case "kv":
			s, err = pr.odb.KeyValue(ctx, t.addr, opts)
		case "doc":
			s, err = pr.odb.Docs(ctx, t.addr, opts)
		case "log":
			s, err = pr.odb.Log(ctx, t.addr, opts)
		}
		if err != nil {
			if t.k == w.curDB {
				res = "openerr"
			}
			continue
		}
		w.dbs[t.k].stores[p] = s
		w.registerStore(s)
		n := -1
		if t.k == w.curDB {
			n = amount
		}
		if w.noLoad && t.k == w.curDB {
			continue
		}
		lerr := func() (e error) {
			defer func() {
				if r := recover(); r != nil {
					e = fmt.Errorf("panic: %v", strings.ReplaceAll(fmt.Sprint(r), "\n", " "))
				}
			}()
			lctx := ctx
			if w.loadCancelled && t.k == w.curDB {
				c, cancel := context.WithCancel(ctx)
				cancel()
				lctx = c
			}
			return s.Load(lctx, n)
		}()
		if t.k == w.curDB && lerr != nil {
			res = "err"
			if os.Getenv("VERIF_DEBUG") != "" {
				fmt.Fprintf(os.Stderr, "restart: Load: %v\n", lerr)
			}
			if strings.HasPrefix(lerr.Error(), "panic") {
				res = "panic"
			}
		}
	}
	w.stores = w.dbs[w.curDB].stores
	w.printf("restarted %d %s identity=%v\n", p, res, sameID)
	return nil
}
