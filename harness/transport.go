package main

// Transport adapters (C20, C12 frame part) driven without libp2p or kubo: a scripted
// coreiface.PubSubAPI feeds membership snapshots and messages to pubsubcoreapi and oneonone; a fake
// host.Host captures the direct-channel stream handler so frames can be fed to it byte by byte.

import (
	"bytes"
	"context"
	"encoding/binary"
	"encoding/hex"
	"fmt"
	"io"
	"sort"
	"strings"
	"sync"
	"time"

	"berty.tech/go-orbit-db/events"
	"berty.tech/go-orbit-db/iface"
	"berty.tech/go-orbit-db/pubsub/directchannel"
	"berty.tech/go-orbit-db/pubsub/oneonone"
	"berty.tech/go-orbit-db/pubsub/pubsubcoreapi"
	coreiface "github.com/ipfs/kubo/core/coreiface"
	"github.com/ipfs/kubo/core/coreiface/options"
	"github.com/libp2p/go-libp2p/core/host"
	"github.com/libp2p/go-libp2p/core/network"
	"github.com/libp2p/go-libp2p/core/peer"
	"github.com/libp2p/go-libp2p/core/protocol"
	"go.uber.org/zap"
)

// ---- scripted pubsub ----

type fakeBus struct {
	mu    sync.Mutex
	subs  map[string][]*fakeSub
	snaps map[string][][]peer.ID // per topic: queue of membership snapshots for Peers()
	last  map[string][]peer.ID
	polls map[string]int
	pubs  []string // topics published on, in order
	rendezvous bool           // Subscribe waits (briefly) for a second Subscribe of the same peer to the same topic
	inflight   map[string]int // peer|topic -> Subscribe calls that got here
}

func newFakeBus() *fakeBus {
	return &fakeBus{subs: map[string][]*fakeSub{}, snaps: map[string][][]peer.ID{}, last: map[string][]peer.ID{}, polls: map[string]int{}, inflight: map[string]int{}}
}

type fakeMsg struct {
	from peer.ID
	data []byte
}

func (m *fakeMsg) From() peer.ID    { return m.from }
func (m *fakeMsg) Data() []byte     { return m.data }
func (m *fakeMsg) Seq() []byte      { return nil }
func (m *fakeMsg) Topics() []string { return nil }

type fakeSub struct {
	ch     chan *fakeMsg
	closed chan struct{}
	once   sync.Once
}

func (s *fakeSub) Close() error { s.once.Do(func() { close(s.closed) }); return nil }
func (s *fakeSub) Next(ctx context.Context) (coreiface.PubSubMessage, error) {
	select {
	case m := <-s.ch:
		return m, nil
	case <-s.closed:
		return nil, io.EOF
	case <-ctx.Done():
		return nil, ctx.Err()
	}
}

type fakePubSubAPI struct {
	bus *fakeBus
	id  peer.ID
}

func (f *fakePubSubAPI) Ls(context.Context) ([]string, error) { return nil, nil }
func (f *fakePubSubAPI) Peers(ctx context.Context, opts ...options.PubSubPeersOption) ([]peer.ID, error) {
	o, _ := options.PubSubPeersOptions(opts...)
	f.bus.mu.Lock()
	defer f.bus.mu.Unlock()
	f.bus.polls[o.Topic]++
	if q := f.bus.snaps[o.Topic]; len(q) > 0 {
		f.bus.last[o.Topic] = q[0]
		f.bus.snaps[o.Topic] = q[1:]
	}
	return append([]peer.ID(nil), f.bus.last[o.Topic]...), nil
}
func (f *fakePubSubAPI) Publish(ctx context.Context, topic string, data []byte) error {
	f.bus.mu.Lock()
	f.bus.pubs = append(f.bus.pubs, topic)
	subs := append([]*fakeSub(nil), f.bus.subs[topic]...)
	f.bus.mu.Unlock()
	for _, s := range subs {
		select {
		case s.ch <- &fakeMsg{from: f.id, data: append([]byte(nil), data...)}:
		case <-s.closed:
		}
	}
	return nil
}
func (f *fakePubSubAPI) Subscribe(ctx context.Context, topic string, opts ...options.PubSubSubscribeOption) (coreiface.PubSubSubscription, error) {
	s := &fakeSub{ch: make(chan *fakeMsg, 1024), closed: make(chan struct{})}
	if f.bus.rendezvous {
		// two callers that both got as far as subscribing to one topic meet here (for a while): whatever
		// is supposed to keep the second one out has to act before this point
		key := string(f.id) + "|" + topic
		f.bus.mu.Lock()
		f.bus.inflight[key]++
		f.bus.mu.Unlock()
		deadline := time.Now().Add(30 * time.Millisecond)
		for time.Now().Before(deadline) {
			f.bus.mu.Lock()
			n := f.bus.inflight[key]
			f.bus.mu.Unlock()
			if n >= 2 {
				break
			}
			time.Sleep(100 * time.Microsecond)
		}
	}
	f.bus.mu.Lock()
	f.bus.subs[topic] = append(f.bus.subs[topic], s)
	f.bus.mu.Unlock()
	return s, nil
}

type fakeSwarm struct{ coreiface.SwarmAPI }

func (fakeSwarm) Connect(context.Context, peer.AddrInfo) error { return nil }

type transportAPI struct {
	coreiface.CoreAPI
	ps  *fakePubSubAPI
	key *fakeKeyAPI
}

func (a *transportAPI) PubSub() coreiface.PubSubAPI { return a.ps }
func (a *transportAPI) Key() coreiface.KeyAPI       { return a.key }
func (a *transportAPI) Swarm() coreiface.SwarmAPI   { return fakeSwarm{} }

func tpeer(i int) peer.ID { return peer.ID(fmt.Sprintf("peer-%02d", i)) }
func tpeerNum(p peer.ID) int {
	var n int
	fmt.Sscanf(string(p), "peer-%02d", &n)
	return n
}

// ---- ops ----

// tpeers <snap;snap;…> : membership snapshots fed to psTopic.WatchPeers, e.g. 1,2;2,3;-;3
func parseSnapList(s string) [][]peer.ID {
	var snaps [][]peer.ID
	for _, x := range strings.Split(s, ";") {
		var snap []peer.ID
		for _, n := range ints(x) {
			snap = append(snap, tpeer(n))
		}
		snaps = append(snaps, snap)
	}
	return snaps
}

// watchOnce: one WatchPeers watcher on `topic` while the underlying pubsub answers `snaps` one poll after
// the other (then keeps answering the last one); returns what it reported and what Peers() says at the end.
func (w *World) watchOnce(ps iface.PubSubInterface, bus *fakeBus, topic string, snaps [][]peer.ID) (string, string) {
	bus.mu.Lock()
	bus.snaps[topic] = snaps
	bus.polls[topic] = 0
	bus.mu.Unlock()
	t, _ := ps.TopicSubscribe(w.ctx, topic)
	ctx, cancel := context.WithCancel(w.ctx)
	ch, _ := t.WatchPeers(ctx)
	var evs []string
	done := make(chan struct{})
	go func() {
		for e := range ch {
			switch x := e.(type) {
			case *iface.EventPubSubJoin:
				evs = append(evs, fmt.Sprintf("join:%d", tpeerNum(x.Peer)))
			case *iface.EventPubSubLeave:
				evs = append(evs, fmt.Sprintf("leave:%d", tpeerNum(x.Peer)))
			}
		}
		close(done)
	}()
	// wait until every snapshot has been polled, plus two more polls
	deadline := time.Now().Add(3 * time.Second)
	for time.Now().Before(deadline) {
		bus.mu.Lock()
		n := bus.polls[topic]
		bus.mu.Unlock()
		if n >= len(snaps)+2 {
			break
		}
		time.Sleep(200 * time.Microsecond)
	}
	members, _ := t.Peers(w.ctx)
	cancel()
	<-done
	// canonical form: every maximal run of leaves sorted (they come out of a Go map)
	for i := 0; i < len(evs); {
		j := i
		for j < len(evs) && strings.HasPrefix(evs[j], "leave:") {
			j++
		}
		if j > i {
			sort.Slice(evs[i:j], func(a, b int) bool { return atoi(evs[i+a][6:]) < atoi(evs[i+b][6:]) })
			i = j
		} else {
			i++
		}
	}
	var ms []string
	for _, m := range members {
		ms = append(ms, fmt.Sprint(tpeerNum(m)))
	}
	sort.Strings(ms)
	return joinOrDash(evs), joinOrDash(ms)
}

// tpeers <snaps> [<snaps2>]: a watcher over the first list of snapshots; with a second list, a SECOND
// watcher on the same topic of the same adapter after the first one ended (a store closed and opened
// again on one instance): it must be told about the peers that are there, like the first one was.
func (w *World) tPeers(toks []string) {
	bus := newFakeBus()
	self := tpeer(0)
	api := &transportAPI{ps: &fakePubSubAPI{bus: bus, id: self}, key: &fakeKeyAPI{id: self}}
	ps := pubsubcoreapi.NewPubSub(api, self, 300*time.Microsecond, nil, nil)
	evs, ms := w.watchOnce(ps, bus, "t", parseSnapList(toks[1]))
	w.printf("tevents %s members=%s\n", evs, ms)
	if len(toks) > 2 {
		evs, ms = w.watchOnce(ps, bus, "t", parseSnapList(toks[2]))
		w.printf("tevents2 %s members=%s\n", evs, ms)
	}
}

// hxe is hx with the empty payload written "." (so that a list holding one empty payload is not "-")
func hxe(b []byte) string {
	if len(b) == 0 {
		return "."
	}
	// always the full bytes: these strings are decoded again (hx abbreviates long values)
	return hex.EncodeToString(b)
}

func joinOrDash(xs []string) string {
	if len(xs) == 0 {
		return "-"
	}
	return strings.Join(xs, ",")
}

// tmsgs <from:hex,from:hex,…> : messages on a topic as seen by peer 0's WatchMessages
func (w *World) tMsgs(toks []string) {
	bus := newFakeBus()
	self := tpeer(0)
	api := &transportAPI{ps: &fakePubSubAPI{bus: bus, id: self}, key: &fakeKeyAPI{id: self}}
	ps := pubsubcoreapi.NewPubSub(api, self, time.Millisecond, nil, nil)
	t, _ := ps.TopicSubscribe(w.ctx, "t")
	ctx, cancel := context.WithCancel(w.ctx)
	defer cancel()
	ch, _ := t.WatchMessages(ctx)
	n := 0
	if toks[1] != "-" {
		for _, m := range strings.Split(toks[1], ",") {
			i := strings.IndexByte(m, ':')
			from := atoi(m[:i])
			sender := &fakePubSubAPI{bus: bus, id: tpeer(from)}
			_ = sender.Publish(w.ctx, "t", unhx(m[i+1:]))
			n++
		}
	}
	// a sentinel from a remote peer marks the end
	_ = (&fakePubSubAPI{bus: bus, id: tpeer(99)}).Publish(w.ctx, "t", []byte("\x00end"))
	var got []string
	timeout := time.After(3 * time.Second)
loop:
	for {
		select {
		case m, ok := <-ch:
			if !ok {
				break loop
			}
			if string(m.Content) == "\x00end" {
				break loop
			}
			got = append(got, hxe(m.Content))
		case <-timeout:
			got = append(got, "TIMEOUT")
			break loop
		}
	}
	w.printf("tdelivered %s\n", joinOrDash(got))
}

type recEmitter struct {
	mu   sync.Mutex
	got  []string
	cond chan struct{}
}

func (r *recEmitter) Emit(e *iface.EventPubSubPayload) error {
	r.mu.Lock()
	r.got = append(r.got, fmt.Sprintf("%d:%s", tpeerNum(e.Peer), hxe(e.Payload)))
	r.mu.Unlock()
	select {
	case r.cond <- struct{}{}:
	default:
	}
	return nil
}
func (r *recEmitter) Close() error { return nil }
func (r *recEmitter) snapshot() []string {
	r.mu.Lock()
	defer r.mu.Unlock()
	return append([]string(nil), r.got...)
}

// tone a b <a-payloads> <b-payloads> : the pairwise pubsub channel between peers a and b;
// a sends its payloads to b and b its payloads to a, interleaved.
func (w *World) tOne(toks []string) {
	a, b := atoi(toks[1]), atoi(toks[2])
	bus := newFakeBus()
	mk := func(i int) (iface.DirectChannel, *recEmitter) {
		api := &transportAPI{ps: &fakePubSubAPI{bus: bus, id: tpeer(i)}, key: &fakeKeyAPI{id: tpeer(i)}}
		em := &recEmitter{cond: make(chan struct{}, 1)}
		ch, err := oneonone.NewChannelFactory(api)(w.ctx, em, &iface.DirectChannelOptions{Logger: zap.NewNop()})
		if err != nil {
			panic(err)
		}
		return ch, em
	}
	ca, ea := mk(a)
	cb, eb := mk(b)
	// both ends are members of whatever topic they poll
	bus.mu.Lock()
	bus.last = map[string][]peer.ID{}
	bus.mu.Unlock()
	// Peers() must report the other side for Connect to return: answer with both peers on every topic
	go func() {
		for i := 0; i < 4000; i++ {
			bus.mu.Lock()
			for t := range bus.subs {
				bus.last[t] = []peer.ID{tpeer(a), tpeer(b)}
			}
			bus.mu.Unlock()
			time.Sleep(time.Millisecond)
		}
	}()
	ctx, cancel := context.WithTimeout(w.ctx, 5*time.Second)
	defer cancel()
	var wg sync.WaitGroup
	wg.Add(2)
	var errA, errB error
	conc := false
	var third []byte
	hasThird := false
	twoctx := false
	for _, t := range toks[5:] {
		if t == "conc" {
			conc = true
		}
		if t == "twoctx" {
			// two stores of one instance connect to the peer one after the other, each under its own
			// context; the store that connected first is closed (its context ends) before anything is
			// sent: the channel belongs to the instance, the second store must go on hearing the peer
			twoctx = true
		}
		if strings.HasPrefix(t, "third=") {
			// a peer that is not an end of the channel publishes on the pairwise topic (its name is
			// derived from two public peer ids): nothing of it may be handed on as coming from a or b
			third, hasThird = unhx(strings.TrimPrefix(t, "third=")), true
		}
	}
	if conc {
		// two stores of one instance see the peer join in the same poll: both call Connect
		bus.mu.Lock()
		bus.rendezvous = true
		bus.mu.Unlock()
		wg.Add(1)
		go func() { _ = ca.Connect(ctx, tpeer(b)); wg.Done() }()
	}
	ctxFirst, cancelFirst := context.WithCancel(ctx)
	defer cancelFirst()
	if twoctx {
		go func() { errA = ca.Connect(ctxFirst, tpeer(b)); wg.Done() }()
	} else {
		go func() { errA = ca.Connect(ctx, tpeer(b)); wg.Done() }()
	}
	go func() { errB = cb.Connect(ctx, tpeer(a)); wg.Done() }()
	wg.Wait()
	if twoctx {
		if err := ca.Connect(ctx, tpeer(b)); err != nil && errA == nil {
			errA = err
		}
		cancelFirst()
		time.Sleep(5 * time.Millisecond)
	}
	pa, pb := commaHex(toks[3]), commaHex(toks[4])
	if hasThird {
		bus.mu.Lock()
		var ts []string
		for t := range bus.subs {
			ts = append(ts, t)
		}
		bus.mu.Unlock()
		for _, t := range ts {
			_ = (&fakePubSubAPI{bus: bus, id: tpeer(9)}).Publish(ctx, t, third)
		}
	}
	for i := 0; i < len(pa) || i < len(pb); i++ {
		if i < len(pa) {
			_ = ca.Send(ctx, tpeer(b), pa[i])
		}
		if i < len(pb) {
			_ = cb.Send(ctx, tpeer(a), pb[i])
		}
	}
	deadline := time.Now().Add(2 * time.Second)
	for time.Now().Before(deadline) && (len(eb.snapshot()) < len(pa) || len(ea.snapshot()) < len(pb)) {
		time.Sleep(200 * time.Microsecond)
	}
	time.Sleep(2 * time.Millisecond) // would-be duplicates
	bus.mu.Lock()
	topics := map[string]bool{}
	for _, t := range bus.pubs {
		topics[t] = true
	}
	bus.mu.Unlock()
	w.printf("tone connect=%s/%s topics=%d atob=%s btoa=%s\n", errStr(errA), errStr(errB), len(topics), joinOrDash(eb.snapshot()), joinOrDash(ea.snapshot()))
	_ = ca.Close()
	_ = cb.Close()
}

func commaHex(s string) [][]byte {
	var out [][]byte
	if s == "-" || s == "" {
		return out
	}
	for _, x := range strings.Split(s, ",") {
		out = append(out, unhx(strings.TrimPrefix(x, "x")))
	}
	return out
}

// ---- direct channel over a fake host ----

type fakeHost struct {
	host.Host
	mu      sync.Mutex
	handler network.StreamHandler
	peerOf  *fakeHost // NewStream connects to this host's handler
	id      peer.ID
	written bytes.Buffer
}

func (h *fakeHost) SetStreamHandler(_ protocol.ID, f network.StreamHandler) {
	h.mu.Lock()
	h.handler = f
	h.mu.Unlock()
}
func (h *fakeHost) RemoveStreamHandler(protocol.ID) {}
func (h *fakeHost) NewStream(ctx context.Context, p peer.ID, _ ...protocol.ID) (network.Stream, error) {
	return &fakeStream{w: &h.written, remote: p}, nil
}

type fakeConn struct {
	network.Conn
	remote peer.ID
}

func (c *fakeConn) RemotePeer() peer.ID { return c.remote }

type fakeStream struct {
	network.Stream
	r      io.Reader
	w      *bytes.Buffer
	remote peer.ID
	chunk  int
}

func (s *fakeStream) Read(p []byte) (int, error) {
	if s.r == nil {
		return 0, io.EOF
	}
	// a stream hands data over as it arrives: at most `chunk` bytes per Read (0 = whatever is asked for)
	if s.chunk > 0 && len(p) > s.chunk {
		p = p[:s.chunk]
	}
	return s.r.Read(p)
}
func (s *fakeStream) Write(p []byte) (int, error) { return s.w.Write(p) }
func (s *fakeStream) Close() error                { return nil }
func (s *fakeStream) Reset() error                { return nil }
func (s *fakeStream) Conn() network.Conn          { return &fakeConn{remote: s.remote} }

// tframe <hex of the raw stream bytes> | send:<hex payload> | len:<decimal uvarint value>[:<n payload bytes>]
// One incoming stream per op. The handler runs in this goroutine: a panic is caught and printed, so the
// trace says which input crashed it.
func (w *World) tFrame(toks []string) {
	recv := &fakeHost{id: tpeer(1)}
	em := &recEmitter{cond: make(chan struct{}, 1)}
	if _, err := directchannel.InitDirectChannelFactory(zap.NewNop(), recv)(w.ctx, em, nil); err != nil {
		panic(err)
	}
	var raw []byte
	arg := toks[1]
	switch {
	case strings.HasPrefix(arg, "send:"):
		// through the real Send of another peer's channel
		snd := &fakeHost{id: tpeer(2)}
		ch, _ := directchannel.InitDirectChannelFactory(zap.NewNop(), snd)(w.ctx, &recEmitter{cond: make(chan struct{}, 1)}, nil)
		if err := ch.Send(w.ctx, tpeer(1), unhx(arg[5:])); err != nil {
			w.printf("tframe senderr\n")
			return
		}
		raw = snd.written.Bytes()
	case strings.HasPrefix(arg, "len:"):
		parts := strings.Split(arg[4:], ":")
		var n uint64
		fmt.Sscanf(parts[0], "%d", &n)
		buf := make([]byte, binary.MaxVarintLen64)
		raw = append(raw, buf[:binary.PutUvarint(buf, n)]...)
		if len(parts) > 1 {
			raw = append(raw, bytes.Repeat([]byte{0xab}, atoi(parts[1]))...)
		}
	default:
		raw = unhx(arg)
	}
	res := "ok"
	func() {
		defer func() {
			if r := recover(); r != nil {
				res = "panic"
			}
		}()
		chunk := 0
		if len(toks) > 2 && strings.HasPrefix(toks[2], "chunk=") {
			chunk = atoi(toks[2][6:])
		}
		recv.handler(&fakeStream{r: bytes.NewReader(raw), remote: tpeer(2), chunk: chunk})
	}()
	got := em.snapshot()
	out := "none"
	if len(got) == 1 {
		// print the sender and a digest-free summary: length and first bytes
		i := strings.IndexByte(got[0], ':')
		payload := unhx(strings.TrimPrefix(got[0][i+1:], "."))
		sum := 0
		for k, b := range payload {
			sum = (sum + (k%251+1)*int(b)) % 1000000007
		}
		out = fmt.Sprintf("from=%s len=%d head=%s tail=%s sum=%d", got[0][:i], len(payload), hx(payload[:min(len(payload), 16)]),
			hx(payload[len(payload)-min(len(payload), 16):]), sum)
	} else if len(got) > 1 {
		out = fmt.Sprintf("multiple=%d", len(got))
	}
	w.printf("tframe %s %s\n", res, out)
}

func (w *World) execTransportOp(ctx context.Context, toks []string) (bool, error) {
	switch toks[0] {
	case "tpeers":
		w.tPeers(toks)
	case "tmsgs":
		w.tMsgs(toks)
	case "tone":
		w.tOne(toks)
	case "tframe":
		w.tFrame(toks)
	default:
		return false, nil
	}
	return true, nil
}

var _ = events.Event(nil)
