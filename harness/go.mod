module verif/harness

go 1.22

require (
	berty.tech/go-ipfs-log v1.10.3-0.20240719141234-29e2d26e2aeb
	berty.tech/go-orbit-db v0.0.0
	github.com/ipfs/boxo v0.20.0
	github.com/ipfs/go-cid v0.4.1
	github.com/ipfs/go-datastore v0.6.0
	github.com/ipfs/go-ipld-cbor v0.1.0
	github.com/ipfs/go-ipld-format v0.6.0
	github.com/ipfs/kubo v0.29.0
	github.com/libp2p/go-libp2p v0.34.1
	github.com/multiformats/go-multihash v0.2.3
	go.uber.org/zap v1.27.0
)

require (
	github.com/beorn7/perks v1.0.1 // indirect
	github.com/btcsuite/btcd v0.22.1 // indirect
	github.com/cespare/xxhash/v2 v2.3.0 // indirect
	github.com/crackcomm/go-gitignore v0.0.0-20231225121904-e25f5bc08668 // indirect
	github.com/decred/dcrd/dcrec/secp256k1/v4 v4.3.0 // indirect
	github.com/go-logr/logr v1.4.1 // indirect
	github.com/go-logr/stdr v1.2.2 // indirect
	github.com/gogo/protobuf v1.3.2 // indirect
	github.com/golang/snappy v0.0.4 // indirect
	github.com/google/gopacket v1.1.19 // indirect
	github.com/google/uuid v1.6.0 // indirect
	github.com/hashicorp/errwrap v1.1.0 // indirect
	github.com/hashicorp/go-multierror v1.1.1 // indirect
	github.com/hashicorp/golang-lru v1.0.2 // indirect
	github.com/hashicorp/golang-lru/v2 v2.0.7 // indirect
	github.com/ipfs/bbloom v0.0.4 // indirect
	github.com/ipfs/go-block-format v0.2.0 // indirect
	github.com/ipfs/go-ds-leveldb v0.5.0 // indirect
	github.com/ipfs/go-ipfs-util v0.0.3 // indirect
	github.com/ipfs/go-ipld-legacy v0.2.1 // indirect
	github.com/ipfs/go-libipfs v0.6.2 // indirect
	github.com/ipfs/go-log v1.0.5 // indirect
	github.com/ipfs/go-log/v2 v2.5.1 // indirect
	github.com/ipfs/go-metrics-interface v0.0.1 // indirect
	github.com/ipld/go-codec-dagpb v1.6.0 // indirect
	github.com/ipld/go-ipld-prime v0.21.0 // indirect
	github.com/jbenet/goprocess v0.1.4 // indirect
	github.com/klauspost/cpuid/v2 v2.2.7 // indirect
	github.com/libp2p/go-buffer-pool v0.1.0 // indirect
	github.com/libp2p/go-cidranger v1.1.0 // indirect
	github.com/libp2p/go-libp2p-asn-util v0.4.1 // indirect
	github.com/libp2p/go-libp2p-kad-dht v0.25.2 // indirect
	github.com/libp2p/go-libp2p-kbucket v0.6.3 // indirect
	github.com/libp2p/go-libp2p-record v0.2.0 // indirect
	github.com/libp2p/go-libp2p-routing-helpers v0.7.3 // indirect
	github.com/libp2p/go-msgio v0.3.0 // indirect
	github.com/libp2p/go-netroute v0.2.1 // indirect
	github.com/mattn/go-isatty v0.0.20 // indirect
	github.com/miekg/dns v1.1.59 // indirect
	github.com/minio/sha256-simd v1.0.1 // indirect
	github.com/mr-tron/base58 v1.2.0 // indirect
	github.com/multiformats/go-base32 v0.1.0 // indirect
	github.com/multiformats/go-base36 v0.2.0 // indirect
	github.com/multiformats/go-multiaddr v0.12.4 // indirect
	github.com/multiformats/go-multiaddr-dns v0.3.1 // indirect
	github.com/multiformats/go-multibase v0.2.0 // indirect
	github.com/multiformats/go-multicodec v0.9.0 // indirect
	github.com/multiformats/go-multistream v0.5.0 // indirect
	github.com/multiformats/go-varint v0.0.7 // indirect
	github.com/opentracing/opentracing-go v1.2.0 // indirect
	github.com/pkg/errors v0.9.1 // indirect
	github.com/polydawn/refmt v0.89.0 // indirect
	github.com/prometheus/client_golang v1.19.1 // indirect
	github.com/prometheus/client_model v0.6.1 // indirect
	github.com/prometheus/common v0.53.0 // indirect
	github.com/prometheus/procfs v0.15.0 // indirect
	github.com/samber/lo v1.39.0 // indirect
	github.com/spaolacci/murmur3 v1.1.0 // indirect
	github.com/syndtr/goleveldb v1.0.1-0.20210819022825-2ae1ddf74ef7 // indirect
	github.com/whyrusleeping/base32 v0.0.0-20170828182744-c30ac30633cc // indirect
	github.com/whyrusleeping/cbor-gen v0.1.1 // indirect
	github.com/whyrusleeping/go-keyspace v0.0.0-20160322163242-5b898ac5add1 // indirect
	go.opencensus.io v0.24.0 // indirect
	go.opentelemetry.io/otel v1.26.0 // indirect
	go.opentelemetry.io/otel/metric v1.26.0 // indirect
	go.opentelemetry.io/otel/trace v1.26.0 // indirect
	go.uber.org/multierr v1.11.0 // indirect
	golang.org/x/crypto v0.31.0 // indirect
	golang.org/x/exp v0.0.0-20240506185415-9bf2ced13842 // indirect
	golang.org/x/net v0.26.0 // indirect
	golang.org/x/sync v0.10.0 // indirect
	golang.org/x/sys v0.28.0 // indirect
	golang.org/x/xerrors v0.0.0-20231012003039-104605ab7028 // indirect
	gonum.org/v1/gonum v0.15.0 // indirect
	google.golang.org/protobuf v1.34.1 // indirect
	lukechampine.com/blake3 v1.3.0 // indirect
)

replace berty.tech/go-orbit-db => /repo
