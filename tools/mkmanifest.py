#!/usr/bin/env python3
"""Regenerate /verif/MANIFEST.json from checklib/props.py (claimed checks) — properties without a
registered check are listed under not_applicable with the reason given in NOT_YET below."""
import json, os, sys, subprocess
ROOT = os.path.dirname(os.path.dirname(os.path.abspath(__file__)))
sys.path.insert(0, os.path.join(ROOT, "checklib"))
from props import PROPS, MANIFEST_TEXT  # noqa

ids = [json.loads(l)["id"] for l in open(os.path.join(ROOT, "properties.jsonl"))]
hooks = subprocess.run(["git", "-C", "/repo", "log", "--format=%h %s"], stdout=subprocess.PIPE, text=True).stdout.splitlines()
hook_commits = [l.split()[0] for l in hooks if l.split(" ", 1)[1].startswith("verif:")]
m = {
    "version": 1,
    "setup_cmd": "./setup.sh",
    "hooks": {
        "guard": "verif",
        "enable": "go build -tags verif (the harness module /verif/harness has `replace berty.tech/go-orbit-db => /repo`, so every check rebuilds /repo's working tree with the hooks on)",
        "baseline_off_cmd": "cd /repo && GOFLAGS=-mod=mod GOPROXY=off GOSUMDB=off GOTOOLCHAIN=local go test -vet=off -count=1 -timeout 25m ./...",
        "source_commits": hook_commits,
        "add_only": True,
    },
    "engines": [
        {"name": "lean-model", "path": "lean/OrbitModel", "serves_properties": sorted(MANIFEST_TEXT), "kind_free_text": "Lean 4 model (L0), specifications (L1), kernel-checked refinement and property theorems; Audit.lean measures axioms and obligation cones"},
        {"name": "hlight", "path": "harness", "serves_properties": sorted(MANIFEST_TEXT), "kind_free_text": "Go correspondence harness driving the real stores/replicator over a fake IPFS and scripted transports; emits the line protocol the Lean driver replays"},
        {"name": "driver", "path": "lean/OrbitModel/Driver", "serves_properties": sorted(MANIFEST_TEXT), "kind_free_text": "compiled Lean executable: replays traces through the model (correspondence) and evaluates each property's L1 predicate on the implementation's observations"},
    ],
    "checks": [],
    "notes": "All checks are ./check <id>; see DESIGN.md. A KNOWN-FINDING line names a defect of the pinned tree listed in known_findings.json.",
    "not_applicable": [],
}
for i in ids:
    if i in PROPS and i in MANIFEST_TEXT:
        t = MANIFEST_TEXT[i]
        m["checks"].append({
            "property_id": i,
            "quick_cmd": f"./check {i} --tier quick",
            "thorough_cmd": f"./check {i} --tier thorough",
            "evidence_file": f"evidence/{i}.json",
            "replay_cmd_template": f"./check {i} --replay {{path}}",
            "engine": "lean-model+hlight",
            "level_claimed": {"category": "proof", "text": t["text"], "design_ref": t.get("ref", "DESIGN.md §6 " + i)},
            "level_note": t["note"],
            "technique": t["technique"],
        })
    else:
        m["not_applicable"].append({"property_id": i, "reason": "no check registered yet: the Lean model and harness family for this property are still under construction in this build (see DESIGN.md §10 build order); nothing is claimed for it"})
json.dump(m, open(os.path.join(ROOT, "MANIFEST.json"), "w"), indent=1)
print("claimed:", [c["property_id"] for c in m["checks"]])
