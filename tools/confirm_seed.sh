#!/bin/bash
# confirm_seed.sh <id> <srcdir>: confirm a candidate breaking change in a scratch worktree of /repo:
# builds, existing suite passes with it, demonstration fails with it and passes without it.
# On success stores it under /verif/seeded/<id>/.
set -u
id=$1; src=$2
export GOFLAGS=-mod=mod GOPROXY=off GOSUMDB=off GOTOOLCHAIN=local
wt=/tmp/seedwt-$id
git -C /repo worktree remove --force $wt 2>/dev/null
git -C /repo worktree add -q --detach $wt HEAD || exit 2
trap "git -C /repo worktree remove --force $wt; git -C /repo worktree prune" EXIT
cd $wt
demo=$(ls $src/tests/zz_*demo*_test.go $src/*/zz_*demo*_test.go 2>/dev/null | head -1)
demoname=$(grep -o "^func Test[A-Za-z0-9_]*" $demo | sed 's/func //' | paste -sd'|')
echo "demo file $demo test $demoname"
git apply --check $src/MUTATION.diff || { echo "RESULT patch-does-not-apply"; exit 3; }
cp $demo tests/
# without the change
go test -vet=off -count=1 -run "^($demoname)\$" ./tests/ > /tmp/seed-$id-without.log 2>&1; w=$?
git apply $src/MUTATION.diff
go build ./... || { echo "RESULT does-not-build"; exit 3; }
go test -vet=off -count=1 -run "^($demoname)\$" ./tests/ > /tmp/seed-$id-with.log 2>&1; m=$?
go test -vet=off -count=1 -timeout 25m -skip "^($demoname)\$" ./... > /tmp/seed-$id-suite.log 2>&1; s=$?
echo "demo without change: exit $w; demo with change: exit $m; suite with change: exit $s"
if [ $w -eq 0 ] && [ $m -ne 0 ] && [ $s -eq 0 ]; then
  mkdir -p /verif/seeded/$id
  cp $src/MUTATION.diff /verif/seeded/$id/patch.diff
  cp $demo /verif/seeded/$id/demo_test.go.txt
  [ -f $src/MUTATION.md ] && cp $src/MUTATION.md /verif/seeded/$id/MUTATION.md
  grep -m3 -- "--- FAIL\|Error:\|expected" /tmp/seed-$id-with.log > /verif/seeded/$id/demo_failure.txt
  echo "RESULT confirmed"
else
  echo "RESULT rejected"; for f in with without suite; do tail -n 5 /tmp/seed-$id-$f.log; done
fi
