#!/usr/bin/env python3
"""run_seeded.py [--tier quick|thorough] [--props C01,C02|all] <seed-id>...

Applies each /verif/seeded/<id>/patch.diff to /repo's working tree, runs the registered checks,
records which of them report a violation, and restores /repo (git checkout -- .). Never commits.
Results are written to /verif/seeded/<id>/result.json and summarised in /verif/seeded/RESULTS.md.
"""
import json, os, subprocess, sys, time, re

ROOT = "/verif"

def sh(cmd, **kw):
    return subprocess.run(cmd, shell=True, text=True, capture_output=True, **kw)

def main():
    args = sys.argv[1:]
    tier = "quick"
    props = None
    while args and args[0].startswith("--"):
        if args[0] == "--tier":
            tier = args[1]; args = args[2:]
        elif args[0] == "--props":
            props = None if args[1] == "all" else args[1].split(","); args = args[2:]   # "own": the seed's own property
        else:
            sys.exit("unknown flag " + args[0])
    man = json.load(open(f"{ROOT}/MANIFEST.json"))
    claimed = [c["property_id"] for c in man["checks"]]
    if sh("git -C /repo status --porcelain").stdout.strip():
        sys.exit("/repo working tree is not clean")
    for sid in args:
        d = f"{ROOT}/seeded/{sid}"
        meta = json.load(open(f"{d}/meta.json")) if os.path.exists(f"{d}/meta.json") else {}
        if meta.get("active") is False:
            print(sid, "skipped: " + meta.get("status", "inactive")[:80])
            continue
        todo = props or claimed
        if props == ["own"]:
            todo = [meta.get("property")]
        res = {"seed": sid, "property": meta.get("property"), "tier": tier, "checks": {}}
        if todo != claimed and os.path.exists(f"{d}/result.json"):
            # a partial run updates the rows of the checks it ran
            res["checks"] = json.load(open(f"{d}/result.json")).get("checks", {})
        r = sh(f"git -C /repo apply {d}/patch.diff")
        if r.returncode != 0:
            res["error"] = "patch does not apply: " + r.stderr.strip()
            print(sid, res["error"])
        else:
            try:
                for pid in todo:
                    t0 = time.time()
                    r = sh(f"{ROOT}/check {pid} --tier {tier}" if tier != "quick" else f"{ROOT}/check {pid}", cwd=ROOT)
                    viol = [l for l in r.stdout.splitlines() if l.startswith("VIOLATION")]
                    first = ""
                    if viol:
                        m = re.search(r"replay=(\S+)", viol[0])
                        if m and os.path.exists(m.group(1)):
                            with open(m.group(1)) as f:
                                head = [l.strip() for l in f.readlines()[:3]]
                            first = " | ".join(head)
                    res["checks"][pid] = {"exit": r.returncode, "violation": bool(viol), "line": viol[0] if viol else "",
                                          "what": first, "seconds": round(time.time() - t0, 1)}
                    print(sid, pid, "exit", r.returncode, viol[0] if viol else "", flush=True)
            finally:
                sh("git -C /repo checkout -- .")
        json.dump(res, open(f"{d}/result.json", "w"), indent=1)
    # restore evidence of the unchanged tree for the checks that were run on a changed tree
    sh(f"git -C {ROOT} checkout -- evidence")
    summarise()

def summarise():
    rows = []
    for sid in sorted(os.listdir(f"{ROOT}/seeded")):
        d = f"{ROOT}/seeded/{sid}"
        if not os.path.isdir(d) or not os.path.exists(f"{d}/result.json"):
            continue
        res = json.load(open(f"{d}/result.json"))
        meta = json.load(open(f"{d}/meta.json")) if os.path.exists(f"{d}/meta.json") else {}
        fired = [p for p, c in res.get("checks", {}).items() if c["violation"]]
        own = meta.get("property")
        if meta.get("active") is False:
            rows.append((sid, own, meta.get("summary", ""), "(obsolete, see meta.json)", "-"))
            continue
        rows.append((sid, own, meta.get("summary", ""), "yes" if own in fired else "NO", ", ".join(fired) or "-"))
    with open(f"{ROOT}/seeded/RESULTS.md", "w") as f:
        f.write("# Seeded breaking changes: which checks report them\n\n")
        f.write("| seed | property | change | caught by its own check | all checks reporting |\n|---|---|---|---|---|\n")
        for r in rows:
            f.write("| " + " | ".join(str(x) for x in r) + " |\n")

if __name__ == "__main__":
    main()
