// extract regenerates, from /repo's current Go text, the Lean text of the few pieces of go-orbit-db
// that are straight-line integer arithmetic or constants. It understands only: integer
// if / else-if / else, := and =, comparisons, + and -, && and ||, !, a fixed table of calls mapped to
// named parameters, pointer-nil tests mapped to Bool parameters, integer constants. Anything else makes
// it stop with "untranslatable", which the check treats as a broken tie.
package main

import (
	"fmt"
	"go/ast"
	"go/constant"
	"go/parser"
	"go/printer"
	"go/token"
	"os"
	"path/filepath"
	"sort"
	"strings"
)

type target struct {
	file   string            // relative to the repo
	fn     string            // function (method) name
	lean   string            // name of the generated Lean definition
	params []string          // Lean parameters (all Int unless in bools)
	bools  map[string]bool   // Lean Bool parameters
	calls  map[string]string // Go expression text -> Lean parameter
	result string            // "call:<SetX>" = argument of that call; "var:<name>" = value of variable at the end; "stop:<prefix>" = stop before the statement whose text starts with prefix
	resVar string            // with "stop:": the variable whose value is the result
	only   string            // if set, translate only the statements from the one that starts with this text
}

var fset = token.NewFileSet()

type untranslatable string

func die(format string, a ...interface{}) {
	panic(untranslatable(fmt.Sprintf(format, a...)))
}

func src(n ast.Node) string {
	var sb strings.Builder
	printer.Fprint(&sb, fset, n)
	return sb.String()
}

type tr struct {
	t     target
	lines []string
	fresh int
}

func (t *tr) expr(e ast.Expr) string {
	s := src(e)
	if m, ok := t.t.calls[s]; ok {
		return m
	}
	switch x := e.(type) {
	case *ast.BasicLit:
		if x.Kind == token.INT {
			return x.Value
		}
	case *ast.Ident:
		if x.Name == "true" || x.Name == "false" {
			return x.Name
		}
		return "v_" + x.Name
	case *ast.ParenExpr:
		return "(" + t.expr(x.X) + ")"
	case *ast.UnaryExpr:
		switch x.Op {
		case token.SUB:
			return "(-" + t.expr(x.X) + ")"
		case token.NOT:
			return "(!" + t.expr(x.X) + ")"
		}
	case *ast.BinaryExpr:
		ops := map[token.Token]string{token.ADD: "+", token.SUB: "-", token.LSS: "<", token.GTR: ">", token.LEQ: "≤",
			token.GEQ: "≥", token.EQL: "==", token.NEQ: "!=", token.LAND: "&&", token.LOR: "||", token.MUL: "*"}
		if o, ok := ops[x.Op]; ok {
			l, r := t.expr(x.X), t.expr(x.Y)
			switch x.Op {
			case token.LSS, token.GTR, token.LEQ, token.GEQ:
				return "(decide (" + l + " " + o + " " + r + "))"
			}
			return "(" + l + " " + o + " " + r + ")"
		}
	}
	die("%s: expression %q", t.t.fn, s)
	return ""
}

// assigned collects the variables assigned (= or :=) in a block, in order of first assignment.
func assigned(stmts []ast.Stmt, into *[]string) {
	add := func(n string) {
		for _, x := range *into {
			if x == n {
				return
			}
		}
		*into = append(*into, n)
	}
	for _, s := range stmts {
		switch x := s.(type) {
		case *ast.AssignStmt:
			for _, l := range x.Lhs {
				if id, ok := l.(*ast.Ident); ok {
					add(id.Name)
				}
			}
		case *ast.IfStmt:
			assigned(x.Body.List, into)
			if x.Else != nil {
				switch el := x.Else.(type) {
				case *ast.BlockStmt:
					assigned(el.List, into)
				case *ast.IfStmt:
					assigned([]ast.Stmt{el}, into)
				}
			}
		}
	}
}

// block translates statements into a Lean expression that returns the tuple of `outs`.
func (t *tr) block(stmts []ast.Stmt, outs []string, indent string) string {
	var sb strings.Builder
	for _, s := range stmts {
		switch x := s.(type) {
		case *ast.AssignStmt:
			if len(x.Lhs) != 1 || len(x.Rhs) != 1 {
				die("%s: assignment %q", t.t.fn, src(s))
			}
			id, ok := x.Lhs[0].(*ast.Ident)
			if !ok {
				die("%s: assignment target %q", t.t.fn, src(s))
			}
			fmt.Fprintf(&sb, "%slet v_%s : Int := %s\n", indent, id.Name, t.expr(x.Rhs[0]))
		case *ast.IfStmt:
			if x.Init != nil {
				sb.WriteString(t.block([]ast.Stmt{x.Init}, nil, indent))
			}
			var vs []string
			assigned([]ast.Stmt{&ast.IfStmt{Cond: x.Cond, Body: x.Body, Else: x.Else}}, &vs)
			// only variables that are live outside: those already defined or in outs — keep all, defined ones shadow
			tuple := tupleOf(vs)
			thenS := t.block(x.Body.List, vs, indent+"    ")
			elseS := indent + "    " + tuple + "\n"
			if x.Else != nil {
				switch el := x.Else.(type) {
				case *ast.BlockStmt:
					elseS = t.block(el.List, vs, indent+"    ")
				case *ast.IfStmt:
					elseS = t.block([]ast.Stmt{el}, vs, indent+"    ")
				}
			}
			fmt.Fprintf(&sb, "%slet %s := if %s then\n%s%s  else\n%s", indent, patOf(vs), t.expr(x.Cond), thenS, indent, elseS)
		case *ast.ExprStmt:
			// a call such as SetMax(x): handled by result, otherwise ignored if mapped as harmless
			continue
		default:
			die("%s: statement %q", t.t.fn, src(s))
		}
	}
	if outs != nil {
		sb.WriteString(indent + tupleOf(outs) + "\n")
	}
	return sb.String()
}

func tupleOf(vs []string) string {
	if len(vs) == 0 {
		return "()"
	}
	p := make([]string, len(vs))
	for i, v := range vs {
		p[i] = "v_" + v
	}
	if len(p) == 1 {
		return p[0]
	}
	return "(" + strings.Join(p, ", ") + ")"
}
func patOf(vs []string) string { return tupleOf(vs) }

func findFunc(f *ast.File, name string) *ast.FuncDecl {
	for _, d := range f.Decls {
		if fd, ok := d.(*ast.FuncDecl); ok && fd.Name.Name == name {
			return fd
		}
	}
	return nil
}

func translate(repo string, t target) string {
	f, err := parser.ParseFile(fset, filepath.Join(repo, t.file), nil, 0)
	if err != nil {
		die("%s: %v", t.file, err)
	}
	fd := findFunc(f, t.fn)
	if fd == nil {
		die("%s: function %s not found", t.file, t.fn)
	}
	stmts := fd.Body.List
	if t.only != "" {
		i := 0
		for i < len(stmts) && !strings.HasPrefix(src(stmts[i]), t.only) {
			i++
		}
		if i == len(stmts) {
			die("%s: statement starting with %q not found in %s", t.file, t.only, t.fn)
		}
		stmts = stmts[i:]
	}
	x := &tr{t: t}
	var body []ast.Stmt
	resultExpr := ""
	for _, s := range stmts {
		txt := src(s)
		if strings.HasPrefix(t.result, "stop:") && strings.HasPrefix(txt, strings.TrimPrefix(t.result, "stop:")) {
			break
		}
		if strings.HasPrefix(t.result, "call:") {
			if es, ok := s.(*ast.ExprStmt); ok {
				if c, ok := es.X.(*ast.CallExpr); ok && strings.HasSuffix(src(c.Fun), strings.TrimPrefix(t.result, "call:")) && len(c.Args) == 1 {
					resultExpr = x.expr(c.Args[0])
					break
				}
			}
		}
		body = append(body, s)
	}
	if strings.HasPrefix(t.result, "stop:") {
		resultExpr = "v_" + t.resVar
	}
	if strings.HasPrefix(t.result, "var:") {
		resultExpr = "v_" + strings.TrimPrefix(t.result, "var:")
	}
	if resultExpr == "" {
		die("%s: result %q not found in %s", t.file, t.result, t.fn)
	}
	var ps []string
	for _, p := range t.params {
		ty := "Int"
		if t.bools[p] {
			ty = "Bool"
		}
		ps = append(ps, fmt.Sprintf("(%s : %s)", p, ty))
	}
	// function parameters of the Go function that are ints become v_<name>
	if fd.Type.Params != nil {
		for _, fl := range fd.Type.Params.List {
			if id, ok := fl.Type.(*ast.Ident); ok && id.Name == "int" {
				for _, n := range fl.Names {
					ps = append(ps, fmt.Sprintf("(v_%s : Int)", n.Name))
				}
			}
		}
	}
	return fmt.Sprintf("/-- generated from %s, func %s -/\ndef %s %s : Int :=\n%s  %s\n", t.file, t.fn, t.lean, strings.Join(ps, " "), x.block(body, nil, "  "), resultExpr)
}

// constant evaluates a package-level integer constant or variable initialiser.
func constantOf(repo, file, name string) string {
	f, err := parser.ParseFile(fset, filepath.Join(repo, file), nil, 0)
	if err != nil {
		die("%s: %v", file, err)
	}
	for _, d := range f.Decls {
		gd, ok := d.(*ast.GenDecl)
		if !ok {
			continue
		}
		for _, sp := range gd.Specs {
			vs, ok := sp.(*ast.ValueSpec)
			if !ok {
				continue
			}
			for i, n := range vs.Names {
				if n.Name == name && i < len(vs.Values) {
					return evalConst(vs.Values[i], file, name)
				}
			}
		}
	}
	die("%s: constant %s not found", file, name)
	return ""
}

func evalConst(e ast.Expr, file, name string) string {
	var ev func(e ast.Expr) constant.Value
	ev = func(e ast.Expr) constant.Value {
		switch x := e.(type) {
		case *ast.BasicLit:
			if x.Kind == token.INT {
				return constant.MakeFromLiteral(x.Value, token.INT, 0)
			}
		case *ast.ParenExpr:
			return ev(x.X)
		case *ast.BinaryExpr:
			return constant.BinaryOp(ev(x.X), x.Op, ev(x.Y))
		}
		die("%s: constant %s = %q", file, name, src(e))
		return nil
	}
	return ev(e).ExactString()
}

// assignedConst finds `recv.field = <int literal>` inside a function (default values).
func assignedConst(repo, file, fn, lhs string) string {
	f, err := parser.ParseFile(fset, filepath.Join(repo, file), nil, 0)
	if err != nil {
		die("%s: %v", file, err)
	}
	fd := findFunc(f, fn)
	if fd == nil {
		die("%s: function %s not found", file, fn)
	}
	res := ""
	ast.Inspect(fd.Body, func(n ast.Node) bool {
		if a, ok := n.(*ast.AssignStmt); ok && len(a.Lhs) == 1 && src(a.Lhs[0]) == lhs {
			if bl, ok := a.Rhs[0].(*ast.BasicLit); ok && res == "" {
				res = bl.Value
			}
		}
		return true
	})
	if res == "" {
		die("%s: no literal assignment to %s in %s", file, lhs, fn)
	}
	return res
}

// frameGuard translates the size check of directchannel.handleNewPeer: the `if … > DelimitedReadMaxSize
// { …return }` statement, with `length64` read as the unsigned 64-bit value and `length` as
// `int(length64)` when (and only when) that conversion precedes the check.
func frameGuard(repo string) string {
	file := "pubsub/directchannel/channel.go"
	f, err := parser.ParseFile(fset, filepath.Join(repo, file), nil, 0)
	if err != nil {
		die("%s: %v", file, err)
	}
	fd := findFunc(f, "handleNewPeer")
	if fd == nil {
		die("%s: handleNewPeer not found", file)
	}
	converted := false
	for _, st := range fd.Body.List {
		if a, ok := st.(*ast.AssignStmt); ok && len(a.Lhs) == 1 && src(a.Lhs[0]) == "length" {
			if src(a.Rhs[0]) != "int(length64)" {
				die("%s: length is %q", file, src(a.Rhs[0]))
			}
			converted = true
		}
		ifs, ok := st.(*ast.IfStmt)
		if !ok || !strings.Contains(src(ifs.Cond), "DelimitedReadMaxSize") {
			continue
		}
		hasReturn := false
		for _, b := range ifs.Body.List {
			if _, ok := b.(*ast.ReturnStmt); ok {
				hasReturn = true
			}
		}
		be, ok := ifs.Cond.(*ast.BinaryExpr)
		if !ok || !hasReturn || src(be.Y) != "DelimitedReadMaxSize" {
			die("%s: size check %q", file, src(ifs.Cond))
		}
		var lhs string
		switch src(be.X) {
		case "length64":
			lhs = "(len64.toNat : Int)"
		case "length":
			if !converted {
				die("%s: length used before its conversion", file)
			}
			lhs = "len64.toInt"
		default:
			die("%s: size check operand %q", file, src(be.X))
		}
		ops := map[token.Token]string{token.GTR: ">", token.GEQ: "≥"}
		op, ok := ops[be.Op]
		if !ok {
			die("%s: size check operator %q", file, be.Op.String())
		}
		return fmt.Sprintf("/-- generated from %s, func handleNewPeer: the frame is refused when this holds -/\ndef genFrameRefused (len64 : BitVec 64) : Bool :=\n  decide (%s %s delimitedReadMaxSize)\n\n", file, lhs, op)
	}
	die("%s: no size check against DelimitedReadMaxSize in handleNewPeer", file)
	return ""
}

// snapGuards checks that SaveSnapshot refuses a header and an entry record longer than math.MaxUint16
// (an `if <len> > math.MaxUint16 { return …error… }` for each) and generates the two guards.
func snapGuards(repo string) string {
	file := "stores/basestore/utils.go"
	f, err := parser.ParseFile(fset, filepath.Join(repo, file), nil, 0)
	if err != nil {
		die("%s: %v", file, err)
	}
	fd := findFunc(f, "SaveSnapshot")
	if fd == nil {
		die("%s: SaveSnapshot not found", file)
	}
	found := map[string]string{}
	ast.Inspect(fd.Body, func(n ast.Node) bool {
		is, ok := n.(*ast.IfStmt)
		if !ok {
			return true
		}
		be, ok := is.Cond.(*ast.BinaryExpr)
		if !ok || src(be.Y) != "math.MaxUint16" {
			return true
		}
		returns := false
		for _, st := range is.Body.List {
			if r, ok := st.(*ast.ReturnStmt); ok && len(r.Results) == 2 && src(r.Results[1]) != "nil" {
				returns = true
			}
		}
		if !returns {
			return true
		}
		op := map[token.Token]string{token.GTR: ">", token.GEQ: "≥"}[be.Op]
		if op == "" {
			die("%s: SaveSnapshot guard %q", file, src(be))
		}
		switch src(be.X) {
		case "headerSize":
			found["header"] = op
		case "len(entryJSON)":
			found["entry"] = op
		}
		return true
	})
	if found["header"] == "" || found["entry"] == "" {
		die("%s: SaveSnapshot does not refuse oversized header / entry records (found %v)", file, found)
	}
	return fmt.Sprintf("/-- generated from %s, func SaveSnapshot: a header / an entry record of n bytes is refused when this holds -/\ndef genSnapHeaderRefused (n : Int) : Bool := decide (n %s 65535)\ndef genSnapEntryRefused (n : Int) : Bool := decide (n %s 65535)\n\n", file, found["header"], found["entry"])
}

// listenerExits counts, in the listener loops of the given functions (every `for` loop inside a
// `go func() {…}()` of the function), the statements that would END the loop other than through the
// context / a closed channel: `return` outside a `case <-….Done():` clause, and `break` or `goto`
// anywhere in the loop body that is not inside an inner `switch`/`select`/`for`.
func listenerExits(repo string, sites [][2]string) string {
	total := 0
	var where []string
	for _, site := range sites {
		file, fn := site[0], site[1]
		f, err := parser.ParseFile(fset, filepath.Join(repo, file), nil, 0)
		if err != nil {
			die("%s: %v", file, err)
		}
		fd := findFunc(f, fn)
		if fd == nil {
			die("%s: function %s not found", file, fn)
		}
		loops := 0
		ast.Inspect(fd.Body, func(n ast.Node) bool {
			g, ok := n.(*ast.GoStmt)
			if !ok {
				return true
			}
			lit, ok := g.Call.Fun.(*ast.FuncLit)
			if !ok {
				return true
			}
			for _, st := range lit.Body.List {
				var body *ast.BlockStmt
				switch l := st.(type) {
				case *ast.ForStmt:
					body = l.Body
				case *ast.RangeStmt:
					body = l.Body
				}
				if body == nil {
					continue
				}
				loops++
				var walk func(n ast.Node, inDone bool, nested bool)
				walk = func(n ast.Node, inDone bool, nested bool) {
					switch x := n.(type) {
					case nil:
						return
					case *ast.FuncLit:
						return // another goroutine / closure: its returns are its own
					case *ast.ReturnStmt:
						if !inDone {
							total++
							where = append(where, fmt.Sprintf("%s:%s return", file, fn))
						}
						return
					case *ast.BranchStmt:
						if (x.Tok == token.BREAK && (!nested || x.Label != nil)) || x.Tok == token.GOTO {
							total++
							where = append(where, fmt.Sprintf("%s:%s %s", file, fn, x.Tok))
						}
						return
					case *ast.CommClause:
						done := inDone
						if x.Comm != nil && strings.Contains(src(x.Comm), ".Done()") {
							done = true
						}
						for _, b := range x.Body {
							walk(b, done, nested)
						}
						return
					case *ast.SelectStmt:
						walk(x.Body, inDone, true)
						return
					case *ast.SwitchStmt:
						walk(x.Body, inDone, true)
						return
					case *ast.TypeSwitchStmt:
						walk(x.Body, inDone, true)
						return
					case *ast.ForStmt:
						walk(x.Body, inDone, true)
						return
					case *ast.RangeStmt:
						walk(x.Body, inDone, true)
						return
					case *ast.BlockStmt:
						for _, b := range x.List {
							walk(b, inDone, nested)
						}
						return
					case *ast.IfStmt:
						walk(x.Body, inDone, nested)
						if x.Else != nil {
							walk(x.Else, inDone, nested)
						}
						return
					case *ast.CaseClause:
						for _, b := range x.Body {
							walk(b, inDone, nested)
						}
						return
					case *ast.LabeledStmt:
						walk(x.Stmt, inDone, nested)
						return
					}
				}
				walk(body, false, false)
			}
			return true
		})
		if loops == 0 {
			die("%s: no listener loop found in %s", file, fn)
		}
	}
	return fmt.Sprintf("/-- number of statements that end a message-listener loop other than through its context\n(%s): %s -/\ndef listenerExitsOnError : Nat := %d\n\n",
		"baseorbitdb/orbitdb.go monitorDirectChannel, stores/basestore/base_store.go pubSubChanListener", strings.Join(where, "; "), total)
}

// rangeLoopExits counts the statements that leave the `for … := range <rangeExpr>` loop(s) of a
// function early: `break`/`goto`/`return` in the loop body (not inside a nested loop/switch/select for
// an unlabelled break).
func rangeLoopExits(repo, file, fn, rangeExpr, lean, doc string) string {
	f, err := parser.ParseFile(fset, filepath.Join(repo, file), nil, 0)
	if err != nil {
		die("%s: %v", file, err)
	}
	fd := findFunc(f, fn)
	if fd == nil {
		die("%s: function %s not found", file, fn)
	}
	loops, total := 0, 0
	ast.Inspect(fd.Body, func(n ast.Node) bool {
		rs, ok := n.(*ast.RangeStmt)
		if !ok || src(rs.X) != rangeExpr {
			return true
		}
		loops++
		var walk func(n ast.Node, nested bool)
		walk = func(n ast.Node, nested bool) {
			switch x := n.(type) {
			case nil:
			case *ast.FuncLit:
			case *ast.ReturnStmt:
				total++
			case *ast.BranchStmt:
				if (x.Tok == token.BREAK && (!nested || x.Label != nil)) || x.Tok == token.GOTO {
					total++
				}
			case *ast.BlockStmt:
				for _, b := range x.List {
					walk(b, nested)
				}
			case *ast.IfStmt:
				walk(x.Body, nested)
				if x.Else != nil {
					walk(x.Else, nested)
				}
			case *ast.ForStmt:
				walk(x.Body, true)
			case *ast.RangeStmt:
				walk(x.Body, true)
			case *ast.SwitchStmt:
				walk(x.Body, true)
			case *ast.TypeSwitchStmt:
				walk(x.Body, true)
			case *ast.SelectStmt:
				walk(x.Body, true)
			case *ast.CaseClause:
				for _, b := range x.Body {
					walk(b, nested)
				}
			case *ast.CommClause:
				for _, b := range x.Body {
					walk(b, nested)
				}
			case *ast.LabeledStmt:
				walk(x.Stmt, nested)
			}
		}
		walk(rs.Body, false)
		return true
	})
	if loops == 0 {
		die("%s: no `range %s` loop in %s", file, rangeExpr, fn)
	}
	return fmt.Sprintf("/-- %s (generated from %s, func %s, the `range %s` loop) -/\ndef %s : Nat := %d\n\n", doc, file, fn, rangeExpr, lean, total)
}

// unmarshalPairs lists, in source order, the (source bytes, destination) pairs of the json.Unmarshal
// calls of a function, and the expression the heads to load are built from.
func unmarshalPairs(repo, file, fn, lean string) string {
	f, err := parser.ParseFile(fset, filepath.Join(repo, file), nil, 0)
	if err != nil {
		die("%s: %v", file, err)
	}
	fd := findFunc(f, fn)
	if fd == nil {
		die("%s: function %s not found", file, fn)
	}
	var pairs []string
	heads := ""
	ast.Inspect(fd.Body, func(n ast.Node) bool {
		switch x := n.(type) {
		case *ast.CallExpr:
			if src(x.Fun) == "json.Unmarshal" && len(x.Args) == 2 {
				pairs = append(pairs, fmt.Sprintf("(%q, %q)", src(x.Args[0]), strings.TrimPrefix(src(x.Args[1]), "&")))
			}
		case *ast.AssignStmt:
			if len(x.Lhs) == 1 && src(x.Lhs[0]) == "heads" && len(x.Rhs) == 1 && heads == "" {
				heads = src(x.Rhs[0])
			}
		}
		return true
	})
	return fmt.Sprintf("/-- generated from %s, func %s: which cached bytes are decoded into which variable, and what the heads to load are built from -/\ndef %s : List (String × String) := [%s]\ndef %sHeads : String := %q\n\n", file, fn, lean, strings.Join(pairs, ", "), lean, heads)
}

// effectOrder lists, in source order, which of the named effects (a name and the text its call or
// statement starts with / contains) occur in the body of a function: the order in which the function
// performs them. An effect that does not occur is left out (and the equality lemma fails).
// nilGuardInRange: does the loop `for _, v := range <rangeExpr>` of fn begin by leaving out nil members
// (`if v == nil { continue }` as its first statement)?
func nilGuardInRange(repo, file, fn, rangeExpr, lean, doc string) string {
	f, err := parser.ParseFile(fset, filepath.Join(repo, file), nil, 0)
	if err != nil {
		die("%s: %v", file, err)
	}
	fd := findFunc(f, fn)
	if fd == nil {
		die("%s: function %s not found", file, fn)
	}
	loops, guarded := 0, 0
	ast.Inspect(fd.Body, func(n ast.Node) bool {
		rs, ok := n.(*ast.RangeStmt)
		if !ok || src(rs.X) != rangeExpr {
			return true
		}
		loops++
		v, ok := rs.Value.(*ast.Ident)
		if !ok || len(rs.Body.List) == 0 {
			return true
		}
		is, ok := rs.Body.List[0].(*ast.IfStmt)
		if !ok || is.Init != nil || is.Else != nil || len(is.Body.List) != 1 {
			return true
		}
		c := strings.ReplaceAll(src(is.Cond), " ", "")
		br, ok := is.Body.List[0].(*ast.BranchStmt)
		if ok && br.Tok == token.CONTINUE && br.Label == nil && (c == v.Name+"==nil" || c == "nil=="+v.Name) {
			guarded++
		}
		return true
	})
	if loops != 1 {
		die("%s: %s: expected one loop over %s, found %d", file, fn, rangeExpr, loops)
	}
	return fmt.Sprintf("/-- generated from %s, func %s: %s -/\ndef %s : Bool := %v\n\n", file, fn, doc, lean, guarded == 1)
}

// callArgIs: in fn, the call whose source contains `callee` has `want` as its argument number `idx`
func callArgIs(repo, file, fn, callee string, idx int, want, lean, doc string) string {
	f, err := parser.ParseFile(fset, filepath.Join(repo, file), nil, 0)
	if err != nil {
		die("%s: %v", file, err)
	}
	fd := findFunc(f, fn)
	if fd == nil {
		die("%s: function %s not found", file, fn)
	}
	calls, ok := 0, 0
	ast.Inspect(fd.Body, func(n ast.Node) bool {
		c, isCall := n.(*ast.CallExpr)
		if !isCall || !strings.HasSuffix(src(c.Fun), callee) {
			return true
		}
		calls++
		if len(c.Args) > idx && src(c.Args[idx]) == want {
			ok++
		}
		return true
	})
	if calls != 1 {
		die("%s: %s: expected one call of %s, found %d", file, fn, callee, calls)
	}
	return fmt.Sprintf("/-- generated from %s, func %s: %s -/\ndef %s : Bool := %v\n\n", file, fn, doc, lean, ok == 1)
}

// topLevelCall: `callee` is called exactly once in fn, in a statement of the function body itself (not
// inside a branch of another statement): it runs on every path that reaches it
func topLevelCall(repo, file, fn, callee, lean, doc string) string {
	f, err := parser.ParseFile(fset, filepath.Join(repo, file), nil, 0)
	if err != nil {
		die("%s: %v", file, err)
	}
	fd := findFunc(f, fn)
	if fd == nil {
		die("%s: function %s not found", file, fn)
	}
	has := func(n ast.Node) int {
		k := 0
		ast.Inspect(n, func(m ast.Node) bool {
			if c, ok := m.(*ast.CallExpr); ok && strings.Contains(src(c), callee) && strings.HasPrefix(src(c), callee[:strings.Index(callee, "(")]) {
				k++
			}
			return true
		})
		return k
	}
	if total := has(fd.Body); total != 1 {
		die("%s: %s: expected one call of %s, found %d", file, fn, callee, total)
	}
	top := false
	for _, st := range fd.Body.List {
		if has(st) == 0 {
			continue
		}
		// the call may sit in the header of an `if` (its Init or Cond), not in its branches
		if is, ok := st.(*ast.IfStmt); ok {
			n := 0
			if is.Init != nil {
				n += has(is.Init)
			}
			n += has(is.Cond)
			top = n == 1
		} else {
			_, isBlockLike := st.(*ast.BlockStmt)
			top = !isBlockLike
			switch st.(type) {
			case *ast.ForStmt, *ast.RangeStmt, *ast.SwitchStmt, *ast.TypeSwitchStmt, *ast.SelectStmt:
				top = false
			}
		}
	}
	return fmt.Sprintf("/-- generated from %s, func %s: %s -/\ndef %s : Bool := %v\n\n", file, fn, doc, lean, top)
}

// errCheckedAfter: the statement that follows the assignment calling `callee` (wherever it is nested in
// fn) is `if err != nil { … return … }`
func errCheckedAfter(repo, file, fn, callee, lean, doc string) string {
	f, err := parser.ParseFile(fset, filepath.Join(repo, file), nil, 0)
	if err != nil {
		die("%s: %v", file, err)
	}
	fd := findFunc(f, fn)
	if fd == nil {
		die("%s: function %s not found", file, fn)
	}
	found, checked := 0, 0
	ast.Inspect(fd.Body, func(n ast.Node) bool {
		b, isBlock := n.(*ast.BlockStmt)
		if !isBlock {
			return true
		}
		for i, st := range b.List {
			as, isAssign := st.(*ast.AssignStmt)
			if !isAssign || len(as.Rhs) != 1 || !strings.Contains(src(as.Rhs[0]), callee) {
				continue
			}
			found++
			if i+1 < len(b.List) {
				if is, isIf := b.List[i+1].(*ast.IfStmt); isIf && is.Init == nil && strings.ReplaceAll(src(is.Cond), " ", "") == "err!=nil" {
					ret := false
					ast.Inspect(is.Body, func(m ast.Node) bool {
						if _, r := m.(*ast.ReturnStmt); r {
							ret = true
						}
						return true
					})
					if ret {
						checked++
					}
				}
			}
		}
		return true
	})
	if found != 1 {
		die("%s: %s: expected one assignment from %s, found %d", file, fn, callee, found)
	}
	return fmt.Sprintf("/-- generated from %s, func %s: %s -/\ndef %s : Bool := %v\n\n", file, fn, doc, lean, checked == 1)
}

func effectOrder(repo, file, fn, lean string, effects [][2]string) string {
	f, err := parser.ParseFile(fset, filepath.Join(repo, file), nil, 0)
	if err != nil {
		die("%s: %v", file, err)
	}
	fd := findFunc(f, fn)
	if fd == nil {
		die("%s: function %s not found", file, fn)
	}
	type hit struct {
		pos  token.Pos
		name string
	}
	first := map[string]token.Pos{}
	ast.Inspect(fd.Body, func(n ast.Node) bool {
		var txt string
		switch x := n.(type) {
		case *ast.CallExpr:
			// (the call of a function literal — `go func() { … }()` — contains the text of its whole
			// body: only what is inside it is looked at)
			if _, lit := x.Fun.(*ast.FuncLit); lit {
				return true
			}
			txt = src(x)
		case *ast.ReturnStmt:
			txt = src(x)
		case *ast.BinaryExpr:
			txt = src(x)
		default:
			return true
		}
		for _, e := range effects {
			if strings.Contains(txt, e[1]) {
				if p, ok := first[e[0]]; !ok || n.Pos() < p {
					first[e[0]] = n.Pos()
				}
			}
		}
		return true
	})
	// (in the order of the source; two effects found in the same expression — `a != nil || !b.Equals(c)` —
	// keep the order in which they are listed: never the order of a map)
	var hits []hit
	for _, e := range effects {
		if pos, ok := first[e[0]]; ok {
			hits = append(hits, hit{pos, e[0]})
		}
	}
	sort.SliceStable(hits, func(i, j int) bool { return hits[i].pos < hits[j].pos })
	var names []string
	for _, h := range hits {
		names = append(names, fmt.Sprintf("%q", h.name))
	}
	return fmt.Sprintf("/-- generated from %s, func %s: the order of its effects -/\ndef %s : List String := [%s]\n\n", file, fn, lean, strings.Join(names, ", "))
}

func main() {
	if len(os.Args) != 3 {
		fmt.Fprintln(os.Stderr, "usage: extract <repo> <outdir>")
		os.Exit(2)
	}
	repo, out := os.Args[1], os.Args[2]
	statusCalls := map[string]string{
		"b.ReplicationStatus().GetMax()":      "sMax",
		"b.ReplicationStatus().GetProgress()": "sProgress",
		"b.OpLog().Len()":                     "len",
	}
	bs := "stores/basestore/base_store.go"
	// one generated file per group, so that a change in one Go function only touches the properties
	// whose theorems are tied to it
	groups := []struct {
		name string
		gen  func() string
	}{
		{"GenStatus", func() string {
			return translate(repo, target{file: bs, fn: "recalculateReplicationProgress", lean: "genRecalcProgress",
				params: []string{"len", "sMax", "sProgress"}, calls: statusCalls, result: "call:SetProgress"}) + "\n" +
				translate(repo, target{file: bs, fn: "recalculateReplicationMax", lean: "genRecalcMax",
					params: []string{"len", "sMax", "sProgress"}, calls: statusCalls, result: "call:SetMax"}) + "\n"
		}},
		{"GenQuery", func() string {
			return translate(repo, target{file: "stores/eventlogstore/log.go", fn: "query", lean: "genNormAmount",
				params: []string{"amountSet", "amount0", "len"}, bools: map[string]bool{"amountSet": true},
				calls: map[string]string{"options.Amount != nil": "amountSet", "*options.Amount": "amount0", "len(events)": "len"},
				only:  "amount := 1", result: "stop:var c cid.Cid", resVar: "amount"}) + "\n"
		}},
		{"GenLoad", func() string {
			return translate(repo, target{file: bs, fn: "Load", lean: "genLoadAmount",
				params: []string{"mhSet", "mh"}, bools: map[string]bool{"mhSet": true},
				calls: map[string]string{"b.options.MaxHistory != nil": "mhSet", "*b.options.MaxHistory": "mh"},
				only:  "if amount <= 0 && b.options.MaxHistory != nil", result: "stop:var localHeads", resVar: "amount"}) + "\n"
		}},
		{"GenLoadHeads", func() string {
			return unmarshalPairs(repo, bs, "Load", "loadDecodes")
		}},
		{"GenFrame", func() string {
			return fmt.Sprintf("/-- pubsub/directchannel/channel.go: DelimitedReadMaxSize -/\ndef delimitedReadMaxSize : Int := %s\n\n",
				constantOf(repo, "pubsub/directchannel/channel.go", "DelimitedReadMaxSize")) + frameGuard(repo)
		}},
		{"GenWalk", func() string {
			return rangeLoopExits(repo, "stores/replicator/replicator.go", "processItems", "next", "parentWalkExits",
				"number of statements that leave the loop queuing the hashes named by a fetched entry before all of them have been looked at")
		}},
		{"GenConsts", func() string {
			return fmt.Sprintf("/-- stores/replicator/replicator.go: batchSize -/\ndef batchSize : Int := %s\n\n", constantOf(repo, "stores/replicator/replicator.go", "batchSize")) +
				fmt.Sprintf("/-- stores/basestore/base_store.go: default referenceCount -/\ndef referenceCount : Int := %s\n\n", assignedConst(repo, bs, "InitBaseStore", "b.referenceCount"))
		}},
		{"GenSnap", func() string {
			return snapGuards(repo) + effectOrder(repo, "stores/basestore/utils.go", "SaveSnapshot", "saveSnapshotOrder", [][2]string{
				{"heads", "oplog.Heads()"}, {"len", "oplog.Len()"}, {"entries", "oplog.GetEntries()"}}) +
				effectOrder(repo, bs, "LoadFromSnapshot", "loadSnapshotOrder", [][2]string{
					{"rebuild", "ipfslog.NewFromJSON("}, {"ownlog", "e.GetLogID() != oplog.GetID()"}, {"held", "oplog.Get(e.GetHash())"},
					{"address", "utils.EntryAddress(ctx, b.IO(), b.IPFS(), e)"}, {"addresscheck", "canonical.Equals(e.GetHash())"}, {"canappend", "CanAppend(e, provider"},
					{"verify", "e.Verify(provider"}, {"count", "maxClock < t"}, {"max", "b.recalculateReplicationMax("},
					{"join", "oplog.Join(log, -1)"}, {"index", "b.updateIndex("}, {"status", "b.recalculateReplicationStatus("}})
		}},
		{"GenListener", func() string {
			return listenerExits(repo, [][2]string{{"baseorbitdb/orbitdb.go", "monitorDirectChannel"}, {bs, "pubSubChanListener"}})
		}},
		{"GenWrite", func() string {
			return effectOrder(repo, bs, "AddOperation", "addOperationOrder", [][2]string{
				{"lock", "b.muWrite.Lock()"}, {"append", "oplog.Append("}, {"status", "b.recalculateReplicationStatus("},
				{"prevheads", "b.Cache().Get(ctx, datastore.NewKey(\"_localHeads\"))"},
				{"headput", "b.Cache().Put(ctx, datastore.NewKey(\"_localHeads\")"},
				{"index", "b.updateIndex("}, {"emit", "evtWrite.Emit("}}) +
				effectOrder(repo, "stores/kvstore/index.go", "UpdateIndex", "kvIndexOrder", [][2]string{
					{"lock", "i.muIndex.Lock()"}, {"copy", "oplog.Values()"}}) +
				effectOrder(repo, "stores/documentstore/index.go", "UpdateIndex", "docIndexOrder", [][2]string{
					{"lock", "i.muIndex.Lock()"}, {"copy", "oplog.Values()"}})
		}},
		{"GenLoadComplete", func() string {
			return effectOrder(repo, bs, "replicationLoadComplete", "loadCompleteOrder", [][2]string{
				{"join", "oplog.Join("}, {"index", "b.updateIndex("}, {"heads", "oplog.Heads()"},
				{"headput", "datastore.NewKey(\"_remoteHeads\")"}, {"emit", "evtReplicated.Emit("}})
		}},
		{"GenClose", func() string {
			return effectOrder(repo, bs, "Close", "closeOrder", [][2]string{
				{"guard", "b.isClosed()"}, {"cancel", "b.cancel()"}, {"unregister", "b.closeFunc()"}, {"releaseloop", "b.closeMainLoopSub()"},
				{"stop", "Replicator().Stop()"}, {"unsubscribe", "b.UnsubscribeAll()"}, {"cacheclose", "b.Cache().Close()"}})
		}},
		{"GenConnect", func() string {
			return effectOrder(repo, "pubsub/oneonone/channel.go", "Connect", "connectOrder", [][2]string{
				{"lock", "c.muSubs.Lock()"}, {"subscribe", "PubSub().Subscribe("}, {"unlock", "c.muSubs.Unlock()"}})
		}},
		{"GenBus", func() string {
			return topLevelCall(repo, bs, "InitBaseStore", "b.SetBus(options.EventBus)", "setBusUnconditional",
				"the bus the store emits on is set on the embedded legacy emitter on every path (also when it is the default bus)")
		}},
		{"GenSubClose", func() string {
			return effectOrder(repo, "events/events.go", "handleSubscriber", "subscriberCloseOrder", [][2]string{
				{"drain", "sub.Out()"}, {"close", "sub.Close()"}, {"stopdrain", "close(closed)"}})
		}},
		{"GenMonitor", func() string {
			return effectOrder(repo, "pubsub/oneonone/channel.go", "monitorTopic", "monitorTopicOrder", [][2]string{
				{"next", "sub.Next("}, {"fromtarget", "msg.From() != p"}, {"emit", "c.emitter.Emit("}})
		}},
		{"GenConnectCtx", func() string {
			return effectOrder(repo, "pubsub/oneonone/channel.go", "Connect", "connectCtxOrder", [][2]string{
				{"chanctx", "context.WithCancel(c.ctx)"}, {"subscribe", "PubSub().Subscribe(subCtx"}, {"leave", "sub.Close()"}})
		}},
		{"GenTopic", func() string {
			return callArgIs(repo, bs, "replicate", "TopicSubscribe", 1, "b.id", "storeTopicIsAddress",
				"the pubsub topic a store subscribes to is named by its address (b.id), not by anything databases may share")
		}},
		{"GenDocRead", func() string {
			return effectOrder(repo, "stores/documentstore/document.go", "Query", "docQueryOrder", [][2]string{
				{"onestate", "docIndex.snapshot()"}, {"keys", "docIndex.Keys()"}, {"decode", "o.docOpts.Unmarshal("}}) +
				effectOrder(repo, "stores/documentstore/document.go", "Get", "docGetOrder", [][2]string{
					{"onestate", "docIndex.snapshot()"}, {"keys", "docIndex.Keys()"}, {"decode", "o.docOpts.Unmarshal("}})
		}},
		{"GenFetched", func() string {
			return effectOrder(repo, "stores/replicator/replicator.go", "processHash", "processHashOrder", [][2]string{
				{"fetch", "ipfslog.NewFromEntryHash("}, {"headcheck", "l.Get(hash)"}, {"ownlog", "e.GetLogID() != r.store.OpLog().GetID()"},
				{"address", "utils.EntryAddress(ctx, r.store.IO(), r.store.IPFS(), e)"}, {"addresserr", "aErr != nil"},
				{"addresscheck", "canonical.Equals(e.GetHash())"}, {"buffer", "append(r.buffer, l)"}})
		}},
		{"GenVerify", func() string {
			return effectOrder(repo, "accesscontroller/verify.go", "VerifyEntryAuthor", "verifyAuthorOrder", [][2]string{
				{"keymatch", "bytes.Equal(keyed.GetKey(), identity.PublicKey)"}, {"othertype", "identity.Type != \"orbitdb\""},
				{"provider", "p.VerifyIdentity(identity)"}, {"lows", "canonicalSignature(signed.GetSig())"},
				{"idlows", "canonicalSignature(sig)"}, {"idsig", "pubKey.Verify("}, {"keysig", "idKey.Verify("}})
		}},
		{"GenLogQuery", func() string {
			return effectOrder(repo, "stores/eventlogstore/log.go", "read", "logQueryOrder", [][2]string{
				{"bound", "e.GetHash().String() == hash.String()"}, {"operations", "operation.ParseOperation(e)"}, {"collect", "append(result, e)"}}) +
				effectOrder(repo, "stores/eventlogstore/log.go", "Get", "logGetOrder", [][2]string{
					{"listing", "o.Stream(ctx, stream"}, {"asked", "value.GetEntry().GetHash().Equals(cid)"}, {"held", "o.OpLog().Get(cid)"}, {"answer", "return value, nil"}})
		}},
		{"GenNewPeer", func() string {
			return callArgIs(repo, bs, "pubSubChanListener", "NewEventNewPeer", 0, "b.Address()", "newPeerEventHasAddress",
				"the new-peer event a store emits on the shared bus carries the address of that store")
		}},
		{"GenResolve", func() string {
			return errCheckedAfter(repo, "baseorbitdb/orbitdb.go", "createStore", "acutils.Resolve(", "resolveErrChecked",
				"an access controller that cannot be resolved ends createStore with an error (no store under a fallback controller)")
		}},
		{"GenDocs", func() string {
			return nilGuardInRange(repo, "stores/operation/operation.go", "GetDocs", "o.Docs", "getDocsSkipsNil",
				"the members of a decoded PUTALL batch are handed on only if they are not nil")
		}},
		{"GenLoadJoin", func() string {
			return effectOrder(repo, bs, "Load", "loadJoinOrder", [][2]string{
				{"fetch", "ipfslog.NewFromEntryHash("}, {"ctxcheck", "ctx.Err()"}, {"headcheck", "l.Get(h.GetHash())"},
				{"ownlog", "e.GetLogID() != oplog.GetID()"}, {"held", "oplog.Get(e.GetHash())"},
				{"address", "utils.EntryAddress(ctx, b.IO(), b.IPFS(), e)"}, {"addresserr", "aErr != nil"}, {"addresscheck", "canonical.Equals(e.GetHash())"},
				{"canappend", "CanAppend(e, provider"}, {"verify", "e.Verify(provider"},
				{"enough", "l.GetEntries().Len()-refused >= amount"}, {"again", "amount + refused"}, {"double", "next > 2*fetchLength"},
				{"merge", "oplog.Join(l, -1)"}, {"listing", "oplog.Values().Len() > amount"}, {"trim", "oplog.Join(l, amount)"},
				{"headerr", "store-handling-head-error"}, {"readable", "b.updateIndex(ctx)"}, {"failed", "return err"}})
		}},
		{"GenWatch", func() string {
			return effectOrder(repo, "pubsub/pubsubcoreapi/pubsub.go", "WatchMessages", "watchMessagesOrder", [][2]string{
				{"subscribe", "PubSub().Subscribe("}, {"close", "sub.Close()"}, {"next", "sub.Next("}})
		}},
		{"GenSync", func() string {
			return effectOrder(repo, bs, "Sync", "syncOrder", [][2]string{
				{"access", "CanAppend("}, {"write", "b.IO().Write("}, {"hashcheck", "Head hash didn't match"},
				{"loadable", "append(loadable, h)"}, {"load", "Replicator().Load("}})
		}},
	}
	os.MkdirAll(out, 0o755)
	failed := 0
	for _, g := range groups {
		var body string
		func() {
			defer func() {
				if r := recover(); r != nil {
					u, ok := r.(untranslatable)
					if !ok {
						panic(r)
					}
					failed++
					fmt.Fprintf(os.Stderr, "untranslatable (%s): %s\n", g.name, string(u))
					// a module that does not compile: whatever is tied to this Go text stops checking
					body = fmt.Sprintf("#eval (throw (IO.userError %q) : IO Unit)\n", "the extractor cannot translate the Go text any more: "+string(u))
				}
			}()
			body = g.gen()
		}()
		text := "/-! GENERATED by /verif/extract from /repo on every run — do not edit. -/\nset_option linter.unusedVariables false\nnamespace Orbit.Gen\n\n" + body + "end Orbit.Gen\n"
		path := filepath.Join(out, g.name+".lean")
		old, _ := os.ReadFile(path)
		if string(old) != text {
			if err := os.WriteFile(path, []byte(text), 0o644); err != nil {
				fmt.Fprintln(os.Stderr, err)
				os.Exit(1)
			}
		}
	}
	// the single-file form of earlier versions
	os.Remove(filepath.Join(out, "Gen.lean"))
	if failed > 0 {
		fmt.Fprintf(os.Stderr, "%d group(s) could not be translated\n", failed)
	}
}
