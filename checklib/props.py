"""Per-property configuration of ./check: theorems that must check, scenario families, which
correspondence streams the property depends on (per-property projection, DESIGN §4.1), and the
rule that makes a generated scenario non-trivial for the property."""


def _peers_writing(lines):
    return {l.split()[1] for l in lines if l.startswith("ack ") and not l.endswith(" err")}


def _count(lines, prefix):
    return sum(1 for l in lines if l.startswith(prefix))


def nt_multiwriter_merge(lines):
    """≥ 2 writers, ≥ 1 merged batch, ≥ 3 entries"""
    return len(_peers_writing(lines)) >= 2 and _count(lines, "loadend ") >= 1 and _count(lines, "entry ") >= 3


def nt_kv(lines):
    """≥ 2 writers, ≥ 1 merge, and some key written at least twice"""
    keys = [t for l in lines if l.startswith("entry ") for t in l.split() if t.startswith("k=")]
    return nt_multiwriter_merge(lines) and len(keys) > len(set(keys))


def nt_doc(lines):
    """a batch put plus another operation on one of its keys, or a multi-writer merge"""
    has_all = any("op=PUTALL" in l for l in lines)
    return (has_all and _count(lines, "entry ") >= 3) or nt_multiwriter_merge(lines)


def nt_log(lines):
    """≥ 3 entries and at least one range query with a bound"""
    return _count(lines, "entry ") >= 3 and any(l.startswith("op query") and ("gt" in l or "lt" in l) for l in lines)


def nt_any3(lines):
    return _count(lines, "entry ") >= 3


LOGCORE = ["kernel-checked model of go-ipfs-log Append/Join/traverse (dependency, modelled line by line)",
           "hashes abstract: a hash determines its entry (HashDet); no two entries share (time, writer) (TieFree, the property's stated assumption)"]

PROPS = {
    "C01": dict(
        module="OrbitModel.Properties.C01",
        theorems=["Orbit.C01.same_entries_same_listing"],
        families=[("kv", 60, 1500, 14), ("doc", 40, 1000, 12), ("log", 40, 1000, 14), ("routes", 40, 1000, 12), ("reload", 40, 1000, 12)],
        corr_fields={"values", "heads", "idx", "len", "time", "next", "load", "rev"},
        nontrivial=nt_multiwriter_merge,
        rule="PRNG histories of 1-4 writers on kv/doc/eventlog stores with interleaved Sync deliveries in random order; plus histories over every route (announce, exchange-on-join, Sync, reload after restart) with writes continuing after restarts; every observation of every replica is keyed by its entry set and compared with every other observation of the same set in the scenario; the Lamport time and parents of every new entry are compared with the model's (a writer re-using a (time, id) pair breaks the property's tie-freedom premise); non-trivial = >=2 writers, >=1 merged batch, >=3 entries",
        trusted_base=LOGCORE,
        assumptions=["TieFree (stated in the property)", "fetch order inside a batch is the Go scheduler's, recorded and replayed"],
    ),
    "C03": dict(
        module="OrbitModel.Properties.C03",
        theorems=["Orbit.C03.visible_entries_are_authored_by_writers", "Orbit.C03.forged_or_unauthorised_never_visible",
                  "Orbit.C03.local_write_by_non_writer_fails", "Orbit.C03.pinned_tree_accepts_copied_id", "Orbit.C03.reload_route_joins_only_this_logs_entries", "Orbit.C03.resolve_error_is_checked_tied_to_go_text"],
        families=[("forge", 150, 4000, 10), ("address", 30, 600, 10)],
        corr_fields={"values", "heads", "idx", "len", "ack", "sync", "loadq", "rev"},
        nontrivial=lambda lines: sum(1 for l in lines if l.startswith("forged ") and " err" not in l) >= 1 and sum(1 for l in lines if l.startswith("op inject")) >= 1,
        rule="write lists of every shape (explicit ids, wildcard, creator only, attacker included) x non-writer local writes x forged-author recipes (own identity, copied writer id, copied identity block, foreign key, 13 single-field tamperings, other database, wrong address) built with the real entry package and a second signer, delivered by manual sync / pubsub / direct channel, alone, mixed with valid heads at either end, or hidden behind a colluding writer's entry; the flags the model uses (signature valid, address valid, identity block genuine) are measured on the real objects; every listed entry on every replica must be authored by a writer; non-trivial = at least one forged entry injected",
        trusted_base=["crypto: signatures unforgeable, identity block genuine iff it is the writer's (measured by byte equality in the harness)"],
        assumptions=[],
    ),
    "C04": dict(
        module="OrbitModel.Properties.C04",
        theorems=["Orbit.C04.only_verified_same_database_entries_merged", "Orbit.C04.held_entries_unaffected",
                  "Orbit.C04.batch_merges_only_verified", "Orbit.C04.misaddressed_head_refused",
                  "Orbit.C04.listed_entries_are_members", "Orbit.C04.pinned_foreign_entry_becomes_head", "Orbit.C04.load_hands_only_own_entries_to_join", "Orbit.C04.foreign_entry_came_back_through_load_before_the_fix", "Orbit.C04.fetched_entries_sit_at_the_address_of_their_content", "Orbit.C04.twin_of_a_genuine_entry_was_merged_before_the_fix", "Orbit.C04.author_check_steps_tied_to_go_text"],
        families=[("forge", 150, 4000, 10), ("multidb", 25, 400, 8)],
        corr_fields={"values", "heads", "idx", "len", "sync", "loadq", "rev"},
        nontrivial=lambda lines: sum(1 for l in lines if l.startswith("forged ") and " err" not in l) >= 1 and sum(1 for l in lines if l.startswith("op inject")) >= 1,
        rule="same family as C03: every single-field mutation of the wire form (payload, clock time, clock id, next, refs, key, signature, identity id / key / signatures, log id, claimed hash) and entries of another database, as announced head and as ancestor; every listed entry must verify, be well addressed and belong to the database; Len() must equal the listing; earlier listings must survive",
        trusted_base=["content addressing: a block fetched by address has that address (HashDet)"],
        assumptions=[],
    ),
    "C05": dict(
        module="OrbitModel.Properties.C05",
        theorems=["Orbit.C05.reload_sources_tied_to_go_text", "Orbit.C05.persistence_order_tied_to_go_text", "Orbit.C05.acknowledged_survive_any_crash", "Orbit.C05.cached_heads_cover_the_log",
                  "Orbit.C05.replication_never_forgets_cached_heads", "Orbit.C05.on_fully_loaded_stores_the_cache_is_the_heads_of_the_log",
                  "Orbit.C05.limited_load_then_replication_forgot_a_branch_before_the_fix", "Orbit.C05.reload_joins_only_entries_join_accepts", "Orbit.C05.refused_ancestor_lost_the_valid_entries_above_it_before_the_fix", "Orbit.C05.replication_never_shrinks_what_the_cache_reaches",
                  "Orbit.C05.reload_succeeds_only_over_every_cached_head", "Orbit.C05.reload_under_an_ended_context_reported_success_before_the_fix",
                  "Orbit.C05.write_never_forgets_cached_heads", "Orbit.C05.write_never_shrinks_what_the_cache_reaches", "Orbit.C05.write_after_snapshot_load_forgot_later_writes_before_the_fix", "Orbit.C05.load_steps_tied_to_go_text", "Orbit.C05.kept_heads_are_decided_before_the_append", "Orbit.C05.kept_heads_before_append_tied_to_go_text", "Orbit.C05.failed_load_leaves_what_came_back_readable", "Orbit.C05.failed_load_example"],
        families=[("routes", 100, 3000, 14), ("kv", 40, 1000, 12), ("reload", 40, 1000, 12), ("limit", 40, 1000, 12), ("forge", 30, 800, 10), ("snapshot", 40, 1000, 10)],
        corr_fields={"values", "heads", "idx", "len", "local", "remote", "load", "rev"},
        nontrivial=lambda lines: any(l.startswith("restarted ") for l in lines) and sum(1 for l in lines if l.startswith("entry ")) >= 2,
        rule="histories of writes and replications by every route with instance restarts (close everything, new instance on the same keystore and cache, Load(-1)) at PRNG-chosen moments; after every step the cached heads must cover the whole log (the crash-prefix invariant) and after every restart the identity must be the same and the recovered state must equal the pre-restart state; non-trivial = at least one restart with >= 2 entries",
        trusted_base=["each persistence effect is durable and atomic once its call returns (the property's assumption)", "in-memory datastores owned by the harness stand for leveldb directories"],
        assumptions=[],
    ),
    "C06": dict(
        module="OrbitModel.Properties.C06",
        theorems=["Orbit.C06.view_update_order_tied_to_go_text", "Orbit.C06.index_tracks_replay", "Orbit.C06.index_step", "Orbit.C06.seen_is_listed_before",
                  "Orbit.C06.later_put_wins", "Orbit.C06.later_delete_wins", "Orbit.C06.own_write_listed_last",
                  "Orbit.C06.stale_key_survives", "Orbit.C06.concurrent_updates_never_leave_a_stale_view",
                  "Orbit.C06.unlocked_copy_left_a_stale_view", "Orbit.C06.view_is_the_replay_of_the_listing", "Orbit.C06.stale_key_survived_a_trim_before_the_fix"],
        families=[("kv", 120, 4000, 16), ("concurrent", 20, 500, 6), ("reload", 40, 1000, 12), ("limit", 40, 1000, 12)],
        corr_fields={"values", "idx", "ack", "time", "next"},
        nontrivial=nt_kv,
        rule="PRNG Put/Delete histories (repeated keys, deletes of absent keys, re-puts, empty/binary values, unicode and empty keys) by 1-4 writers with interleaved Sync; Get/All compared with lwwReplay(Values()) after every step on every replica; non-trivial = >=2 writers, >=1 merge, a key written twice",
        trusted_base=LOGCORE,
        assumptions=[],
    ),
    "C07": dict(
        module="OrbitModel.Properties.C07",
        theorems=["Orbit.C07.index_tracks_replay", "Orbit.C07.index_step", "Orbit.C07.pinned_tree_violates",
                  "Orbit.C07.get_returns_exactly_matching", "Orbit.C07.documents_are_the_replay_of_the_listing", "Orbit.C07.trimmed_document_stayed_visible_before_the_fix", "Orbit.C07.reads_take_one_state_tied_to_go_text"],
        families=[("doc", 120, 4000, 14), ("reload", 40, 1000, 12), ("limit", 40, 1000, 12)],
        corr_fields={"values", "idx", "ack", "docget"},
        nontrivial=nt_doc,
        rule="PRNG histories mixing Put/PutBatch/PutAll/Delete on overlapping mixed-case ASCII keys by 1-4 writers with interleaved Sync; index compared with docReplay(Values()) after every step; Get over every option combination and Query over a predicate family compared with the matching documents of the index",
        trusted_base=LOGCORE + ["ASCII lower-casing in the model (generator keys are ASCII)"],
        assumptions=["search keys without spaces (excluded by the property)"],
    ),
    "C08": dict(
        module="OrbitModel.Properties.C08",
        theorems=["Orbit.C08.listing_only_grows", "Orbit.C08.listing_only_grows_steps", "Orbit.C08.listed_after_seen",
                  "Orbit.C08.query_returns_exact_window", "Orbit.C08.window_iff_single_bound",
                  "Orbit.C08.get_returns_entry", "Orbit.C08.result_is_contiguous"],
        families=[("log", 120, 4000, 16), ("routes", 40, 1000, 12), ("limit", 40, 1000, 12)],
        corr_fields={"values", "result", "time", "next"},
        nontrivial=nt_log,
        rule="PRNG multi-writer event-log histories; listing after every merge must contain the previous listing as a subsequence and respect next-links; range queries over bound kind x position x amount in {unset,0,1,2,3,len,len+3,-1,-5} compared with the exact window of the listing",
        trusted_base=LOGCORE,
        assumptions=["bounds are entries of the log (stated in the property)"],
    ),
    "C02": dict(
        module="OrbitModel.Properties.C02",
        theorems=["Orbit.C02.parent_walk_tied_to_go_text", "Orbit.C02.every_replica_gets_every_write", "Orbit.C02.held_never_shrinks", "Orbit.C02.final_phase_exists"],
        families=[("routes", 120, 4000, 14), ("reload", 30, 800, 12)],
        corr_fields={"values", "heads", "exchange", "local", "remote", "load", "len", "loadq", "rev"},
        nontrivial=nt_multiwriter_merge,
        rule="PRNG scripts on 2-4 replicas: writes, manual syncs, announcements delivered late/twice/out of order, exchange-on-join (delivered, dropped, duplicated), link cuts and heals, instance restarts; in a third of the scenarios the stores subscribe through the library's own pubsubcoreapi adapter over the scripted network (joins found by its polling diff, messages through its filter and buffer); final phase heals every link and exchanges heads for every ordered pair; every replica must then list every acknowledged write; non-trivial = >=2 writers, >=1 merged batch, >=3 entries",
        trusted_base=["set-level network model (Model/Net.lean); scripted pubsub/direct channel/bitswap replace libp2p (runtime not modelled)"],
        assumptions=["blocks held by a connected peer are fetchable; no rejected entry, no cancelled request (boundary with C10/C11)"],
    ),
    "C09": dict(
        module="OrbitModel.Properties.C09",
        theorems=["Orbit.C09.other_databases_untouched", "Orbit.C09.broadcast_changes_only_the_source",
                  "Orbit.C09.published_under_own_address", "Orbit.C09.pinned_tree_cross_talk", "Orbit.C09.store_topic_is_its_address_tied_to_go_text", "Orbit.C09.new_peer_event_names_its_database_tied_to_go_text"],
        families=[("multidb", 100, 3000, 10)],
        corr_fields={"values", "heads", "idx", "len", "status", "loadq", "rev"},
        nontrivial=lambda lines: sum(1 for l in lines if l.startswith("opened ")) >= 1 and sum(1 for l in lines if l.startswith("ack ")) >= 2,
        rule="2-4 databases of mixed types and write lists opened on the same 2-4 instances (default shared event bus); PRNG writes, manual syncs and announcement deliveries in one database at a time; every database on every peer is observed (contents, index, status, per-address store-event counters) after every step and must be unchanged unless it was the one operated on; every announcement's topic, address and entries must belong to one database; non-trivial = >= 2 databases and >= 2 writes",
        trusted_base=["libp2p eventbus delivers every event to every subscriber of its type (modelled as broadcast)"],
        assumptions=["cross-database effects are sampled 3 ms after each step (a late effect is attributed to the next step on another database)"],
    ),
    "C10": dict(
        module="OrbitModel.Properties.C10",
        theorems=["Orbit.C10.parent_walk_tied_to_go_text", "Orbit.C10.sync_order_tied_to_go_text", "Orbit.C10.rejected_never_block", "Orbit.C10.valid_entries_of_a_mixed_batch_are_merged", "Orbit.C10.refused_heads_are_never_fetched",
                  "Orbit.C10.refused_head_was_fetched_before_the_fix", "Orbit.C10.pinned_tree_blocks_valid", "Orbit.C10.fetched_batch_steps_tied_to_go_text"],
        families=[("forge", 150, 4000, 10)],
        corr_fields={"values", "heads", "idx", "len", "sync", "loadq", "rev"},
        nontrivial=lambda lines: any(l.startswith("op inject") and "," in l.split("heads=")[1].split()[0] for l in lines if "heads=" in l) or any("extra=" in l for l in lines),
        rule="forged / tampered / foreign heads mixed with valid heads at either end of one announcement, or hidden behind a colluding writer's entry, by every route, in several announcements; then an honest re-announcement (every replica syncs from every other twice): every acknowledged valid write must be listed everywhere; non-trivial = a mixed announcement or a hidden forged ancestor",
        trusted_base=["Model/Replicator.lean transition system (hand-written, validated end-to-end by the harness); liveness stated for the canonical fair scheduler, safety for every schedule"],
        assumptions=[],
    ),
    "C11": dict(
        module="OrbitModel.Properties.C11",
        theorems=["Orbit.C11.parent_walk_tied_to_go_text", "Orbit.C11.slots_are_conserved", "Orbit.C11.no_hole_is_forgotten", "Orbit.C11.at_rest_means_complete", "Orbit.C11.later_request_completes",
                  "Orbit.C11.at_most_two_requests", "Orbit.C11.unclean_request_can_miss", "Orbit.C11.pinned_tree_wedges"],
        families=[("cancel", 120, 3000, 8)],
        corr_fields={"values", "heads", "len", "loadq", "rev"},
        nontrivial=lambda lines: any(l.startswith("op cancel") or "ctx=cancelled" in l or l.startswith("op failget") for l in lines),
        rule="1-3 replication requests per scenario, each cancelled or failing at a PRNG-chosen point: context already cancelled; cancelled while its worker is held just before asking for a slot (hook); cancelled while a block fetch is held at the gate; cancelled while a worker is held between fetch and join (hook); block unavailable; or not at all; after each request the replicator is run to quiescence (decided from its bookkeeping) and its counters printed; then an uncancelled Sync of the source's (possibly newer) heads must complete and list everything; non-trivial = at least one cancelled or failing request",
        trusted_base=["Model/Replicator.lean transition system (hand-written, validated end-to-end); goroutine steps are atomic under the replicator mutex (assumed)", "wall-clock timeouts are modelled as cancellation at a point"],
        assumptions=["the later request is issued after the aborted requests' Load calls have returned (Clean); otherwise at most two requests (known finding K1)"],
    ),
    "C12": dict(
        module="OrbitModel.Properties.C12",
        theorems=["Orbit.C12.no_message_panics", "Orbit.C12.listener_survives_any_stream", "Orbit.C12.only_complete_admitted_heads_loaded",
                  "Orbit.C12.later_valid_messages_handled", "Orbit.C12.listener_loop_handles_every_message", "Orbit.C12.a_loop_that_left_on_error_would_drop_later_messages", "Orbit.C12.no_length_prefix_panics",
                  "Orbit.C12.frame_guard_tied_to_go_text", "Orbit.C12.pinned_tree_panics",
                  "Orbit.C12.null_batch_members_never_panic", "Orbit.C12.batch_accessor_tied_to_go_text", "Orbit.C12.null_batch_member_crashed_the_index_before_the_fix", "Orbit.C12.entries_that_are_not_operations_change_nothing", "Orbit.C12.event_log_windows_skip_what_is_not_an_operation_tied_to_go_text",
                  "Orbit.C12.event_log_lists_the_operations_around_any_bound", "Orbit.C12.event_log_never_lists_what_is_not_an_operation", "Orbit.C12.event_log_of_operations_only_lists_as_before", "Orbit.C12.get_answers_for_the_entry_asked_for", "Orbit.C12.get_test_tied_to_go_text"],
        families=[("garbage", 120, 4000, 10), ("transport", 40, 1500, 6)],
        corr_fields={"values", "heads", "idx", "len", "loadq", "rev", "result"},
        nontrivial=lambda lines: sum(1 for l in lines if l.startswith("op garbage") and "kind=valid" not in l) >= 2,
        rule="structurally enumerated malformed exchange-heads messages (null / empty / ill-typed / partial heads, every subset of missing identity/clock/hash/next/refs/key/sig fields, truncations and bit flips of real messages, random bytes, deep nesting, wrong address) on the pubsub topic and the direct channel, interleaved with writes and valid messages; the process must survive (a panic is attributed to the running scenario), state must stay explained by valid entries, later valid messages must be handled; non-trivial = >= 2 malformed messages",
        trusted_base=["the bytes -> structure step of encoding/json is observed, not modelled"],
        assumptions=[],
    ),
    "C20": dict(
        module="OrbitModel.Properties.C20",
        theorems=["Orbit.C20.poll_reports_exact_difference", "Orbit.C20.reported_changes_replay_to_last_snapshot",
                  "Orbit.C20.each_change_reported_once", "Orbit.C20.own_messages_filtered", "Orbit.C20.channel_name_symmetric",
                  "Orbit.C20.channel_name_identifies_pair", "Orbit.C20.frame_roundtrip", "Orbit.C20.length_prefix_roundtrip",
                  "Orbit.C20.oversize_refused", "Orbit.C20.accepted_length_within_limit", "Orbit.C20.tied_to_go_text",
                  "Orbit.C20.every_watcher_is_told_about_present_peers", "Orbit.C20.shared_membership_hid_present_peers_from_a_later_watcher", "Orbit.C20.each_peer_is_subscribed_once", "Orbit.C20.connect_order_tied_to_go_text", "Orbit.C20.a_lock_released_around_subscribe_would_deliver_twice", "Orbit.C20.watcher_closes_its_subscription_tied_to_go_text", "Orbit.C20.pairwise_channel_hands_on_only_what_its_target_sent", "Orbit.C20.third_party_payload_was_attributed_to_the_target_before_the_fix", "Orbit.C20.sender_test_tied_to_go_text", "Orbit.C20.pairwise_channel_outlives_its_first_caller_tied_to_go_text"],
        families=[("transport", 100, 4000, 8), ("oneonone", 3, 40, 1)],
        corr_fields={"tevents"},
        nontrivial=lambda lines: sum(1 for l in lines if l.startswith("op tpeers") and ";" in l) >= 1 or any(l.startswith("op tone") for l in lines),
        rule="scripted coreiface.PubSubAPI feeding PRNG sequences of membership snapshots (0-5 of 6 peers, up to 8 polls) to the real pubsubcoreapi WatchPeers and self/remote message streams to WatchMessages; the real oneonone channels of two peers over a shared scripted pubsub with interleaved sends; a fake libp2p host capturing the real direct-channel stream handler, fed honest Send output, raw bytes and every boundary length (0, 1, 127, 128, limit-1, limit, limit+1, 2^31, 2^32, 2^63-1, 2^63, 2^63+1, 2^64-1, truncated and over-long payloads); non-trivial = a multi-poll snapshot sequence or a pairwise channel",
        trusted_base=["libp2p streams and pubsub are replaced by scripted fakes (delivery over real streams is runtime, not modelled)", "pubsubraw adapter not covered (needs a real libp2p pubsub)"],
        assumptions=["duplicate-free membership snapshots for the exactly-once clause"],
    ),
    "C13": dict(
        module="OrbitModel.Properties.C13",
        theorems=["Orbit.C13.read_order_tied_to_go_text", "Orbit.C13.framing_round_trips", "Orbit.C13.save_errors_exactly_when_a_record_is_too_long",
                  "Orbit.C13.save_errors_or_loads_back", "Orbit.C13.size_guards_tied_to_go_text", "Orbit.C13.snapshot_written_while_the_log_grows_loads_back",
                  "Orbit.C13.save_is_racing_save_at_rest", "Orbit.C13.reordered_reads_would_write_unloadable_snapshots", "Orbit.C13.pinned_tree_wrote_unloadable_snapshot", "Orbit.C13.save_errors_or_loads_back_through_the_fetcher", "Orbit.C13.snapshot_written_while_the_log_grows_loads_back_through_the_fetcher", "Orbit.C13.snapshot_route_joins_only_entries_join_accepts", "Orbit.C13.foreign_entry_came_back_through_the_snapshot_before_the_fix", "Orbit.C13.snapshot_loader_filters_tied_to_go_text"],
        families=[("snapshot", 60, 1500, 10), ("forge", 30, 600, 10)],
        corr_fields={"values", "heads", "idx", "len", "ack", "sync"},
        nontrivial=lambda lines: any(l.startswith("snapsaved ") or l.startswith("snapsave ") for l in lines),
        rule="kv/doc/log histories by 1-3 writers (forks, deletions, payloads of 100 B to just under and just over the 64 KiB record limit), SaveSnapshot on a replica at a PRNG point, then a brand-new instance (empty cache) LoadFromSnapshot: a save either errors or the new instance lists the same values, heads and index; no panic; non-trivial = a snapshot was attempted",
        trusted_base=["encoding/json round-trips an entry (parameter ser/de of the model; sampled)", "the fake unixfs stores files whole"],
        assumptions=["ser/de left inverse", "header round-trips"],
    ),
    "C14": dict(
        module="OrbitModel.Properties.C14",
        theorems=["Orbit.C14.address_root_is_the_manifest", "Orbit.C14.different_inputs_different_addresses",
                  "Orbit.C14.printed_address_parses_back", "Orbit.C14.accepted_names", "Orbit.C14.create_over_existing_is_refused",
                  "Orbit.C14.local_only_open_of_unknown_is_refused", "Orbit.C14.open_yields_recorded_type_and_write_list",
                  "Orbit.C14.create_then_open_anywhere", "Orbit.C14.create_address_is_determined_by_inputs", "Orbit.C14.pinned_tree_answered_a_foreign_address", "Orbit.C14.accepted_address_prints_as_the_same_database", "Orbit.C14.climbing_address_was_opened_as_another_database_before_the_fix", "Orbit.C14.misnamed_address_is_refused", "Orbit.C14.created_address_is_named", "Orbit.C14.opened_database_exists_locally", "Orbit.C14.default_writer_is_the_creator_whatever_the_value_was_used_for", "Orbit.C14.shared_parameters_leaked_the_first_creator_before_the_fix"],
        families=[("address", 80, 2500, 10)],
        corr_fields={"values", "idx", "create", "open", "addr", "pathjoin", "reuseac"},
        nontrivial=lambda lines: sum(1 for l in lines if l.startswith(("detaddr ", "created ", "opened ", "parsed "))) >= 3,
        rule="names drawn from plain, nested, unicode, empty, dotted, climbing (../x, a/../../b), absolute and address-like strings x 3 store types x write lists (own id, several ids, wildcard, empty); DetermineAddress on 2-3 peers, Create with and without overwrite, Open by address on other peers (plain and local-only), print/parse of every address: equal inputs must give equal addresses on every peer, distinct inputs distinct roots, refused exactly when the model refuses, type and write list as created; non-trivial = >= 3 address operations",
        trusted_base=["the manifest CID is an injective function of (name, type, access-controller address) — sha2-256 + dag-cbor, parameter H of the theorem", "Go path.Join/Clean modelled on segment lists (Model/Path.lean), compared on every generated name"],
        assumptions=["H injective"],
    ),
    "C15": dict(
        module="OrbitModel.Properties.C15",
        theorems=["Orbit.C15.effective_limit", "Orbit.C15.trim_panics_iff", "Orbit.C15.trim_keeps_newest",
                  "Orbit.C15.load_lists_newest_n_of_a_chain", "Orbit.C15.load_one_head_never_panics", "Orbit.C15.estimated_trim_panicked_on_a_log_with_holes_before_the_fix", "Orbit.C15.the_second_join_of_load_is_a_trim", "Orbit.C15.load_more_lists_everything_fetched", "Orbit.C15.load_more_loaded_nothing_below_what_was_held_before_the_fix",
                  "Orbit.C15.limit_normalisation_tied_to_go_text", "Orbit.C15.pinned_tree_panicked_or_emptied", "Orbit.C15.load_steps_tied_to_go_text", "Orbit.C15.limited_load_fetches_until_the_limit_is_met", "Orbit.C15.filtered_entry_counted_against_the_limit_before_the_fix", "Orbit.C15.limited_load_with_exclusions_fetches_until_the_limit_is_met"],
        families=[("limit", 80, 2500, 12)],
        corr_fields={"values", "heads", "idx", "len", "load", "local", "remote"},
        nontrivial=lambda lines: any(l.startswith("op restart ") and len(l.split()) > 3 for l in lines),
        rule="single-writer chains and 2-3 writer forks of 1-14 entries, then a fresh instance on the same cache calls Load(n) for n in {-3..-1, 0, 1, total-1, total, total+1, 2*total, 10^6} and MaxHistory variants: the listing must have min(n,total) entries, be a subsequence of the persisted order, contain the newest entry, equal the last n for a single writer, and everything for n <= 0; a panic kills the harness and is attributed; non-trivial = a restart with a limit",
        trusted_base=["the bounded Fetcher of go-ipfs-log (parameter fetch; contract: returns a suffix containing the newest min(n,T)) — exercised, not modelled", "several cached heads: checked on the implementation and on decide-checked instances, not proved in general"],
        assumptions=["fetch contract"],
    ),
    "C16": dict(
        module="OrbitModel.Properties.C16",
        theorems=["Orbit.C16.write_path_order_tied_to_go_text", "Orbit.C16.received_is_prefix_of_emitted", "Orbit.C16.nothing_lost_while_alive",
                  "Orbit.C16.slow_reader_eventually_gets_everything", "Orbit.C16.write_event_not_ahead_of_state",
                  "Orbit.C16.pinned_tree_reorders", "Orbit.C16.unsubscribing_never_wedges_the_bus", "Orbit.C16.the_wedged_state_is_reachable", "Orbit.C16.forwarder_drains_while_it_closes_tied_to_go_text", "Orbit.C16.live_caller_gets_a_live_global_channel", "Orbit.C16.second_global_caller_got_the_closed_channel_before_the_fix", "Orbit.C16.legacy_api_listens_on_the_stores_bus_tied_to_go_text"],
        families=[("events", 80, 2500, 8), ("forge", 40, 1000, 10)],
        corr_fields={"values", "idx"},
        nontrivial=lambda lines: sum(1 for l in lines if l.startswith("event ")) >= 2 or sum(1 for l in lines if l.startswith("eread ")) >= 3,
        rule="(a) writes and replications on 2-3 replicas with a bus subscriber per replica that queries the store from inside its handler: every write/replicated event's entries must already be listed and the index must equal the replay of that listing; exactly one write event per acknowledged local write; (b) the real legacy EventEmitter with 1-2 subscribers reading at PRNG pace (bursts of up to 30 events against the 16-slot buffer) and the drainer held between dequeue and send by the hook: everything read must be 1,2,3,... in order, complete at the end; non-trivial = >= 2 store events or >= 3 reads",
        trusted_base=["libp2p eventbus: FIFO per subscriber, blocking emit (not modelled)", "goroutine steps of the emitter are atomic under its mutex (assumed)"],
        assumptions=[],
    ),
    "C17": dict(
        module="OrbitModel.Properties.C17",
        theorems=["Orbit.C17.write_path_order_tied_to_go_text", "Orbit.C17.every_acknowledged_write_is_recoverable", "Orbit.C17.protocol_invariant", "Orbit.C17.every_returned_write_is_in_the_view",
                  "Orbit.C17.unlocked_copy_left_a_stale_view", "Orbit.C17.pinned_tree_loses_acknowledged_write"],
        families=[("concurrent", 60, 1500, 6)],
        corr_fields={"values", "heads", "idx", "len", "local", "load"},
        nontrivial=lambda lines: any(l.startswith("cacks ") for l in lines),
        rule="2-8 goroutines write to one store at once (1-3 rounds); the hook after the log append holds each writer and they are released to the head-cache put oldest-first, newest-first or in a PRNG permutation; acknowledged entries must be pairwise distinct and listed; then a fresh instance on the same keystore and cache loads the database: every acknowledged write must be listed and the cached local head must be the newest entry",
        trusted_base=["Model/Writers.lean (append atomic under the log lock; append+put atomic under the write mutex) — goroutine atomicity assumed"],
        assumptions=[],
    ),
    "C18": dict(
        module="OrbitModel.Properties.C18",
        theorems=["Orbit.C18.close_order_tied_to_go_text", "Orbit.C18.close_is_idempotent", "Orbit.C18.second_close_is_noop", "Orbit.C18.event_channel_always_shuts_down",
                  "Orbit.C18.closed_only_when_done", "Orbit.C18.pinned_tree_leaks_goroutine", "Orbit.C18.watcher_closes_its_subscription_tied_to_go_text", "Orbit.C18.close_mid_load_mid_replication_gets_through"],
        families=[("close", 80, 2000, 6), ("events", 30, 600, 6)],
        corr_fields={"afterclose", "values", "load"},
        nontrivial=lambda lines: any(l.startswith("closed ") for l in lines) or any(l.startswith("eclosed ") for l in lines),
        rule="Close called twice on a store that is idle, has a replication held mid-fetch at the gate, or has just taken a burst of concurrent writes; then every operation on the closed store under a 1 s deadline (must not panic or hang), a fresh instance + Load (own acknowledged writes must be listed), Drop of one of two databases (only its local data may disappear), and a census of store-layer goroutines once every store is closed (must be back to the scenario's baseline); legacy event channels must close after their context ends, also with the drainer held before Wait() by the hook",
        trusted_base=["goroutine termination, absence of hangs and directory effects are runtime facts: sampled by the harness, not proved", "in-memory caches stand for leveldb directories"],
        assumptions=[],
    ),
    "C19": dict(
        module="OrbitModel.Properties.C19",
        theorems=["Orbit.C19.never_regresses", "Orbit.C19.progress_le_max", "Orbit.C19.at_rest_equals_len",
                  "Orbit.C19.pinned_tree_max_regresses", "Orbit.C19.tied_to_go_text", "Orbit.C19.status_raised_with_the_append_tied_to_go_text", "Orbit.C19.foreign_heads_are_not_counted", "Orbit.C19.foreign_head_was_counted_before_the_fix",
                  "Orbit.C19.clock_times_le_entry_count", "Orbit.C19.at_rest_after_snapshot_load",
                  "Orbit.C19.snapshot_load_counted_unmerged_records_before_the_fix", "Orbit.C19.snapshot_load_order_tied_to_go_text", "Orbit.C19.at_rest_with_a_complete_log"],
        families=[("status", 80, 2500, 8), ("kv", 40, 1000, 14), ("routes", 40, 1000, 12), ("snapshot", 40, 1000, 10)],
        corr_fields={"status", "len", "rev"},
        nontrivial=nt_any3,
        rule="mid-flight sampling: several writers' branches announced one by one to an observer while some fetches are held at a gate, observed after every step; plus status sampled after every step at quiescence on every replica of single- and multi-writer histories: never decreases; at rest with a complete log progress = max within [max Lamport time, entry count]",
        trusted_base=[],
        assumptions=["one database per instance (stated in the property)"],
    ),
}

_TIE = ("Lean 4 theorems about a hand-written model + correspondence harness: the Go harness runs the real code on "
        "PRNG histories and the compiled Lean driver replays every operation through the model and evaluates the "
        "property's L1 predicate on the implementation's own observations")
MANIFEST_TEXT = {
    "C13": dict(
        text="Kernel-checked theorems: the 16-bit record framing round-trips for every list of records that save accepts; save returns an error exactly when the header or an entry exceeds 65535 bytes; for every reachable log whose entries the access controller accepts, save either errors or produces bytes from which a fresh store rebuilds a log with the same entries, Values() and heads. A snapshot written WHILE the log grows (SaveSnapshot takes no lock and reads heads, length, entries in that order) is proved to load back as the state at the first read; with the reads reordered it would be written without error and refused by the loader (proved). The pinned tree's silent length wrap-around (record of 65536 bytes written with length 0) is a proved witness replayed on the real store before the fix: commits (F9a-c). The Go port's loader does not build the log from the records: ipfslog.NewFromJSON ignores the entries it is given and fetches the ancestry of the recorded heads out of IPFS (read in the dependency; noted by a sub-agent); the model has both readings and the theorems are proved for both (loadFetching: on a node holding the blocks the fetch returns the log, and then the fresh store rebuilds the same entries, Values() and heads; a snapshot written while the log grew loads as the state at the first read with no proviso). The snapshot family saves on real stores (payloads around the 64 KiB limit) and loads into brand-new instances over the same block store. The snapshot route hands Join only entries of this log that Join accepts (proved; finding F47, fix: commit - the loader fetched the log again through every link and joined all of it: a snapshot saved without error that could not be loaded, or a foreign entry back as a head: decide-checked witness; the forge family now saves and loads snapshots and runs under this property's reconstruct predicate; the loader's three tests are regenerated from the Go text). A snapshot loaded on a store that already holds the newest entries brings what lies below them (finding F62, fix: commit - the 'held' step of Load was missing in the snapshot path; `restartsnap pre=N` in the snapshot family; the step is part of the regenerated order). A quarter of the snapshot scenarios save while a fetch is IN FLIGHT (held at its block): the save must come back within 20 s.",
        note="Trusted: Lean kernel + standard axioms; the JSON codec of one entry is a parameter with a left inverse (sampled by the harness); the unixfs file layer is a fake that stores files whole; the fetcher's contract (it returns the ancestry of the heads it is given, from blocks the node holds) is a hypothesis of the fetching-loader theorems - a snapshot is NOT self-contained in this port: a node without the blocks needs the network to load it.",
        technique="Lean 4 proof (codec round-trip by induction; rebuilt log joins to the same entries/order/heads) with differential correspondence on real save/load"),
    "C14": dict(
        text="Kernel-checked theorems over a segment-list model of Go's path.Join/Clean: the address answered names the manifest the inputs were hashed into; with an injective manifest hash different (name, type, access controller) give different addresses; every answered address prints and parses back to itself; the accepted names are characterised exactly; over a model of Create/Open written in the order of the Go code: creating over an existing local database is refused unless overwrite, a local-only open of an unknown database is refused, an open yields the recorded type and write list whatever options are passed, and what Create returned is what every later Open returns on this and on any other instance. The pinned tree answered another database's address for a climbing name (decide-checked witness, replayed on the real code before the fix: commit). Whatever string Open accepts as an address prints as an address of the same database (address.Parse refuses a path that climbs out of its root: finding F28, fix: commit, with a decide-checked witness of the old split). The address family compares DetermineAddress/Create/Open/Parse on 2-3 real peers with the model over adversarial names, store types, write lists and user-supplied address spellings. Behind the hash of a manifest only the name recorded in it opens (Open model with the name test: a misnamed address is refused whatever the options, the address Create returns always passes; finding F52, fix: commit - any path behind a manifest hash opened as a database of its own; the driver requires the address of every opened store to be the address its root's manifest was created for). A database obtained through Open exists locally from then on (proved on the Open model: a later local-only Open succeeds with the same type and write list; finding F53, fix: commit - only Create used to record it), and Create/Open no longer write into the caller's options (finding F54, fix: commit - 'open or create' left Overwrite=true behind; `reuseopts` step in the address family; F59, fix: commit - DetermineAddress and the typed front ends still did: one access controller parameters value handed to two peers gave the second database the first peer's id as its default writer, and options that had been through Log() made a plain Open create; `reuseac`, `reusefront` steps; model Params: for every sequence of calls made with one parameters value each database gets its own creator as default writer - proved - and the driver computes the expected write list with it; decide-checked witness of the leak; F68, fix: commit - the copy is made only of the library's own parameters type: parameters of a type of the application reach their access controller as they are; reviewer's test).",
        note="Trusted: Lean kernel + standard axioms; injectivity of the manifest CID (hash + dag-cbor) is a hypothesis; the Create/Open model is hand-written (its abstractions are listed at the top of Model/OpenCreate.lean) and run against the real instance on every create/open of the address family; only the default ipfs access controller is modelled.",
        technique="Lean 4 proof (path cleaning lemmas, parse/print inverse, injectivity) with differential correspondence over adversarial names"),
    "C15": dict(
        text="Kernel-checked theorems: the effective limit (n <= 0 falls back to MaxHistory, non-positive means all); Join(size) panics exactly when size exceeds the length and otherwise keeps the newest size entries in order; for EVERY chain length and EVERY limit, Load(n) on a fresh store with one cached head lists exactly the newest min(n,T) entries oldest first (all for n <= 0) even when the fetcher over-fetches; loading one head never panics, for EVERY log the store may hold (closed or with holes, fully or partially loaded), every fetched log and every amount: the merge asks for no trim and the trim is only asked for once the listing is longer than the amount (finding F30, fix: commit - the estimate-based trim panicked on logs with holes: decide-checked witness, reproduced by Load(n) on an open, partially loaded store). The pinned tree's panic (n > total) and emptied log (n = 0) are decide-checked and were replayed on the real store before the fix: commit. The limit family loads real multi-writer logs with every boundary limit, lets partially loaded stores replicate, write and load again ('load more'), and checks count, order, newest and most-recent-n on the listing — after a 'load more' too: an unlimited Load of a cached head into ANY log satisfying the log invariant lists what the log held plus everything fetched (proved; finding F36, fix: commit — Join, handed the whole fetched log, stopped at the held head and merged nothing below it: decide-checked witness, replayed on the real store). Entries Load leaves out do not count against the limit: the refetch loop ends, for every fetcher that returns at most what it is asked for, on a fetch that keeps at least n entries or is the whole log (proved; finding F57, fix: commit - one fetch of length n kept fewer: decide-checked witness; the limit family adds a hand-made entry whose parent belongs to another log). The refetch loop does not walk through a foreign log again and reports an entry once per Load (a quarter of the limit scenarios build their stores with the maximum-history option - through store constructors of the harness's own, the only way in - and the driver's Load model takes it; termination and 'enough' proved for a fetcher that changes from round to round and a limit that at least doubles: F67, fix: commit - growing by what was left out alone read a run of refused entries quadratically; finding F63, fix: commit - found by a reviewer of the repairs, demonstrated by its test under corpus/C15: the harness's foreign logs are too short to show the quadratic re-reporting).",
        note="Partial: for several cached heads the count/order/newest statement is checked on the implementation and on decide-checked instances, not proved in general; the bounded fetcher is a parameter with a stated contract.",
        technique="Lean 4 proof (trim/Join size lemmas, chain induction) with differential correspondence over boundary limits"),
    "C16": dict(
        text="Kernel-checked theorems over the two-goroutine transition system of the legacy event channel, for every capacity and EVERY interleaving: what a subscriber has received is always a prefix of what was emitted (no reordering, duplication or gap), nothing is lost while its context lives, and a reader that keeps reading gets everything; the write path updates the view before it acknowledges/emits. The pinned reordering is a decide-checked witness replayed on the real emitter with a hook before the fix: commit. The harness queries stores from inside bus handlers and drives the real emitter with slow readers and a held drainer. A legacy subscriber that unsubscribes never wedges the bus: from the state its forwarder used to leave behind (subscription full, emitter blocked inside emit, nobody reading) Close gets through for every capacity and backlog, while before the fix: commit F38 that state was a deadlock no action ever left (both kernel-checked on a model of the bus lock; reproduced on the real emitter by holding the forwarder at a hook point until the emitter waits: about half of the trials wedged); the drain-while-closing order is regenerated from the Go text on every run. The legacy GlobalChannel gives a caller with a live context a live channel whatever callers came and went before (proved on a small model; finding F41, fix: commit: the first caller's channel was handed out for ever, closed; replayed on the real emitter), and a store built with the default bus tells its legacy emitter about it (finding F42, fix: commit; the unconditional SetBus is regenerated from the Go text on every run; replayed on a store built with its public constructor).",
        note="Partial: the libp2p eventbus (FIFO per subscriber, blocking emit) and Go's scheduling are assumed; goroutine steps are atomic under the emitter mutex.",
        technique="Lean 4 proof (pipeline invariant delivered ++ in-transit = emitted over all schedules) with hook-driven differential harness"),
    "C17": dict(
        text="Kernel-checked theorem for every number of writers and EVERY interleaving of their steps: each acknowledged write lies in the ancestry of the cached head (so close, reopen, load finds it), via an explicit protocol invariant of the write mutex; the pinned tree loses an acknowledged write on the 4-step schedule append1 append2 put2 put1 (decide-checked, replayed on the real store with the two write-path hooks before the fix: commit). The harness runs 2-8 goroutines with scripted put orders, then restarts.",
        note="Trusted: Lean kernel + standard axioms; the writers model abstracts the log to its length (entry k's ancestry is 1..k, from C01/C05); atomicity of the locked sections is assumed.",
        technique="Lean 4 proof (mutex protocol invariant over all schedules) with hook-steered concurrent harness"),
    "C18": dict(
        text="Kernel-checked: the tear-down runs at most once under any sequence of Close/Drop/other calls and later calls return; the legacy event channel shuts down from EVERY reachable state once its context ends (and is closed only after both goroutines are done); the pinned lost wake-up is proved to hang for ever (replayed with a hook before the fix: commit). Reopening with all acknowledged data is C05's theorem. The harness closes stores idle / mid-replication / after concurrent bursts, calls every operation on the closed store under a deadline, takes a goroutine census, drops one of several databases. Through the pubsubcoreapi adapter the census also counts the subscriptions of the underlying pubsub that are still open once every store is closed: before the fix: commit F39 the adapter never closed them (the node stayed on the topic; its peers saw it neither leave nor come back); the defer that closes them is regenerated from the Go text on every run. The buses of the instances are made with libp2p's metrics hook, which is told of every subscription added and removed: after every instance Close, and once every store is closed, nothing of the library may be left on them (finding F56, fix: commit - the instance's own listener for pubsub payloads stayed subscribed; findings F51 and F55 - legacy channels outliving Close, Close hanging mid-load mid-replication - are exhibited by the close family and a corpus scenario).",
        note="Partial by nature: goroutine termination, hangs and OS-level directory effects are runtime facts sampled by the harness (census, deadlines), not proved; Drop's scope is checked on the in-memory cache manager that stands for the leveldb directories.",
        technique="Lean 4 proof (lifecycle state machine; emitter shutdown invariant) with deadline/census-based harness"),
    "C09": dict(
        text="Kernel-checked theorem over a bus model of the instance: an event originating in one database (write, load-added, merged batch) leaves every other store of the instance exactly as it was (contents, index, status, emitted events, published messages), and whatever a store publishes carries its own address; the pinned tree's cross-talk is refuted by a decide-checked witness reproduced on the real stores before the fix: commit. The harness opens 2-4 databases on shared instances and checks isolation of contents, status, per-address event counters and announcement channels after every step. Every store event on the shared bus names its database: the new-peer event carries the emitting store's address (finding F43, fix: commit; regenerated from the Go text; the multidb family fails on any store event without one).",
        note="Trusted: Lean kernel + standard axioms; the bus model (broadcast to every listener; which listeners filter on what) is hand-written from base_store.go and validated by the multidb family; runtime delivery timing of the libp2p eventbus is sampled, not proved.",
        technique="Lean 4 proof (listener filter case analysis over a broadcast model) with differential correspondence on multi-database instances"),
    "C10": dict(
        text="Kernel-checked theorems: for every cancellation-free history mixing rejected and foreign heads with valid ones in any position and any fetch order, re-announcing heads and running the replicator to quiescence lists every accepted reachable entry and no rejected one; a mixed batch merges every acceptable single-entry log whatever else it contains; a head the access controller refuses is never handed to the replicator (so a non-writer cannot start a fetch that never ends — finding F18, repaired). Pinned-tree witnesses (batch aborted, valid entries never refetched) are decide-checked and were replayed on the real store before the fix: commit. The forge family checks on the real stores that after an honest re-announcement every acknowledged write is listed everywhere. A parent that is an entry-shaped block without a clock is a failed fetch, not a dead process (finding F44, fix: commit; `badparent=noclock` behind a colluding writer's entry in the forge family: the entry arrives, later honest writes replicate, the replica restarts). An ERROR while checking an entry's address (the write of its canonical form failed) is an error, not the verdict 'wrong address': the entry stays to be retried (finding F64, fix: commit - found by a reviewer of the repairs). That repair in turn let one block without an encoding - an entry-shaped block of version 0, which decodes and cannot be written again - fail every Load and stay in the replicator's retry set for good (finding F66, fix: commit - found by a reviewer of the follow-ups; the address is now computed without touching the node, so the check cannot fail for a reason outside the entry; `reencode how=v0` behind a colluding writer's entry in the forge family, live, after a restart and through a snapshot; the steps of processHash and of Load's filter are regenerated from the Go text on every run).",
        note="Liveness is proved for the canonical fair scheduler (drain) with explicit fuel, safety (closure invariant, 'at rest means complete') for every schedule; the replicator model is hand-written and tied end-to-end (its bookkeeping counters are printed, not yet replayed step by step).",
        technique="Lean 4 proof (transition-system invariants + termination measure) with differential correspondence on adversarial announcements"),
    "C11": dict(
        text="Kernel-checked theorems over the replicator transition system for EVERY earlier history (loads, cancellations at any point, fetch failures, any interleaving): the bookkeeping invariant and 'no hole is ever forgotten' hold in every reachable state; whenever it comes to rest with nothing to retry it is complete; once aborted requests have returned, ONE uncancelled request run to quiescence lists everything reachable; without that, at most two. Pinned-tree wedge witnesses are decide-checked and were replayed on the real code before the fix: commits (three defects repaired: orphaned queue item, failed fetch marked fetched, progress-channel deadlock). The cancel family drives the real replicator through hooks and gates at every cancellation point.",
        note="Known finding K1 (listed, exhibited by the corpus on every run): a request racing with a still-unwinding pre-cancelled request can complete without the shared hash; the next request brings it. Known finding K2 (listed, exhibited by the corpus on every run): the liveness theorems assume that every fetch under a live context returns; a retried fetch of a block nobody serves does not, and while it hangs what later requests fetched stays in the replicator's buffer (kernel-checked on the model: no other move delivers it; replayed on the real replicator). Goroutine steps are modelled as atomic under the replicator mutex; timeouts are cancellations at a point.",
        technique="Lean 4 proof (inductive invariant over all schedules, potential-function termination) with hook/gate-driven differential harness"),
    "C12": dict(
        text="Kernel-checked theorems from the decode result onward: no decoded message (any mix of null, empty, partial heads) makes Sync panic, only complete heads are loaded, the outcome for a message does not depend on what preceded it; no 64-bit length prefix makes the frame reader panic and accepted lengths are within the limit, with the guard regenerated from the Go text on every run. A PUTALL batch with `null` members (a validly signed entry any writer can publish) is indexed as the batch of its real members and never dereferenced (finding F25, fix: commit; accessor tied to the Go text). The pinned tree is refuted by decide-checked witnesses replayed on the real code before the fix: commits. The harness delivers structurally enumerated malformed messages on the topic and the direct channel and raw frames to the real stream handler; a panic kills the harness process and is attributed to the running scenario. An event log lists around an entry whose payload is not an operation (finding F48, fix: commit - every listing used to end, silently, at such an entry; the garbage family injects one into event logs and queries; the filter is regenerated from the Go text). The listing is proved to be exactly the operations on the asked side of the bound's POSITION, for every log and every bound, an operation or not (review of that repair, fix: commit - the first version filtered before it looked the bound up, so that a cursor on such an entry started the window at the first entry; query model and window predicate of the driver now take the whole log and which entries are operations). Get of an entry that is not an operation fails and says so (finding F69, fix: commit - it answered with the next operation of the log; proved on the query model: for such an entry the listing hands back ANOTHER entry, for an operation that entry itself; the test Get makes before it answers is regenerated from the Go text; `C12/get` predicate).",
        note="The bytes -> structure step of encoding/json / CBOR is observed, not modelled (partial there); trusted: Lean kernel + standard axioms, the extractor, the hand-written decode model validated by the garbage family.",
        technique="Lean 4 proof (total outcome functions with explicit panic; BitVec frame guard tied by translator) with crash-attributing differential harness"),
    "C20": dict(
        text="Kernel-checked theorems: peersDiff reports exactly new\\old and old\\new; for every snapshot sequence the reported changes replay to the last snapshot and each change is reported once; own messages are filtered and every remote payload delivered once in order; the pairwise channel name is symmetric and identifies the pair; uvarint and frame round-trip for every payload up to the limit; oversized frames are refused; limit and guard tied to the Go text. The real pubsubcoreapi, oneonone and directchannel code is driven over scripted pubsub/host fakes and compared with the model line by line; in a third of the membership scripts a SECOND watcher of the same topic starts after the first ended (a store closed and opened again): it must be told about the peers that are there (finding F24, fix: commit; decide-checked witness for the old shared list). The routes and reload families additionally run a third of their scenarios with the stores subscribed through the real pubsubcoreapi adapter over the scripted network. The pairwise channel hands on exactly what its target sent, attributed to it, for every sequence of messages by anybody on the pairwise topic (proved; finding F40, fix: commit - only the end's own messages used to be dropped and a third peer's payload was attributed to the target: decide-checked witness, replayed on the real adapter; the sender test is regenerated from the Go text on every run). The pairwise channel outlives the caller that connected first (finding F50, fix: commit - it died with the first store's context: payloads silently lost for the instance's other stores; two callers with separate contexts in the oneonone family; the channel context and the closing of the subscription are regenerated from the Go text).",
        note="Partial: delivery over real libp2p streams/pubsub is runtime behaviour replaced by fakes; the pubsubraw adapter is not exercised. Exactly-once assumes duplicate-free snapshots (stated in the theorem).",
        technique="Lean 4 proof (list/bit-vector lemmas; translator for the frame guard) with differential correspondence over scripted transports"),
    "C03": dict(
        text="Kernel-checked theorem with NO order or honesty hypothesis on incoming content: after any sequence of allowed/denied local appends and joins of arbitrary fetched logs, every listed entry names a writer of the list (or the list is the wildcard), is signed with that writer's key under a genuine identity block, and belongs to the database; a denied local write changes nothing visible. The pinned CanAppend (id only) is refuted by a decide-checked witness that was replayed on the real code before the fix: commit adding VerifyEntryAuthor. The harness builds forged entries with the real entry package and a second signer, measures their flags on the real objects, delivers them by every route, and evaluates the membership predicate on every observation; a quarter of the scenarios run under the `simple` access controller (write list passed by every peer at every open) instead of the default `ipfs` one; half of the scenarios end with every replica restarted and reloaded (the reload route: finding F27, fix: commit — Load now joins only the entries written for this log).",
        note="Trusted: Lean kernel + standard axioms; unforgeability of secp256k1 signatures and 'identity block genuine' are represented by measured flags; the hand-written model of Join/CanAppend/Sync validated by correspondence; the replicator's log-id filter is a hypothesis of the reachability relation (its code is exercised by the harness).",
        technique="Lean 4 proof (membership invariant over adversarial reachability) with differential correspondence on forged entries"),
    "C04": dict(
        text="Kernel-checked theorems: whatever log is handed to Join, everything it adds passed the access check, verifies and carries this database's id, and nothing held is lost; the same for a whole batch with rejected logs; a wrongly addressed head aborts Sync; every listed entry is a member. The dependency's Join still merges foreign heads (decide-checked witness); the fix: commit in the replicator keeps such entries away from Join, and the harness checks on the real code that no tampered / foreign entry is ever listed and that Len() matches the listing. The reload route (Load after a restart) hands only this log's entries to Join (proved; before the fix: commit F27 an entry of another log named in a writer's refs came back as a head: decide-checked witness, replayed on the real store). What the reload and snapshot routes hand to Join sits at the address of its content (proved; finding F46, fix: commit - a genuine entry written again with other bytes was merged a second time under the new address by the replicator, Load and LoadFromSnapshot: decide-checked witness; `reencode` recipe behind a colluding writer's entry, live, after a restart and through a snapshot). The steps of VerifyEntryAuthor are regenerated from the Go text on every run, in order: the low-S rule applies after the identity's type has been looked at, to orbitdb identities only (finding F65, fix: commit - applied first, it refused every entry of an identity signing with another scheme; reviewer's test under corpus/C04).",
        note="Trusted: Lean kernel + standard axioms; content addressing (HashDet); the mapping from wire-form mutations to the model's flags is measured by the harness with the real Verify / re-encode.",
        technique="Lean 4 proof (Join adds only acceptable entries; monotonicity) with differential correspondence on tampered entries"),
    "C05": dict(
        text="Kernel-checked theorem over explicit persistence-effect traces: for every valid history and EVERY prefix of its effect trace (every crash point), recovery returns every acknowledged write and every entry reported as replicated, only entries whose block was written, an ancestry-closed set, listed exactly as the pre-crash listing restricted to it; mechanism: the cached heads cover the log at every reachable store state. The harness restarts real instances over the same keystore and cache at random moments, compares the recovered state and identity, and evaluates 'cached heads cover the log' after every step of every scenario (the invariant from which every crash point follows). A replication round never forgets a cached head the log does not hold (proved for every store state and every batch: a store opened with Load(n) holds only part of what its cache points to); before the fix: commit F26 it did (decide-checked witness, replayed on the real store), and the limit family now lets partially loaded stores replicate and write before the final unlimited load, which must bring back everything ever listed or acknowledged. After a restart Load hands Join only entries of this log that Join accepts (proved), so a refused entry in the ancestry no longer costs the valid entries above it (finding F29, fix: commit, decide-checked witness); the forge family (forged, tampered, foreign entries behind colluding writers) restarts its replicas and is run under this property's recover predicate too. A reload succeeds only if every cached head came back from the fetcher (proved); before the fix: commit F32 a Load whose context had ended reported success over an empty log (decide-checked witness; the reload family restarts replicas under an ended context and requires the error). A local write never forgets a cached local head the log does not hold and never shrinks what the cache reaches (proved for every store state); before the fix: commit F33 a write on a store that had loaded an older snapshot replaced _localHeads by the new entry alone and the acknowledged writes made after the snapshot were gone at the next restart (decide-checked witness; the snapshot family writes after loading an older snapshot and restarts). A Load that fails because the block of a cached head is gone leaves what the other heads led to readable (proved on the model of the failed load, loadReadable; finding F61, fix: commit - it returned before the view was rebuilt; reload scenario with an immediately-not-found block in the corpus, `readable` predicate on the first observation after every restart).",
        note="Partial where the truth is in the runtime: durability/atomicity of each datastore call is the property's own assumption; leveldb is replaced by in-memory datastores; crash points are covered by the theorem plus the per-step invariant check rather than by killing processes.",
        technique="Lean 4 proof (effect-trace prefixes, durable-log invariant) with differential correspondence including restarts"),
    "C02": dict(
        text="Kernel-checked theorem over a set-level network model: for any prefix of writes, sends, deliveries (any message, any number of times, any order), restarts and faults, followed by a write-free final phase in which every ordered pair exchanges heads, every replica holds every acknowledged write; a replica never loses an entry even across restart. Unbounded in replicas/steps/messages. The real stores are driven over scripted pubsub/direct-channel/block transports through the same kinds of schedules (cuts, heals, lost/duplicated/reordered announcements, restarts, final exchange round) and the convergence predicate is evaluated on their observations; every step is also replayed through the store model.",
        note="Partial where the truth is in the runtime: real libp2p pubsub/bitswap timing is replaced by scripted transports. The per-action guarantees (Valid: cached heads cover the log; a fully accepted message adds the ancestry of its heads) are proved at the store level / checked by correspondence; rejected entries and cancellations are C10/C11.",
        technique="Lean 4 proof (invariants Covers/AckedSomewhere + final-phase delivery argument over a message-soup transition system) with differential correspondence on fault scripts"),
    "C19": dict(
        text="Kernel-checked theorems about the status arithmetic regenerated from the Go text on every run: progress and maximum never decrease between any two moments for any event sequence, progress <= maximum always, and at rest with a complete log of n entries both equal n; the pinned tree's regression (F15) is refuted by a decide-checked witness and was reproduced on the real store before the fix: commit. In a complete log of honestly clocked entries no Lamport time exceeds the entry count (proved for every log shape), so a fresh store that loaded a snapshot stands at n/n; before the fix: commit F23 the loader counted records its heads do not cover (snapshot written while the log grew) and stood at 3/4 (decide-checked witness, replayed on the real store). The harness samples status mid-flight (held fetches), at quiescence and after snapshot loads (racing saves, resumed replication queues) and evaluates monotonicity and the at-rest bounds on the implementation.",
        note="Trusted: Lean kernel + standard axioms; the go/ast extractor (extract/main.go) that regenerates Generated/Gen.lean; which events fire and with which arguments is modelled by hand and validated by correspondence; 'Lamport times of a complete log never exceed its size' is proved from ClockTight (every entry is exactly one tick above one of the entries it names, which is how go-ipfs-log clocks an append; a permitted writer that forges clock times is outside it) and checked on every observation by the harness.",
        technique="Lean 4 proof over arithmetic regenerated from the Go source (translator) + differential correspondence with mid-flight sampling"),
    "C06": dict(
        text="Kernel-checked theorems: for every history of a replica (any interleaving of local appends and merged batches) the index produced by the real UpdateIndex loop (newest-to-oldest scan with a handled set over a map that is never cleared) is equivalent to the last-writer-wins replay of the current listing; entries seen by a writer are listed before its update; the later update wins; under concurrent updates of the view (every number of updaters, every schedule) the view reflects the whole log once all have returned, because the log is copied under the index lock (finding F19, repaired: the copy used to be taken before the lock, witness decide-checked and replayed with a hook). Tied to the code by replaying every Put/Delete/Sync through the model and by checking All() = lwwReplay(Values()) on the implementation after every step on every replica. After the fix: commit F45 the view is rebuilt into a fresh map: it is the replay of what the log lists with NO history hypothesis (proved: the 'listing only grows' premise of the step theorems is what a trimming Load on a live store broke; decide-checked witness, replayed on the real store by Load(n) on live key-value stores in the limit family).",
        note="Trusted: Lean kernel + standard axioms; hand-written model of kvIndex.UpdateIndex and of the log, validated by correspondence (bounded by the generators); hypothesis KvOps (a key-value log carries only PUT/DEL) and the log universe assumptions.",
        technique="Lean 4 proof (handled-set scan = replay, invariant along histories) with differential correspondence against the real key-value store"),
    "C07": dict(
        text="Kernel-checked theorems: the document index loop (after the fix: commit for PUTALL members) is equivalent to the replay of the listing at every step of every history, batch members included; Get returns exactly the matching index keys; the pinned loop is refuted by a decide-checked witness that was replayed on the real code before the fix. Correspondence and the L1 predicate index = docReplay(Values()) run on the implementation after every step; Get/Query results are compared with the matching documents of the index. After the fix: commit F45 the documents are the replay of what the log lists with no history hypothesis (proved; a trimming Load on a live store left the documents of the trimmed entries visible: decide-checked witness, replayed in the limit family). Get and Query answer from one state of the documents (finding F58, fix: commit - keys and values were read in separate lock sections: a Query overlapping a batch put returned one document of each generation; the doc family lets a batch put land while a Query reads, with the caller's filter as the meeting point; the one-state read is regenerated from the Go text). An acknowledged Delete of a key the view does not hold is a failure (`C07/delete`: 'deleting an absent key is refused').",
        note="Trusted: Lean kernel + standard axioms; hand-written model of documentIndex.UpdateIndex/Get validated by correspondence; DocWF (members of one PUTALL have distinct keys: built from a Go map); ASCII lower-casing in the model; search keys with spaces excluded by the property.",
        technique="Lean 4 proof (generic handled-set scan = replay theorem instantiated for PUT/DEL/PUTALL) with differential correspondence against the real document store"),
    "C08": dict(
        text="Kernel-checked theorems: any step (append or successful join of any batch) keeps the old listing as a sublist of the new one; an entry is listed after every entry its writer had seen; a writer's own append is listed last; the Go query/read pair (reverse, read, reverse) returns exactly the contiguous window for every single bound in the log and every amount in Int, iff at most one bound of a direction is set; Get returns the entry. The harness checks sublist-stability, causal order and exact windows on the implementation's own listings.",
        note="Trusted: Lean kernel + standard axioms; hand-written model of eventlogstore query/read and of the log validated by correspondence; bounds are entries of the log (the property excludes other hashes).",
        technique="Lean 4 proof (sorted-listing uniqueness/sublist lemmas; list arithmetic for windows) with differential correspondence against the real event log store"),
    "C01": dict(
        text="Kernel-checked theorem: any two logs reachable by appends and honest same-database joins (any order, batching, duplication) that hold the same entries have identical Values() and heads — unbounded in entries/writers/batches. Tied to the code by replaying every harness operation through the model and comparing listing, heads and index after every step, and by checking directly on the implementation that equal entry sets give equal observable state.",
        note="Trusted: Lean kernel + standard axioms; the model of go-ipfs-log (dependency) and of the store indices is hand-written and validated by the correspondence run, whose reach is bounded by the generators; routes covered on the implementation today: local write and Sync→replicator batches (announce/exchange/load/snapshot routes reduce to the same Join in the model).",
        technique="Lean 4 proof (invariant + refinement over the go-ipfs-log model) with differential correspondence against the real stores"),
}
