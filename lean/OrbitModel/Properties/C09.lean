import OrbitModel.Model.Instance
import OrbitModel.Proofs.GenEqTopic
/-!
# C09 — databases opened by the same process do not affect one another
-/
namespace Orbit.C09
open Orbit.Inst

/-- An event originating in database A (a write, a load-added, a merged batch) leaves every other
database B of the instance exactly as it was: contents, index, replication status, emitted store
events, and what it published on its channel. -/
theorem other_databases_untouched (B : IStore) (ev : BusEv) (h : ev.source ≠ B.addr) :
    deliver false B ev = B := by
  cases ev <;> simp_all [deliver, BusEv.source]

/-- for the whole instance: broadcasting any event changes only the store it belongs to -/
theorem broadcast_changes_only_the_source (stores : List IStore) (ev : BusEv) :
    ∀ B ∈ stores, B.addr ≠ ev.source → B ∈ broadcast false stores ev := by
  intro B hB hne
  unfold broadcast
  exact List.mem_map.mpr ⟨B, hB, other_databases_untouched B ev (fun h => hne h.symm)⟩

/-- whatever a store publishes carries its own address (never another database's) -/
theorem published_under_own_address (pinned : Bool) (s : IStore) (ev : BusEv)
    (h : ∀ m ∈ s.published, m.1 = s.addr) : ∀ m ∈ (deliver pinned s ev).published, m.1 = (deliver pinned s ev).addr := by
  cases ev with
  | write addr heads =>
    simp only [deliver]
    split
    · exact h
    · intro m hm
      rcases List.mem_append.mp hm with hm | hm
      · exact h m hm
      · simp only [List.mem_singleton] at hm; rw [hm]
  | loadAdded src time => simp only [deliver]; split <;> exact h
  | loadEnd src logs => simp only [deliver]; split <;> exact h

/-- …but on the pinned tree it published *other databases' heads* under it, and reacted to their
replicator events (finding F5, repaired): a write in database 1 makes database 2 publish its heads;
a load-added of database 1 raises database 2's maximum and makes it emit `replicate`. Decide-checked;
reproduced on the real stores (corpus/C09). -/
theorem pinned_tree_cross_talk :
    (deliver true { addr := 2 } (.write 1 [7])).published = [(2, [7])] ∧
    (deliver true { addr := 2 } (.loadAdded 1 5)).store.status.max = 5 ∧
    (deliver true { addr := 2 } (.loadAdded 1 5)).emitted = ["replicate"] ∧
    deliver false { addr := 2 } (.write 1 [7]) = { addr := 2 } := by
  refine ⟨by decide, by decide, by decide, ?_⟩
  exact other_databases_untouched _ _ (by decide)

example : (deliver false { addr := 1 } (.write 1 [7])).published = [(1, [7])] := by decide

/-- the pubsub topic a store subscribes to in the Go text of this run is named by its address — the
one thing no two databases share (`published_under_own_address` is about that topic) -/
theorem store_topic_is_its_address_tied_to_go_text : Gen.storeTopicIsAddress = true :=
  gen_store_topic_is_address

/-- every store event emitted on the bus the stores of an instance share says which database it is
about: the new-peer event of the Go text of this run carries the address of the store that emits it
(after the `fix:` commit, finding F43: it was the only store event without one — a listener of one
database was told about the peers of every other; the harness watches the shared bus for store events
that name no database) -/
theorem new_peer_event_names_its_database_tied_to_go_text : Gen.newPeerEventHasAddress = true :=
  gen_newpeer_event_has_address

end Orbit.C09
