import OrbitModel.Proofs.LogReach
import OrbitModel.Proofs.LogExample
/-!
# C01 — replicas holding the same entries show the same state in any arrival order
-/
namespace Orbit.C01

/-- Two replicas reached by any sequences of local appends and (honest, same-database) joins —
in any order, batching or duplication — that hold the same set of entries list them identically
and have the same heads. Unbounded in entries, writers, batches. -/
theorem same_entries_same_listing {ca1 ca2 : Entry → Bool} {U : List Entry}
    (hU : HashDet U) (hT : TieFree U) (hM : ClockMono U) {id1 id2 : Nat} {L1 L2 : Log}
    (h1 : Reachable ca1 U id1 L1) (h2 : Reachable ca2 U id2 L2)
    (h : ∀ x, x ∈ L1.entries ↔ x ∈ L2.entries) :
    values L1 = values L2 ∧ sortedHeads L1 = sortedHeads L2 :=
  reachable_same_entries_same_values hU hT hM h1 h2 h

end Orbit.C01
