import OrbitModel.Model.Lifecycle
import OrbitModel.Proofs.GenEqClose
import OrbitModel.Proofs.EmitterStop
import OrbitModel.Proofs.CrashSummary
import OrbitModel.Proofs.GenEqWatch
import OrbitModel.Proofs.BusClose
/-!
# C18 — Close and Drop are clean: idempotent, leak-free, scoped to one database

Partial by nature: that goroutines really end and that nothing hangs is runtime behaviour, sampled by
the harness (goroutine census after every scenario, deadlines on every call after Close). Proved
here: the decision logic of Close/Drop, the shutdown of the legacy event channel for every schedule,
and (by C05) that a closed directory reopens with all acknowledged data.
-/
namespace Orbit.C18
open Orbit.Emit

/-- the tear-down runs at most once however often and in whatever order Close and Drop are called,
and every later operation returns (an error or a harmless result) -/
theorem close_is_idempotent (ops : List Life.Op) : (Life.run {} ops).closeCalls ≤ 1 := by
  suffices h : ∀ (s : Life.St), (s.closed = true → s.closeCalls ≤ 1) → (s.closed = false → s.closeCalls = 0) →
      (Life.run s ops).closeCalls ≤ 1 from h {} (by intro h; cases h) (by intro _; rfl)
  induction ops with
  | nil => intro s h1 h2; cases hc : s.closed <;> simp_all [Life.run]
  | cons o rest ih =>
    intro s h1 h2
    have : Life.run s (o :: rest) = Life.run (Life.step s o).1 rest := by simp [Life.run]
    rw [this]
    apply ih
    · intro hc
      cases o <;> cases hs : s.closed <;> simp_all [Life.step]
    · intro hc
      cases o <;> cases hs : s.closed <;> simp_all [Life.step]

theorem second_close_is_noop (s : Life.St) (h : s.closed = true) : Life.step s .close = (s, .ok) := by
  simp [Life.step, h]

/-- the legacy event channel of a store always shuts down once its context ends: from **any**
reachable state, a few more steps of its two goroutines leave both finished and the channel closed -/
theorem event_channel_always_shuts_down (cap : Nat) (acts : List Act) :
    let s := run false (init cap) acts
    s.cancelled = true →
    let t := run false s stopSchedule
    t.g1done = true ∧ t.g2 = .exited ∧ t.closed = true :=
  stops cap acts

/-- the channel is closed only after both goroutines are done, and nothing is delivered afterwards -/
theorem closed_only_when_done (p : Bool) (cap : Nat) (acts : List Act) :
    let s := run p (init cap) acts
    s.closed = true → s.g1done = true ∧ s.g2 = .exited ∧ s.cancelled = true :=
  closed_only_after_both_done p cap acts

/-- Refutation witness for the pinned tree (finding F14, repaired): the shutdown signal sent without
the lock is lost when the drainer is between its check and `Wait()`; it then waits **for ever**,
whatever happens next. Replayed on the real emitter with the `emitter.before.wait` hook (corpus/C18). -/
theorem pinned_tree_leaks_goroutine (acts : List Act) :
    (run true (run true (init 1) lostWakeSchedule) acts).closed = false ∧
    (run true (run true (init 1) lostWakeSchedule) acts).g2 = .waiting :=
  pinned_stuck_forever acts

/-- `Close` in the Go text of this run tests the already-closed guard before anything else, and
unregisters the store (by address, in its instance) only after it -/
theorem close_order_tied_to_go_text : Gen.closeOrder = Order.close := gen_close_order

/-- the pubsub adapter in the Go text of this run closes the subscription of the underlying pubsub
when the goroutine reading it ends (after the `fix:` commit, finding F39: it never did — the node
stayed on the topic after the store was closed, and its peers saw it neither leave nor come back;
the harness counts the open subscriptions of its pubsub API after every store is closed) -/
theorem watcher_closes_its_subscription_tied_to_go_text : Gen.watchMessagesOrder = Order.watchMessages :=
  gen_watchMessages_order

/-- **`Close` in the middle of a load and of a replication** (after the `fix:` commit, finding F55), on
the model of one subscription of the event bus (`Model/BusClose.lean`: the main loop's subscription
to the replicator's events — 128 slots; the replicator inside `emit`, holding the read lock of the bus
node, with events left to hand over; the main loop not reading because it waits for the join mutex a
`Load` holds). `Replicator().Stop()` closes the replicator's emitters, which needs that lock:
* when `Close` closes the subscription first (a typed subscription drains its channel while it closes:
  `drain := true`), the emitter gets through and the lock is free — for every capacity and every
  number of pending events;
* before the repair nobody closed it while the main loop was held up: the state is a deadlock that no
  action of anybody leaves (`Close` returned only once the `Load` got its block).
Replayed on the real store: `corpus/C18/f55` (`first=hang` before). -/
theorem close_mid_load_mid_replication_gets_through (s : BusClose.St) (h : BusClose.Stuck s) (hcap : s.cap > 0) :
    ((BusClose.run true s (BusClose.unwind s.pending)).closed = true ∧
      (BusClose.run true s (BusClose.unwind s.pending)).pending = 0) ∧
    (∀ acts, BusClose.run false s acts = s) :=
  ⟨BusClose.close_gets_through s h hcap, BusClose.stuck_forever s h⟩

/-- the premise with the real numbers: 128 slots full, the replicator inside `emit` with one more event -/
example : BusClose.Stuck { cap := 128, chan := 128, pending := 1, reading := false, closing := true } := by
  unfold BusClose.Stuck; decide

end Orbit.C18
