import OrbitModel.Proofs.History
import OrbitModel.Proofs.GenEqQuery
import OrbitModel.Proofs.Window
/-!
# C08 — event log is append-only and stably ordered; range queries return exact windows
-/
namespace Orbit.C08

/-- Merging more entries (any `Step`: local append or a successful join of any batch) never removes
an entry and never changes the relative order of two entries already listed. -/
theorem listing_only_grows {ca : Entry → Bool} {U : List Entry} (hU : HashDet U) (hT : TieFree U)
    (hM : ClockMono U) {id : Nat} {L L' : Log} (hR : Reachable ca U id L) (hs : Step ca U L L') :
    (values L).Sublist (values L') :=
  reachable_step_values_sublist hU hT hM hR hs

/-- … over any number of steps. -/
theorem listing_only_grows_steps {ca : Entry → Bool} {U : List Entry} (hU : HashDet U) (hT : TieFree U)
    (hM : ClockMono U) {L L' : Log} (hG : Good U L) (hs : Steps ca U L L') :
    (values L).Sublist (values L') :=
  steps_values_sublist hU hT hM hG hs

/-- Each entry is listed after everything its writer had seen when writing it. -/
theorem listed_after_seen {U : List Entry} (hU : HashDet U) (hT : TieFree U) (hM : ClockMono U)
    (L : Log) (hG : Good U L) (p c : Entry) (hp : p ∈ L.entries) (hc : c ∈ L.entries)
    (hnext : c.hash ∈ p.next) : ∃ a b d, values L = a ++ c :: b ++ p :: d :=
  seen_before hU hT hM L hG p c hp hc hnext

/-- A query by a single bound (gt / gte / lt / lte, an entry of the log) and any amount
(unset, 0, positive, larger than the log, negative) returns exactly the corresponding contiguous
window of the full listing. `queryWin` is the Go `query`/`read` pair (reverse, read, reverse). -/
theorem query_returns_exact_window (L : List Entry) (o : StreamOpts) (hnd : HashNodup L)
    (hb : boundOk L o) (hc : NoClash o) : queryWin L o = windowSpec L o :=
  queryWin_eq_windowSpec L o hnd hb hc

/-- `NoClash` (at most one of gt/gte, and of lt/lte when those are absent) is exactly what is
needed: with two bounds of the same direction the Go code takes the hash from one and the
inclusiveness from the other. The property quantifies over a single bound. -/
theorem window_iff_single_bound (L : List Entry) (o : StreamOpts) (hnd : HashNodup L) (hb : boundOk L o) :
    queryWin L o = windowSpec L o ↔ NoClash o := queryWin_eq_windowSpec_iff L o hnd hb

/-- `Get` by address returns that entry. -/
theorem get_returns_entry (L : List Entry) (h : Nat) (hnd : HashNodup L) (e : Entry) (he : e ∈ L)
    (hh : e.hash = h) : queryWin L { gte := some h, amount := some 1 } = [e] := get_eq L h hnd e he hh

/-- every result is a contiguous part of the listing, whatever the options -/
theorem result_is_contiguous (L : List Entry) (o : StreamOpts) : ∃ a b, L = a ++ queryWin L o ++ b :=
  queryWin_contiguous L o

/-- the `amount` normalisation of `eventlogstore.query` in the Go text of this run is the model's -/
theorem amount_normalisation_tied_to_go_text (a : Option Int) (len : Nat) :
    Gen.genNormAmount a.isSome (a.getD 0) len = (normAmount a len : Int) := gen_normAmount a len

end Orbit.C08
