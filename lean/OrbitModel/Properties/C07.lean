import OrbitModel.Model.Store
import OrbitModel.Proofs.History
import OrbitModel.Proofs.GenEqDocRead
/-!
# C07 — document store = last-writer-wins replay, including batch puts

`docUpdate` models `documentIndex.UpdateIndex` of the current tree (after the `fix:` commit that marks
each PUTALL *member* key as handled); `docUpdatePinned` is the loop of the pinned tree, kept for the
refutation witness. `docReplay` treats a PUTALL as a put of each member.
-/
namespace Orbit.C07

/-- At every step of every history of a replica, the document index equals the replay of the current
listing — the latest operation on a document key wins whether it was a single put, a member of a
batch put, or a delete. `DocWF`: the members of one PUTALL have distinct keys (it is built from a Go map). -/
theorem index_tracks_replay {ca : Entry → Bool} {U : List Entry}
    (hU : HashDet U) (hT : TieFree U) (hM : ClockMono U) (id : Nat) (ls : List Log)
    (h : History ca U (Log.empty id) ls) (hwf : ∀ L ∈ ls, DocWF (values L)) :
    KV.equiv (ls.foldl (fun idx L => docUpdate idx (values L)) [])
             (docReplay (values ((Log.empty id :: ls).getLast (by simp)))) := by
  have hg := history_grows (ca := ca) hU hT hM (good_empty U id) h
  have hv0 : values (Log.empty id) = [] := by
    simp [values, traverseN, travFuel, Log.empty, Trav.traverse, Trav.run, Trav.sortDesc]
  have hwf' : ∀ vs ∈ (Log.empty id :: ls).map values, DocWF vs := by
    intro vs hvs
    rcases List.mem_map.mp hvs with ⟨L, hL, rfl⟩
    rcases List.mem_cons.mp hL with rfl | hL
    · rw [hv0]; intro e he; simp at he
    · exact hwf L hL
  have := doc_inv_chain _ hg hwf'
  have hfold : ((Log.empty id :: ls).map values).foldl docUpdate [] =
      ls.foldl (fun idx L => docUpdate idx (values L)) [] := by
    rw [List.foldl_map]
    simp only [List.foldl_cons]
    have : docUpdate [] (values (Log.empty id)) = [] := by rw [hv0]; rfl
    rw [this]
  have hlast : ((Log.empty id :: ls).map values).getLastD [] =
      values ((Log.empty id :: ls).getLast (by simp)) := by
    rw [List.getLastD_eq_getLast?, List.getLast?_map, List.getLast?_eq_some_getLast (by simp)]
    rfl
  rw [hfold, hlast] at this
  exact this

theorem index_step (idx : KV) (vs vs' : List Entry) (hwf : DocWF vs')
    (hinv : KV.equiv idx (docReplay vs)) (hsub : ∀ e ∈ vs, e ∈ vs') :
    KV.equiv (docUpdate idx vs') (docReplay vs') := doc_inv_step idx vs vs' hwf hinv hsub

/-- Refutation witness for the **pinned** tree (finding F1, repaired): a PUTALL member whose key an
older PUT also wrote keeps the older value, and a key deleted after a PUTALL cannot be re-added by a
later PUTALL; the repaired loop agrees with the replay on both. -/
theorem pinned_tree_violates :
    let a : Entry := { hash := 1, logId := 1, time := 1, cid := 0, next := [], op := .put "k" "v1" }
    let b : Entry := { hash := 2, logId := 1, time := 2, cid := 0, next := [1], op := .putAll [("k", "v2")] }
    KV.get (docUpdatePinned [] [a, b]) "k" = some "v1" ∧ KV.get (docReplay [a, b]) "k" = some "v2"
      ∧ KV.get (docUpdate [] [a, b]) "k" = some "v2" := by
  decide

/-- `Get` returns exactly the index keys that match (exact / case-insensitive / partial). -/
theorem get_returns_exactly_matching (idx : KV) (key : String) (ci pm : Bool) (k : String) :
    k ∈ docGetKeys idx key ci pm ↔ k ∈ idx.keys ∧
      (if pm then (if ci then lowerAscii key else key).toList <:+: (if ci then lowerAscii k else k).toList
       else (if ci then lowerAscii k else k) = (if ci then lowerAscii key else key)) :=
  docGetKeys_spec idx key ci pm k

/-- **the documents are the replay of what the log lists — whatever the log listed before** (after the
`fix:` commit, finding F45: the index is rebuilt into a fresh map; `index_step` needed "the listing
only grows", which a `Load` with a limit on a live store breaks) -/
theorem documents_are_the_replay_of_the_listing (idx : KV) (L : Log) (hwf : DocWF (values L)) :
    KV.equiv (updateIndex .doc idx L) (docReplay (values L)) :=
  doc_inv_step [] [] (values L) hwf (KV.equiv_refl _) (fun _ h => by cases h)

/-- Refutation witness for the index as it was: the document of an entry the log no longer lists
stayed; now it goes (corpus/C07/f45) -/
theorem trimmed_document_stayed_visible_before_the_fix :
    KV.get (updateIndex0 .doc [("Doc-b", "x")] (Log.empty 1)) "Doc-b" = some "x" ∧
    KV.get (updateIndex .doc [("Doc-b", "x")] (Log.empty 1)) "Doc-b" = none := by decide

/-- **`Get` and `Query` answer from ONE state of the documents** — the one `get_returns_exactly_matching`
is stated over: in the Go text of this run both take the map `UpdateIndex` swapped in last (it is never
modified afterwards: F45) and read keys and values from it (after the `fix:` commit, finding F58: the key
list and each value were read in separate lock sections — a batch put landing in between gave one
document of the old batch and one of the new, a delete made `Get` fail; replayed on the real store with
the caller's filter as the meeting point: `doctorn`) -/
theorem reads_take_one_state_tied_to_go_text :
    Gen.docQueryOrder = Order.docRead ∧ Gen.docGetOrder = Order.docRead := gen_docRead_order

end Orbit.C07
