import OrbitModel.Proofs.LoadLimit
import OrbitModel.Proofs.LoadNoPanic
import OrbitModel.Proofs.LoadChain
import OrbitModel.Proofs.LoadExamples
import OrbitModel.Proofs.GenEqLoad
import OrbitModel.Proofs.LoadRejoin
import OrbitModel.Proofs.LoadMore
import OrbitModel.Proofs.GenEqLoadJoin
import OrbitModel.Proofs.Refetch
/-!
# C15 — `Load(n)` shows the newest `min(n, total)` entries, in order; `n ≤ 0` loads all; never panics

`Model/Store.lean` `loadAmount`, `loadHead` (the clamp before `Join`), `Store.load`; `Model/Log.lean`
`trim` (the slice inside `Join(size)`, panicking when `size` exceeds the length). The bounded
Fetcher of go-ipfs-log is a parameter `fetch` (contract: it returns, as a set, a suffix of the chain
containing at least the newest `min n T`; checked against the real fetcher by the limit family).

Proved for every chain length and every limit: the single-writer statement (a chain, one cached
head, fresh store). For logs with several heads the general statement is **partial**: one head is
proved panic-free, and the listing after every head is checked against the L1 predicate
(`C15/count`, `C15/newest`, `C15/order`) on the real store by the limit family; `load_fork_all_limits`
is a checked instance, not a proof.
-/
namespace Orbit.C15

/-- the effective limit: `n ≤ 0` falls back to `maxHistory`, and a non-positive result means "all" -/
theorem effective_limit (amount : Int) (mh : Option Int) :
    (loadAmount amount mh = -1 ↔ effAmount amount mh ≤ 0) ∧
    (0 < effAmount amount mh → loadAmount amount mh = effAmount amount mh) := loadAmount_spec amount mh

/-- the normalisation at the top of `Load` in the Go text of this run is the one of the theorem -/
theorem limit_normalisation_tied_to_go_text (amount : Int) (mh : Option Int) :
    Gen.genLoadAmount mh.isSome (mh.getD 0) amount = loadAmount amount mh := gen_loadAmount amount mh

/-- `Join(size)` panics exactly when asked to keep more than there is — what the clamp must avoid -/
theorem trim_panics_iff (L : Log) (size : Nat) : trim L size = .error .panic ↔ size > (values L).length :=
  trim_no_panic L size

/-- a successful trim keeps the newest `size` entries, in log order -/
theorem trim_keeps_newest {U : List Entry} (hU : HashDet U) (hT : TieFree U) (hM : ClockMono U) {L L' : Log}
    {size : Nat} (hG : Good U L) (h : trim L size = .ok L') :
    size ≤ (values L).length ∧ values L' = (values L).drop ((values L).length - size) :=
  trim_values hU hT hM hG h

/-- **C15, single writer**: for every chain `c` (oldest first), every limit `n`, a fresh store whose
cached head is on the chain, and a fetcher returning a suffix of the chain that contains at least
the newest `min n T` entries (everything when `n ≤ 0`): `Load(n)` succeeds and lists exactly the
newest `min n T` entries of the chain, oldest first — the whole chain when `n ≤ 0`. -/
theorem load_lists_newest_n_of_a_chain {id : Nat} {c : List Entry} (hc : IsChain id c) (acl : Acl)
    (hacc : ∀ e ∈ c, acceptable acl.canAppend e = true)
    (s : Store) (hd : Nat) (hlog : s.log = Log.empty id) (hl : s.localHeads = some [hd])
    (hr : s.remoteHeads = none) (fetch : Nat → OMap) (n : Int) (j : Nat)
    (hf : ∀ e, e ∈ fetch hd ↔ e ∈ c.drop j)
    (hj : if n ≤ 0 then j = 0 else j ≤ c.length - min n.toNat c.length) :
    ∃ s', Store.load acl s fetch n = .ok s' ∧
      values s'.log = if n ≤ 0 then c else c.drop (c.length - min n.toNat c.length) :=
  load_single_head_chain hc acl hacc s hd hlog hl hr fetch n j hf hj

/-- **no limit value makes loading one head panic**: for EVERY log the store may hold — closed or
with holes, fully or partially loaded, whatever its heads and link index — every fetched log and every
amount (after the `fix:` commit, finding F30: the merge asks for no trim; the trim is only asked for
once the listing is known to be longer than the amount). The statement used to need
`Closed L ∨ amount ≤ |L|`; the excluded case was real. -/
theorem load_one_head_never_panics (acl : Acl) (fetch : Nat → OMap) (amount : Int) (L : Log) (h : Nat) :
    loadHead acl fetch amount L h ≠ .error .panic :=
  loadHead_never_panics acl fetch amount L h

/-- the model writes `Load`'s second `Join(l, amount)` as a trim; written out exactly (`loadHeadExact`:
`Join` called twice) it lists the same entries and never panics, for every log that satisfies the
log invariant (every log reachable by appends and honest joins) and every fetched log -/
theorem the_second_join_of_load_is_a_trim {U : List Entry} (hU : HashDet U) (hT : TieFree U) (hM : ClockMono U)
    (acl : Acl) (fetch : Nat → OMap) (amount : Int) {L : Log} (h : Nat) (hG : Good U L)
    (hF : Fetched U L (fetch h)) :
    loadHeadExact acl (missingFetch L fetch) amount L h ≠ .error .panic ∧
    ∀ r, loadHeadExact acl (missingFetch L fetch) amount L h = .ok r →
      ∃ r', loadHead acl fetch amount L h = .ok r' ∧ values r = values r' :=
  loadHeadExact_is_loadHead hU hT hM acl (missingFetch L fetch) amount h hG (fetched_missing hF)

/-- **"load more"**: an unlimited `Load` of one cached head into ANY log that satisfies the log
invariant — empty, loaded with a limit, written to or replicated into since — lists exactly what the
log held plus everything the fetcher brought for that head (after the `fix:` commit, finding F36:
only the entries the log does not hold are handed to `Join`, which does not walk through held ones) -/
theorem load_more_lists_everything_fetched {U : List Entry} (hU : HashDet U) (hT : TieFree U) (hM : ClockMono U)
    (acl : Acl) (fetch : Nat → OMap) {L : Log} (h : Nat) (hG : Good U L)
    (hF : Fetched U L (fetch h)) (hacc : ∀ e ∈ fetch h, acceptable acl.canAppend e = true) :
    ∃ L', loadHead acl fetch (-1) L h = .ok L' ∧
      ∀ e, e ∈ values L' ↔ e ∈ L.entries ∨ e ∈ fetch h :=
  loadHead_all_values hU hT hM acl fetch h hG hF hacc

/-- Refutation witness for the tree before that repair: the store that holds the two newest entries of
the 4-chain (after `Load(2)`) and is asked to `Load(-1)`, or `Load(3)`: `Join`, handed the whole
fetched log, stopped at the held head and merged nothing — 2 entries listed; now 4, and 3 (replayed
on the real store by `liveload` steps in the limit family: corpus/C15/f36) -/
theorem load_more_loaded_nothing_below_what_was_held_before_the_fix :
    open LoadExample in
    lst (Except.ok top2) = .ok [3, 4] ∧
    lst (loadHead1 acl (fun _ => [c4, c3, c2, c1]) (-1) top2 4) = .ok [3, 4] ∧
    lst (loadHead acl (fun _ => [c4, c3, c2, c1]) (-1) top2 4) = .ok [1, 2, 3, 4] ∧
    lst (loadHead1 acl (fun _ => [c4, c3, c2]) 3 top2 4) = .ok [3, 4] ∧
    lst (loadHead acl (fun _ => [c4, c3, c2]) 3 top2 4) = .ok [2, 3, 4] ∧
    lst (loadHead acl (fun _ => [c4, c3]) 2 top2 4) = .ok [3, 4] :=
  LoadExample.load_more_witness

/-- Refutation witness for the tree before that repair: a store that holds `c3` without its parents
(a log with a hole) and is asked to `Load(3)` estimated 4 merged entries, asked `Join` to keep 3, and
`Join` — which stops at the held `c3` — listed 2: `tmp[len(tmp)-3:]` panicked. Reproduced on the real
store by a `Load(n)` on an open, partially loaded store (corpus/C15/f30). -/
theorem estimated_trim_panicked_on_a_log_with_holes_before_the_fix :
    LoadExample.isPanic (loadHead0 LoadExample.acl (fun _ => [LoadExample.c4, LoadExample.c3, LoadExample.c2, LoadExample.c1]) 3 LoadExample.held 4) = true ∧
    loadHead LoadExample.acl (fun _ => [LoadExample.c4, LoadExample.c3, LoadExample.c2, LoadExample.c1]) 3 LoadExample.held 4 ≠ .error .panic :=
  ⟨LoadExample.loadHead0_panic_nonclosed.1, loadHead_never_panics _ _ _ _ _⟩

/-- Refutation witness for the pinned tree (finding F11, repaired): on a 3-chain, `Load(4)` panicked
and `Load(0)` emptied the log; after the repair both list the 3 entries. (corpus/C15) -/
theorem pinned_tree_panicked_or_emptied :
    LoadExample.listing (Store.loadPinned LoadExample.acl (LoadExample.fresh 3) (LoadExample.fetchN LoadExample.chain3 4) 4) = .error .panic ∧
    LoadExample.listing (Store.loadPinned LoadExample.acl (LoadExample.fresh 3) (LoadExample.fetchN LoadExample.chain3 0) 0) = .ok [] ∧
    LoadExample.listing (Store.load LoadExample.acl (LoadExample.fresh 3) (LoadExample.fetchN LoadExample.chain3 4) 4) = .ok [1, 2, 3] ∧
    LoadExample.listing (Store.load LoadExample.acl (LoadExample.fresh 3) (LoadExample.fetchN LoadExample.chain3 (-1)) 0) = .ok [1, 2, 3] :=
  LoadExample.loadPinned_witness

/-- the Go text of `Load` in this run keeps, of a fetched log, only what the store does not hold yet
(`held`, before the access and signature checks), merges without a trim and asks for the trim only
after looking at the listing — the steps `loadHead` and `missingFetch` model (F30, F36) -/
theorem load_steps_tied_to_go_text : Gen.loadJoinOrder = Order.loadJoin := gen_loadJoin_order

/-- **entries that `Load` leaves out do not count against the limit** (after the `fix:` commit, finding
F57). The bounded fetcher applies the limit to everything it reaches; `Load` asks again — for as many
more as were left out — until the fetch keeps at least `amount` entries, or came back shorter than asked
(the whole log), or left nothing out. For every fetcher that returns at most what it is asked for and at
most the `T` entries there are, the loop ends within `T + 1` rounds, in one of those three cases. -/
theorem limited_load_fetches_until_the_limit_is_met (fetchN : Nat → OMap) (good : Entry → Bool) (amount T : Nat)
    (hle : ∀ n, (fetchN n).length ≤ n) (hT : ∀ n, (fetchN n).length ≤ T) (len : Nat) :
    Refetch.kept good (fetchN (Refetch.loop fetchN good amount (T + 1) len)) ≥ amount ∨
    (fetchN (Refetch.loop fetchN good amount (T + 1) len)).length < Refetch.loop fetchN good amount (T + 1) len ∨
    Refetch.refused good (fetchN (Refetch.loop fetchN good amount (T + 1) len)) = 0 :=
  Refetch.loop_keeps_enough fetchN good amount T hle hT len

/-- Refutation witness for `Load` as it was (one fetch): of the 3 newest entries one belongs to another
log: 2 are kept although the log has 4; the loop asks for 4 and keeps 3 (replayed on the real store:
corpus/C15/f57) -/
theorem filtered_entry_counted_against_the_limit_before_the_fix :
    let e (h : Nat) (lg : Nat) : Entry := { hash := h, logId := lg, time := h, cid := 0, next := [] }
    let all : OMap := [e 5 1, e 4 7, e 3 1, e 2 1, e 1 1]
    let fetchN : Nat → OMap := fun n => all.take n
    let good : Entry → Bool := fun x => x.logId == 1
    Refetch.kept good (fetchN 3) = 2 ∧ Refetch.loop fetchN good 3 6 3 = 6 ∧ Refetch.kept good (fetchN 6) = 4 :=
  Refetch.one_fetch_kept_too_few

/-- the same for the loop as it is since the review of that repair (finding F63, fix: commit): every round
excludes from its fetch what the earlier rounds found to belong to another log, so each round has a
fetcher of its own (`fs k`, ANY dependence on the earlier rounds). As long as no round's fetcher returns
more than it is asked for nor more than `T` entries, the loop ends within `T + 1` rounds, on a fetch
that keeps at least `amount` entries, or came back short (everything reachable was fetched), or left
nothing out. With one fetcher for every round it is the loop above (`Refetch.loopR_const`). -/
theorem limited_load_with_exclusions_fetches_until_the_limit_is_met (fs : Nat → Nat → OMap)
    (good : Entry → Bool) (amount T : Nat)
    (hle : ∀ k n, (fs k n).length ≤ n) (hT : ∀ k n, (fs k n).length ≤ T) (len : Nat) :
    let r := Refetch.loopR fs good amount (T + 1) 0 len
    Refetch.kept good (fs r.1 r.2) ≥ amount ∨ (fs r.1 r.2).length < r.2 ∨
      Refetch.refused good (fs r.1 r.2) = 0 :=
  Refetch.loopR_keeps_enough fs good amount T hle hT len

end Orbit.C15
