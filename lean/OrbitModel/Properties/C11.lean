import OrbitModel.Proofs.ReplC11
import OrbitModel.Proofs.GenEqWalk
import OrbitModel.Proofs.ReplSlots
import OrbitModel.Proofs.ReplExamples
import OrbitModel.Proofs.ReplCheck
/-!
# C11 — cancelled or failed replication requests do not wedge later replication

`Model/Replicator.lean` is the replicator after the `fix:` commit (each worker bound to its item;
cancelled-before-slot and failed fetches are forgotten and retried by the next `Load`). Every theorem
quantifies over **every** earlier history `acts` — any interleaving of loads, cancellations (before a
request starts, while a worker waits for a slot, in the middle of a fetch, between fetch and join),
fetch successes and failures, and deliveries.
-/
namespace Orbit.C11
open Orbit.Repl

/-- Safety, any schedule: in every reachable state the bookkeeping is consistent (`Inv`: one worker per
unfinished task, the queue is exactly the waiting workers' items, slots are conserved, the oplog holds
only accepted entries of this log) and **no hole is ever forgotten**: every link of a fetched entry is
in the oplog, being worked on, or remembered for retry. -/
theorem no_hole_is_forgotten (net : Nat → Info) (c : Nat) (acts : List Act) (h : Nat) :
    let s := run net { sem := c } acts
    (h ∈ s.log ∨ inBP s h ∨ (task s h = some .fetched ∧ (net h).foreign = false)) →
    ∀ l ∈ (net h).links, l ∈ s.log ∨ task s l ≠ none ∨ l ∈ s.failed :=
  closure_reachable net c acts h

/-- Any schedule: whenever the replicator comes to rest (no worker, no pending batch) with nothing
left to retry, every accepted entry reachable from heads it was asked for is in the oplog. -/
theorem at_rest_means_complete {net : Nat → Info} {c : Nat} (acts : List Act) (hs : List Nat) :
    let s := run net { sem := c } acts
    s.workers = [] → s.pending = [] → s.failed = [] → (∀ h ∈ hs, tracked s h) →
    ∀ x, Reach net hs x → (net x).valid = true → (net x).foreign = false → x ∈ s.log := by
  intro s hw hp hf hh x hx hv hnf
  have hi := inv_reachable net c acts
  exact settled_log hi hw hp (settled_reach hi hw hf hh hx) hv hnf

/-- **The property**: after any history, once the aborted requests' workers have returned (`Clean`:
no worker of a cancelled context is left — this is when `Load` returns), one uncancelled request for
heads `hs`, run to quiescence, makes every accepted entry reachable from `hs` visible, leaves nothing
to retry, and the oplog holds accepted entries only. Fuel is explicit. -/
theorem later_request_completes {net : Nat → Info} {c : Nat} {U : List Nat} (hc : 0 < c)
    (hU : Closed net U) (acts : List Act) (ha : ActsIn U acts)
    (ctx : Nat) (hs : List Nat) (hhs : ∀ h ∈ hs, h ∈ U) (n : Nat) :
    let s := run net { sem := c } acts
    Clean s → s.cancelled.contains ctx = false → fuelBound U s < n →
    let s' := drain net n (step net s (.load ctx hs))
    quiescent s' = true ∧ s'.failed = [] ∧ (∀ x, ReachV net hs x → x ∈ s'.log) ∧
    (∀ x ∈ s'.log, (net x).valid = true ∧ (net x).foreign = false) :=
  C11_one_request hc hU acts ha ctx hs hhs n

/-- Without `Clean` (a request issued while a cancelled request's workers are still unwinding): at
most two requests — the second may even carry no heads. -/
theorem at_most_two_requests {net : Nat → Info} {c : Nat} {U : List Nat} (hc : 0 < c)
    (hU : Closed net U) (acts : List Act) (ha : ActsIn U acts)
    (ctx : Nat) (hs : List Nat) (hhs : ∀ h ∈ hs, h ∈ U)
    (ctx' : Nat) (hs' : List Nat) (hhs' : ∀ h ∈ hs', h ∈ U) (n m : Nat) :
    let s := run net { sem := c } acts
    s.cancelled.contains ctx' = false → fuelLoad U s < n → 3 * U.length < m →
    let s1 := drain net n (step net s (.load ctx hs))
    let s2 := drain net m (step net s1 (.load ctx' hs'))
    quiescent s1 = true ∧ (s1.failed = [] → ∀ x, ReachV net hs x → x ∈ s1.log) ∧
    quiescent s2 = true ∧ s2.failed = [] ∧ (∀ x, ReachV net (hs ++ hs') x → x ∈ s2.log) ∧
    (∀ x ∈ s2.log, (net x).valid = true ∧ (net x).foreign = false) :=
  C11_two_requests hc hU acts ha ctx hs hhs ctx' hs' hhs' n m

/-- The `Clean` hypothesis is needed (known finding K1): a request that arrives while the worker of a
pre-cancelled request has not yet failed finds the hash "already queued" and ends without it; the
next request brings it. Decide-checked on the chain 1 ← 2 ← 3. -/
theorem unclean_request_can_miss :
    (Ex.finish [.cancel 1, .load 1 [3], .load 2 [3]]).log = [] ∧
    (Ex.finish [.cancel 1, .load 1 [3], .load 2 [3]]).failed = [3] := Ex.one_load_not_enough'

/-- Known finding K2 — what "completes" needs: the fetch of every retried hash returns. A cancelled
request leaves the hash of an unavailable ancestor (1) in the retry list; the next request (never
cancelled: the same head 2 and the newer, entirely available head 6) retries it under its own context;
6 and 5 are fetched and buffered, and in that state NO move of the replicator or of the store other
than the return of the hung fetch changes anything: the store does not see 6 and 5 while the block of
1 stays unavailable. Once it is served everything arrives. (replayed on the real replicator:
corpus/C11/k2) -/
theorem hung_retry_withholds_what_was_fetched :
    Ex.wedged.log = [2] ∧ Ex.wedged.buffer = [6, 5] ∧ Ex.wedged.pending = [] ∧
    (∀ a : Act, a ≠ .fetched 0 → a ≠ .fetchFail 0 → (∀ c hs, a ≠ .load c hs) → (∀ c, a ≠ .cancel c) →
      step Ex.netK Ex.wedged a = Ex.wedged) ∧
    (drain Ex.netK 40 Ex.wedged).log = [2, 6, 5, 1] := by
  refine ⟨?_, ?_, ?_, fun a h1 h2 h3 h4 => Ex.hung_retry_withholds a h1 h2 h3 h4,
    Ex.wedge_ends_when_the_block_is_served.1⟩ <;> rw [Ex.wedged_eq]

/-- Refutation witness for the pinned tree (finding F7, repaired): one pre-cancelled request leaves a
queued item without a worker for ever; the same heads and even a newer head never arrive. -/
theorem pinned_tree_wedges :
    let s1 := Ex.finishPinned Ex.s0 [.cancel 1, .load 1 [3], .acquire 0, .load 2 [3]]
    let s2 := Ex.finishPinned s1 [.load 3 [4]]
    s1.log = [] ∧ quiescent s1 = true ∧ task s1 3 = some .added ∧
    s2.log = [] ∧ quiescent s2 = true ∧ s2.buffer = [3, 4] ∧ task s2 2 = some .added :=
  Ex.pinned_cancel_wedges

/-- **no aborted request leaks a fetch slot**: after EVERY history (loads, cancellations at any point,
failing fetches, any interleaving) free slots + workers holding one = the capacity, and once no worker
is left every slot is free and nothing is counted as in progress — so aborted requests can never
starve later ones of slots. (The harness checks the same equation on the real replicator whenever
it is at rest: `C11/slots`.) -/
theorem slots_are_conserved (net : Nat → Info) (c : Nat) (acts : List Act) :
    (run net { sem := c } acts).sem + holding (run net { sem := c } acts).workers = c ∧
    ((run net { sem := c } acts).workers = [] →
      (run net { sem := c } acts).sem = c ∧ (run net { sem := c } acts).inProgress = 0) :=
  ⟨(slots_run net c acts).sem, slots_all_free_at_rest net c acts⟩

/-- the replicator of the Go text of this run looks at EVERY hash a fetched entry names (no early exit
from the loop that queues them), as the model's `fetched` does -/
theorem parent_walk_tied_to_go_text : Gen.parentWalkExits = 0 := gen_parentWalk_complete

end Orbit.C11
