import OrbitModel.Proofs.DecodeSafe
import OrbitModel.Proofs.Uvarint
import OrbitModel.Proofs.GenEqFrame
import OrbitModel.Proofs.GenEqListener
import OrbitModel.Proofs.GenEqDocs
import OrbitModel.Proofs.GenEqLogQuery
import OrbitModel.Proofs.WindowOps
/-!
# C12 — malformed network messages never crash a peer or change its state

From the decode result onward (the bytes → structure step of `encoding/json` is observed by the
harness, not modelled): a message either fails to decode (dropped by the listener loop) or yields
heads each of which is `null` or an object with identity / clock / hash present or absent.
`syncHeads` is `Sync` after the `fix:` commit; `syncPinned` the pinned tree. The stream frame reader is
`frameGuard` (after its `fix:` commit), tied to the Go text by `gen_frameRefused`.
-/
namespace Orbit.C12

/-- no decoded message makes `Sync` panic: whatever mix of null, empty and partial heads -/
theorem no_message_panics (acl : Acl) (m : Decoded) : handleMessage acl m ≠ .panic :=
  handleMessage_never_panics acl m

/-- … and no sequence of them does -/
theorem listener_survives_any_stream (acl : Acl) (ms : List Decoded) :
    ∀ o ∈ ms.map (handleMessage acl), o ≠ .panic :=
  listener_never_panics acl ms

/-- only complete heads that the access controller admits are handed to the replicator, in order;
null / incomplete / refused ones are dropped -/
theorem only_complete_admitted_heads_loaded (acl : Acl) (id : Nat) (hs : List RawHead) (es : List Entry)
    (h : syncHeads acl id hs [] = .load es) : es = (hs.filter (RawHead.loadable acl id)).map RawHead.entry :=
  syncHeads_loads_exactly_loadable acl id hs es h

/-- a malformed message never stops a later valid one from being handled: the outcome for a message
does not depend on what preceded it -/
theorem later_valid_messages_handled (acl : Acl) (ms : List Decoded) (m : Decoded) :
    ((ms ++ [m]).map (handleMessage acl)).getLast? = some (handleMessage acl m) :=
  later_messages_handled acl ms m

/-- the listener LOOPS (the direct-channel monitor of the instance and the topic listener of each
store) as they are in the Go text of this run — the number of statements that would end them on an
error is regenerated from the source (`Gen.listenerExitsOnError`) — handle every message of every
stream: a message that `Sync` refuses does not stop the messages after it from being handled -/
theorem listener_loop_handles_every_message (acl : Acl) (ms : List Decoded) :
    runListener (Gen.listenerExitsOnError != 0) acl ms = ms.map (handleMessage acl) := by
  rw [gen_listener_never_exits]; exact runListener_handles_all acl ms

/-- were a `return` (or `break`) put where the loops `continue`, everything after the first refused
message would be dropped (seeded change C12 does exactly that; the regenerated constant becomes 1 and
the proof above no longer checks) -/
theorem a_loop_that_left_on_error_would_drop_later_messages (acl : Acl) (m : Decoded) (ms : List Decoded)
    (h : handleMessage acl m = .err) : runListener true acl (m :: ms) = [.err] :=
  runListener_stopping_drops_later acl m ms h

/-- no PUTALL batch makes the document index panic, whatever `null` members it holds: they are left
out, and the batch is indexed as the batch of its real members (`GetDocs` after the `fix:` commit,
finding F25) -/
theorem null_batch_members_never_panic (acc : List String × KV) (docs : List (Option (String × String))) :
    docAllRaw true acc docs = .ok ((docs.filterMap id).foldl docAllStep acc) := by
  induction docs generalizing acc with
  | nil => rfl
  | cons d rest ih =>
    cases d with
    | none => simpa [docAllRaw] using ih acc
    | some x => simpa [docAllRaw] using ih (docAllStep acc x)

/-- the accessor of the Go text of this run does leave nil members out -/
theorem batch_accessor_tied_to_go_text : Gen.getDocsSkipsNil = true := gen_getDocs_skips_nil

/-- Refutation witness for the tree before that repair: a validly signed entry whose batch is
`[null]` (any writer can publish one; on a wildcard database anybody) crashed every replica that
merged it, in the store's main loop (replayed on the real store: corpus/C12/f25). -/
theorem null_batch_member_crashed_the_index_before_the_fix :
    docAllRaw false ([], []) [none] = .panic := rfl

/-- an entry whose payload is not an operation the view knows (`Op.other`: it does not decode, or
names an operation other than PUT / DEL / PUTALL) changes nothing in the key-value and document views
and shadows nothing: the scan goes on below it (after the `fix:` commit, finding F35 — the loops used
to give up with an error at such an entry, on every later update) -/
theorem entries_that_are_not_operations_change_nothing (acc : List String × KV) (e : Entry)
    (h : e.op = .other) : kvStep acc e = acc ∧ docStepWith docAllStep acc e = acc := by
  unfold kvStep docStepWith
  rw [h]
  exact ⟨rfl, rfl⟩

/-- no 64-bit length prefix makes the stream reader panic; what it accepts is within the limit -/
theorem no_length_prefix_panics (len64 : BitVec 64) :
    Codec.frameGuard len64 ≠ .panic ∧
    (∀ n, Codec.frameGuard len64 = .accept n → (n : Int) ≤ Codec.maxFrame ∧ n = len64.toNat) :=
  ⟨Codec.frameGuard_never_panics len64, fun n h => Codec.frame_accept len64 n h⟩

/-- the guard in the Go text of this run is the guard of the theorem -/
theorem frame_guard_tied_to_go_text (len64 : BitVec 64) :
    Gen.genFrameRefused len64 = (Codec.frameGuard len64 == .refused) := gen_frameRefused len64

/-- Refutation witnesses for the pinned tree (findings F8, F8b, repaired): `{"heads":[null]}` and a
head without identity dereference nil; a length prefix of 2^63 passes the size check as a negative
int and makes the allocation panic. All three were replayed on the real code (corpus/C12). -/
theorem pinned_tree_panics (acl : Acl) :
    (syncPinned acl [{ isNull := true }] []) matches .panic ∧
    (syncPinned acl [{ hasIdentity := false }] []) matches .panic ∧
    Codec.frameGuardPinned (BitVec.ofNat 64 (2 ^ 63)) = .panic := by
  refine ⟨?_, ?_, Codec.frameGuardPinned_panics⟩
  · rw [syncPinned_null_panics]
  · rw [syncPinned_noidentity_panics]

/-- an event log's listing and windows are taken over the entries whose payload is an operation: the
`query` of the Go text of this run picks them out before it takes the window (after the `fix:` commit,
finding F48: one validly signed entry with a payload that is not an operation made every listing END
at it, silently — acknowledged writes after it were not listed; the garbage family injects one into
event logs and queries) -/
theorem event_log_windows_skip_what_is_not_an_operation_tied_to_go_text :
    Gen.logQueryOrder = Order.logQuery := gen_logQuery_order

/-- what an event log lists when its log also holds entries that are not operations (`isOp e = false`),
for EVERY log, every choice of which entries those are, every bound - an operation or not - and every
amount: exactly the operations on the asked side of the bound's position (`windowSpecOps`). `queryWinOps`
is the model of the Go `query`/`read` of this run (order of its steps: theorem above; compared with the
implementation on every query of the garbage and query families). (Review of the F48 repair, fix:
commit - the first repair filtered the operations out BEFORE it looked the bound up: a cursor on an
entry that is not an operation was not found and the window started at the first entry.) -/
theorem event_log_lists_the_operations_around_any_bound (isOp : Entry → Bool) (L : List Entry)
    (o : StreamOpts) (hnd : HashNodup L) (hb : boundOk L o) (hc : NoClash o) :
    queryWinOps isOp L o = windowSpecOps isOp L o := queryWinOps_eq_windowSpecOps isOp L o hnd hb hc

/-- nothing that is not an operation is ever listed (no hypothesis at all), in the order of the log -/
theorem event_log_never_lists_what_is_not_an_operation (isOp : Entry → Bool) (L : List Entry)
    (o : StreamOpts) :
    (∀ e ∈ queryWinOps isOp L o, isOp e = true ∧ e ∈ L) ∧ (queryWinOps isOp L o).Sublist (L.filter isOp) :=
  ⟨queryWinOps_only_ops isOp L o, queryWinOps_sublist isOp L o⟩

/-- on the logs the store writes itself (operations only) the listing is the plain window of C08 -/
theorem event_log_of_operations_only_lists_as_before (isOp : Entry → Bool) (L : List Entry)
    (o : StreamOpts) (hall : ∀ e ∈ L, isOp e = true) :
    queryWinOps isOp L o = queryWin L o ∧ windowSpecOps isOp L o = windowSpec L o :=
  ⟨queryWinOps_all_ops isOp L o hall, windowSpecOps_all_ops isOp L o hall⟩

/-- `Get(h)` is the listing from `h` on, one entry long. For an entry that IS an operation it answers with
that entry; for an entry that is NOT one, whatever the listing hands back is another entry of the log
(another hash) - the test the Go `Get` makes before it answers, so that it fails instead of handing out
the operation of an entry nobody asked for (finding F69, fix: commit; `get` of the injected entry in the
corpus, `C12/get` predicate) - for every log with distinct hashes and every choice of the non-operations -/
theorem get_answers_for_the_entry_asked_for (isOp : Entry → Bool) (L : List Entry) (h : Nat)
    (hnd : HashNodup L) (e : Entry) (he : e ∈ L) (hh : e.hash = h) :
    (isOp e = true → queryWinOps isOp L { gte := some h, amount := some 1 } = [e]) ∧
    (isOp e = false → ∀ x ∈ queryWinOps isOp L { gte := some h, amount := some 1 }, x ≠ e ∧ x.hash ≠ h) :=
  ⟨getOps_of_operation isOp L h hnd e he hh, getOps_of_non_operation isOp L h hnd e he hh⟩

/-- … and the Go `Get` of this run makes that test before it answers -/
theorem get_test_tied_to_go_text : Gen.logGetOrder = Order.logGet := gen_logGet_order

end Orbit.C12
