import OrbitModel.Proofs.Address
import OrbitModel.Proofs.OpenCreate
import OrbitModel.Proofs.OpenCreateOpen
import OrbitModel.Proofs.Params
/-!
# C14 — the address of a database is a function of (name, type, access controller) and round-trips

`Model/Path.lean`: `determine` (= `DetermineAddress` after the manifest has been hashed to `h`),
`parse`, `print`, Go's `path.Join`/`path.Clean` on segment lists. The manifest hash `H` (CID of the
dag-cbor manifest) is a parameter assumed injective (trusted: sha2-256 and the injectivity of the
manifest encoding; sampled by the address family: equal inputs on different peers give equal
addresses, field `addr`). Create/open refusals (`create-exists`, `open-unknown-local`) are decision
logic compared on the real instance by the same family.
-/
namespace Orbit.C14
open Orbit.Path

/-- the address answered always names the manifest the inputs were hashed into -/
theorem address_root_is_the_manifest {isCid : String → Bool} {h name : String} {a : Addr}
    (hd : determine isCid h name = some a) : a.root = h := determine_root hd

/-- **different inputs give different addresses** (`H` injective) -/
theorem different_inputs_different_addresses {α : Type} {isCid : String → Bool} (H : α → String) (nameOf : α → String)
    (hH : ∀ x y, H x = H y → x = y) {x y : α} {a a' : Addr}
    (hx : determine isCid (H x) (nameOf x) = some a)
    (hy : determine isCid (H y) (nameOf y) = some a') (he : a = a') : x = y :=
  determine_inj H nameOf hH hx hy he

/-- **the printed address parses back to the same root and path** -/
theorem printed_address_parses_back {isCid : String → Bool} {h name : String} {a : Addr}
    (hc : isCid h = true) (hh : Seg h) (hd : determine isCid h name = some a) :
    parse isCid (print a) = some a := parse_print_of_parse0 (determine_parse_print hc hh hd)

/-- **whatever string `Open` accepts as an address names the database it prints as**: the printed
form (`String()`, which cleans) splits back to the same root — `address.Parse` after the `fix:` commit
refuses an address whose path climbs out of its root (finding F28) -/
theorem accepted_address_prints_as_the_same_database {isCid : String → Bool} {s : String} {a : Addr}
    (h : parse isCid s = some a) : ∃ b, parse0 isCid (print a) = some b ∧ b.root = a.root :=
  parse_print_same_root h

/-- Refutation witness for the tree before that repair: `/orbitdb/@A/../@B/x` was split into root
`@A` (whose manifest — type and write list — the store was opened with) and path `../@B/x`, and the
store then printed its address as `/orbitdb/@B/x`: another database's address with `@A`'s write list
(replayed on the real code: corpus/C14/f28). Now it is refused. -/
theorem climbing_address_was_opened_as_another_database_before_the_fix :
    parse0 atCid "/orbitdb/@A/../@B/x" = some ⟨"@A", "../@B/x"⟩ ∧
    print ⟨"@A", "../@B/x"⟩ = "/orbitdb/@B/x" ∧
    parse atCid "/orbitdb/@A/../@B/x" = none := by
  have h0 : parse0 atCid "/orbitdb/@A/../@B/x" = some ⟨"@A", "../@B/x"⟩ := by decide
  have hp : print ⟨"@A", "../@B/x"⟩ = "/orbitdb/@B/x" := by decide
  refine ⟨h0, hp, ?_⟩
  unfold parse
  rw [h0]
  have hg : staysBelowRoot atCid ⟨"@A", "../@B/x"⟩ = false := by
    unfold staysBelowRoot
    rw [hp]
    have h1 : parse0 atCid "/orbitdb/@B/x" = some ⟨"@B", "x"⟩ := by decide
    rw [h1]; decide
  simp [hg]

/-- exactly which names are accepted, and with what address -/
theorem accepted_names {isCid : String → Bool} {h : String} (hc : isCid h = true) (hh : Seg h)
    (name : String) (a : Addr) :
    determine isCid h name = some a ↔ isAddress isCid name = false ∧
      ∃ rest, cleanAbs (["orbitdb", h] ++ segments name) = "orbitdb" :: h :: rest ∧
        a = ⟨h, "/".intercalate rest⟩ := determine_some_iff hc hh name a

/-! ### Create / Open (`Model/OpenCreate.lean`: the decision logic of one instance, in the order of
the Go code; `H` = manifest hash, `net` = manifests retrievable from IPFS, `local` = databases with
local data). The driver runs this model on every `createdb` / `openaddr` line of the address family
and compares outcome, address, type and write list with the real instance. -/

/-- **creating over an existing local database is refused unless overwrite is requested**, and
the refusal leaves the local data as it was -/
theorem create_over_existing_is_refused {isCid : String → Bool} {H : String → String → List String → String}
    (s : OC.St) (name ty : String) (o : OC.Opts) (a : Addr)
    (hd : (OC.determineAddr isCid H s name ty o.acl).1 = .ok a) (hl : a ∈ s.local) (ho : o.overwrite = false) :
    (OC.create isCid H s name ty o).1 = .error .exists ∧ (OC.create isCid H s name ty o).2.local = s.local := by
  obtain ⟨h1, h2, _, _⟩ := OC.create_refused_when_exists s name ty o a hd hl ho
  exact ⟨by rw [h1], h2⟩

/-- **a local-only open of an unknown database is refused** and changes nothing -/
theorem local_only_open_of_unknown_is_refused {isCid : String → Bool} {H : String → String → List String → String}
    (s : OC.St) (addr : String) (o : OC.Opts) (a : Addr)
    (hp : parse isCid addr = some a) (hl : a ∉ s.local) (hlo : o.localOnly = true) :
    OC.open isCid H s addr o = (.error .notLocal, s) := OC.open_unknown_localonly_refused s addr o a hp hl hlo

/-- **opening an address yields a store of the recorded type whose write list is the recorded one**,
whatever options the opener passes -/
theorem open_yields_recorded_type_and_write_list {isCid : String → Bool} {H : String → String → List String → String}
    (s : OC.St) (addr : String) (o : OC.Opts) (a : Addr) (out : OC.Out)
    (hp : parse isCid addr = some a) (h : (OC.open isCid H s addr o).1 = .ok out) :
    ∃ m, OC.fetch s.net a.root = some m ∧ out = (a, m.type, m.acl) :=
  OC.open_type_and_acl_are_the_recorded_ones s addr o a out hp h

/-- **what Create returned is what every later Open returns**: on the same instance with any
options; on any other instance that can fetch the manifest (not local-only: the database is then recorded
there); and a local-only open on an instance without local data is refused -/
theorem create_then_open_anywhere {isCid : String → Bool} {H : String → String → List String → String}
    (s s' : OC.St) (name ty : String) (o : OC.Opts) (a : Addr) (ty' : String) (wl : List String)
    (hc : isCid (OC.recHash H s name ty o) = true) (hs : Seg (OC.recHash H s name ty o))
    (h : OC.create isCid H s name ty o = (.ok (a, ty', wl), s')) :
    (∀ o', OC.open isCid H s' (print a) o' = (.ok (a, ty', wl), s')) ∧
    (∀ s2 o', OC.fetch s2.net a.root = OC.fetch s'.net a.root → ty' ∈ s2.types → o'.localOnly = false →
      OC.open isCid H s2 (print a) o' = (.ok (a, ty', wl), OC.addLocal s2 a)) ∧
    (∀ s2 o', a ∉ s2.local → o'.localOnly = true →
      OC.open isCid H s2 (print a) o' = (.error .notLocal, s2)) :=
  OC.create_then_open_same s s' name ty o a ty' wl hc hs h

/-- **a database obtained through `Open` exists locally from then on** (after the `fix:` commit,
finding F53): once a non-local-only `Open` of an address (in its printed spelling) has succeeded, a local-only `Open` of the same
address on that instance succeeds with the same type and write list — and (`create_over_existing_is_refused`)
a `Create` with the same inputs is refused unless overwrite is requested. Before the repair only
`Create` recorded the database: the replica was "unknown", and could be created again over itself. -/
theorem opened_database_exists_locally {isCid : String → Bool} {H : String → String → List String → String}
    (s : OC.St) (addr : String) (o o' : OC.Opts) (a : Addr) (out : OC.Out)
    (hp : parse isCid addr = some a) (hn : OC.Named isCid s a) (hca : parse isCid (print a) = some a)
    (h : (OC.open isCid H s addr o).1 = .ok out) :
    (OC.open isCid H (OC.open isCid H s addr o).2 addr o').1 = .ok out :=
  OC.open_remote_then_localonly_succeeds s addr o o' a out hp hn hca h

/-- the address Create returns is `determine` of the manifest hash of (name, type, write list) -/
theorem create_address_is_determined_by_inputs {isCid : String → Bool} {H : String → String → List String → String}
    (s : OC.St) (name ty : String) (o : OC.Opts) (out : OC.Out)
    (hc : isCid (OC.recHash H s name ty o) = true) (hs : Seg (OC.recHash H s name ty o))
    (h : (OC.create isCid H s name ty o).1 = .ok out) :
    determine isCid (H name ty (OC.effAcl s.self o.acl)) name = some out.1 ∧ out.2.1 = ty ∧
      out.2.2 = OC.effAcl s.self o.acl :=
  OC.create_address_deterministic s name ty o out hc hs h

/-- Refutation witness for the pinned tree (finding F10, repaired): a name that climbs above its
root got the address of *another* database; the repaired code refuses it. (corpus/C14) -/
theorem pinned_tree_answered_a_foreign_address :
    determinePinned atCid "@H" "../@V/victim" = some ⟨"@V", "victim"⟩ ∧
    determinePinned atCid "@V" "victim" = some ⟨"@V", "victim"⟩ ∧
    determine atCid "@H" "../@V/victim" = none ∧
    determine atCid "@V" "victim" = some ⟨"@V", "victim"⟩ := pinned_not_injective

/-- **an address is self-describing: behind the hash of a manifest only the name recorded in it opens**
(after the `fix:` commit, finding F52). Whatever the options (short of the local-only refusal, which
comes first): an address whose path is not the name its root's manifest was created for is refused and
nothing changes; and the address `Create` returns always passes that test, on the creating instance
and on any other (`create_then_open_anywhere` above is unchanged). Before the repair
`/orbitdb/<root>/anything` opened as a database of its own — its own log id, cache and topic — built
from the manifest of another database. -/
theorem misnamed_address_is_refused {isCid : String → Bool} {H : String → String → List String → String}
    (s : OC.St) (addr : String) (o : OC.Opts) (a : Path.Addr) (m : OC.Manifest)
    (hp : Path.parse isCid addr = some a) (hf : OC.fetch s.net a.root = some m)
    (hn : OC.named isCid a m = false) (hlo : o.localOnly = false) :
    OC.«open» isCid H s addr o = (.error .nameMismatch, s) :=
  OC.open_misnamed_refused s addr o a m hp hf hn hlo

/-- the address `DetermineAddress` gives for a name passes the name test against every manifest that
records that name -/
theorem created_address_is_named {isCid : String → Bool} {h name : String} {a : Path.Addr}
    (hc : isCid h = true) (hh : Path.Seg h) (hd : Path.determine isCid h name = some a)
    (m : OC.Manifest) (hm : m.name = name) : OC.named isCid a m = true :=
  OC.named_of_determine hc hh hd m hm

/-- "with none given, the creator's own id is the default" - for EVERY sequence of calls a caller makes with
ONE access controller parameters value (whoever the creators are): each database's write list is its own
creator's id and its recorded name its own, because every call works on a copy of the caller's value
(`Params.useCopy`; findings F54, F59, fix: commits; `reuseac` step of the address family, where the driver
computes the expected write list with this model) -/
theorem default_writer_is_the_creator_whatever_the_value_was_used_for (calls : List (String × String)) :
    Params.run Params.useCopy {} calls =
      calls.map (fun c => { name := c.2, type := "ipfs", write := [c.1] }) :=
  Params.run_copy_defaults calls

/-- the tree as it was (the call worked on the caller's value): the second database made from one value got
the first creator's id as its write list, and the first database's name -/
theorem shared_parameters_leaked_the_first_creator_before_the_fix :
    Params.run Params.useShared {} [("A", "one"), ("B", "two")] =
      [{ name := "one", type := "ipfs", write := ["A"] }, { name := "one", type := "ipfs", write := ["A"] }] ∧
    Params.run Params.useCopy {} [("A", "one"), ("B", "two")] =
      [{ name := "one", type := "ipfs", write := ["A"] }, { name := "two", type := "ipfs", write := ["B"] }] :=
  Params.shared_value_leaks

end Orbit.C14
