import OrbitModel.Proofs.Address
/-!
# C14 — the address of a database is a function of (name, type, access controller) and round-trips

`Model/Path.lean`: `determine` (= `DetermineAddress` after the manifest has been hashed to `h`),
`parse`, `print`, Go's `path.Join`/`path.Clean` on segment lists. The manifest hash `H` (CID of the
dag-cbor manifest) is a parameter assumed injective (trusted: sha2-256 and the injectivity of the
manifest encoding; sampled by the address family: equal inputs on different peers give equal
addresses, field `addr`). Create/open refusals (`create-exists`, `open-unknown-local`) are decision
logic compared on the real instance by the same family.
-/
namespace Orbit.C14
open Orbit.Path

/-- the address answered always names the manifest the inputs were hashed into -/
theorem address_root_is_the_manifest {isCid : String → Bool} {h name : String} {a : Addr}
    (hd : determine isCid h name = some a) : a.root = h := determine_root hd

/-- **different inputs give different addresses** (`H` injective) -/
theorem different_inputs_different_addresses {α : Type} {isCid : String → Bool} (H : α → String) (nameOf : α → String)
    (hH : ∀ x y, H x = H y → x = y) {x y : α} {a a' : Addr}
    (hx : determine isCid (H x) (nameOf x) = some a)
    (hy : determine isCid (H y) (nameOf y) = some a') (he : a = a') : x = y :=
  determine_inj H nameOf hH hx hy he

/-- **the printed address parses back to the same root and path** -/
theorem printed_address_parses_back {isCid : String → Bool} {h name : String} {a : Addr}
    (hc : isCid h = true) (hh : Seg h) (hd : determine isCid h name = some a) :
    parse isCid (print a) = some a := determine_parse_print hc hh hd

/-- exactly which names are accepted, and with what address -/
theorem accepted_names {isCid : String → Bool} {h : String} (hc : isCid h = true) (hh : Seg h)
    (name : String) (a : Addr) :
    determine isCid h name = some a ↔ isAddress isCid name = false ∧
      ∃ rest, cleanAbs (["orbitdb", h] ++ segments name) = "orbitdb" :: h :: rest ∧
        a = ⟨h, "/".intercalate rest⟩ := determine_some_iff hc hh name a

/-- Refutation witness for the pinned tree (finding F10, repaired): a name that climbs above its
root got the address of *another* database; the repaired code refuses it. (corpus/C14) -/
theorem pinned_tree_answered_a_foreign_address :
    determinePinned atCid "@H" "../@V/victim" = some ⟨"@V", "victim"⟩ ∧
    determinePinned atCid "@V" "victim" = some ⟨"@V", "victim"⟩ ∧
    determine atCid "@H" "../@V/victim" = none ∧
    determine atCid "@V" "victim" = some ⟨"@V", "victim"⟩ := pinned_not_injective

end Orbit.C14
