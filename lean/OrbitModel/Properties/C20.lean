import OrbitModel.Proofs.PeersDiff
import OrbitModel.Proofs.Uvarint
import OrbitModel.Proofs.GenEqFrame
import OrbitModel.Proofs.Connect
import OrbitModel.Proofs.GenEqConnect
import OrbitModel.Proofs.GenEqWatch
import OrbitModel.Proofs.GenEqMonitor
/-!
# C20 — transport adapters deliver each payload once, intact, attributed to its sender
-/
namespace Orbit.C20
open Orbit.Codec

/-- one poll of `peersDiff`: joining = new ∖ old, leaving = old ∖ new, members := new -/
theorem poll_reports_exact_difference (old all : List Nat) :
    (∀ x, x ∈ (peersDiff old all).1 ↔ x ∈ all ∧ x ∉ old) ∧
    (∀ x, x ∈ (peersDiff old all).2.1 ↔ x ∈ old ∧ x ∉ all) ∧
    (peersDiff old all).2.2 = all ∧ (peersDiff old all).2.1.Nodup ∧
    (all.Nodup → (peersDiff old all).1.Nodup) := peersDiff_spec old all

/-- for every sequence of membership snapshots, folding the reported joins and leaves over the empty
set gives the last snapshot -/
theorem reported_changes_replay_to_last_snapshot (snaps : List (List Nat)) :
    ∀ x, x ∈ (watchPeers [] snaps).foldl applyEv [] ↔ x ∈ snaps.getLastD [] := membership_replay snaps

/-- the same holds for EVERY watcher of a topic, whatever earlier watchers of the same adapter saw (a
store closed and opened again on one instance watches the same cached topic object): it is told about
the peers that are there when it starts (`WatchPeers` after the `fix:` commit, finding F24) -/
theorem every_watcher_is_told_about_present_peers («shared» : List Nat) (snaps : List (List Nat)) :
    ∀ x, x ∈ (laterWatcher false «shared» snaps).foldl applyEv [] ↔ x ∈ snaps.getLastD [] :=
  membership_replay snaps

/-- Refutation witness for the tree before that repair: the membership list lived in the topic object
shared by all watchers; a second watcher started while peers 1 and 2 were present reported nothing, so
a reopened store never exchanged heads with them (replayed on the real adapter: corpus/C20/f24). -/
theorem shared_membership_hid_present_peers_from_a_later_watcher :
    laterWatcher true [1, 2] [[1, 2]] = [] ∧
    (laterWatcher false [1, 2] [[1, 2]]).foldl applyEv [] = [1, 2] := by decide

/-- each change is reported exactly once (duplicate-free snapshots) -/
theorem each_change_reported_once (a b : List Nat) (ha : a.Nodup) (hb : b.Nodup) (x : Nat) :
    (x ∈ b → x ∉ a → (watchPeers a [b]).count (.join x) = 1 ∧ (watchPeers a [b]).count (.leave x) = 0) ∧
    (x ∈ a → x ∉ b → (watchPeers a [b]).count (.leave x) = 1 ∧ (watchPeers a [b]).count (.join x) = 0) ∧
    ((x ∈ a ↔ x ∈ b) → (watchPeers a [b]).count (.join x) = 0 ∧ (watchPeers a [b]).count (.leave x) = 0) :=
  each_change_once a b ha hb x

/-- a peer never receives its own messages; every remote payload is delivered exactly once, in order -/
theorem own_messages_filtered (self : Nat) (msgs : List (Nat × List Nat)) :
    filterSelf self msgs = msgs.filterMap (fun m => if m.1 ≠ self then some m.2 else none) :=
  filterSelf_spec self msgs

/-- both ends of a pairwise channel derive the same channel name, and it identifies the pair -/
theorem channel_name_symmetric (a b : Nat) : channelId a b = channelId b a := channelId_symm a b
theorem channel_name_identifies_pair (a b c d : Nat) (h : channelId a b = channelId c d) :
    (a = c ∧ b = d) ∨ (a = d ∧ b = c) := channelId_inj a b c d h

/-- a frame written by `Send` is read back byte for byte, whatever follows it on the stream -/
theorem frame_roundtrip (payload rest : List Nat) (h : payload.length ≤ 4 * 1024 * 1024) :
    readFrame (writeFrame payload ++ rest) = some payload := Codec.frame_roundtrip payload rest h

theorem length_prefix_roundtrip (n : Nat) (hn : n < 2 ^ 64) (rest : List Nat) :
    decodeUvarint (encodeUvarint n ++ rest) = some (n, rest) := uvarint_roundtrip n hn rest

/-- oversized frames are refused (and each stream carries one frame, so later traffic is unaffected) -/
theorem oversize_refused (n : Nat) (hbig : n > 4 * 1024 * 1024) (hn : n < 2 ^ 64) (rest : List Nat) :
    readFrame (encodeUvarint n ++ rest) = none := Codec.oversize_refused n hbig hn rest

theorem accepted_length_within_limit (len64 : BitVec 64) (n : Nat) (h : frameGuard len64 = .accept n) :
    (n : Int) ≤ maxFrame ∧ n = len64.toNat := frame_accept len64 n h

/-- the limit and the guard are the ones in the Go text of this run -/
theorem tied_to_go_text (len64 : BitVec 64) :
    Gen.delimitedReadMaxSize = 4 * 1024 * 1024 ∧ Gen.genFrameRefused len64 = (frameGuard len64 == .refused) :=
  ⟨gen_maxFrame, gen_frameRefused len64⟩

/-- however many stores of one instance connect to one peer, and in whatever order the mutex of the
pairwise channel serialises them, there is exactly one subscription to the pairwise topic — one
monitor, so every payload of that peer is delivered once -/
theorem each_peer_is_subscribed_once (n : Nat) (hn : 0 < n) :
    (Connect.runLocked n {}).subscriptions = 1 := Connect.runLocked_subscribed n hn

/-- `Connect` in the Go text of this run holds the mutex from before the `Subscribe` to after it -/
theorem connect_order_tied_to_go_text : Gen.connectOrder = Order.connect := gen_connect_order

/-- were the lock released around `Subscribe`, two overlapping calls would both subscribe -/
theorem a_lock_released_around_subscribe_would_deliver_twice :
    (Connect.runNarrow { callers := [(.check, false), (.check, false)] } [0, 1, 0, 1, 0, 1]).st.subscriptions = 2 :=
  Connect.narrowed_lock_subscribes_twice

/-- a node that closes its store leaves the topic: the adapter closes its subscription of the
underlying pubsub (Go text of this run; finding F39) — without it no membership change ever reaches
the other watchers, whatever `peersDiff` does with the snapshots -/
theorem watcher_closes_its_subscription_tied_to_go_text : Gen.watchMessagesOrder = Order.watchMessages :=
  gen_watchMessages_order

/-- **the pairwise channel hands on exactly what its target sent, attributed to it** — for every
sequence of messages on the pairwise topic, by the two ends and by anybody else (the topic name is
derived from two public peer ids): every event names `p` and carries a payload `p` published, each as
often as `p` published it, in order (after the `fix:` commit, finding F40) -/
theorem pairwise_channel_hands_on_only_what_its_target_sent (p : Nat) (msgs : List (Nat × List Nat)) :
    Connect.monitor p msgs = msgs.filter (fun m => m.1 == p) ∧
    (∀ e ∈ Connect.monitor p msgs, e.1 = p ∧ e ∈ msgs) ∧
    (∀ d, (Connect.monitor p msgs).count (p, d) = msgs.count (p, d)) :=
  ⟨Connect.monitor_eq p msgs, Connect.monitor_sound p msgs, Connect.monitor_complete p msgs⟩

/-- Refutation witness for the tree before that repair: only the end's own messages were dropped, and
a third peer's payload was handed on as coming from the target (replayed on the real adapter:
`tone … third=`, corpus/C20/f40) -/
theorem third_party_payload_was_attributed_to_the_target_before_the_fix :
    Connect.monitor0 1 2 [(2, [7]), (9, [6, 6, 6]), (1, [5])] = [(2, [7]), (2, [6, 6, 6])] ∧
    Connect.monitor 2 [(2, [7]), (9, [6, 6, 6]), (1, [5])] = [(2, [7])] :=
  Connect.third_party_payload_was_attributed_to_the_target

/-- the sender test stands in the Go text of this run, between the read and the emit -/
theorem sender_test_tied_to_go_text : Gen.monitorTopicOrder = Order.monitorTopic := gen_monitorTopic_order

/-- the pairwise channel to a peer belongs to the instance: in the Go text of this run its context
derives from the channels' own, not from the caller's, and its subscription is closed when its monitor
ends (after the `fix:` commit, finding F50: the channel died with the context of the FIRST store that
connected to the peer — closing that store made the instance deaf to the peer's head exchanges for
its other stores, `Send` on the other side still reporting success; and the node never left the
pairwise topic. Replayed on the real adapter: `tone … twoctx`) -/
theorem pairwise_channel_outlives_its_first_caller_tied_to_go_text :
    Gen.connectCtxOrder = Order.connectCtx := gen_connectCtx_order

end Orbit.C20
