import OrbitModel.Proofs.SnapshotCodec
import OrbitModel.Proofs.SnapshotRT
import OrbitModel.Proofs.GenEqSnap
import OrbitModel.Proofs.SnapshotRace
import OrbitModel.Proofs.SnapshotRaceEx
import OrbitModel.Proofs.SnapshotFetch
import OrbitModel.Model.Store
/-!
# C13 — a snapshot either is refused with an error or loads back to the same log, heads and state

`Model/Snapshot.lean`: the byte framing of `SaveSnapshot` / `LoadFromSnapshot` (16-bit big-endian
record lengths), the rebuilt log and its join into a fresh store. The JSON of one entry is a
parameter `ser` with left inverse `de` (trusted: `encoding/json` round-trips an entry; sampled by the
snapshot family of the harness). What the harness adds: the unixfs file really is those bytes and the
real store's listing after `LoadFromSnapshot` is the model's (fields `snapsave`, `snapload`).
-/
namespace Orbit.C13
open Orbit.Snap

/-- the record framing round-trips for every list of records that `save` does not refuse -/
theorem framing_round_trips (rs : List (List Nat)) (bs tl : List Nat) (h : encodeRecs rs = some bs) :
    decodeRecs rs.length (bs ++ tl) = some (rs, tl) := records_roundtrip rs bs tl h

/-- saving is refused exactly when the header or an entry does not fit a 16-bit length -/
theorem save_errors_exactly_when_a_record_is_too_long (ser : Entry → List Nat) (serHeader : Image → List Nat) (L : Log) :
    save ser serHeader L = none ↔
      65535 < (serHeader (imageOf L)).length ∨ ∃ e ∈ L.entries, 65535 < (ser e).length :=
  save_none_iff ser serHeader L

/-- the two size guards of `SaveSnapshot` in the Go text of this run refuse exactly what `encodeRec` refuses -/
theorem size_guards_tied_to_go_text (r : List Nat) :
    Gen.genSnapEntryRefused r.length = (encodeRec r).isNone ∧
    Gen.genSnapHeaderRefused r.length = (encodeRec r).isNone := gen_snapRefused r

/-- **C13**: for every reachable (good) log whose entries the access controller accepts, saving
either reports an error, or writes a snapshot from which a fresh store rebuilds a log with exactly
the same entries, the same `Values()` (hence the same index: the index is a function of `Values()`,
C06/C07) and the same heads. -/
theorem save_errors_or_loads_back {U : List Entry} {acl : Acl} {ser : Entry → List Nat} {serHeader : Image → List Nat}
    {de : List Nat → Option Entry} {deHeader : List Nat → Option (Nat × List Entry × Nat)} {L : Log}
    (hde : ∀ e, de (ser e) = some e)
    (hdh : ∀ img, deHeader (serHeader img) = some (img.id, img.heads, img.entries.length))
    (hU : HashDet U) (hT : TieFree U) (hM : ClockMono U) (hG : Good U L)
    (hacc : ∀ e ∈ L.entries, acl.canAppend e = true ∧ e.sigOk = true)
    (hid : ∀ e ∈ L.entries, e.logId = L.id) :
    save ser serHeader L = none ∨
    ∃ bs L', save ser serHeader L = some bs ∧ load acl de deHeader bs = some L' ∧
      (∀ e, e ∈ L'.entries ↔ e ∈ L.entries) ∧ values L' = values L ∧ sortedHeads L' = sortedHeads L := by
  cases hs : save ser serHeader L with
  | none => exact Or.inl rfl
  | some bs =>
    obtain ⟨L', h1, h2, h3, h4⟩ := save_load hde hdh hU hT hM hG hacc hid hs
    exact Or.inr ⟨bs, L', rfl, h1, h2, h3, h4⟩

/-- **"for every database state" includes a store that is being written to**: `SaveSnapshot` takes no
lock and reads the heads (state `L1`), then the length (`L2`), then the entries (`L3`) of a log that
may grow at its end in between. Whatever arrives meanwhile, a snapshot that is written loads back as
exactly the state at the first read — same entries, `Values()` and heads as `L1` — provided nothing
that arrived before the length was read fills a hole of `L1` (`hclosed`; automatic for a log
without holes, `saveRacing_load_closed`; with a hole filled the snapshot loads as a consistent
larger log, `Snap.Example.hole_filled_is_loaded`). -/
theorem snapshot_written_while_the_log_grows_loads_back {U : List Entry} {acl : Acl} {ser : Entry → List Nat}
    {serHeader : Image → List Nat} {de : List Nat → Option Entry}
    {deHeader : List Nat → Option (Nat × List Entry × Nat)} {L1 L2 L3 : Log} {x y : List Entry}
    {bs : List Nat}
    (hde : ∀ e, de (ser e) = some e)
    (hdh : ∀ img, deHeader (serHeader img) = some (img.id, img.heads, img.entries.length))
    (hU : HashDet U) (hT : TieFree U) (hM : ClockMono U) (hG : Good U L1)
    (hacc : ∀ e ∈ L1.entries, acl.canAppend e = true ∧ e.sigOk = true)
    (h2 : L2.entries = L1.entries ++ x) (h3 : L3.entries = L2.entries ++ y)
    (hxU : ∀ e ∈ x, e ∈ U) (hid : ∀ e ∈ L2.entries, e.logId = L1.id)
    (hclosed : ∀ p ∈ L1.entries, ∀ c ∈ x, c.hash ∈ p.next → c ∈ L1.entries)
    (hs : saveRacing ser serHeader L1 L2 L3 = some bs) :
    ∃ L', load acl de deHeader bs = some L' ∧ (∀ e, e ∈ L'.entries ↔ e ∈ L1.entries) ∧
      values L' = values L1 ∧ sortedHeads L' = sortedHeads L1 :=
  saveRacing_load hde hdh hU hT hM hG hacc h2 h3 hxU hid hclosed hs

/-- **the same, for the loader as the Go port performs it** (`loadFetching`): `ipfslog.NewFromJSON`
does not use the records, it fetches the ancestry of the recorded heads out of IPFS. On a node that
holds the blocks of the saved log — the fetch returns the log's entries, `hf` — saving reports an
error or the fresh store rebuilds the same entries, `Values()` and heads. (The records are still
decoded: a record that cannot be read back fails the load, which is why the size guards matter.) -/
theorem save_errors_or_loads_back_through_the_fetcher {U : List Entry} {acl : Acl} {ser : Entry → List Nat}
    {serHeader : Image → List Nat} {de : List Nat → Option Entry}
    {deHeader : List Nat → Option (Nat × List Entry × Nat)} {L : Log} (fetchAll : List Entry → List Entry)
    (hf : fetchAll (sortedHeads L) = L.entries)
    (hde : ∀ e, de (ser e) = some e)
    (hdh : ∀ img, deHeader (serHeader img) = some (img.id, img.heads, img.entries.length))
    (hU : HashDet U) (hT : TieFree U) (hM : ClockMono U) (hG : Good U L)
    (hacc : ∀ e ∈ L.entries, acl.canAppend e = true ∧ e.sigOk = true)
    (hid : ∀ e ∈ L.entries, e.logId = L.id) :
    save ser serHeader L = none ∨
    ∃ bs L', save ser serHeader L = some bs ∧ loadFetching acl de deHeader fetchAll bs = some L' ∧
      (∀ e, e ∈ L'.entries ↔ e ∈ L.entries) ∧ values L' = values L ∧ sortedHeads L' = sortedHeads L := by
  cases hs : save ser serHeader L with
  | none => exact Or.inl rfl
  | some bs =>
    obtain ⟨L', h1, h2, h3, h4⟩ := save_load hde hdh hU hT hM hG hacc hid hs
    refine Or.inr ⟨bs, L', rfl, ?_, h2, h3, h4⟩
    rw [loadFetching_save fetchAll hf (fun e _ => hde e) (hdh (imageOf L)) hs]
    exact h1

/-- … and a snapshot written while the log grew: the fetcher follows the heads of the FIRST read, so
the fresh store rebuilds exactly that state, whatever was appended during the save — here without
the "no hole is filled" proviso of the record-based reading, because what arrived later is never
looked at -/
theorem snapshot_written_while_the_log_grows_loads_back_through_the_fetcher {U : List Entry} {acl : Acl}
    {ser : Entry → List Nat} {serHeader : Image → List Nat} {de : List Nat → Option Entry}
    {deHeader : List Nat → Option (Nat × List Entry × Nat)} {L1 L2 L3 : Log} {y : List Entry}
    {bs : List Nat} (fetchAll : List Entry → List Entry)
    (hf : fetchAll (sortedHeads L1) = L1.entries)
    (hde : ∀ e, de (ser e) = some e)
    (hdh : ∀ img, deHeader (serHeader img) = some (img.id, img.heads, img.entries.length))
    (hU : HashDet U) (hT : TieFree U) (hM : ClockMono U) (hG : Good U L1)
    (hacc : ∀ e ∈ L1.entries, acl.canAppend e = true ∧ e.sigOk = true)
    (hid : ∀ e ∈ L1.entries, e.logId = L1.id)
    (h3 : L3.entries = L2.entries ++ y)
    (hs : saveRacing ser serHeader L1 L2 L3 = some bs) :
    ∃ L', loadFetching acl de deHeader fetchAll bs = some L' ∧ (∀ e, e ∈ L'.entries ↔ e ∈ L1.entries) ∧
      values L' = values L1 ∧ sortedHeads L' = sortedHeads L1 := by
  obtain ⟨L', hj, hent, hI', hnd'⟩ := rejoin hU hM (canAppend := acl.canAppend) hG hacc hid
  refine ⟨L', ?_, hent, values_unique hU hT hM L' L1 hI' hnd' hG.inv hG.nodup hent,
    sortedHeads_unique hT L' L1 hI' hG.inv hent⟩
  rw [loadFetching_saveRacing fetchAll hf h3 (fun e _ => hde e) (hdh (racingImage L1 L2)) hs, hj]

/-- the save of a store at rest is the special case `L1 = L2 = L3` -/
theorem save_is_racing_save_at_rest (ser : Entry → List Nat) (serHeader : Image → List Nat) (L : Log) :
    save ser serHeader L = saveRacing ser serHeader L L L := save_eq_saveRacing ser serHeader L

/-- Why the ORDER of the three reads matters: were the entries read first and the length last (a
plausible tidy-up of the Go code), every snapshot saved while the log grew would be written without
an error and refused by the loader. -/
theorem reordered_reads_would_write_unloadable_snapshots {acl : Acl} {ser : Entry → List Nat}
    {serHeader : Image → List Nat} {de : List Nat → Option Entry}
    {deHeader : List Nat → Option (Nat × List Entry × Nat)} {L1 L2 L3 : Log} {bs : List Nat}
    (hdh : deHeader (serHeader (racingImage L2 L3)) = some (L2.id, sortedHeads L2, L3.entries.length))
    (hgrow : L1.entries.length < L3.entries.length)
    (hs : saveRacingReordered ser serHeader L1 L2 L3 = some bs) :
    load acl de deHeader bs = none := saveRacingReordered_load_none hdh hgrow hs

/-- Refutation witness for the pinned tree (finding F9a, repaired): a record of 65536 bytes was
written with length 0, so the saved snapshot does not load back; the repaired encoder refuses it.
Replayed on the real store (corpus/C13). -/
theorem pinned_tree_wrote_unloadable_snapshot (r tl : List Nat) (hr : r.length = 65536) :
    encodeRecPinned r = [0, 0] ++ r ∧
    decodeRecs 1 (encodeRecsPinned [r] ++ tl) = some ([[]], r ++ tl) ∧
    encodeRec r = none ∧ encodeRecs [r] = none := pinned_frame_wraps r tl hr

/-- `SaveSnapshot` in the Go text of this run reads heads, then length, then entries -/
theorem read_order_tied_to_go_text : Gen.saveSnapshotOrder = Order.saveSnapshot := gen_saveSnapshot_order

/-- **the snapshot route hands `Join` only entries of this log that `Join` accepts** (after the `fix:`
commit, finding F47): the loader fetches the log again from the recorded heads — through every `next`
and `refs` link, so it reaches what the replicator had left out when it arrived — and keeps, like `Load`,
what `goodFetch` keeps. Before the repair the whole fetched log went to `Join`: an entry of another log
became a head (unverified), and one refused entry made `Join` refuse the snapshot as a whole — a
snapshot saved without error that could never be loaded. -/
theorem snapshot_route_joins_only_entries_join_accepts (acl : Acl) (id : Nat) (fetch : Nat → OMap) (h : Nat) :
    ∀ e ∈ goodFetch acl id fetch h, acceptable acl.canAppend e = true ∧ e.logId = id := by
  intro e he
  unfold goodFetch goodFetch1 at he
  obtain ⟨h1, h2⟩ := List.mem_filter.mp (List.mem_filter.mp he).1
  unfold ownFetch at h1
  exact ⟨h2, by simpa using (List.mem_filter.mp h1).2⟩

/-- Refutation witness for the loader as it was: writer 1's valid entry 3 names entry 2 — written for
ANOTHER log — in its `refs`; the replicator had dropped 2; loaded from the recorded head 3 without the
filter, 2 is a head of the store's log (replayed on the real store: the forge family saves and loads
snapshots, corpus/C13/f47); with it, 2 stays out -/
theorem foreign_entry_came_back_through_the_snapshot_before_the_fix :
    let w : Entry := { hash := 3, logId := 1, time := 3, cid := 1, next := [], refs := [2] }
    let f : Entry := { hash := 2, logId := 7, time := 2, cid := 9, next := [], ident := 9, key := 9 }
    let fetch : Nat → OMap := fun _ => [w, f]
    (∃ L, loadHead { wildcard := true } fetch (-1) (Log.empty 1) 3 = .ok L ∧ f ∈ L.heads) ∧
    (∃ L, loadHead { wildcard := true } (goodFetch { wildcard := true } 1 fetch) (-1) (Log.empty 1) 3 = .ok L ∧
      f ∉ L.heads ∧ f ∉ L.entries) := by
  refine ⟨⟨_, rfl, ?_⟩, ⟨_, rfl, ?_, ?_⟩⟩ <;> decide

/-- the loader of the Go text of this run applies the three tests (own log, access, signature) between
rebuilding the log and joining it -/
theorem snapshot_loader_filters_tied_to_go_text : Gen.loadSnapshotOrder = Order.loadSnapshot :=
  gen_loadSnapshot_order

end Orbit.C13
