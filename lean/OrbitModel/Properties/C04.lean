import OrbitModel.Proofs.Auth
import OrbitModel.Proofs.AuthBatch
import OrbitModel.Proofs.AuthExamples
/-!
# C04 — tampered, mis-addressed or foreign-database entries are never merged
-/
namespace Orbit.C04

/-- Whatever log is handed to `Join` — honest or not — everything it adds passed the access check,
verifies under its key and carries this database's log id; and nothing already held is lost. -/
theorem only_verified_same_database_entries_merged {ca : Entry → Bool} {L L' : Log} {A headsA : OMap} {Aid : Nat}
    (h : join ca L A headsA Aid = .ok L') :
    (∀ e ∈ L'.entries, e ∉ L.entries → ca e = true ∧ e.sigOk = true ∧ e.logId = L.id) ∧
    (∀ e ∈ L.entries, e ∈ L'.entries) :=
  ⟨C04_never_merged h, join_mono h⟩

/-- a rejected join leaves no new state at all; an accepted one keeps every held entry -/
theorem held_entries_unaffected (ca : Entry → Bool) (L : Log) (A headsA : OMap) (Aid : Nat) :
    (∃ err, join ca L A headsA Aid = .error err) ∨
    (∃ L', join ca L A headsA Aid = .ok L' ∧ ∀ e ∈ L.entries, e ∈ L'.entries) :=
  C04_unaffected ca L A headsA Aid

/-- the same for a whole delivered batch (`replicationLoadComplete`): held entries stay, every new
entry is verified and of this database — whatever else the batch contains -/
theorem batch_merges_only_verified (acl : Acl) (L : Log) (logs : List (OMap × OMap)) :
    (∀ e ∈ L.entries, e ∈ (joinAll acl L logs).entries) ∧
    (∀ e ∈ (joinAll acl L logs).entries, e ∉ L.entries →
      acl.canAppend e = true ∧ e.sigOk = true ∧ e.logId = L.id) :=
  C04_joinAll acl L logs

/-- an announced head whose content does not hash to its claimed address aborts the `Sync`
(ancestors are fetched *by* address, so theirs matches by content addressing — `HashDet`) -/
theorem misaddressed_head_refused (acl : Acl) (id : Nat) (heads : List Entry) (hok : syncPrecheck acl id heads = .ok) :
    ∀ h ∈ heads, h.logId = id → h.sigOk = true → acl.canAppend h = true → h.hashOk = true := by
  intro h hh hid hsig hca
  exact C04_hash acl _ hok h (List.mem_filter.mpr ⟨hh, by simp [hid, hsig]⟩) hca

/-- listing: every listed entry of a reachable replica is a member (so the three clauses above apply
to the visible state) — needs the replicator's log-id filter, which `AReachable.joinOk` records -/
theorem listed_entries_are_members {acl : Acl} {U : List Entry} (hU : HashDet U) {id : Nat} {L : Log}
    (h : AReachable acl.canAppend U id L) : ∀ x ∈ values L, x ∈ L.entries :=
  values_subset_entries L (areachable_inv hU h)

/-- Refutation witness for the pinned tree (finding F4, repaired in the replicator): `Join` merges the
heads of a log whose entry was written for another database without making it a member. -/
theorem pinned_foreign_entry_becomes_head :
    let x : Entry := { hash := 4, logId := 8, time := 1, cid := 0, next := [] }
    (joinCore (Log.empty 9) [x] [x] 9).heads = [x] ∧ (joinCore (Log.empty 9) [x] [x] 9).entries = [] := by
  decide

end Orbit.C04
