import OrbitModel.Proofs.Auth
import OrbitModel.Proofs.AuthBatch
import OrbitModel.Proofs.AuthExamples
import OrbitModel.Model.Store
import OrbitModel.Proofs.GenEqVerify
/-!
# C04 — tampered, mis-addressed or foreign-database entries are never merged
-/
namespace Orbit.C04

/-- Whatever log is handed to `Join` — honest or not — everything it adds passed the access check,
verifies under its key and carries this database's log id; and nothing already held is lost. -/
theorem only_verified_same_database_entries_merged {ca : Entry → Bool} {L L' : Log} {A headsA : OMap} {Aid : Nat}
    (h : join ca L A headsA Aid = .ok L') :
    (∀ e ∈ L'.entries, e ∉ L.entries → ca e = true ∧ e.sigOk = true ∧ e.logId = L.id) ∧
    (∀ e ∈ L.entries, e ∈ L'.entries) :=
  ⟨C04_never_merged h, join_mono h⟩

/-- a rejected join leaves no new state at all; an accepted one keeps every held entry -/
theorem held_entries_unaffected (ca : Entry → Bool) (L : Log) (A headsA : OMap) (Aid : Nat) :
    (∃ err, join ca L A headsA Aid = .error err) ∨
    (∃ L', join ca L A headsA Aid = .ok L' ∧ ∀ e ∈ L.entries, e ∈ L'.entries) :=
  C04_unaffected ca L A headsA Aid

/-- the same for a whole delivered batch (`replicationLoadComplete`): held entries stay, every new
entry is verified and of this database — whatever else the batch contains -/
theorem batch_merges_only_verified (acl : Acl) (L : Log) (logs : List (OMap × OMap)) :
    (∀ e ∈ L.entries, e ∈ (joinAll acl L logs).entries) ∧
    (∀ e ∈ (joinAll acl L logs).entries, e ∉ L.entries →
      acl.canAppend e = true ∧ e.sigOk = true ∧ e.logId = L.id) :=
  C04_joinAll acl L logs

/-- an announced head whose content does not hash to its claimed address aborts the `Sync`
(ancestors are fetched *by* address, so theirs matches by content addressing — `HashDet`) -/
theorem misaddressed_head_refused (acl : Acl) (id : Nat) (heads : List Entry) (hok : syncPrecheck acl id heads = .ok) :
    ∀ h ∈ heads, h.logId = id → h.sigOk = true → acl.canAppend h = true → h.hashOk = true := by
  intro h hh hid hsig hca
  exact C04_hash acl _ hok h (List.mem_filter.mpr ⟨hh, by simp [hid, hsig]⟩) hca

/-- listing: every listed entry of a reachable replica is a member (so the three clauses above apply
to the visible state) — needs the replicator's log-id filter, which `AReachable.joinOk` records -/
theorem listed_entries_are_members {acl : Acl} {U : List Entry} (hU : HashDet U) {id : Nat} {L : Log}
    (h : AReachable acl.canAppend U id L) : ∀ x ∈ values L, x ∈ L.entries :=
  values_subset_entries L (areachable_inv hU h)

/-- Refutation witness for the pinned tree (finding F4, repaired in the replicator): `Join` merges the
heads of a log whose entry was written for another database without making it a member. -/
theorem pinned_foreign_entry_becomes_head :
    let x : Entry := { hash := 4, logId := 8, time := 1, cid := 0, next := [] }
    (joinCore (Log.empty 9) [x] [x] 9).heads = [x] ∧ (joinCore (Log.empty 9) [x] [x] 9).entries = [] := by
  decide

/-- the reload route: what `Load` hands to `Join` was written for this log, entry by entry (after the
`fix:` commit, finding F27), so the hypothesis of `only_verified_same_database_entries_merged` and of
`listed_entries_are_members` — every entry of the incoming log carries our log id — holds on this
route as it does for the replicator's batches -/
theorem load_hands_only_own_entries_to_join (id : Nat) (fetch : Nat → OMap) (h : Nat) :
    ∀ e ∈ ownFetch id fetch h, e.logId = id := by
  intro e he
  unfold ownFetch at he
  simpa using (List.mem_filter.mp he).2

/-- Refutation witness for the tree before that repair: entry 3 of this log (by a writer) names
entry 2 — written for ANOTHER log by anybody — in its `refs`; fetched from the cached head 3 it is a
head of the fetched log, and `Join` made it a head of the store's log after a restart, listed and
indexed (replayed on the real store: corpus/C04/f27). With the filter it stays out. -/
theorem foreign_entry_came_back_through_load_before_the_fix :
    let w : Entry := { hash := 3, logId := 1, time := 3, cid := 1, next := [], refs := [2] }
    let f : Entry := { hash := 2, logId := 7, time := 2, cid := 9, next := [], ident := 9, key := 9 }
    let fetch : Nat → OMap := fun _ => [w, f]
    (∃ L, loadHead { wildcard := true } fetch (-1) (Log.empty 1) 3 = .ok L ∧ f ∈ L.heads) ∧
    (∃ L, loadHead { wildcard := true } (ownFetch 1 fetch) (-1) (Log.empty 1) 3 = .ok L ∧ f ∉ L.heads ∧ f ∉ L.entries) := by
  refine ⟨⟨_, rfl, ?_⟩, ⟨_, rfl, ?_, ?_⟩⟩ <;> decide

/-- **what the reload and snapshot routes hand to `Join` sits at the address of its content** (after
the `fix:` commit, finding F46; the replicator drops such an entry like one of another log, and `Sync`
has always compared the re-encoded hash of an announced head): an entry fetched under an address that
is not the address of its content — the same signed entry written again with other bytes — is never
merged, so one signed entry is one member of the log -/
theorem fetched_entries_sit_at_the_address_of_their_content (acl : Acl) (id : Nat) (fetch : Nat → OMap) (h : Nat) :
    ∀ e ∈ goodFetch acl id fetch h, e.hashOk = true ∧ acceptable acl.canAppend e = true ∧ e.logId = id := by
  intro e he
  unfold goodFetch at he
  obtain ⟨h0, hk⟩ := List.mem_filter.mp he
  unfold goodFetch1 at h0
  obtain ⟨h1, h2⟩ := List.mem_filter.mp h0
  unfold ownFetch at h1
  exact ⟨hk, h2, by simpa using (List.mem_filter.mp h1).2⟩

/-- Refutation witness for the filter as it was: entry 2 is writer 1's genuine entry 1 written again
with other bytes (same content, same valid signature, another address); a colluding writer's entry 3
names it; loaded from the cached head 3 it was merged — the writer's payload listed twice; now it
stays out (replayed on the real store live, after a restart and through a snapshot: corpus/C04/f46) -/
theorem twin_of_a_genuine_entry_was_merged_before_the_fix :
    let g : Entry := { hash := 1, logId := 1, time := 1, cid := 1, next := [] }
    let t : Entry := { hash := 2, logId := 1, time := 1, cid := 1, next := [], hashOk := false }
    let x : Entry := { hash := 3, logId := 1, time := 2, cid := 2, next := [2, 1] }
    let fetch : Nat → OMap := fun _ => [x, t, g]
    (∃ L, loadHead { wildcard := true } (goodFetch1 { wildcard := true } 1 fetch) (-1) (Log.empty 1) 3 = .ok L ∧ t ∈ L.entries) ∧
    (∃ L, loadHead { wildcard := true } (goodFetch { wildcard := true } 1 fetch) (-1) (Log.empty 1) 3 = .ok L ∧
      t ∉ L.entries ∧ g ∈ L.entries ∧ x ∈ L.entries) := by
  refine ⟨⟨_, rfl, ?_⟩, ⟨_, rfl, ?_, ?_, ?_⟩⟩ <;> decide

/-- the steps of `VerifyEntryAuthor` of the Go text of this run, in the order of `Order.verifyAuthor`: the
identity's type is looked at BEFORE the canonical-signature rule, which is a rule about the ECDSA
signatures of "orbitdb" identities (review of the F31 repair, fix: commit - applied before the type test it
refused every entry, the writer's own included, of an identity whose provider signs with another scheme) -/
theorem author_check_steps_tied_to_go_text : Gen.verifyAuthorOrder = Order.verifyAuthor :=
  gen_verifyAuthor_order

end Orbit.C04
