import OrbitModel.Model.Store
import OrbitModel.Proofs.History
import OrbitModel.Proofs.GenEqWrite
import OrbitModel.Proofs.ViewRace
/-!
# C06 — key-value store = last-writer-wins replay of its log in causal order

`kvUpdate` is the loop of `kvIndex.UpdateIndex` (newest → oldest with a handled set, *mutating the
existing map*); `lwwReplay` is the specification (oldest → newest from the empty map).
-/
namespace Orbit.C06

/-- **At every step of every history** of one replica (any interleaving of local appends and
merged batches — `History`), the index obtained by running `UpdateIndex` after each step equals the
last-writer-wins replay of the *current* listing. The only hypotheses are the universe assumptions of
the log (content addressing, the property's tie-freedom, clock monotonicity) and that the log carries
key-value operations. Unbounded in steps, entries, writers. -/
theorem index_tracks_replay {ca : Entry → Bool} {U : List Entry}
    (hU : HashDet U) (hT : TieFree U) (hM : ClockMono U) (id : Nat) (ls : List Log)
    (h : History ca U (Log.empty id) ls) (hops : ∀ L ∈ ls, KvOps (values L)) :
    KV.equiv (ls.foldl (fun idx L => kvUpdate idx (values L)) [])
             (lwwReplay (values ((Log.empty id :: ls).getLast (by simp)))) := by
  have hg := history_grows (ca := ca) hU hT hM (good_empty U id) h
  have hops' : ∀ vs ∈ (Log.empty id :: ls).map values, KvOps vs := by
    intro vs hvs
    rcases List.mem_map.mp hvs with ⟨L, hL, rfl⟩
    rcases List.mem_cons.mp hL with rfl | hL
    · intro e he; simp [values, traverseN, travFuel, Log.empty, Trav.traverse, Trav.run, Trav.sortDesc] at he
    · exact hops L hL
  have := kv_inv_chain _ hg hops'
  have hfold : ((Log.empty id :: ls).map values).foldl kvUpdate [] =
      ls.foldl (fun idx L => kvUpdate idx (values L)) [] := by
    rw [List.foldl_map]
    simp only [List.foldl_cons]
    have : kvUpdate [] (values (Log.empty id)) = [] := by
      simp [values, traverseN, travFuel, Log.empty, Trav.traverse, Trav.run, Trav.sortDesc, kvUpdate]
    rw [this]
  have hlast : ((Log.empty id :: ls).map values).getLastD [] =
      values ((Log.empty id :: ls).getLast (by simp)) := by
    rw [List.getLastD_eq_getLast?, List.getLast?_map, List.getLast?_eq_some_getLast (by simp)]
    rfl
  rw [hfold, hlast] at this
  exact this

/-- One step of the invariant, in the form the store uses it: whenever the listing only grows,
re-running `UpdateIndex` on the old index gives the replay of the new listing. -/
theorem index_step (idx : KV) (vs vs' : List Entry) (hops : KvOps vs')
    (hinv : KV.equiv idx (lwwReplay vs)) (hsub : ∀ e ∈ vs, e ∈ vs') :
    KV.equiv (kvUpdate idx vs') (lwwReplay vs') := kv_inv_step idx vs vs' hops hinv hsub

/-- The precondition is real: an index holding a key the log no longer mentions keeps it. -/
theorem stale_key_survives :
    KV.get (kvUpdate [("stale", "x")] []) "stale" = some "x" ∧ KV.get (lwwReplay []) "stale" = none := by
  decide

/-- Happens-before: an update that was appended after its writer had seen another entry is listed
after that entry on every replica that holds both … -/
theorem seen_is_listed_before {U : List Entry} (hU : HashDet U) (hT : TieFree U) (hM : ClockMono U)
    (L : Log) (hG : Good U L) (u v : Entry) (hu : u ∈ L.entries) (hv : v ∈ L.entries)
    (hseen : v.hash ∈ u.next) : ∃ a b d, values L = a ++ v :: b ++ u :: d :=
  seen_before hU hT hM L hG u v hu hv hseen

/-- … and in the replay the later update to a key wins. -/
theorem later_put_wins (vs₁ vs₂ : List Entry) (u : Entry) (k v : String) (hu : u.op = .put k v)
    (hlater : ∀ e ∈ vs₂, opKey e.op ≠ some k) :
    KV.get (lwwReplay (vs₁ ++ u :: vs₂)) k = some v := lww_last_wins vs₁ vs₂ u k v hu hlater

theorem later_delete_wins (vs₁ vs₂ : List Entry) (u : Entry) (k : String) (hu : u.op = .del k)
    (hlater : ∀ e ∈ vs₂, opKey e.op ≠ some k) :
    KV.get (lwwReplay (vs₁ ++ u :: vs₂)) k = none := lww_last_wins_del vs₁ vs₂ u k hu hlater

/-- A locally appended entry is listed last (after everything the replica held). -/
theorem own_write_listed_last {ca : Entry → Bool} {U : List Entry} (hU : HashDet U) (hT : TieFree U)
    (hM : ClockMono U) {L : Log} (hG : Good U L) (mk : Nat → List Nat → Entry)
    (hmem : mk (appendTime L) (appendNext L) ∈ U)
    (hnext : (mk (appendTime L) (appendNext L)).next = appendNext L)
    (htime : (mk (appendTime L) (appendNext L)).time = appendTime L)
    (hfresh : has L.entries (mk (appendTime L) (appendNext L)).hash = false)
    (hcan : ca (mk (appendTime L) (appendNext L)) = true) :
    values (append ca L mk).1 = values L ++ [mk (appendTime L) (appendNext L)] :=
  append_values hU hT hM hG mk hmem hnext htime hfresh hcan

/-- "At every moment" also under concurrent updates of the view (two writers, or a writer and a
replication batch): with the log copied under the index lock (after the `fix:` commit, finding F19)
the view is never built from less of the log than any update that has returned had seen, and is
built from the whole log once all have returned — for every number of updaters and every schedule.
(`view = k` stands for "the replay of the first k entries", which is what `index_tracks_replay`
says an update writes.) -/
theorem concurrent_updates_never_leave_a_stale_view (n : Nat) (sched : List Nat)
    (hd : View.allDone (View.run true (View.init n) sched) = true) :
    (View.run true (View.init n) sched).view = (View.run true (View.init n) sched).logLen :=
  View.view_complete_when_all_returned n sched hd

/-- the tree before that repair: the older copy written last (decide-checked; replayed on the real
store, corpus/C06) -/
theorem unlocked_copy_left_a_stale_view :
    let s := View.run false (View.init 2) [0, 0, 1, 1, 1, 0]
    View.allDone s = true ∧ s.logLen = 2 ∧ s.view = 1 := View.unlocked_copy_leaves_a_stale_view

/-- both indices of the Go text of this run copy the log under their lock -/
theorem view_update_order_tied_to_go_text : Gen.kvIndexOrder = Order.updateIndex ∧
    Gen.docIndexOrder = Order.updateIndex := gen_updateIndex_order

/-- **the view is the replay of what the log lists — whatever the log listed before, whatever the view
was** (after the `fix:` commit, finding F45: the index is rebuilt into a fresh map). No history
hypothesis is left: `index_tracks_replay` and `index_step` needed "the listing only grows", which a
`Load` with a limit on a live store breaks (it trims the log). -/
theorem view_is_the_replay_of_the_listing (idx : KV) (L : Log) (hops : KvOps (values L)) :
    KV.equiv (updateIndex .kv idx L) (lwwReplay (values L)) :=
  kv_inv_step [] [] (values L) hops (KV.equiv_refl _) (fun _ h => by cases h)

/-- Refutation witness for the index as it was (the map patched, never cleared): a key of an entry the
log no longer lists stayed in the view; now it goes (replayed on the real store by `Load(n)` on a
live store: corpus/C06/f45) -/
theorem stale_key_survived_a_trim_before_the_fix :
    KV.get (updateIndex0 .kv [("stale", "x")] (Log.empty 1)) "stale" = some "x" ∧
    KV.get (updateIndex .kv [("stale", "x")] (Log.empty 1)) "stale" = none := by decide

end Orbit.C06
