import OrbitModel.Proofs.WritersInv
import OrbitModel.Proofs.GenEqWrite
import OrbitModel.Proofs.ViewRace
/-!
# C17 — concurrent writes on one store are each recorded exactly once and recoverable

`Model/Writers.lean`: N goroutines, each appending (atomic under the log's lock) then persisting its
entry as the cached local head; the scheduler's choices are the input. `atomic := true` is the write
path after the `fix:` commit (append and put under one mutex), `false` the pinned tree.
-/
namespace Orbit.C17
open Orbit.Writers

/-- For every number of writers and **every** interleaving, every write that has returned is in the
ancestry of the cached head, i.e. is found again by close, reopen and load. -/
theorem every_acknowledged_write_is_recoverable (n : Nat) (sched : List Nat) :
    ∀ e ∈ acked (run true (init n) sched), e ∈ recovered (run true (init n) sched) :=
  acked_recoverable n sched

/-- the protocol invariant behind it holds in every reachable state -/
theorem protocol_invariant (n : Nat) (sched : List Nat) : Inv (run true (init n) sched) := inv_run n sched

/-- Refutation witness for the pinned tree (finding F13, repaired): appends 1, 2 — puts 2, 1 — the
cache ends on the older entry and the acknowledged write 2 is lost on restart. Replayed on the real
store with the two write-path hooks (corpus/C17). -/
theorem pinned_tree_loses_acknowledged_write :
    let s := run false (init 2) [0, 1, 1, 0]
    acked s = [1, 2] ∧ s.cache = some 1 ∧ recovered s = [1] := pinned_loses_acked_write

/-- "all of them are visible in the store": for every number of writers and EVERY interleaving of
their steps (`Model/ViewRace.lean`: append; then copy the log and rebuild the view, one atomic step
after the `fix:` commit), a writer that has returned finds its entry reflected by the view, and once
all have returned the view reflects the whole log. -/
theorem every_returned_write_is_in_the_view (n : Nat) (sched : List Nat) :
    (∀ pc ∈ (View.run true (View.init n) sched).pcs, ∀ e, pc = .done e →
        e ≤ (View.run true (View.init n) sched).view) ∧
    (View.allDone (View.run true (View.init n) sched) = true →
        (View.run true (View.init n) sched).view = (View.run true (View.init n) sched).logLen) :=
  ⟨View.returned_writes_are_in_the_view n sched, View.view_complete_when_all_returned n sched⟩

/-- Refutation witness for the tree before that repair (finding F19): the log was copied before the
index lock was taken; the writer holding the older copy writes last and both writers have returned
with a view that lacks the newer entry. Replayed on the real store with the hook after the copy
(corpus/C17, corpus/C06). -/
theorem unlocked_copy_left_a_stale_view :
    let s := View.run false (View.init 2) [0, 0, 1, 1, 1, 0]
    View.allDone s = true ∧ s.logLen = 2 ∧ s.view = 1 := View.unlocked_copy_leaves_a_stale_view

/-- the write path and the view update in the Go text of this run follow the order of the two models
(`Model/Writers.lean` with the mutex, `Model/ViewRace.lean` with the copy under the lock) -/
theorem write_path_order_tied_to_go_text : Gen.addOperationOrder = Order.addOperation ∧
    Gen.kvIndexOrder = Order.updateIndex ∧ Gen.docIndexOrder = Order.updateIndex :=
  ⟨gen_addOperation_order, gen_updateIndex_order.1, gen_updateIndex_order.2⟩

end Orbit.C17
