import OrbitModel.Proofs.WritersInv
/-!
# C17 — concurrent writes on one store are each recorded exactly once and recoverable

`Model/Writers.lean`: N goroutines, each appending (atomic under the log's lock) then persisting its
entry as the cached local head; the scheduler's choices are the input. `atomic := true` is the write
path after the `fix:` commit (append and put under one mutex), `false` the pinned tree.
-/
namespace Orbit.C17
open Orbit.Writers

/-- For every number of writers and **every** interleaving, every write that has returned is in the
ancestry of the cached head, i.e. is found again by close, reopen and load. -/
theorem every_acknowledged_write_is_recoverable (n : Nat) (sched : List Nat) :
    ∀ e ∈ acked (run true (init n) sched), e ∈ recovered (run true (init n) sched) :=
  acked_recoverable n sched

/-- the protocol invariant behind it holds in every reachable state -/
theorem protocol_invariant (n : Nat) (sched : List Nat) : Inv (run true (init n) sched) := inv_run n sched

/-- Refutation witness for the pinned tree (finding F13, repaired): appends 1, 2 — puts 2, 1 — the
cache ends on the older entry and the acknowledged write 2 is lost on restart. Replayed on the real
store with the two write-path hooks (corpus/C17). -/
theorem pinned_tree_loses_acknowledged_write :
    let s := run false (init 2) [0, 1, 1, 0]
    acked s = [1, 2] ∧ s.cache = some 1 ∧ recovered s = [1] := pinned_loses_acked_write

end Orbit.C17
