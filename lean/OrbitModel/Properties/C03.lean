import OrbitModel.Proofs.Auth
import OrbitModel.Proofs.AuthExamples
import OrbitModel.Proofs.GenEqResolve
/-!
# C03 — only authorised writers' entries ever enter a database

`Acl.canAppend` models `CanAppend` of the three access controllers after the `fix:` commit that added
`VerifyEntryAuthor` (entry key = identity key, identity block genuine). `AReachable` allows ANY content
in incoming logs (forged clocks, copied ids, foreign keys) — no order hypothesis on the universe.
-/
namespace Orbit.C03

/-- Every entry a replica ever lists — after any sequence of local appends (allowed or denied) and
joins of arbitrary fetched logs — names an identity of the write list (or the list is the wildcard),
is signed with that identity's key (`key = ident`, genuine identity block, valid signature) and
belongs to this database. -/
theorem visible_entries_are_authored_by_writers {acl : Acl} {U : List Entry} (hU : HashDet U)
    {id : Nat} {L : Log} (h : AReachable acl.canAppend U id L) :
    ∀ x ∈ values L, (acl.wildcard = true ∨ x.ident ∈ acl.ids) ∧ x.key = x.ident ∧
      x.identOk = true ∧ x.sigOk = true ∧ x.logId = L.id :=
  C03_visible_authorised hU h

/-- the contrapositive, in the property's words: an entry whose author is not in the write list, or
that names a writer but is signed with another key, or whose identity block is not the writer's, is
in no replica's log and no replica's listing — by whatever route it arrived. -/
theorem forged_or_unauthorised_never_visible {acl : Acl} {U : List Entry} (hU : HashDet U)
    {id : Nat} {L : Log} (h : AReachable acl.canAppend U id L) (x : Entry)
    (hbad : (acl.wildcard = false ∧ x.ident ∉ acl.ids) ∨ x.key ≠ x.ident ∨ x.identOk = false) :
    x ∉ L.entries ∧ x ∉ values L :=
  C03_unauthorised_absent hU h x hbad

/-- a local write by a non-writer fails with an error and changes nothing visible -/
theorem local_write_by_non_writer_fails (ca : Entry → Bool) (L : Log) (mk : Nat → List Nat → Entry)
    (hcan : ca (mk (appendTime L) (appendNext L)) = false) :
    (append ca L mk).2 = .error .denied ∧
    (append ca L mk).1.entries = L.entries ∧ (append ca L mk).1.heads = L.heads ∧
    (append ca L mk).1.nextIdx = L.nextIdx ∧ (append ca L mk).1.id = L.id ∧
    values (append ca L mk).1 = values L :=
  C03_local_denied ca L mk hcan

/-- Refutation witness for the pinned tree (finding F3, repaired): the pinned `CanAppend` accepted an
entry naming writer 1 but signed with key 7; the repaired one rejects it. Replayed on the real code
(corpus/C03) before the fix. -/
theorem pinned_tree_accepts_copied_id :
    let acl : Acl := { ids := [1, 2] }
    let x : Entry := { hash := 5, logId := 9, time := 1, cid := 7, next := [], ident := 1, key := 7, identOk := false }
    acl.canAppendPinned x = true ∧ acl.canAppend x = false := by decide

/-- the reload route (`Load` after a restart): only entries written for this log are handed to
`Join` (after the `fix:` commit, finding F27) — an entry of another log named in a colluding writer's
`refs`, which `Join` would merge as a head without checking its author, does not come back -/
theorem reload_route_joins_only_this_logs_entries (id : Nat) (fetch : Nat → OMap) (h : Nat) :
    ∀ e ∈ ownFetch id fetch h, e.logId = id := by
  intro e he
  unfold ownFetch at he
  simpa using (List.mem_filter.mp he).2

/-- in the Go text of this run an access controller that cannot be resolved ends `createStore` with
an error: no store is ever handed out under a fallback controller (whose write list would be the
opener's own identity) -/
theorem resolve_error_is_checked_tied_to_go_text : Gen.resolveErrChecked = true :=
  gen_resolve_err_checked

end Orbit.C03
