import OrbitModel.Proofs.CrashSummary
import OrbitModel.Proofs.GenEqWrite
import OrbitModel.Proofs.GenEqLoadHeads
import OrbitModel.Proofs.GenEqLoadComplete
import OrbitModel.Proofs.StoreReach
import OrbitModel.Proofs.CrashExample
/-!
# C05 — acknowledged writes and replicated entries survive restart and crashes

`Model/Persist.lean`: an execution emits an ordered trace of persistence effects (block writes, the
two cache writes) and acknowledgement markers; a crash keeps any prefix; recovery (`Load(-1)`) rebuilds
the ancestry of the cached heads among the blocks on disk. Assumption stated by the property: each
effect is durable and atomic once its call returns.
-/
namespace Orbit.C05

/-- For **every** valid history (writes, denied writes, fetches, merged batches — including batches
with rejected logs) and **every** prefix of its effect trace: every acknowledged write and every entry
reported as replicated is recovered; only entries whose block was really written are recovered; the
recovered set is closed under ancestry; and the recovered log lists exactly the pre-crash listing
restricted to the recovered entries. -/
theorem acknowledged_survive_any_crash {acl : Acl} {U : List Entry} {id : Nat} {ops : List SOp} {L : Log}
    (hU : HashDet U) (hT : TieFree U) (hM : ClockMono U)
    (hvalid : ValidHist acl U id ops L) (p : List Eff) (hp : p <+: trace ops) :
    (∀ h, Eff.ack h ∈ p → h ∈ recover U (diskOf p)) ∧
    (∀ hs, Eff.replicated hs ∈ p → ∀ h ∈ hs, h ∈ recover U (diskOf p)) ∧
    (∀ h ∈ recover U (diskOf p), Eff.block h ∈ p) ∧
    (∀ h ∈ recover U (diskOf p), ∀ e ∈ U, e.hash = h → ∀ n ∈ e.next, n ∈ recover U (diskOf p)) ∧
    (∃ D, Good U D ∧ (∀ e ∈ D.entries, e ∈ L.entries) ∧
      (∀ h, h ∈ recover U (diskOf p) ↔ has D.entries h = true) ∧
      values D = (values L).filter (fun e => (recover U (diskOf p)).contains e.hash)) :=
  Orbit.acknowledged_survive_any_crash hU hT hM hvalid p hp

/-- the mechanism: at every reachable store state the cached heads (`_localHeads ++ _remoteHeads`)
cover the whole log, whatever logs of a batch were rejected (after the `fix:` commit for F6) -/
theorem cached_heads_cover_the_log {acl : Acl} {U : List Entry} {s : Store} (hU : HashDet U) (hM : ClockMono U)
    (h : StoreReachable acl U s) : Good U s.log ∧ StoreCovers s :=
  storeReachable_covers hU hM h

/-- the order of the persistence effects in the Go text of this run is the one of the effect
traces the theorems quantify over: a local write persists its head right after the append, a merged
batch persists the heads of the MERGED log after the joins and before it is reported -/
theorem persistence_order_tied_to_go_text : Gen.addOperationOrder = Order.addOperation ∧
    Gen.loadCompleteOrder = Order.loadComplete := ⟨gen_addOperation_order, gen_loadComplete_order⟩

/-- `Load` in the Go text of this run decodes the two cached keys into the two head lists the model
reloads from, and loads local heads followed by remote heads -/
theorem reload_sources_tied_to_go_text : Gen.loadDecodes = Order.loadDecodes ∧ Gen.loadDecodesHeads = Order.loadHeads :=
  gen_loadDecodes

end Orbit.C05
