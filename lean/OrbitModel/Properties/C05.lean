import OrbitModel.Proofs.CrashSummary
import OrbitModel.Proofs.GenEqWrite
import OrbitModel.Proofs.GenEqLoadHeads
import OrbitModel.Proofs.GenEqLoadComplete
import OrbitModel.Proofs.StoreReach
import OrbitModel.Proofs.CrashExample
import OrbitModel.Proofs.CacheReach
import OrbitModel.Proofs.LoadChecked
import OrbitModel.Proofs.WriteKeeps
import OrbitModel.Proofs.GenEqLoadJoin
/-!
# C05 — acknowledged writes and replicated entries survive restart and crashes

`Model/Persist.lean`: an execution emits an ordered trace of persistence effects (block writes, the
two cache writes) and acknowledgement markers; a crash keeps any prefix; recovery (`Load(-1)`) rebuilds
the ancestry of the cached heads among the blocks on disk. Assumption stated by the property: each
effect is durable and atomic once its call returns.
-/
namespace Orbit.C05

/-- For **every** valid history (writes, denied writes, fetches, merged batches — including batches
with rejected logs) and **every** prefix of its effect trace: every acknowledged write and every entry
reported as replicated is recovered; only entries whose block was really written are recovered; the
recovered set is closed under ancestry; and the recovered log lists exactly the pre-crash listing
restricted to the recovered entries. -/
theorem acknowledged_survive_any_crash {acl : Acl} {U : List Entry} {id : Nat} {ops : List SOp} {L : Log}
    (hU : HashDet U) (hT : TieFree U) (hM : ClockMono U)
    (hvalid : ValidHist acl U id ops L) (p : List Eff) (hp : p <+: trace ops) :
    (∀ h, Eff.ack h ∈ p → h ∈ recover U (diskOf p)) ∧
    (∀ hs, Eff.replicated hs ∈ p → ∀ h ∈ hs, h ∈ recover U (diskOf p)) ∧
    (∀ h ∈ recover U (diskOf p), Eff.block h ∈ p) ∧
    (∀ h ∈ recover U (diskOf p), ∀ e ∈ U, e.hash = h → ∀ n ∈ e.next, n ∈ recover U (diskOf p)) ∧
    (∃ D, Good U D ∧ (∀ e ∈ D.entries, e ∈ L.entries) ∧
      (∀ h, h ∈ recover U (diskOf p) ↔ has D.entries h = true) ∧
      values D = (values L).filter (fun e => (recover U (diskOf p)).contains e.hash)) :=
  Orbit.acknowledged_survive_any_crash hU hT hM hvalid p hp

/-- the mechanism: at every reachable store state the cached heads (`_localHeads ++ _remoteHeads`)
cover the whole log, whatever logs of a batch were rejected (after the `fix:` commit for F6) -/
theorem cached_heads_cover_the_log {acl : Acl} {U : List Entry} {s : Store} (hU : HashDet U) (hM : ClockMono U)
    (h : StoreReachable acl U s) : Good U s.log ∧ StoreCovers s :=
  storeReachable_covers hU hM h

/-- the order of the persistence effects in the Go text of this run is the one of the effect
traces the theorems quantify over: a local write persists its head right after the append, a merged
batch persists the heads of the MERGED log after the joins and before it is reported -/
theorem persistence_order_tied_to_go_text : Gen.addOperationOrder = Order.addOperation ∧
    Gen.loadCompleteOrder = Order.loadComplete := ⟨gen_addOperation_order, gen_loadComplete_order⟩

/-- `Load` in the Go text of this run decodes the two cached keys into the two head lists the model
reloads from, and loads local heads followed by remote heads -/
theorem reload_sources_tied_to_go_text : Gen.loadDecodes = Order.loadDecodes ∧ Gen.loadDecodesHeads = Order.loadHeads :=
  gen_loadDecodes

/-- **Nothing the cache pointed to is forgotten by a replication round**, whatever the store had
loaded and with whatever limit: every remote head cached before `replicationLoadComplete` is still
cached after it, or the log now holds it — and what the log holds is covered by the new heads
(`cached_heads_cover_the_log`). So a limited `Load`, any number of replication rounds, a restart and a
full `Load` still reach every entry that was ever reported as replicated (finding F26, `fix:` commit). -/
theorem replication_never_forgets_cached_heads (acl : Acl) (s : Store) (logs : List (OMap × OMap)) :
    ∀ h ∈ s.remoteHeads.getD [], h ∈ (s.loadEnd acl logs).remoteHeads.getD [] ∨
      has (s.loadEnd acl logs).log.entries h = true :=
  loadEnd_keeps_cached acl s logs

/-- … and so **everything the cache reached before a replication round it reaches after it**
(`ReachU`: following `next` links among all entries ever written — what an unlimited `Load` rebuilds
when the blocks are retrievable), for every store state: also one opened with a limit, which holds
only part of what its cache points to -/
theorem replication_never_shrinks_what_the_cache_reaches {acl : Acl} {U : List Entry} (hU : HashDet U)
    (hM : ClockMono U) {s : Store} {logs : List (OMap × OMap)} (hG : Good U s.log)
    (hB : BatchHonest U s.log.id logs) :
    ∀ x, ReachU U s.cachedHeads x → ReachU U (s.loadEnd acl logs).cachedHeads x :=
  loadEnd_reach_mono hU hM hG hB

/-- on a store that holds everything its cache points to (every store of the crash theorem above)
that rule writes exactly the heads of the merged log, as before -/
theorem on_fully_loaded_stores_the_cache_is_the_heads_of_the_log (acl : Acl) (s : Store) (logs : List (OMap × OMap))
    (h : ∀ x ∈ s.remoteHeads.getD [], has s.log.entries x = true) :
    (s.loadEnd acl logs).remoteHeads = some ((sortedHeads (s.loadEnd acl logs).log).map (·.hash)) := by
  rw [loadEnd_eq_loadEnd0 acl s logs h]; rfl

namespace LimitedLoadExample
/-- writer 0's chain 1 ← 2 ← 3, writer 1's branch 4 ← 5, then writer 0's 6 on top of 3 -/
def e (h t c : Nat) (next : List Nat) : Entry := { hash := h, logId := 1, time := t, cid := c, next := next }
def e3 : Entry := e 3 3 0 [2]
def e6 : Entry := e 6 4 0 [3]
def acl : Acl := { wildcard := true }
/-- the store after a restart and `Load(1)`: the log holds the newest entry only, the cache still
names both heads of the persisted log -/
def s : Store := { kind := .log, log := { (Log.empty 1) with entries := [e3], heads := [e3] }, remoteHeads := some [3, 5] }
end LimitedLoadExample

/-- Refutation witness for the tree before that repair: after `Load(1)` the log holds entry 3 only;
one replication round (entry 6) rewrote `_remoteHeads` with the heads of that log: head 5 — the
other writer's branch, reported as replicated in an earlier life — was neither cached nor held any
more, and the next restart with `Load(-1)` could not reach it (replayed on the real store:
corpus/C05/f26). The current rule keeps it. -/
theorem limited_load_then_replication_forgot_a_branch_before_the_fix :
    open LimitedLoadExample in
    ((s.loadEnd0 acl [([e6], [e6])]).remoteHeads = some [6] ∧ has (s.loadEnd0 acl [([e6], [e6])]).log.entries 5 = false) ∧
    (s.loadEnd acl [([e6], [e6])]).remoteHeads = some [6, 5] := by
  decide

/-- what `Load` hands to `Join` after a restart: entries of this log that `Join` accepts, nothing
else (after the `fix:` commits, findings F27 and F29) — so `Join` never refuses the fetched log as a
whole, and the valid entries of a cached head come back whatever their ancestry holds -/
theorem reload_joins_only_entries_join_accepts (acl : Acl) (id : Nat) (fetch : Nat → OMap) (h : Nat) :
    ∀ e ∈ goodFetch acl id fetch h, acceptable acl.canAppend e = true ∧ e.logId = id := by
  intro e he
  unfold goodFetch goodFetch1 at he
  obtain ⟨h1, h2⟩ := List.mem_filter.mp (List.mem_filter.mp he).1
  unfold ownFetch at h1
  exact ⟨h2, by simpa using (List.mem_filter.mp h1).2⟩

/-- Refutation witness for the tree before the F29 repair: entry 2 (by writer 3) names the refused
entry 1 as its parent; the replicator had merged 2 on arrival, but `Load` from the cached head 2
handed both to `Join`, which refused the lot: the log stayed empty after the restart (replayed on
the real store with an acknowledged local write on top: corpus/C05/f29). Now 2 comes back. -/
theorem refused_ancestor_lost_the_valid_entries_above_it_before_the_fix :
    let bad  : Entry := { hash := 1, logId := 1, time := 1, cid := 0, next := [], ident := 9, key := 9 }
    let good : Entry := { hash := 2, logId := 1, time := 2, cid := 3, next := [1], ident := 3, key := 3 }
    let acl : Acl := { ids := [3] }
    let fetch : Nat → OMap := fun _ => [good, bad]
    loadHead acl (ownFetch 1 fetch) (-1) (Log.empty 1) 2 = .ok (Log.empty 1) ∧
    (∃ L, loadHead acl (goodFetch acl 1 fetch) (-1) (Log.empty 1) 2 = .ok L ∧ good ∈ L.entries ∧ bad ∉ L.entries) := by
  refine ⟨rfl, ⟨_, rfl, ?_, ?_⟩⟩ <;> decide

/-- **a reload says when it could not read what the cache points to** (after the `fix:` commit,
finding F32): `Load` succeeds only if every cached head came back from the fetcher, and is then the
modelled load; a cached head that did not come back (ended context, unreachable block) is an error,
whatever the other heads and the limit -/
theorem reload_succeeds_only_over_every_cached_head (acl : Acl) (s s' : Store) (fetch : Nat → OMap)
    (amount : Int) (mh : Option Int) :
    (s.loadChecked acl fetch amount mh = .ok s' ↔
      (∀ h ∈ s.cachedHeads, has (fetch h) h = true) ∧ s.load acl fetch amount mh = .ok s') ∧
    (∀ h ∈ s.cachedHeads, has (fetch h) h = false → s.loadChecked acl fetch amount mh = .error .notFound) :=
  ⟨loadChecked_ok_iff acl s s' fetch amount mh,
   fun h hm hf => loadChecked_error_of_missing_head acl s fetch amount mh h hm hf⟩

/-- Refutation witness for the tree before that repair: the 4-entry chain persisted and cached under
its head, loaded while the fetcher brings nothing (its context has ended): success over an empty
listing; now an error, and the same load with a working fetcher lists the four entries (replayed on
the real store: corpus/C05/f32) -/
theorem reload_under_an_ended_context_reported_success_before_the_fix :
    LoadExample.listing (Store.load LoadExample.acl (LoadExample.fresh 4) (fun _ => []) (-1)) = .ok [] ∧
    LoadExample.listing (Store.loadChecked LoadExample.acl (LoadExample.fresh 4) (fun _ => []) (-1)) = .error .notFound ∧
    LoadExample.listing (Store.loadChecked LoadExample.acl (LoadExample.fresh 4)
      (LoadExample.fetchN LoadExample.chain4 (-1)) (-1)) = .ok [1, 2, 3, 4] :=
  load_reported_success_over_nothing_before_the_fix

/-- **a local write never forgets what the cache pointed to** (after the `fix:` commit, finding F33) —
for every store state, in particular a store opened with `Load(n)` or `LoadFromSnapshot` that does
not hold its cached local head: every cached local head is still cached after `AddOperation`, or the
log holds it; and on a store that holds its cached local heads the cache written is `[e]` as before -/
theorem write_never_forgets_cached_heads (acl : Acl) (s : Store) (mk : Nat → List Nat → Entry) :
    (∀ h ∈ s.localHeads.getD [], h ∈ (s.addOp acl mk).1.localHeads.getD [] ∨
      has (s.addOp acl mk).1.log.entries h = true) ∧
    ((∀ x ∈ s.localHeads.getD [], has s.log.entries x = true) → s.addOp acl mk = s.addOp0 acl mk) :=
  ⟨addOp_keeps_cached acl s mk, addOp_eq_addOp0 acl s mk⟩

/-- **a write never shrinks what the cache reaches** (what `Load(-1)` rebuilds after the next restart),
whatever part of the persisted log the store holds -/
theorem write_never_shrinks_what_the_cache_reaches {acl : Acl} {U : List Entry} (hU : HashDet U)
    (hM : ClockMono U) {s : Store} {mk : Nat → List Nat → Entry} (hG : Good U s.log)
    (hw : WriteOk acl U s.log mk) :
    ∀ x, ReachU U s.cachedHeads x → ReachU U (s.addOp acl mk).1.cachedHeads x :=
  addOp_reach_mono hM hG hw hU

/-- Refutation witness for the tree before that repair: a store that loaded a snapshot taken at entry
3 while its cache named the later acknowledged write 5; a write (entry 6, parent 3) replaced
`_localHeads` by `[6]`: nothing led to 5 any more, and 4 and 5 were gone after the next restart
(replayed on the real store: corpus/C05/f33). Now 5 stays cached. -/
theorem write_after_snapshot_load_forgot_later_writes_before_the_fix :
    open LoadExample in
    (afterSnapshot.addOp0 acl w6).1.localHeads = some [6] ∧
    has (afterSnapshot.addOp0 acl w6).1.log.entries 5 = false ∧
    (afterSnapshot.addOp acl w6).1.localHeads = some [6, 5] :=
  LoadExample.write_on_partial_store_witness

/-- the Go text of `Load` in this run performs, for one cached head, the steps the models assume, in
their order: fetch, the two checks that end the load with an error (ended context, head that did not
come back: F32), the filters (own log, not held, accepted, signed), the merge without a trim, the trim
only when the listing is longer than the limit -/
theorem load_steps_tied_to_go_text : Gen.loadJoinOrder = Order.loadJoin := gen_loadJoin_order

/-- **which cached heads a write keeps is decided on the log as it was BEFORE the append** (after the
`fix:` commit, finding F49): a cached head the log did not hold then is kept — whatever a `Load` still
running merges in the meantime — and one it held is named (through the heads) by the new entry.
Deciding it afterwards dropped a head merged between the append and the look: held by then, but not
named by the new entry (witness: cached head 5, log {1,2,3}; the write appends 6 on top of 3 while a
load merges 5: looking afterwards keeps nothing, and nothing leads to 5 any more). -/
theorem kept_heads_are_decided_before_the_append :
    open LoadExample in
    (afterSnapshot.addOp acl w6).1.localHeads = some [6, 5] ∧
    keptHeads afterSnapshot.localHeads afterSnapshot.log = [5] ∧
    keptHeads afterSnapshot.localHeads
      { (afterSnapshot.addOp acl w6).1.log with
          entries := (afterSnapshot.addOp acl w6).1.log.entries ++ [{ hash := 5, logId := 9, time := 5, cid := 0, next := [4] }] } = [] ∧
    (w6 (appendTime afterSnapshot.log) (appendNext afterSnapshot.log)).next = [3] := by
  decide

/-- the order in the Go text of this run: the cached local heads are read (and the log looked at)
before the append -/
theorem kept_heads_before_append_tied_to_go_text : Gen.addOperationOrder = Order.addOperation :=
  gen_addOperation_order

/-- a `Load` that fails because the block of one cached head is gone leaves what the OTHER heads led to
readable: the log of the load over the heads that came back, the view its replay, the cache as it was
(review of the F32 repair, fix: commit - `Load` returned its error before the view was rebuilt: the log
held the entries of the other heads, `Get` answered nil; `unreach=fail` reload scenario in the corpus) -/
theorem failed_load_leaves_what_came_back_readable (acl : Acl) (s t : Store) (fetch : Nat → OMap)
    (amount : Int) (h : (s.headsBack fetch).load acl fetch amount = .ok t) :
    (s.loadReadable acl fetch amount).log = t.log ∧
    (s.loadReadable acl fetch amount).idx = updateIndex s.kind s.idx t.log ∧
    (s.loadReadable acl fetch amount).localHeads = s.localHeads ∧
    (s.loadReadable acl fetch amount).remoteHeads = s.remoteHeads :=
  loadReadable_spec acl s t fetch amount h

/-- non-vacuity: the 4-chain cached under its head plus a second cached head whose block is gone - Load
fails and the four entries are listed -/
theorem failed_load_example :
    let s := LoadExample.fresh 4
    let fetch := LoadExample.fetchN LoadExample.chain4 (-1)
    let s2 : Store := { s with remoteHeads := some [99] }
    LoadExample.listing (s2.loadChecked LoadExample.acl fetch (-1)) = .error .notFound ∧
    LoadExample.listing (.ok (s2.loadReadable LoadExample.acl fetch (-1))) = .ok [1, 2, 3, 4] :=
  failed_load_lists_what_came_back

end Orbit.C05
