import OrbitModel.Proofs.ReplC11
import OrbitModel.Proofs.GenEqWalk
import OrbitModel.Proofs.GenEqSync
import OrbitModel.Proofs.GenEqConsts
import OrbitModel.Proofs.ReplExamples
import OrbitModel.Proofs.AuthBatch
import OrbitModel.Proofs.DecodeSafe
import OrbitModel.Proofs.GenEqFetched
/-!
# C10 — rejected entries never block replication of valid entries
-/
namespace Orbit.C10
open Orbit.Repl

/-- Replicator level: for every history without cancellation — announcements mixing rejected and
foreign heads with valid ones at any position, fetches completing or failing in any order — announcing
heads `hs` (again) and running to quiescence makes every accepted entry reachable from them visible;
rejected and foreign entries never enter the oplog. -/
theorem rejected_never_block {net : Nat → Info} {c : Nat} {U : List Nat} (hc : 0 < c)
    (hU : Closed net U) (acts : List Act) (ha : ActsIn U acts) (hnc : ∀ ctx, Act.cancel ctx ∉ acts)
    (ctx : Nat) (hs : List Nat) (hhs : ∀ h ∈ hs, h ∈ U) (n : Nat) :
    let s := run net { sem := c } acts
    fuelBound U s < n →
    let s' := drain net n (step net s (.load ctx hs))
    quiescent s' = true ∧ (∀ x, ReachV net hs x → x ∈ s'.log) ∧
    (∀ x ∈ s'.log, (net x).valid = true ∧ (net x).foreign = false) :=
  C10_rejected_never_block hc hU acts ha hnc ctx hs hhs n

/-- `Sync` level (after its `fix:` commits, findings F18, F21, F22): only a complete head written for
this log, signed by the identity it names and admitted by the access controller is handed to the
replicator — so no fetch, which might never end because nobody serves the
block, is ever started on behalf of a non-writer. (The theorem above assumes every fetch ends.) -/
theorem refused_heads_are_never_fetched (acl : Acl) (id : Nat) (hs : List RawHead) (es : List Entry)
    (h : syncHeads acl id hs [] = .load es) :
    ∀ e ∈ es, ∃ r ∈ hs, r.complete = true ∧ r.entry.logId = id ∧ r.entry.sigOk = true ∧
      acl.canAppend r.entry = true ∧ r.entry = e :=
  syncHeads_loads_only_own_admitted acl id hs es h

/-- Refutation witness for the tree before the repair of finding F22: a head that names a writer but
is not signed by it was handed to the replicator; on the real store one such head pointing to a block
nobody serves blocked every later replication (corpus/C10/f22) -/
theorem badly_signed_head_was_fetched_before_the_fix (e : Entry) (h : e.logId = 1) (hk : e.key = e.ident)
    (hi : e.identOk = true) (hh : e.hashOk = true) (hs : e.sigOk = false) :
    syncHeads0 { wildcard := true } [{ entry := e }] [] = .load [e] ∧
    syncHeads { wildcard := true } 1 [{ entry := e }] [] = .load [] :=
  badly_signed_head_was_loaded e h hk hi hh hs

/-- Refutation witness for the tree before that repair: the refused head was on the list handed to
the replicator; on the real store one such head whose block nobody serves blocked every later
replication (corpus/C10/f18) -/
theorem refused_head_was_fetched_before_the_fix (e : Entry) :
    syncHeadsLoadsRefused {} [{ entry := e }] [] = .load [e] ∧ syncHeads0 {} [{ entry := e }] [] = .load [] :=
  refused_head_was_loaded e

/-- Store level (`replicationLoadComplete` after its `fix:` commit): a batch of single-entry logs is
merged log by log; every acceptable entry of this database in the batch is merged whatever rejected
logs the batch contains and wherever they are. -/
theorem valid_entries_of_a_mixed_batch_are_merged (acl : Acl) (logs : List (OMap × OMap)) :
    ∀ (L : Log) (e : Entry), ([e], [e]) ∈ logs → e.logId = L.id →
      acceptable acl.canAppend e = true → has (joinAll acl L logs).entries e.hash = true :=
  joinAll_accepts acl logs

/-- Refutation witnesses for the pinned tree (finding F6, repaired): a rejected head first in the
batch aborted the merge; the valid entries stayed `fetched` and were never requested again — an honest
re-announcement brought nothing, a newer head only itself. -/
theorem pinned_tree_blocks_valid :
    let s1 := Ex.finishPinned Ex.s0 [.load 1 [9, 3]]
    let s2 := Ex.finishPinned s1 [.load 2 [3], .load 2 [4]]
    s1.log = [] ∧ quiescent s1 = true ∧ s2.log = [4] ∧ quiescent s2 = true :=
  Ex.pinned_mixed_blocks_valid

/-- `Sync` in the Go text of this run puts a head on the replicator's list only after the access
check, the local write and the hash check -/
theorem sync_order_tied_to_go_text : Gen.syncOrder = Order.sync := gen_sync_order

/-- the replicator of the Go text of this run fetches one entry per request (`batchSize`), which is
why every buffered log of the model holds a single entry -/
theorem batch_size_tied_to_go_text : Gen.batchSize = 1 := gen_batchSize

/-- the replicator of the Go text of this run looks at EVERY hash a fetched entry names (no early exit
from the loop that queues them), as the model's `fetched` does -/
theorem parent_walk_tied_to_go_text : Gen.parentWalkExits = 0 := gen_parentWalk_complete

/-- the steps of the replicator's `processHash` of the Go text of this run, in the order of
`Order.processHash`: a batch is buffered for `Join` only after the requested entry has come back, every
entry is of this log and sits at the address of its content; a check that could not be made ends the
request with an ERROR (it stays to be retried: `later_request_completes`), it is not taken for the verdict
"wrong address" (finding F64, fix: commit - the entry was marked as fetched and never asked for again) -/
theorem fetched_batch_steps_tied_to_go_text : Gen.processHashOrder = Order.processHash :=
  gen_processHash_order

end Orbit.C10
