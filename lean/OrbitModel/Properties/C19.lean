import OrbitModel.Proofs.StatusMono
import OrbitModel.Proofs.GenEqStatus
import OrbitModel.Proofs.GenEqWrite
import OrbitModel.Proofs.DecodeSafe
import OrbitModel.Proofs.SnapshotStatus
import OrbitModel.Proofs.GenEqSnap
/-!
# C19 — replication progress never regresses and equals its maximum at rest

`recalcMax`/`recalcProgress` are proved equal to the Lean text regenerated from the Go functions on
every run (`Proofs/GenEq.lean`), so these theorems are about the arithmetic the code contains now.
-/
namespace Orbit.C19

/-- While a store is open (the status object starts at 0/0 and only the two update functions touch
it) progress and maximum never decrease between any two sampling moments, **whatever** the sequence
of write / load-added / load-progress / load-end events, log lengths and clock-time arguments. -/
theorem never_regresses (before after : List StEv) :
    (({} : Status).run before).progress ≤ (({} : Status).run (before ++ after)).progress ∧
    (({} : Status).run before).max ≤ (({} : Status).run (before ++ after)).max :=
  run_mono_between before after

/-- progress never exceeds the maximum -/
theorem progress_le_max (evs : List StEv) : (({} : Status).run evs).progress ≤ (({} : Status).run evs).max :=
  (run_mono {} zero_ok evs).1

/-- At rest with a complete log of `n` entries (every length and clock time seen is at most `n`, the
last update was a full status update at length `n`): progress = maximum = `n`; in particular for a
single-writer log it is exactly the entry count. -/
theorem at_rest_equals_len (evs : List StEv) (n arg : Int) (hn : 0 ≤ n)
    (hb : ∀ e ∈ evs, e.len ≤ n ∧ e.arg ≤ n) (harg : arg ≤ n) :
    (({} : Status).run (evs ++ [.status n arg])).progress = n ∧
    (({} : Status).run (evs ++ [.status n arg])).max = n :=
  rest_eq_len evs n arg hn hb harg

/-- Refutation witness for the pinned tree (finding F15, repaired): previous maximum 10, log length 5,
argument 3 gave 5. Reached on the real store with three writers and a held fetch (corpus/C19). -/
theorem pinned_tree_max_regresses :
    (recalcMaxPinned 5 { progress := 3, max := 10 } 3).max = 5 ∧
    (recalcMax 5 { progress := 3, max := 10 } 3).max = 10 := pinned_max_regresses

/-- the Go functions, regenerated on this run, are the functions the theorems are about -/
theorem tied_to_go_text (len : Int) (s : Status) (arg : Int) :
    Gen.genRecalcMax len s.max s.progress arg = (recalcMax len s arg).max ∧
    Gen.genRecalcProgress len s.max s.progress = (recalcProgress len s).progress :=
  ⟨gen_recalcMax len s arg, gen_recalcProgress len s⟩

example : (({} : Status).run [.maxOnly 0 4, .status 1 1, .status 4 4]).progress = 4 := by decide

/-- the write path of the Go text of this run raises the status right after the append, before
anything that can still fail (head persistence, view update): a store never holds an entry its status
does not count -/
theorem status_raised_with_the_append_tied_to_go_text : Gen.addOperationOrder = Order.addOperation :=
  gen_addOperation_order

/-- only heads written for THIS log reach the replicator (`Sync` after the `fix:` commit, finding
F21), so nothing that will never be merged is counted in the replication status -/
theorem foreign_heads_are_not_counted (acl : Acl) (id : Nat) (hs : List RawHead) (es : List Entry)
    (h : syncHeads acl id hs [] = .load es) : ∀ e ∈ es, e.logId = id := by
  intro e he
  obtain ⟨r, _, _, hl, _, _, rfl⟩ := syncHeads_loads_only_own_admitted acl id hs es h e he
  exact hl

/-- Refutation witness for the tree before that repair: a head written for another log by a
permitted writer was handed to the replicator; on the real store it raised progress and maximum
above the number of entries (corpus/C19/f21) -/
theorem foreign_head_was_counted_before_the_fix (e : Entry) (h : e.logId = 2) (hk : e.key = e.ident)
    (hi : e.identOk = true) (hh : e.hashOk = true) :
    syncHeadsLoadsForeign { wildcard := true } [{ entry := e }] [] = .load [e] ∧
    syncHeads { wildcard := true } 1 [{ entry := e }] [] = .load [] := foreign_head_was_loaded e h hk hi hh

/-- "that value lies between the largest Lamport time among its entries and the number of entries":
in a complete log (closed under `next`) of honestly clocked entries (each exactly one tick above one
of the entries it names: go-ipfs-log's `max(clock, heads) + 1`) no clock time exceeds the number of
entries, for every log size and shape. -/
theorem clock_times_le_entry_count {U : List Entry} (hU : HashDet U) (hT : ClockTight U) {L : Log}
    (hs : ∀ e ∈ L.entries, e ∈ U) (hc : Closed L) : ∀ e ∈ L.entries, e.time ≤ L.entries.length :=
  time_le_length hU hT hs hc

/-- **At rest with a complete log, in the property's own terms**: the store has seen any sequence of
status events whose log lengths never exceeded the final length and whose clock arguments were
Lamport times of entries that are now IN the log (announced heads that arrived, fetched entries,
own writes) or zero; the log is complete (closed under `next`) and honestly clocked. Then progress =
maximum = number of entries, and no entry's Lamport time exceeds it — the hypothesis "every clock
argument ≤ n" of `at_rest_equals_len` is discharged from the log. -/
theorem at_rest_with_a_complete_log {U : List Entry} (hU : HashDet U) (hT : ClockTight U) {L : Log}
    (hs : ∀ e ∈ L.entries, e ∈ U) (hc : Closed L) (evs : List StEv) (arg : Int)
    (hlen : ∀ e ∈ evs, e.len ≤ (L.entries.length : Int))
    (hargs : ∀ e ∈ evs, e.arg ≤ 0 ∨ ∃ x ∈ L.entries, e.arg = (x.time : Int))
    (harg : arg ≤ 0 ∨ ∃ x ∈ L.entries, arg = (x.time : Int)) :
    let st := ({} : Status).run (evs ++ [.status L.entries.length arg])
    st.progress = L.entries.length ∧ st.max = L.entries.length ∧
      ∀ x ∈ L.entries, (x.time : Int) ≤ st.max := by
  have hbound : ∀ a : Int, (a ≤ 0 ∨ ∃ x ∈ L.entries, a = (x.time : Int)) → a ≤ (L.entries.length : Int) := by
    intro a ha
    rcases ha with h0 | ⟨x, hx, rfl⟩
    · omega
    · have := time_le_length hU hT hs hc x hx; omega
  have h := rest_eq_len evs L.entries.length arg (by omega)
    (fun e he => ⟨hlen e he, hbound _ (hargs e he)⟩) (hbound _ harg)
  refine ⟨h.1, h.2, ?_⟩
  intro x hx
  rw [h.2]
  have := time_le_length hU hT hs hc x hx
  omega

/-- A fresh store that loaded a snapshot (`LoadFromSnapshot` after the `fix:` commit, finding F23)
is at rest with progress = maximum = number of entries, and no entry's Lamport time is above it —
whatever else the snapshot file held (a snapshot written while the log grew holds records its heads
do not cover). -/
theorem at_rest_after_snapshot_load {U : List Entry} (hU : HashDet U) (hT : ClockTight U) {L : Log}
    (hs : ∀ e ∈ L.entries, e ∈ U) (hc : Closed L) :
    Snap.statusAfterLoad L.entries L = { progress := L.entries.length, max := L.entries.length } ∧
    ∀ e ∈ L.entries, (e.time : Int) ≤ (Snap.statusAfterLoad L.entries L).max :=
  ⟨Snap.load_status_at_rest hU hT hs hc, Snap.load_status_ge_clock hU hT hs hc⟩

/-- Refutation witness for the tree before that repair: the loader took the clock over every record
of the file; a snapshot written while the log grew from 3 to 4 entries left the fresh store at 3/4
with a complete log of 3 entries (replayed on the real store: corpus/C19/f23). -/
theorem snapshot_load_counted_unmerged_records_before_the_fix :
    let L : Log := { (Log.empty 1) with entries := [Snap.chainEntry 1, Snap.chainEntry 2, Snap.chainEntry 3] }
    Snap.statusAfterLoad [Snap.chainEntry 1, Snap.chainEntry 2, Snap.chainEntry 3, Snap.chainEntry 4] L = { progress := 3, max := 4 } ∧
    Snap.statusAfterLoad L.entries L = { progress := 3, max := 3 } :=
  Snap.counting_every_record_left_the_store_short

/-- the loader of the Go text of this run takes the clock over the entries of the rebuilt log, raises
the maximum, joins, refreshes the view and only then brings the status up to date -/
theorem snapshot_load_order_tied_to_go_text : Gen.loadSnapshotOrder = Order.loadSnapshot :=
  gen_loadSnapshot_order

/-- premises satisfiable: the chain e1 ← e2 ← e3 is honestly clocked and closed -/
example : ClockTight [Snap.chainEntry 1, Snap.chainEntry 2, Snap.chainEntry 3] ∧
    Closed { (Log.empty 1) with entries := [Snap.chainEntry 1, Snap.chainEntry 2, Snap.chainEntry 3] } := by
  constructor
  · intro e he
    simp only [List.mem_cons, List.mem_nil_iff, or_false] at he
    rcases he with rfl | rfl | rfl
    · left; decide
    · right; exact ⟨Snap.chainEntry 1, by simp, by decide, by decide⟩
    · right; exact ⟨Snap.chainEntry 2, by simp, by decide, by decide⟩
  · intro e he n hn
    simp only [List.mem_cons, List.mem_nil_iff, or_false] at he
    rcases he with rfl | rfl | rfl
    · simp [Snap.chainEntry] at hn
    · simp [Snap.chainEntry] at hn; subst hn; decide
    · simp [Snap.chainEntry] at hn; subst hn; decide

end Orbit.C19
