import OrbitModel.Proofs.StatusMono
import OrbitModel.Proofs.GenEqStatus
import OrbitModel.Proofs.GenEqWrite
import OrbitModel.Proofs.DecodeSafe
/-!
# C19 — replication progress never regresses and equals its maximum at rest

`recalcMax`/`recalcProgress` are proved equal to the Lean text regenerated from the Go functions on
every run (`Proofs/GenEq.lean`), so these theorems are about the arithmetic the code contains now.
-/
namespace Orbit.C19

/-- While a store is open (the status object starts at 0/0 and only the two update functions touch
it) progress and maximum never decrease between any two sampling moments, **whatever** the sequence
of write / load-added / load-progress / load-end events, log lengths and clock-time arguments. -/
theorem never_regresses (before after : List StEv) :
    (({} : Status).run before).progress ≤ (({} : Status).run (before ++ after)).progress ∧
    (({} : Status).run before).max ≤ (({} : Status).run (before ++ after)).max :=
  run_mono_between before after

/-- progress never exceeds the maximum -/
theorem progress_le_max (evs : List StEv) : (({} : Status).run evs).progress ≤ (({} : Status).run evs).max :=
  (run_mono {} zero_ok evs).1

/-- At rest with a complete log of `n` entries (every length and clock time seen is at most `n`, the
last update was a full status update at length `n`): progress = maximum = `n`; in particular for a
single-writer log it is exactly the entry count. -/
theorem at_rest_equals_len (evs : List StEv) (n arg : Int) (hn : 0 ≤ n)
    (hb : ∀ e ∈ evs, e.len ≤ n ∧ e.arg ≤ n) (harg : arg ≤ n) :
    (({} : Status).run (evs ++ [.status n arg])).progress = n ∧
    (({} : Status).run (evs ++ [.status n arg])).max = n :=
  rest_eq_len evs n arg hn hb harg

/-- Refutation witness for the pinned tree (finding F15, repaired): previous maximum 10, log length 5,
argument 3 gave 5. Reached on the real store with three writers and a held fetch (corpus/C19). -/
theorem pinned_tree_max_regresses :
    (recalcMaxPinned 5 { progress := 3, max := 10 } 3).max = 5 ∧
    (recalcMax 5 { progress := 3, max := 10 } 3).max = 10 := pinned_max_regresses

/-- the Go functions, regenerated on this run, are the functions the theorems are about -/
theorem tied_to_go_text (len : Int) (s : Status) (arg : Int) :
    Gen.genRecalcMax len s.max s.progress arg = (recalcMax len s arg).max ∧
    Gen.genRecalcProgress len s.max s.progress = (recalcProgress len s).progress :=
  ⟨gen_recalcMax len s arg, gen_recalcProgress len s⟩

example : (({} : Status).run [.maxOnly 0 4, .status 1 1, .status 4 4]).progress = 4 := by decide

/-- the write path of the Go text of this run raises the status right after the append, before
anything that can still fail (head persistence, view update): a store never holds an entry its status
does not count -/
theorem status_raised_with_the_append_tied_to_go_text : Gen.addOperationOrder = Order.addOperation :=
  gen_addOperation_order

/-- only heads written for THIS log reach the replicator (`Sync` after the `fix:` commit, finding
F21), so nothing that will never be merged is counted in the replication status -/
theorem foreign_heads_are_not_counted (acl : Acl) (id : Nat) (hs : List RawHead) (es : List Entry)
    (h : syncHeads acl id hs [] = .load es) : ∀ e ∈ es, e.logId = id := by
  intro e he
  obtain ⟨r, _, _, hl, _, _, rfl⟩ := syncHeads_loads_only_own_admitted acl id hs es h e he
  exact hl

/-- Refutation witness for the tree before that repair: a head written for another log by a
permitted writer was handed to the replicator; on the real store it raised progress and maximum
above the number of entries (corpus/C19/f21) -/
theorem foreign_head_was_counted_before_the_fix (e : Entry) (h : e.logId = 2) (hk : e.key = e.ident)
    (hi : e.identOk = true) (hh : e.hashOk = true) :
    syncHeadsLoadsForeign { wildcard := true } [{ entry := e }] [] = .load [e] ∧
    syncHeads { wildcard := true } 1 [{ entry := e }] [] = .load [] := foreign_head_was_loaded e h hk hi hh

end Orbit.C19
