import OrbitModel.Proofs.NetConverge
import OrbitModel.Proofs.GenEqWalk
import OrbitModel.Proofs.NetFinal
import OrbitModel.Proofs.NetExample
/-!
# C02 — after writes stop and peers reconnect, every replica receives every write

Set-level model (`Model/Net.lean`): replicas hold entries and cache heads; announcements and
exchange-on-join messages carry the sender's cached heads; any message may be lost, duplicated, delayed
or reordered; replicas may restart (reload from the cache). `Valid` records what the store level
guarantees about one action (the cached heads cover the log — `Proofs/Covers.lean`; handling a message
whose entries are all accepted adds the ancestry of its heads — the replicator run to quiescence).
-/
namespace Orbit.C02
open Orbit.Net

/-- For **any** prefix of writes, sends, deliveries (of any message, any number of times, in any
order), restarts and faults, followed by a final phase without writes in which every ordered pair
(i, j) has a send i→j that is later delivered (other actions may be interleaved freely): every replica
holds every acknowledged write. Unbounded in replicas, steps and messages. -/
theorem every_replica_gets_every_write (u : Univ) (n : Nat) (pre fin : List Act)
    (hv : ValidRun u (init n) (pre ++ fin)) (hf : FinalPhase u (run u (init n) pre) n fin) :
    ∀ r ∈ (run u (init n) (pre ++ fin)).reps, ∀ h ∈ (run u (init n) (pre ++ fin)).acked, h ∈ r.held :=
  converge_from_init u n pre fin hv hf

/-- a replica never loses an entry — not even across a restart (it reloads the ancestry of its cached
heads, which cover what it held) -/
theorem held_never_shrinks (u : Univ) (s : State) (a : Act) (hc : Covers u s) :
    ∀ (i : Nat) (r : Replica), s.reps[i]? = some r →
      ∃ r', (step u s a).reps[i]? = some r' ∧ ∀ x ∈ r.held, x ∈ r'.held :=
  held_mono_step u s a hc

/-- the final-phase hypothesis is satisfiable from every reachable state -/
theorem final_phase_exists (u : Univ) (s : State) (hc : Covers u s) :
    ∃ fin, ValidRun u s fin ∧ FinalPhase u s s.reps.length fin := exists_finalPhase u s hc

/-- the replicator of the Go text of this run looks at EVERY hash a fetched entry names (no early exit
from the loop that queues them), as the model's `fetched` does -/
theorem parent_walk_tied_to_go_text : Gen.parentWalkExits = 0 := gen_parentWalk_complete

end Orbit.C02
