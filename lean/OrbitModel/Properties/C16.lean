import OrbitModel.Proofs.EmitterFifo
import OrbitModel.Proofs.GenEqWrite
import OrbitModel.Proofs.GenEqLoadComplete
import OrbitModel.Proofs.EmitterSettle
import OrbitModel.Model.Store
import OrbitModel.Proofs.BusClose
import OrbitModel.Proofs.GenEqSubClose
import OrbitModel.Proofs.GlobalChan
/-!
# C16 — store events are ordered, lossless and never ahead of the state they announce

(a) `AddOperation` / `replicationLoadComplete` update the view before they emit (`Model/Store.lean`:
the event is the last thing each step function produces); (b) the legacy channel API is the
two-goroutine transition system of `Model/Emitter.lean` (repaired: `pinned := false`).
-/
namespace Orbit.C16
open Orbit.Emit

/-- For every channel capacity and **every** interleaving of emits, forwarder steps, drainer steps,
receives and cancellation: what the subscriber has received is a prefix of what was emitted — never
out of order, never duplicated, nothing skipped — however slowly it reads. -/
theorem received_is_prefix_of_emitted (cap : Nat) (acts : List Act) :
    (run false (init cap) acts).delivered <+: (run false (init cap) acts).emitted :=
  delivered_prefix cap acts

/-- While the subscriber's context is alive nothing is lost: received ++ (channel, in-flight,
overflow queue, bus buffer) is exactly the emitted sequence. -/
theorem nothing_lost_while_alive (cap : Nat) (acts : List Act) :
    let s := run false (init cap) acts
    s.cancelled = false → s.delivered ++ pipeline s = s.emitted :=
  fifo_alive cap acts

/-- …and a subscriber that keeps reading gets everything (canonical fair scheduler, explicit bound). -/
theorem slow_reader_eventually_gets_everything (cap : Nat) (hcap : 0 < cap) (acts : List Act) (n : Nat) :
    let s := run false (init cap) acts
    s.cancelled = false → 6 * (pipeline s).length + 2 ≤ n →
    let t := run false s (settle n)
    t.cancelled = false ∧ pipeline t = [] ∧ t.delivered = s.emitted :=
  settle_drains cap hcap acts n

/-- when a local write is acknowledged the view has been rebuilt from a log that holds the entry:
`AddOperation` returns (and emits the write event) only after the index update -/
theorem write_event_not_ahead_of_state (acl : Acl) (s : Store) (mk : Nat → List Nat → Entry) (e : Entry)
    (h : (s.addOp acl mk).2 = .ok e) :
    (s.addOp acl mk).1.idx = updateIndex s.kind s.idx (s.addOp acl mk).1.log ∧
    has (s.addOp acl mk).1.log.entries e.hash = true := by
  unfold Store.addOp Store.addOp0 at h ⊢
  unfold append at h ⊢
  by_cases hc : acl.canAppend (mk (appendTime s.log) (appendNext s.log)) = true
  · simp only [hc, if_true] at h ⊢
    simp only [Except.ok.injEq] at h
    subst h
    refine ⟨trivial, ?_⟩
    simp only [set]
    split
    · assumption
    · simp [has, List.any_append]
  · simp only [hc] at h
    simp at h

/-- Refutation witness for the pinned tree (finding F12, repaired): capacity 1, the drainer has taken
event 2 from the queue, the forwarder sends event 3 directly: delivered 1, 3, 2. Replayed on the real
emitter with the `emitter.dequeued` hook (corpus/C16). -/
theorem pinned_tree_reorders :
    (run true (init 1) overtakeSchedule).delivered = [1, 3, 2] ∧
    (run false (init 1) (overtakeSchedule ++ [.g2, .g2, .recv])).delivered = [1, 2, 3] :=
  ⟨pinned_overtake, repaired_in_order⟩

/-- the write path in the Go text of this run performs its effects in the order the models assume:
append and head persisted under the write mutex, THEN the view, THEN the write event -/
theorem write_path_order_tied_to_go_text : Gen.addOperationOrder = Order.addOperation ∧
    Gen.loadCompleteOrder = Order.loadComplete := ⟨gen_addOperation_order, gen_loadComplete_order⟩

/-- **a legacy subscriber that unsubscribes never wedges the bus** (after the `fix:` commit, finding
F38): from the state its forwarder used to leave behind — subscription full, the emitter blocked
inside `emit` (holding the read lock `Close` needs), nobody reading — the drainer lets the emitter
through and `Close` returns, for every capacity and every number of events still to send; before the
repair that state was a deadlock: no action of anybody ever changed it (every later `Emit` on the bus
and every later `Subscribe` then waits behind the pending writer) -/
theorem unsubscribing_never_wedges_the_bus (s : BusClose.St) (h : BusClose.Stuck s) (hcap : s.cap > 0) :
    ((BusClose.run true s (BusClose.unwind s.pending)).closed = true ∧
      (BusClose.run true s (BusClose.unwind s.pending)).pending = 0) ∧
    (∀ acts, BusClose.run false s acts = s) :=
  ⟨BusClose.close_gets_through s h hcap, BusClose.stuck_forever s h⟩

/-- the premise is reachable: the emitter fills a 2-slot subscription while the forwarder lags, the
context ends (on the real emitter: 16 slots, the forwarder held at its hook point — `ewedge`) -/
theorem the_wedged_state_is_reachable :
    BusClose.run false { cap := 2, pending := 3 } [.send, .send, .leave] =
      { cap := 2, chan := 2, pending := 1, reading := false, closing := true } ∧
    BusClose.Stuck { cap := 2, chan := 2, pending := 1, reading := false, closing := true } :=
  ⟨BusClose.stuck_is_reachable, by unfold BusClose.Stuck; decide⟩

/-- the legacy forwarder of the Go text of this run keeps reading its subscription until `Close` has
returned -/
theorem forwarder_drains_while_it_closes_tied_to_go_text :
    Gen.subscriberCloseOrder = Order.subscriberClose := gen_subscriberClose_order

/-- **the legacy global channel**: whatever callers came and went before, a caller whose context is live
gets a channel whose context is live (after the `fix:` commit, finding F41) -/
theorem live_caller_gets_a_live_global_channel (s : GlobalChan.St) (ctx : Nat)
    (h : s.ended.contains ctx = false) :
    s.ended.contains (GlobalChan.globalChannel true s ctx).2 = false :=
  GlobalChan.live_caller_gets_a_live_channel s ctx h

/-- Refutation witness for the code before that repair: the channel created under the first caller's
context was handed out for ever; the second caller got it closed and lost every event (replayed on
the real emitter: `eglobal`, corpus/C16/f41) -/
theorem second_global_caller_got_the_closed_channel_before_the_fix :
    let s1 := (GlobalChan.globalChannel false {} 1).1
    let s2 := GlobalChan.«end» s1 1
    (GlobalChan.globalChannel false s2 2).2 = 1 ∧ s2.ended.contains (GlobalChan.globalChannel false s2 2).2 = true ∧
    (GlobalChan.globalChannel true s2 2).2 = 2 :=
  GlobalChan.second_caller_got_the_closed_channel

/-- a store's legacy channel API listens on the bus the store emits on, also when that bus is the
default one: `InitBaseStore` of the Go text of this run calls `SetBus` on every path (finding F42: it
did so only for a bus given by the caller; the legacy subscribers of a store built with default
options never heard an event — replayed on the real store: `enilbus`, corpus/C16/f42) -/
theorem legacy_api_listens_on_the_stores_bus_tied_to_go_text : Gen.setBusUnconditional = true :=
  gen_setBus_unconditional

end Orbit.C16
