import OrbitModel.Model.Index
/-!
# L1 specifications: what a user would say
-/
namespace Orbit

/-- last-writer-wins replay of a key-value log, oldest first -/
def lwwStep (m : KV) (e : Entry) : KV :=
  match e.op with
  | .put k v => KV.put m k v
  | .del k => KV.erase m k
  | _ => m
def lwwReplay (vs : List Entry) : KV := vs.foldl lwwStep []

/-- replay of a document log: a PUTALL is a put of each member; empty keys are not documents -/
def docReplayStep (m : KV) (e : Entry) : KV :=
  match e.op with
  | .put k v => if k == "" then m else KV.put m k v
  | .del k => if k == "" then m else KV.erase m k
  | .putAll docs => docs.foldl (fun m d => KV.put m d.1 d.2) m
  | _ => m
def docReplay (vs : List Entry) : KV := vs.foldl docReplayStep []

/-- two maps agree as functions -/
def KV.equiv (a b : KV) : Prop := ∀ k, KV.get a k = KV.get b k

/-- canonical (sorted by key, insertion sort) listing of a map for printing/comparison -/
def insKey (p : String × String) : List (String × String) → List (String × String)
  | [] => [p]
  | q :: qs => if p.1 < q.1 then p :: q :: qs else if p.1 == q.1 then p :: qs else q :: insKey p qs
def KV.canon (m : KV) : List (String × String) := m.reverse.foldl (fun acc p => insKey p acc) []

/-- ascending listing spec: insertion sort by `Entry.lt` -/
def sortAsc (es : List Entry) : List Entry := (Trav.sortDesc Entry.lt es).reverse

/-- the window a range query must return, on the full listing `L` (oldest first).
`i` = index of the bound; `n` = normalised amount. -/
def windowSpec (L : List Entry) (o : StreamOpts) : List Entry :=
  let n := normAmount o.amount L.length
  let idx (h : Nat) : Nat := (L.findIdx? (fun e => e.hash == h)).getD 0
  match o.gt, o.gte, o.lt, o.lte with
  | some h, _, _, _ => (L.drop (idx h + 1)).take n
  | none, some h, _, _ => (L.drop (idx h)).take n
  | none, none, some h, _ => (L.take (idx h)).drop ((idx h) - n)
  | none, none, none, some h => (L.take (idx h + 1)).drop ((idx h + 1) - n)
  | none, none, none, none => L.drop (L.length - n)

/-- the window a range query must return when the log `L` (oldest first) also holds entries that are
not operations (`isOp e = false`): the bound is a POSITION in the log - it may be one of those
entries -, what is listed and counted are the operations on the asked side of it. -/
def windowSpecOps (isOp : Entry → Bool) (L : List Entry) (o : StreamOpts) : List Entry :=
  let n := normAmount o.amount L.length
  let idx (h : Nat) : Nat := (L.findIdx? (fun e => e.hash == h)).getD 0
  let last (l : List Entry) : List Entry := l.drop (l.length - n)
  match o.gt, o.gte, o.lt, o.lte with
  | some h, _, _, _ => ((L.drop (idx h + 1)).filter isOp).take n
  | none, some h, _, _ => ((L.drop (idx h)).filter isOp).take n
  | none, none, some h, _ => last ((L.take (idx h)).filter isOp)
  | none, none, none, some h => last ((L.take (idx h + 1)).filter isOp)
  | none, none, none, none => last (L.filter isOp)

end Orbit
