import OrbitModel.Model.Basic
/-!
# Replicas, head messages and faults at the set level   (C02)

A replica is the set of entries it holds plus the heads it has cached; what the code guarantees
about them (proved at the store level, `Proofs/Covers.lean`) is the field invariant
`cached heads cover the held set`. Messages carry heads; handling a message (Sync + replicator to
quiescence, nothing rejected, nothing cancelled, blocks fetchable) adds the ancestry of the heads.
Faults: messages may be dropped, duplicated, delayed and reordered arbitrarily (the soup is a list we
pick from and never have to consume), links cut and healed, replicas restarted.
-/
namespace Orbit.Net

/-- the universe: `anc h` = the ancestry (hashes) of entry `h`, itself included -/
structure Univ where
  anc : Nat → List Nat
  self_mem : ∀ h, h ∈ anc h
  trans : ∀ h x, x ∈ anc h → ∀ y, y ∈ anc x → y ∈ anc h

structure Replica where
  held  : List Nat := []      -- entries in the log
  heads : List Nat := []      -- cached `_localHeads ++ _remoteHeads`
deriving Repr

structure Msg where
  dst   : Nat
  heads : List Nat
deriving Repr

structure State where
  reps  : List Replica
  soup  : List Msg := []      -- every message ever sent (delivery picks any, any number of times)
  acked : List Nat := []      -- acknowledged writes

inductive Act where
  | write (i : Nat) (h : Nat)        -- replica i appends entry h (its ancestry is what i holds)
  | send (i j : Nat)                 -- announcement / exchange-on-join: i's cached heads go to j
  | recv (k : Nat) (cache : List Nat) -- the k-th message of the soup is handled by its destination, whose
                                     -- cached heads afterwards are `cache` (the merged log's heads: an input)
  | restart (i : Nat)                -- i reloads from its cache
  | fault                            -- cut / heal / drop / delay: no state change at this level

def ancAll (u : Univ) (hs : List Nat) : List Nat := hs.flatMap u.anc

def updRep (s : State) (i : Nat) (f : Replica → Replica) : State :=
  { s with reps := s.reps.mapIdx (fun k r => if k == i then f r else r) }

def step (u : Univ) (s : State) : Act → State
  | .write i h => match s.reps[i]? with
    | some _ =>
      let s := updRep s i (fun r => { held := h :: r.held, heads := h :: r.heads })
      { s with acked := h :: s.acked }
    | none => s                      -- no such replica: nothing is written, nothing acknowledged
  | .send i j => match s.reps[i]? with
    | some r => { s with soup := s.soup ++ [{ dst := j, heads := r.heads }] }
    | none => s
  | .recv k cache => match s.soup[k]? with
    | some m => updRep s m.dst (fun r => { held := r.held ++ ancAll u m.heads, heads := cache })
    | none => s
  | .restart i => updRep s i (fun r => { held := ancAll u r.heads, heads := r.heads })
  | .fault => s

/-- what the store level guarantees about an action in state `s` (proved in `Proofs/Covers.lean`):
a write's ancestry is the writer's held set plus itself; after a merge the cached heads cover
everything held. -/
def Valid (u : Univ) (s : State) : Act → Prop
  | .write i h => ∀ r, s.reps[i]? = some r → (∀ x ∈ u.anc h, x = h ∨ x ∈ r.held) ∧ (∀ x ∈ r.held, x ∈ u.anc h)
  | .recv k cache => ∀ m, s.soup[k]? = some m → ∀ r, s.reps[m.dst]? = some r →
      ∀ x, (x ∈ r.held ∨ x ∈ ancAll u m.heads) → x ∈ ancAll u cache
  | _ => True

/-- every cached head list covers what the replica holds -/
def Covers (u : Univ) (s : State) : Prop := ∀ r ∈ s.reps, ∀ x ∈ r.held, x ∈ ancAll u r.heads

def run (u : Univ) (s : State) (acts : List Act) : State := acts.foldl (step u) s

end Orbit.Net
