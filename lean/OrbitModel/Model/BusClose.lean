/-!
# Closing a legacy subscription while an emitter is blocked on it   (C16, finding F38)

The legacy channel API reads a *wildcard* subscription of the libp2p event bus. `emit` holds the read
lock of the bus node while it sends to each sink (a blocking send when the sink's channel is full);
`Close` of a wildcard subscription needs the write lock and, unlike a typed subscription, does not
drain the channel while it waits. The forwarder (`handleSubscriber`) called `Close` after it had
stopped reading.

State of one sink: how many events sit in its channel (`cap` at most), how many the emitter still has
to send (it is inside `emit`, holding the read lock, exactly when it has some left and the channel is
full or it is between two sends), whether the forwarder still reads, whether `Close` has been asked
for, whether it has returned. `drain` is the design: keep reading until `Close` returns.
-/
namespace Orbit.BusClose

structure St where
  cap     : Nat
  chan    : Nat := 0
  pending : Nat := 0      -- events the emitter still has to hand to this sink (inside `emit`, read lock held)
  reading : Bool := true  -- the forwarder's loop is still taking events from the channel
  closing : Bool := false -- the forwarder has left its loop and called `Close`
  closed  : Bool := false
deriving DecidableEq, Repr

inductive Act where
  | send      -- the emitter puts its next event into the channel (possible only when there is room)
  | recv      -- somebody takes an event out of the channel
  | leave     -- the forwarder's context ends: it leaves its loop and calls `Close`
  | close     -- `Close` gets the write lock (possible only when no emitter is inside `emit`)
deriving DecidableEq, Repr

/-- who reads the channel: the forwarder's loop, or — in the repaired design — the drainer started
before `Close` and stopped after it -/
def reads (drain : Bool) (s : St) : Bool := s.reading || (drain && s.closing && !s.closed)

def step (drain : Bool) (s : St) : Act → St
  | .send => if !s.closed && s.pending > 0 && s.chan < s.cap then { s with chan := s.chan + 1, pending := s.pending - 1 } else s
  | .recv => if reads drain s && s.chan > 0 then { s with chan := s.chan - 1 } else s
  | .leave => if s.reading then { s with reading := false, closing := true } else s
  | .close => if s.closing && !s.closed && s.pending = 0 then { s with closed := true } else s

def run (drain : Bool) (s : St) (acts : List Act) : St := acts.foldl (step drain) s

/-- the schedule that always works in the repaired design: take an event out, let the emitter put the
next one in, as often as the emitter has events left; then `Close` -/
def unwind : Nat → List Act
  | 0 => [.close]
  | n+1 => .recv :: .send :: unwind n

end Orbit.BusClose
