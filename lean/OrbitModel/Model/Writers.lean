/-!
# N goroutines writing to one store   (C17)

Each writer does: append to the log (atomic under the log's lock) ; put `_localHeads := [own entry]` ;
update the view ; return. After the `fix:` commit append and put happen under one mutex (`atomic :=
true`); on the pinned tree (`atomic := false`) any writer's put may be scheduled after any other's.
Entries are numbered by append order; entry k's ancestry is {1..k} (each append links to the heads).
-/
namespace Orbit.Writers

inductive PC where | start | appended (e : Nat) | done (e : Nat)
deriving DecidableEq, Repr

structure St where
  pcs     : List PC            -- one per writer
  logLen  : Nat := 0           -- entries appended so far (entry k = k-th append)
  cache   : Option Nat := none -- `_localHeads` = [cache]
  lockedBy : Option Nat := none -- the write mutex (only used when atomic)
deriving Repr

def init (n : Nat) : St := { pcs := List.replicate n .start }

/-- one scheduler choice: writer `i` takes its next step, if it can -/
def step (atomic : Bool) (s : St) (i : Nat) : St :=
  match s.pcs[i]? with
  | some .start =>
    if atomic && s.lockedBy.isSome then s else
    let e := s.logLen + 1
    { s with pcs := s.pcs.set i (.appended e), logLen := e, lockedBy := if atomic then some i else s.lockedBy }
  | some (.appended e) =>
    { s with pcs := s.pcs.set i (.done e), cache := some e, lockedBy := if atomic then none else s.lockedBy }
  | _ => s

def run (atomic : Bool) (s : St) (sched : List Nat) : St := sched.foldl (step atomic) s

/-- entries acknowledged: the writers that returned -/
def acked (s : St) : List Nat := s.pcs.filterMap (fun pc => match pc with | .done e => some e | _ => none)

/-- what a restart + Load recovers: the ancestry of the cached head -/
def recovered (s : St) : List Nat := match s.cache with | some e => List.range' 1 e | none => []

end Orbit.Writers
