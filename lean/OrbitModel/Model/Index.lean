import OrbitModel.Model.Log
/-!
# Store indices: key-value, document, event log (as written in `stores/*/index.go`)

The kv and document indices rebuild by scanning `Values()` newest → oldest with a `handled` set,
*mutating the existing map* (it is never cleared).
-/
namespace Orbit

/-- a Go `map[string][]byte` as an association list with unique keys (order not observable) -/
abbrev KV := List (String × String)

def KV.get (m : KV) (k : String) : Option String := (m.find? (fun p => p.1 == k)).map (·.2)
def KV.erase (m : KV) (k : String) : KV := m.filter (fun p => p.1 != k)
def KV.put (m : KV) (k v : String) : KV := (k, v) :: KV.erase m k
def KV.keys (m : KV) : List String := m.map (·.1)

/-- one iteration of the loop in `kvIndex.UpdateIndex` (state: handled set, index) -/
def kvStep (acc : List String × KV) (e : Entry) : List String × KV :=
  match e.op with
  | .put k v => if acc.1.contains k then acc else (k :: acc.1, KV.put acc.2 k v)
  | .del k   => if acc.1.contains k then acc else (k :: acc.1, KV.erase acc.2 k)
  | .putAll _ => if acc.1.contains "" then acc else ("" :: acc.1, acc.2)  -- key "" present, op neither PUT nor DEL
  | .add _ | .other => acc                                                   -- nil key: ignored

/-- `kvIndex.UpdateIndex`: `vs` is `Values()` (oldest first); scanned from the end -/
def kvUpdate (idx : KV) (vs : List Entry) : KV := (vs.reverse.foldl kvStep ([], idx)).2

/-- one member of a PUTALL in `documentIndex.UpdateIndex` **as fixed**: marks the member's key.
(The pinned tree marked `handled[""]` — the operation's key — instead; finding F1.) -/
def docAllStep (acc : List String × KV) (d : String × String) : List String × KV :=
  if acc.1.contains d.1 then acc else (d.1 :: acc.1, KV.put acc.2 d.1 d.2)

/-- the PUTALL member step of the pinned (defective) tree, kept for the refutation witness -/
def docAllStepPinned (acc : List String × KV) (d : String × String) : List String × KV :=
  if acc.1.contains d.1 then acc else ("" :: acc.1, KV.put acc.2 d.1 d.2)

def docStepWith (all : List String × KV → String × String → List String × KV)
    (acc : List String × KV) (e : Entry) : List String × KV :=
  match e.op with
  | .putAll docs => docs.foldl all acc
  | .put k v => if k == "" then acc else if acc.1.contains k then acc else (k :: acc.1, KV.put acc.2 k v)
  | .del k   => if k == "" then acc else if acc.1.contains k then acc else (k :: acc.1, KV.erase acc.2 k)
  | .add _ | .other => acc

def docUpdateWith (all : List String × KV → String × String → List String × KV) (idx : KV) (vs : List Entry) : KV := (vs.reverse.foldl (docStepWith all) ([], idx)).2
/-- `documentIndex.UpdateIndex` -/
def docUpdate (idx : KV) (vs : List Entry) : KV := docUpdateWith docAllStep idx vs
def docUpdatePinned (idx : KV) (vs : List Entry) : KV := docUpdateWith docAllStepPinned idx vs

/-! ### a PUTALL batch as it comes out of the JSON decoder

A writer is not bound to what the store API produces: `"docs":[null]` decodes to a batch with a nil
member. `operation.GetDocs` leaves nil members out (after the `fix:` commit, finding F25); before it
the member loop of `documentIndex.UpdateIndex` called `GetKey()` on the nil member, in the store's main
loop. -/

inductive BatchOutcome where
  | ok (acc : List String × KV)
  | panic
deriving DecidableEq, Repr

/-- the member loop over a decoded batch (`none` = a `null` member) -/
def docAllRaw (skipNil : Bool) (acc : List String × KV) : List (Option (String × String)) → BatchOutcome
  | [] => .ok acc
  | none :: rest => if skipNil then docAllRaw skipNil acc rest else .panic
  | some d :: rest => docAllRaw skipNil (docAllStep acc d) rest

/-- ASCII lower-casing (the generators stay ASCII; Go's `strings.ToLower` is Unicode-aware) -/
def lowerAscii (s : String) : String := s.map (fun c => if 'A' ≤ c ∧ c ≤ 'Z' then Char.ofNat (c.toNat + 32) else c)

def isInfix (needle hay : List Char) : Bool :=
  match hay with
  | [] => needle.isEmpty
  | _ :: t => needle.isPrefixOf hay || isInfix needle t

/-- `strings.Contains` -/
def strContains (hay needle : String) : Bool := isInfix needle.toList hay.toList

/-- `orbitDBDocumentStore.Get` for search keys without spaces: the matching index keys -/
def docGetKeys (idx : KV) (key : String) (caseInsensitive partialMatches : Bool) : List String :=
  let key := if caseInsensitive then lowerAscii key else key
  idx.keys.filter (fun ik =>
    let ik' := if caseInsensitive then lowerAscii ik else ik
    if partialMatches then strContains ik' key else ik' == key)

/-- query options of the event log store -/
structure StreamOpts where
  gt  : Option Nat := none
  gte : Option Nat := none
  lt  : Option Nat := none
  lte : Option Nat := none
  amount : Option Int := none
deriving Repr, Inhabited

/-- the `amount` normalisation in `query` -/
def normAmount (amount : Option Int) (len : Nat) : Nat :=
  match amount with
  | none => 1
  | some a => if a == 0 then 1 else if a > -1 then a.toNat else len

/-- `orbitDBEventLogStore.read` -/
def readWin (ops : List Entry) (hash : Option Nat) (amount : Nat) (inclusive : Bool) : List Entry :=
  let start := match hash with
    | none => 0
    | some h => match ops.findIdx? (fun e => e.hash == h) with | some i => i | none => 0
  let start := if inclusive then start else start + 1
  (ops.drop start).take amount

/-- `orbitDBEventLogStore.query` over the full listing `events` (oldest first) -/
def queryWin (events : List Entry) (o : StreamOpts) : List Entry :=
  let amount := normAmount o.amount events.length
  if o.gt.isSome || o.gte.isSome then
    let c := match o.gt with | some c => some c | none => o.gte
    readWin events c amount o.gte.isSome
  else
    let c := match o.lt with | some c => some c | none => o.lte
    (readWin events.reverse c amount (o.lte.isSome || o.lt.isNone)).reverse

/-- `orbitDBEventLogStore.read` as it is since the bound is looked up among ALL the entries of the log
(`isOp` = the payload parses as an operation): entries that are not operations are neither collected
nor counted, but one of them may be the bound -/
def readWinOps (isOp : Entry → Bool) (ops : List Entry) (hash : Option Nat) (amount : Nat)
    (inclusive : Bool) : List Entry :=
  let start := match hash with
    | none => 0
    | some h => match ops.findIdx? (fun e => e.hash == h) with | some i => i | none => 0
  let start := if inclusive then start else start + 1
  ((ops.drop start).filter isOp).take amount

/-- `orbitDBEventLogStore.query` over every entry of the log (oldest first), operations or not -/
def queryWinOps (isOp : Entry → Bool) (events : List Entry) (o : StreamOpts) : List Entry :=
  let amount := normAmount o.amount events.length
  if o.gt.isSome || o.gte.isSome then
    let c := match o.gt with | some c => some c | none => o.gte
    readWinOps isOp events c amount o.gte.isSome
  else
    let c := match o.lt with | some c => some c | none => o.lte
    (readWinOps isOp events.reverse c amount (o.lte.isSome || o.lt.isNone)).reverse

end Orbit
