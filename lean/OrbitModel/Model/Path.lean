/-!
# Addresses: Go `path.Join`/`path.Clean` on rooted paths, `address.Parse`, `DetermineAddress`  (C14)

A database address is `path.Join("/orbitdb", <manifest cid>, <name>)` parsed back by `address.Parse`.
`path.Join` *cleans* its result, so `.`/`..`/empty segments of the name are interpreted. CIDs are
opaque strings recognised by `isCid`.
-/
namespace Orbit.Path

/-- one step of `path.Clean` on a rooted path, segment by segment (`..` at the root is dropped) -/
def cleanStep (st : List String) (seg : String) : List String :=
  if seg == "" || seg == "." then st else if seg == ".." then st.dropLast else st ++ [seg]

/-- `path.Clean` of a rooted path given by its segments -/
def cleanAbs (segs : List String) : List String := segs.foldl cleanStep []

/-- `strings.Split(s, "/")`, on the list of characters (`List.splitOn` has the lemmas; the legacy
`String.splitOn` has none and does not reduce) -/
def segments (s : String) : List String := (s.toList.splitOn '/').map String.ofList

def render (segs : List String) : String := "/" ++ "/".intercalate segs

/-- `path.Join("/orbitdb", root, name)` as a string -/
def joinAddr (root name : String) : String := render (cleanAbs (["orbitdb", root] ++ segments name))

/-- `strings.HasPrefix` on the list of characters (`String.startsWith` does not reduce in the kernel;
`String.startsWith_string_iff` says they agree) -/
def hasPrefix (p s : String) : Bool := p.toList.isPrefixOf s.toList

structure Addr where
  root : String
  path : String
deriving DecidableEq, Repr

/-- the splitting step of `address.Parse` (and all of `address.IsValid`): strip `/orbitdb/`, first
segment must be a CID, the rest is the path -/
def parse0 (isCid : String → Bool) (s : String) : Option Addr :=
  let s' := if hasPrefix "/orbitdb/" s then (s.drop "/orbitdb/".length).copy else s
  match segments s' with
  | [] => none
  | r :: rest => if isCid r then some { root := r, path := "/".intercalate rest } else none

/-- `Address.String()` -/
def print (a : Addr) : String := joinAddr a.root a.path

/-- does the printed form of `a` (`String()` cleans it) still name `a`'s root? -/
def staysBelowRoot (isCid : String → Bool) (a : Addr) : Bool :=
  match parse0 isCid (print a) with
  | some b => b.root == a.root
  | none => false

/-- `address.Parse` after the `fix:` commit (finding F28): an address whose path climbs out of its
root (`/orbitdb/<r1>/../<r2>/x` prints as `/orbitdb/<r2>/x`, another database) is refused -/
def parse (isCid : String → Bool) (s : String) : Option Addr :=
  match parse0 isCid s with
  | some a => if staysBelowRoot isCid a then some a else none
  | none => none

/-- `address.IsValid(name) == nil`: the name itself is an address -/
def isAddress (isCid : String → Bool) (name : String) : Bool := (parse0 isCid name).isSome

/-- `DetermineAddress` after the `fix:` commit: the manifest hash `h` (a function of name, type and
access controller) must still be the root of the joined, cleaned path -/
def determine (isCid : String → Bool) (h name : String) : Option Addr :=
  if isAddress isCid name then none else
  match parse0 isCid (joinAddr h name) with
  | some a => if a.root == h then some a else none
  | none => none

/-- the pinned tree returned whatever the cleaned path parsed to (finding F10) -/
def determinePinned (isCid : String → Bool) (h name : String) : Option Addr :=
  if isAddress isCid name then none else parse0 isCid (joinAddr h name)

/-- `datastoreKey(directory, addr)` as cleaned segments (the directory the cache uses, removed by Drop) -/
def datastoreKey (dir : List String) (a : Addr) : List String :=
  cleanAbs (dir ++ [a.root] ++ segments a.path)

end Orbit.Path
