/-!
# Transport adapters and framing (C12 frame part, C20)

* `pubsubcoreapi`: `peersDiff` on successive membership snapshots; self-message filter.
* `oneonone`: the pairwise channel name is built from the two peer ids sorted.
* `directchannel`: uvarint length prefix, `length := int(length64)`, size guard, `make([]byte, length)`.
-/
namespace Orbit.Codec

/-! ## peersDiff -/

/-- one poll of `psTopic.peersDiff`: `old` = members recorded, `all` = snapshot returned by the
underlying pubsub. Returns (joining, leaving, new members). `joining` keeps snapshot order and, like
the Go loop, lists a peer once per occurrence in `all`; `leaving` comes out of a Go map (unordered). -/
def peersDiff (old all : List Nat) : List Nat × List Nat × List Nat :=
  (all.filter (fun m => !old.contains m), old.eraseDups.filter (fun m => !all.contains m), all)

inductive PeerEv where | join (p : Nat) | leave (p : Nat)
deriving DecidableEq, Repr

/-- the events `WatchPeers` emits for a sequence of snapshots, starting with no members -/
def watchPeers : List Nat → List (List Nat) → List PeerEv
  | _, [] => []
  | old, snap :: rest =>
    let d := peersDiff old snap
    d.1.map .join ++ d.2.1.map .leave ++ watchPeers d.2.2 rest

/-- A watcher started on a topic of an adapter that has been used before. `shared` is the membership
the adapter's cached topic object last saw (through any earlier watcher). After the `fix:` commit
(finding F24) every watcher follows the membership on its own and starts from nothing; before it the
list was kept in the topic object shared by all watchers, so a later watcher started from `shared`. -/
def laterWatcher (pinnedShared : Bool) («shared» : List Nat) (snaps : List (List Nat)) : List PeerEv :=
  watchPeers (if pinnedShared then «shared» else []) snaps

/-- folding the reported events over a membership set -/
def applyEv (m : List Nat) : PeerEv → List Nat
  | .join p => if m.contains p then m else m ++ [p]
  | .leave p => m.filter (· != p)

/-- `WatchMessages` / `monitorTopic`: drop what the local peer itself published -/
def filterSelf (self : Nat) (msgs : List (Nat × List Nat)) : List (List Nat) :=
  (msgs.filter (fun m => m.1 != self)).map (·.2)

/-! ## channel id -/

/-- `getChannelID`: the two ids sorted (ids are compared as strings in Go; here any linear order) -/
def channelId (self other : Nat) : Nat × Nat := if self ≤ other then (self, other) else (other, self)

/-! ## uvarint and the frame guard -/

/-- `binary.PutUvarint` -/
def putUvarint : Nat → Nat → List Nat
  | 0, _ => []
  | fuel+1, n => if n < 128 then [n] else (n % 128 + 128) :: putUvarint fuel (n / 128)

def encodeUvarint (n : Nat) : List Nat := putUvarint 10 n

/-- `binary.ReadUvarint` on a byte list: value and the rest, `none` on truncation / overflow -/
def readUvarint : Nat → Nat → Nat → List Nat → Option (Nat × List Nat)
  | 0, _, _, _ => none
  | _+1, _, _, [] => none
  | fuel+1, shift, acc, b :: rest =>
    if b < 128 then
      if fuel + 1 = 1 ∧ b > 1 then none else some (acc + b * 2 ^ shift, rest)   -- 10th byte may only be 0 or 1
    else readUvarint fuel (shift + 7) (acc + (b - 128) * 2 ^ shift) rest

def decodeUvarint (bs : List Nat) : Option (Nat × List Nat) := readUvarint 10 0 0 bs

def maxFrame : Int := 4 * 1024 * 1024

inductive FrameOutcome where
  | refused            -- length above the limit: logged and dropped
  | accept (len : Nat) -- `make([]byte, len)` then `io.ReadFull`
  | panic              -- `make` with a negative length
deriving DecidableEq, Repr

/-- the **pinned** reader: `length := int(length64)`; `if length > Max {return}`; `make([]byte, length)` -/
def frameGuardPinned (len64 : BitVec 64) : FrameOutcome :=
  let length : Int := len64.toInt
  if length > maxFrame then .refused else if length < 0 then .panic else .accept length.toNat

/-- the repaired reader compares the unsigned length before converting -/
def frameGuard (len64 : BitVec 64) : FrameOutcome :=
  if (len64.toNat : Int) > maxFrame then .refused else .accept len64.toNat

/-- reading one frame from a byte stream: `none` = nothing delivered (refused, truncated, bad varint) -/
def readFrame (bs : List Nat) : Option (List Nat) :=
  match decodeUvarint bs with
  | none => none
  | some (n, rest) =>
    if n ≥ 2 ^ 64 then none else
    match frameGuard (BitVec.ofNat 64 n) with
    | .accept len => if rest.length < len then none else some (rest.take len)
    | _ => none

/-- `Send`: uvarint(len) ++ bytes -/
def writeFrame (payload : List Nat) : List Nat := encodeUvarint payload.length ++ payload

end Orbit.Codec
