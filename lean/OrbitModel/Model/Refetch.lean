import OrbitModel.Model.Basic
/-!
# `Load` with a limit: fetching again when fetched entries were left out   (C15, finding F57)

The bounded fetcher applies the limit to everything it reaches. `Load` leaves out, of what was fetched,
the entries that are not part of the log (written for another log, refused by the access controller,
badly signed, at a wrong address); they must not count against the limit, so `Load` asks again for as
many more as were left out, until the limit is met or the whole log has been fetched.
`fetchN n` is the fetcher asked for `n` entries, `good` the filter, `amount > 0` the limit.
-/
namespace Orbit.Refetch

/-- how many of the fetched entries `Load` leaves out -/
def refused (good : Entry → Bool) (F : OMap) : Nat := (F.filter (fun e => !good e)).length

/-- the loop's exit test for the fetch of length `len` -/
def done (fetchN : Nat → OMap) (good : Entry → Bool) (amount len : Nat) : Bool :=
  refused good (fetchN len) == 0 || (fetchN len).length < len ||
    (fetchN len).length - refused good (fetchN len) ≥ amount

/-- the loop: the length it ends with (fuel = an upper bound on the number of rounds) -/
def loop (fetchN : Nat → OMap) (good : Entry → Bool) (amount : Nat) : Nat → Nat → Nat
  | 0, len => len
  | fuel+1, len =>
    if done fetchN good amount len then len
    else loop fetchN good amount fuel (amount + refused good (fetchN len))

end Orbit.Refetch
