import OrbitModel.Model.Basic
/-!
# `Load` with a limit: fetching again when fetched entries were left out   (C15, finding F57)

The bounded fetcher applies the limit to everything it reaches. `Load` leaves out, of what was fetched,
the entries that are not part of the log (written for another log, refused by the access controller,
badly signed, at a wrong address); they must not count against the limit, so `Load` asks again for as
many more as were left out, until the limit is met or the whole log has been fetched.
`fetchN n` is the fetcher asked for `n` entries, `good` the filter, `amount > 0` the limit.
-/
namespace Orbit.Refetch

/-- how many of the fetched entries `Load` leaves out -/
def refused (good : Entry → Bool) (F : OMap) : Nat := (F.filter (fun e => !good e)).length

/-- the loop's exit test for the fetch of length `len` -/
def done (fetchN : Nat → OMap) (good : Entry → Bool) (amount len : Nat) : Bool :=
  refused good (fetchN len) == 0 || (fetchN len).length < len ||
    (fetchN len).length - refused good (fetchN len) ≥ amount

/-- the length of the next fetch: as many more as were left out, and at least twice as many as before
(finding F67: growing by what was left out alone read a run of refused entries in rounds of 3, 5, 7 …) -/
def nextLen (amount len r : Nat) : Nat := if amount + r > 2 * len then amount + r else 2 * len

/-- the loop: the length it ends with (fuel = an upper bound on the number of rounds) -/
def loop (fetchN : Nat → OMap) (good : Entry → Bool) (amount : Nat) : Nat → Nat → Nat
  | 0, len => len
  | fuel+1, len =>
    if done fetchN good amount len then len
    else loop fetchN good amount fuel (nextLen amount len (refused good (fetchN len)))

/-- the loop as it is since the review of F57 (finding F63): what a round has found to belong to another
log is excluded from the next fetch, so the fetcher of round `k` is not the fetcher of round `k+1` -
`fs k` is the fetcher of round `k` (any dependence on what the earlier rounds found). The result is the
round the loop ends in and the length it ends with. -/
def loopR (fs : Nat → Nat → OMap) (good : Entry → Bool) (amount : Nat) : Nat → Nat → Nat → Nat × Nat
  | 0, k, len => (k, len)
  | fuel+1, k, len =>
    if done (fs k) good amount len then (k, len)
    else loopR fs good amount fuel (k + 1) (nextLen amount len (refused good (fs k len)))

end Orbit.Refetch
