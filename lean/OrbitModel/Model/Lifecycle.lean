/-!
# Store lifecycle: Close and Drop as a state machine   (C18)

`BaseStore.Close`: `if isClosed() {return nil}`; cancel the store context; close function; stop the
replicator; close the emitters; reset the status; close the cache. `Drop`: Close, destroy the cache
entry of *this* address, fresh index and log. Operations on a closed store run against the in-memory
log/index (they do not dereference anything that Close tears down).
-/
namespace Orbit.Life

structure St where
  closed     : Bool := false
  closeCalls : Nat := 0          -- how many times the tear-down really ran
  dropped    : Bool := false
deriving DecidableEq, Repr

inductive Op where | close | drop | read | write | load | sync
deriving DecidableEq, Repr

inductive Out where | ok | err
deriving DecidableEq, Repr

def step (s : St) : Op → St × Out
  | .close => if s.closed then (s, .ok) else ({ s with closed := true, closeCalls := s.closeCalls + 1 }, .ok)
  | .drop =>
    let s' := if s.closed then s else { s with closed := true, closeCalls := s.closeCalls + 1 }
    ({ s' with dropped := true }, .ok)
  | .read => (s, .ok)
  | .write => (s, .ok)           -- the log and the cache datastore outlive Close (harmless result)
  | .load => (s, if s.closed then .err else .ok)
  | .sync => (s, .ok)

def run (s : St) (ops : List Op) : St := ops.foldl (fun s o => (step s o).1) s

end Orbit.Life
