import OrbitModel.Model.Basic
import OrbitModel.Model.Trav
/-!
# go-ipfs-log `IPFSLog`: Append, Join (difference, FindHeads, Next index, size trim), Values

Line-by-line model of `log.go` at the pinned dependency version. Ordered maps are lists in
insertion order. Loops are fuelled recursions with the fuel shown sufficient in `Proofs/`.
-/
namespace Orbit

structure Log where
  id      : Nat
  entries : OMap
  heads   : OMap
  nextIdx : List Nat        -- keys of the reverse index `Next`
  clock   : Nat             -- `Clock.Time`
deriving Repr, Inhabited

def Log.empty (id : Nat) : Log := ⟨id, [], [], [], 0⟩

/-- push the next links that are neither traversed nor already held -/
def pushNext (held : OMap) (ns : List Nat) (stack trav : List Nat) : List Nat × List Nat :=
  ns.foldl (fun (acc : List Nat × List Nat) n =>
    if acc.2.contains n || has held n then acc else (acc.1 ++ [n], n :: acc.2)) (stack, trav)

/-- the work-list loop of `difference` -/
def diffLoop (A : OMap) (L : Log) : Nat → List Nat → List Nat → OMap → OMap
  | 0, _, _, res => res
  | _+1, [], _, res => res
  | f+1, h :: stack, trav, res =>
    match get A h with
    | some eA =>
      if !has L.entries h && eA.logId == L.id then
        let r := pushNext L.entries eA.next stack (h :: trav)
        diffLoop A L f r.1 r.2 (set res eA)
      else diffLoop A L f stack trav res
    | none => diffLoop A L f stack trav res

/-- `difference(entriesA, headsA, logB)`: entries of A reachable from A's heads through entries
not held by L, carrying L's log id. -/
def difference (A : OMap) (headsA : OMap) (L : Log) : OMap :=
  diffLoop A L (headsA.length + (nexts A).length + 1) (headsA.map (·.hash)) [] []

/-- `entry.FindHeads` without its final stable sort by clock id (the order of `heads` is never
observable: every reader sorts them, see `sortedHeads`). -/
def findHeads (m : OMap) : OMap := m.filter (fun e => !(nexts m).contains e.hash)

/-- The merging part of `Join` (after the verification of the new items; before trim and clock). -/
def joinCore (L : Log) (Aentries Aheads : OMap) (Aid : Nat) : Log :=
  if Aid != L.id then L else
  let newItems := difference Aentries Aheads L
  let entries' := merge L.entries newItems
  let nextIdx' := L.nextIdx ++ nexts newItems
  let merged := findHeads (merge L.heads Aheads)
  let heads' := merged.filter (fun e => !(nexts newItems).contains e.hash && !nextIdx'.contains e.hash)
  { L with entries := entries', heads := heads', nextIdx := nextIdx' }

/-- clock update at the end of `Join`: at least the largest time among the (final) heads -/
def bumpClock (L : Log) : Log :=
  { L with clock := max L.clock (L.heads.foldl (fun m e => max m e.time) 0) }

/-- What `Join` checks on each new item: `AccessController.CanAppend` then `Entry.Verify`. -/
def acceptable (canAppend : Entry → Bool) (e : Entry) : Bool := canAppend e && e.sigOk

/-- verification + merge of `Join`: rejects the whole join if any *new item* is not acceptable. -/
def joinChecked (canAppend : Entry → Bool) (L : Log) (Aentries Aheads : OMap) (Aid : Nat) : Except Err Log :=
  if Aid != L.id then .ok L else
  let newItems := difference Aentries Aheads L
  if newItems.all (acceptable canAppend) then .ok (joinCore L Aentries Aheads Aid)
  else if newItems.all canAppend then .error .sigFail else .error .denied

/-- `Join(other, -1)` -/
def join (canAppend : Entry → Bool) (L : Log) (Aentries Aheads : OMap) (Aid : Nat) : Except Err Log :=
  if Aid != L.id then .ok L else (joinChecked canAppend L Aentries Aheads Aid).map bumpClock

/-- children of an entry during traversal: its `next` links that are present in `Entries` -/
def children (L : Log) (e : Entry) : List Entry := e.next.filterMap (get L.entries)

/-- `sortedHeads`: heads sorted descending by the log's sort function -/
def sortedHeads (L : Log) : List Entry := Trav.sortDesc Entry.lt L.heads

/-- fuel that always suffices for a full traversal: each pop is a distinct head or member -/
def travFuel (L : Log) : Nat := L.heads.length + L.entries.length

/-- `traverse(heads, amount)` newest first -/
def traverseN (L : Log) (amount : Nat) : List Entry :=
  Trav.traverse Entry.lt (children L) L.heads amount

/-- `Values()`: full traversal from the heads, reversed (oldest first) -/
def values (L : Log) : List Entry := (traverseN L (travFuel L)).reverse

/-- `getEveryPow2(all, maxDistance)` as indices -/
def pow2Idx (len maxDistance : Nat) : Nat → Nat → List Nat
  | 0, _ => []
  | fuel+1, i => if i ≤ maxDistance then (min (len - 1) (i - 1)) :: pow2Idx len maxDistance fuel (i * 2) else []

/-- the `refs` computed by `Append` with `PointerCount = pc` -/
def appendRefs (L : Log) (pc : Nat) (next : List Nat) : List Nat :=
  let hs := sortedHeads L
  let all := traverseN L (max pc hs.length)
  let idxs := if all.length = 0 then [] else pow2Idx all.length (min pc all.length) (all.length + 1) 1
  let refs := idxs.filterMap (fun i => all[i]?)
  let refs := if all.length < pc then (match all.getLast? with | some r => refs ++ [r] | none => refs) else refs
  (refs.map (·.hash)).filter (fun h => !next.contains h)

/-- the Lamport time `Append` gives the new entry -/
def appendTime (L : Log) : Nat := max L.clock (L.heads.foldl (fun m e => max m e.time) 0) + 1

/-- the `next` links `Append` gives the new entry: heads sorted descending, each *prepended* -/
def appendNext (L : Log) : List Nat := ((sortedHeads L).map (·.hash)).reverse

/-- `Append`: `mk time next` builds (signs, stores) the entry; the clock is bumped before the
access check, so a denied append still advances the clock. -/
def append (canAppend : Entry → Bool) (L : Log) (mk : Nat → List Nat → Entry) : Log × Except Err Entry :=
  let t := appendTime L
  let e := mk t (appendNext L)
  let L1 := { L with clock := t }
  if canAppend e then
    ({ L1 with entries := set L1.entries e, nextIdx := L1.nextIdx ++ e.next, heads := [e] }, .ok e)
  else (L1, .error .denied)

/-- `Join(other, size)` with `size > -1`: keep the last `size` values.  Go slices
`tmp[len(tmp)-size:]`, which panics when `size > len(tmp)`. -/
def trim (L : Log) (size : Nat) : Except Err Log :=
  let tmp := values L
  if size > tmp.length then .error .panic else
  let kept := ofList (tmp.drop (tmp.length - size))
  .ok { L with entries := kept, heads := ofList (findHeads kept) }

/-- `Join(other, size)` for any `size : Int` (`-1` = everything) -/
def joinSize (canAppend : Entry → Bool) (L : Log) (Aentries Aheads : OMap) (Aid : Nat) (size : Int) :
    Except Err Log :=
  if Aid != L.id then .ok L else
  match joinChecked canAppend L Aentries Aheads Aid with
  | .error e => .error e
  | .ok L' => if size > -1 then (trim L' size.toNat).map bumpClock else .ok (bumpClock L')

/-- `NewLog` with `Entries` given and no heads: heads are `FindHeads(entries)` -/
def logOfEntries (id : Nat) (es : List Entry) : Log :=
  let m := ofList es
  { id := id, entries := m, heads := ofList (findHeads m), nextIdx := nexts m,
    clock := (findHeads m).foldl (fun t e => max t e.time) 0 }

end Orbit
