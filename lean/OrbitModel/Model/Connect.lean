/-!
# `oneonone.Connect`: one subscription per peer   (C20)

Several stores of one instance may call `Connect(target)` for the same peer at the same time (they all
see it join in one poll). Each call: look the peer up in `subs`; if absent, `Subscribe` to the pairwise
topic, start a monitor, insert into `subs`. The mutex `muSubs` is held from the look-up to the insert,
so the three are ONE step per caller (`connectLocked`). Were the lock released around `Subscribe`
(`narrow`), they are three steps and two callers can both subscribe: every payload is then delivered
twice.
-/
namespace Orbit.Connect

structure St where
  /-- the peer is in `subs` -/
  known : Bool := false
  /-- pubsub subscriptions to the pairwise topic (one monitor each: a payload is delivered once per subscription) -/
  subscriptions : Nat := 0
deriving DecidableEq, Repr

/-- one whole `Connect` under the mutex -/
def connectLocked (s : St) : St :=
  if s.known then s else { known := true, subscriptions := s.subscriptions + 1 }

/-- any number of `Connect` calls, in whatever order the mutex serialises them -/
def runLocked (n : Nat) (s : St) : St := Nat.rec s (fun _ acc => connectLocked acc) n

/-! the narrowed variant: a caller is at one of three points -/
inductive PC where | check | subscribe | insert | done
deriving DecidableEq, Repr

structure NSt where
  st : St := {}
  /-- per caller: where it is, and what its look-up saw -/
  callers : List (PC × Bool) := []
deriving DecidableEq, Repr

/-- caller `i` takes its next step -/
def stepNarrow (s : NSt) (i : Nat) : NSt :=
  match s.callers[i]? with
  | none => s
  | some (pc, saw) =>
    let set (c : PC × Bool) (st : St) : NSt := { st := st, callers := s.callers.set i c }
    match pc with
    | .check => set (if s.st.known then .done else .subscribe, s.st.known) s.st
    | .subscribe => set (.insert, saw) { s.st with subscriptions := s.st.subscriptions + 1 }
    | .insert => set (.done, saw) { s.st with known := true }
    | .done => s

def runNarrow (s : NSt) (sched : List Nat) : NSt := sched.foldl stepNarrow s

/-! ### `monitorTopic`: what is handed on from the pairwise topic -/

/-- `monitorTopic` of the channel opened for peer `p` by `self`, over the messages `(sender, payload)`
the topic carries, in order: only the messages of `p` are handed on, attributed to `p` (after the
`fix:` commit: the filter used to drop `self`'s messages only — anybody may publish on the topic,
whose name is derived from two public peer ids) -/
def monitor (p : Nat) (msgs : List (Nat × List Nat)) : List (Nat × List Nat) :=
  (msgs.filter (fun m => m.1 == p)).map (fun m => (p, m.2))

/-- the filter as it was: everything that is not our own is attributed to `p` -/
def monitor0 (self p : Nat) (msgs : List (Nat × List Nat)) : List (Nat × List Nat) :=
  (msgs.filter (fun m => m.1 != self)).map (fun m => (p, m.2))

end Orbit.Connect

