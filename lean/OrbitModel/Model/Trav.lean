/-!
# go-ipfs-log `traverse`, generically

`traverse` pops the maximum of a stack kept sorted descending, appends it to the result (an ordered
map: no duplicates), marks it, pushes its unseen children and re-sorts.  Generic in the element
type so that the proof (`Proofs/Trav*.lean`) is independent of what an entry is.
-/
namespace Trav

variable {α : Type} [DecidableEq α]

/-- insertion into a descending-sorted list (stand-in for "re-sort the stack") -/
def insDesc (lt : α → α → Bool) (x : α) : List α → List α
  | [] => [x]
  | y :: ys => if lt y x then x :: y :: ys else y :: insDesc lt x ys

def sortDesc (lt : α → α → Bool) (l : List α) : List α := l.foldr (insDesc lt) []

structure St (α : Type) where
  stack : List α
  seen  : List α
  out   : List α

/-- push unseen children, marking them seen -/
def pushKids (kids : List α) (stack seen : List α) : List α × List α :=
  kids.foldl (fun (acc : List α × List α) c =>
    if c ∈ acc.2 then acc else (c :: acc.1, c :: acc.2)) (stack, seen)

def step (lt : α → α → Bool) (children : α → List α) (s : St α) : St α :=
  match s.stack with
  | [] => s
  | e :: rest =>
    let out := if e ∈ s.out then s.out else s.out ++ [e]
    let seen := e :: s.seen
    let (stk, seen') := pushKids (children e) rest seen
    { stack := sortDesc lt stk, seen := seen', out := out }

def run (lt : α → α → Bool) (children : α → List α) : Nat → St α → St α
  | 0, s => s
  | n+1, s => run lt children n (step lt children s)

/-- `traverse(roots, amount)`: `fuel` pops (the Go loop stops after `amount` pops or on an empty stack) -/
def traverse (lt : α → α → Bool) (children : α → List α) (roots : List α) (fuel : Nat) : List α :=
  (run lt children fuel { stack := sortDesc lt roots, seen := [], out := [] }).out

end Trav
