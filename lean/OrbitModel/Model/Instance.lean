import OrbitModel.Model.Store
/-!
# Several stores on one instance and its event bus   (C09)

Every store created by an instance shares the instance's event bus. `EventWrite` carries the
emitter's address; the replicator's events (`load-added`, `load-progress`, `load-end`) carry none.
After the `fix:` commit the write listener ignores other addresses and each replicator has a private
bus; `pinned := true` gives the behaviour of the pinned tree (every store reacts to everything).
-/
namespace Orbit.Inst

/-- what a store exposes to C09: its model state, the messages it published on its topic
(address named in the message, heads), and the store events it emitted -/
structure IStore where
  addr      : Nat
  acl       : Acl := {}
  store     : Store := {}
  published : List (Nat × List Nat) := []
  emitted   : List String := []
deriving Repr

inductive BusEv where
  | write (addr : Nat) (heads : List Nat)              -- stores.EventWrite{Address, Heads}
  | loadAdded (src : Nat) (time : Int)                 -- replicator.EventLoadAdded from store `src`'s replicator
  | loadEnd (src : Nat) (logs : List (OMap × OMap))    -- replicator.EventLoadEnd from store `src`'s replicator

/-- one store's listeners receive one bus event -/
def deliver (pinned : Bool) (s : IStore) : BusEv → IStore
  | .write addr heads =>
    if !pinned && addr != s.addr then s
    else { s with published := s.published ++ [(s.addr, heads)] }          -- handleEventWrite: Address = own
  | .loadAdded src time =>
    if !pinned && src != s.addr then s
    else { s with store := { s.store with status := recalcMax s.store.log.entries.length s.store.status time },
                  emitted := s.emitted ++ ["replicate"] }
  | .loadEnd src logs =>
    if !pinned && src != s.addr then s
    else { s with store := s.store.loadEnd s.acl logs, emitted := s.emitted ++ ["replicated"] }

/-- the bus hands an event to every store of the instance -/
def broadcast (pinned : Bool) (stores : List IStore) (ev : BusEv) : List IStore :=
  stores.map (fun s => deliver pinned s ev)

def BusEv.source : BusEv → Nat
  | .write a _ => a | .loadAdded a _ => a | .loadEnd a _ => a

end Orbit.Inst
