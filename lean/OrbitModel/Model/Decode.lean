import OrbitModel.Model.Store
/-!
# What `Sync` does with a decoded heads message   (C12)

`encoding/json` is not modelled: a byte string either fails to decode (the message is dropped by the
listener loop) or yields a list of heads each of which is `null` or an object with each of
identity / clock / hash present or absent. Nil dereferences of the Go code are explicit `panic`s here.
-/
namespace Orbit

/-- one decoded head -/
structure RawHead where
  isNull      : Bool := false
  hasIdentity : Bool := true
  hasClock    : Bool := true
  hasHash     : Bool := true
  entry       : Entry := default      -- the fields that are present
deriving Repr, Inhabited

def RawHead.complete (h : RawHead) : Bool := !h.isNull && h.hasIdentity && h.hasClock && h.hasHash

inductive SyncOutcome where
  | load (heads : List Entry)   -- pre-check passed: these heads are handed to the replicator
  | err                          -- hash mismatch: the whole Sync is refused
  | panic                        -- nil dereference
deriving Repr

/-- the **pinned** `Sync`: a decoded `null` is a typed nil pointer that `h == nil` does not catch;
`GetNext` dereferences it; `CanAppend` dereferences a missing identity; the encoder a missing clock. -/
def syncPinned (acl : Acl) : List RawHead → List Entry → SyncOutcome
  | [], acc => .load acc.reverse
  | h :: hs, acc =>
    if h.isNull then .panic
    else if !h.hasIdentity then .panic
    else if !acl.canAppendPinned h.entry then syncPinned acl hs (h.entry :: acc)
    else if !h.hasClock then .panic
    else if !h.entry.hashOk || !h.hasHash then .err
    else syncPinned acl hs (h.entry :: acc)

/-- `Sync` on heads that all carry this store's log id: null and incomplete heads, and heads the access
controller refuses, are skipped and not handed to the replicator -/
def syncHeads0 (acl : Acl) : List RawHead → List Entry → SyncOutcome
  | [], acc => .load acc.reverse
  | h :: hs, acc =>
    if !h.complete then syncHeads0 acl hs acc
    else if !acl.canAppend h.entry then syncHeads0 acl hs acc
    else if !h.entry.hashOk then .err
    else syncHeads0 acl hs (h.entry :: acc)

/-- a complete head written for another log, or not signed by the identity it names, is skipped
(whatever the other checks would say) -/
def ownLog (id : Nat) (h : RawHead) : Bool := !h.complete || (h.entry.logId == id && h.entry.sigOk)

/-- the repaired `Sync` of the store whose log has id `id`: as `syncHeads0`, after the heads written
for another log or carrying a bad signature have been skipped (skipping a head leaves the list built so far as it is, so it is
the same as not having received it) -/
def syncHeads (acl : Acl) (id : Nat) (hs : List RawHead) (acc : List Entry) : SyncOutcome :=
  syncHeads0 acl (hs.filter (ownLog id)) acc

/-- `Sync` before the repair of finding F21: a head written for another log (by a permitted writer)
was handed to the replicator, which counted it in the replication status before dropping it -/
def syncHeadsLoadsForeign (acl : Acl) (hs : List RawHead) (acc : List Entry) : SyncOutcome :=
  syncHeads0 acl hs acc

/-- `Sync` before the last repair (finding F18): a head the access controller refuses was "discarded"
but had already been put on the list handed to the replicator, which then fetched it -/
def syncHeadsLoadsRefused (acl : Acl) : List RawHead → List Entry → SyncOutcome
  | [], acc => .load acc.reverse
  | h :: hs, acc =>
    if !h.complete then syncHeadsLoadsRefused acl hs acc
    else if !acl.canAppend h.entry then syncHeadsLoadsRefused acl hs (h.entry :: acc)
    else if !h.entry.hashOk then .err
    else syncHeadsLoadsRefused acl hs (h.entry :: acc)

/-- a message as the listener loops see it -/
inductive Decoded where
  | undecodable
  | heads (hs : List RawHead)

/-- one iteration of the topic listener / direct-channel monitor: never propagates an error -/
def handleMessage (acl : Acl) (m : Decoded) (id : Nat := 1) : SyncOutcome :=
  match m with
  | .undecodable => .load []
  | .heads [] => .load []
  | .heads hs => syncHeads acl id hs []

/-- the listener loop itself: it handles the messages one after the other; `stopOnError` = the loop
leaves when handling a message reports an error (it does not, in the Go text of this run: tied by
`Gen.listenerExitsOnError`, regenerated from the loops' statements on every run). Returns the outcome
of every message that was handled. -/
def runListener (stopOnError : Bool) (acl : Acl) : List Decoded → List SyncOutcome
  | [] => []
  | m :: ms =>
    match handleMessage acl m with
    | .err => if stopOnError then [.err] else .err :: runListener stopOnError acl ms
    | o => o :: runListener stopOnError acl ms

end Orbit
