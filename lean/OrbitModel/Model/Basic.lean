/-!
# Basic types of the go-orbit-db model

Hashes are abstract (`Nat`): the k-th entry created in a scenario is hash k in both worlds.
Clock ids are ranks: the harness sorts the writers' public keys with `bytes.Compare` and tells the
driver each writer's rank, so `Nat` order here is byte order in Go.
Everything in this file is core-only so the driver links as an executable.
-/
namespace Orbit

/-- The parsed payload of an entry (`stores/operation`): `ParseOperation` of the JSON payload. -/
inductive Op where
  | put    (k : String) (v : String)            -- op "PUT", key present
  | del    (k : String)                          -- op "DEL", key present
  | add    (v : String)                          -- op "ADD", key nil (event log)
  | putAll (docs : List (String × String))       -- op "PUTALL", key = "" (document store batch)
  | other                                        -- any other op string / nil key: ignored by indices
deriving DecidableEq, Repr, Inhabited

/-- A log entry as the model sees it. `hash` is the abstract content address. -/
structure Entry where
  hash   : Nat
  logId  : Nat
  time   : Nat              -- Lamport time
  cid    : Nat              -- clock id (rank of the writer's public key in byte order)
  next   : List Nat
  refs   : List Nat := []
  op     : Op := .other
  ident  : Nat := 0         -- `identity.id` named by the entry
  key    : Nat := 0         -- public key the entry is signed with
  identOk : Bool := true    -- the identity block is the genuine one of `ident` (its key, signatures and type)
  sigOk  : Bool := true     -- `Entry.Verify`: signature verifies under `key`
  hashOk : Bool := true     -- claimed hash = hash of the content
deriving DecidableEq, Repr, Inhabited

/-- `sorting.LastWriteWins` as a strict "less than": time first, then clock id. With equal
(time, id) the Go comparator answers 1 both ways ("first wins"): excluded by `TieFree`. -/
def Entry.lt (a b : Entry) : Bool :=
  a.time < b.time || (a.time == b.time && a.cid < b.cid)

/-- An insertion-ordered map keyed by hash (`entry.OrderedMap`). -/
abbrev OMap := List Entry

def has (m : OMap) (h : Nat) : Bool := m.any (fun e => e.hash == h)
def get (m : OMap) (h : Nat) : Option Entry := m.find? (fun e => e.hash == h)
/-- `OrderedMap.Set`: keep position if the key exists (value identical under hash-determinism) -/
def set (m : OMap) (e : Entry) : OMap := if has m e.hash then m else m ++ [e]
def merge (a b : OMap) : OMap := b.foldl set a
def nexts (m : OMap) : List Nat := m.flatMap (fun e => e.next)
/-- `NewOrderedMapFromEntries` -/
def ofList (l : List Entry) : OMap := l.foldl set []

/-- outcome of an operation on the model -/
inductive Err where
  | ok | denied | sigFail | hashMismatch | notFound | closed | other | panic
deriving DecidableEq, Repr, Inhabited

def Err.toString : Err → String
  | .ok => "ok" | .denied => "denied" | .sigFail => "sigfail" | .hashMismatch => "hashmismatch"
  | .notFound => "notfound" | .closed => "closed" | .other => "other" | .panic => "panic"

instance : ToString Err := ⟨Err.toString⟩

end Orbit
