import OrbitModel.Model.Index
import OrbitModel.Model.Status
/-!
# BaseStore as a step function (`stores/basestore/base_store.go`)

`AddOperation`, `Sync` (pre-check), `replicationLoadComplete`, `Load`, with the cache writes and
the replication-status updates in the order the code performs them.
-/
namespace Orbit

inductive Kind where | kv | doc | log
deriving DecidableEq, Repr, Inhabited

/-- write list of the access controller: identity ids, or the wildcard -/
structure Acl where
  wildcard : Bool := false
  ids : List Nat := []
deriving Repr, Inhabited

/-- `CanAppend` of the ipfs/simple/orbitdb controllers: membership of `identity.id` in the write
list (or `*`), then `VerifyEntryAuthor` (after the `fix:` commit): the entry's key is the identity's
key and the identity block is genuine. (`VerifyIdentity` of the dependency returns nil.) -/
def Acl.canAppend (a : Acl) (e : Entry) : Bool :=
  (a.wildcard || a.ids.contains e.ident) && e.key == e.ident && e.identOk

/-- the pinned tree's `CanAppend` (finding F3): only the id named by the entry is looked at -/
def Acl.canAppendPinned (a : Acl) (e : Entry) : Bool := a.wildcard || a.ids.contains e.ident

structure Store where
  kind        : Kind := .kv
  log         : Log := Log.empty 1
  idx         : KV := []
  status      : Status := {}
  localHeads  : Option (List Nat) := none     -- cache key `_localHeads`
  remoteHeads : Option (List Nat) := none     -- cache key `_remoteHeads`
  tasks       : List Nat := []                -- hashes the replicator has ever queued
deriving Repr, Inhabited

/-- `updateIndex` as it was before the `fix:` commit of finding F45: the key-value and document indices
patched the map the previous update had left (it was never cleared) -/
def updateIndex0 (k : Kind) (idx : KV) (L : Log) : KV :=
  match k with
  | .kv => kvUpdate idx (values L)
  | .doc => docUpdate idx (values L)
  | .log => idx

/-- `updateIndex`: the key-value and document views are rebuilt, into a FRESH map, from what the log
lists now — whatever the previous view was (a `Load` with a limit trims a live log: the keys of the
trimmed entries must go). The event log has no map. -/
def updateIndex (k : Kind) (idx : KV) (L : Log) : KV :=
  match k with
  | .kv => kvUpdate [] (values L)
  | .doc => docUpdate [] (values L)
  | .log => idx

/-- `AddOperation` as it was before the `fix:` commit of finding F33: Append → status → put
`_localHeads := [e]` → update index (→ emit write). On a store whose log holds its cached local
heads this is what the current code does (`addOp_eq_addOp0`). -/
def Store.addOp0 (acl : Acl) (s : Store) (mk : Nat → List Nat → Entry) : Store × Except Err Entry :=
  match append acl.canAppend s.log mk with
  | (L', .error e) => ({ s with log := L' }, .error e)
  | (L', .ok e) =>
    let st := recalcStatus L'.entries.length s.status e.time
    ({ s with log := L', status := st, localHeads := some [e.hash], idx := updateIndex s.kind s.idx L' }, .ok e)

/-- the cached heads (`cached`) the (possibly partially loaded) log `L` has no entry for -/
def keptHeads (cached : Option (List Nat)) (L : Log) : List Nat :=
  (cached.getD []).filter (fun h => !has L.entries h)

/-- `AddOperation`: Append → status → put `_localHeads` → update index (→ emit write). The heads
written are the new entry followed by the cached local heads the log has no entry for: the new entry
names the heads of the log IN MEMORY, which covers the cached local head only if the log holds it —
a store opened with `Load(n)` or `LoadFromSnapshot` may not (finding F33). What the log holds is
looked at BEFORE the append (finding F49: a head that a `Load` still running merges between the append
and the look is held, yet the new entry does not name it). -/
def Store.addOp (acl : Acl) (s : Store) (mk : Nat → List Nat → Entry) : Store × Except Err Entry :=
  match s.addOp0 acl mk with
  | (s', .error e) => (s', .error e)
  | (s', .ok e) => ({ s' with localHeads := some (e.hash :: keptHeads s.localHeads s.log) }, .ok e)

/-- outcome of the per-head pre-check loop of `Sync` on heads that carry this log's id and a valid signature -/
def syncPrecheck0 (acl : Acl) : List Entry → Err
  | [] => .ok
  | h :: hs => if !acl.canAppend h then syncPrecheck0 acl hs
               else if !h.hashOk then .hashMismatch else syncPrecheck0 acl hs

/-- the pre-check loop of `Sync` of the store whose log has id `id` (after the `fix:` commits, findings
F21 and F22): a head written for another log, or not signed by the identity it names, is skipped
like one the access controller refuses — skipping changes nothing, so it is the same as not having
received it — and the rest goes through `syncPrecheck0` -/
def syncPrecheck (acl : Acl) (id : Nat) (heads : List Entry) : Err :=
  syncPrecheck0 acl (heads.filter (fun h => h.logId == id && h.sigOk))

/-- joins of `replicationLoadComplete`: each log in turn; a rejected log is skipped (after the
`fix:` commit — the pinned tree aborted at the first error, see `joinAllPinned`) -/
def joinAll (acl : Acl) (L : Log) : List (OMap × OMap) → Log
  | [] => L
  | (es, hs) :: rest =>
    match join acl.canAppend L es hs L.id with
    | .ok L' => joinAll acl L' rest
    | .error _ => joinAll acl L rest

/-- `replicationLoadComplete(logs)` as it was before the `fix:` commit of finding F26: join, update
the index, put the heads of the merged log as `_remoteHeads`, update the status. On a store whose
log holds everything its cache points to this is what the current code does (`loadEnd_eq_loadEnd0`). -/
def Store.loadEnd0 (acl : Acl) (s : Store) (logs : List (OMap × OMap)) : Store :=
  let L' := joinAll acl s.log logs
  let idx := updateIndex s.kind s.idx L'
  let heads := (sortedHeads L').map (·.hash)
  let len : Int := L'.entries.length
  let st := if len > s.status.progress then recalcStatus len s.status len else s.status
  { s with log := L', idx := idx, remoteHeads := some heads, status := st }

/-- `replicationLoadComplete(logs)`: join, update the index, put `_remoteHeads`, update the status.
The heads written are the heads of the merged log followed by the cached remote heads the log has no
entry for (a store loaded with a limit does not hold everything its cache points to: what it does
not hold must stay reachable from the cache — finding F26). -/
def Store.loadEnd (acl : Acl) (s : Store) (logs : List (OMap × OMap)) : Store :=
  let s' := s.loadEnd0 acl logs
  { s' with remoteHeads := some ((sortedHeads s'.log).map (·.hash) ++ keptHeads s.remoteHeads s'.log) }

/-- `replicationLoadComplete(logs)` when the Put of `_remoteHeads` fails (a device error): the logs are
joined and the view is refreshed — both precede the Put — and the function returns: the cache and
the status stay as they were, and no `replicated` event is emitted (nothing is reported, so nothing
is owed after a restart; the next successful round rewrites the cache). -/
def Store.loadEndPutFailed (acl : Acl) (s : Store) (logs : List (OMap × OMap)) : Store :=
  let L' := joinAll acl s.log logs
  { s with log := L', idx := updateIndex s.kind s.idx L' }

/-- joins of the **pinned** `replicationLoadComplete` (finding F6, repaired): abort on the first
error, keeping the joins already done -/
def joinAllPinned (acl : Acl) (L : Log) : List (OMap × OMap) → Log × Bool
  | [] => (L, true)
  | (es, hs) :: rest =>
    match join acl.canAppend L es hs L.id with
    | .ok L' => joinAllPinned acl L' rest
    | .error _ => (L, false)

/-- the pinned `replicationLoadComplete(logs)` -/
def Store.loadEndPinned (acl : Acl) (s : Store) (logs : List (OMap × OMap)) : Store × Bool :=
  match joinAllPinned acl s.log logs with
  | (L', false) => ({ s with log := L' }, false)
  | (L', true) =>
    let idx := updateIndex s.kind s.idx L'
    let heads := (sortedHeads L').map (·.hash)
    let len : Int := L'.entries.length
    let st := if len > s.status.progress then recalcStatus len s.status len else s.status
    ({ s with log := L', idx := idx, remoteHeads := some heads, status := st }, true)

end Orbit

namespace Orbit

/-- One head of `Load(amount)` as it was after the F11 repair and before the F30 one:
`NewFromEntryHash(head, length = amount)` gives a log over the fetched entries (heads = `FindHeads`),
which is joined with a trim only when the ESTIMATE `Len() + new entries` exceeds the amount. On a log
with holes the estimate is above what `Join` will list, and the trim panics (`loadHead0_panics_on_holes`). -/
def loadHead0 (acl : Acl) (fetch : Nat → OMap) (amount : Int) (L : Log) (h : Nat) : Except Err Log :=
  let l := logOfEntries L.id (fetch h)
  let merged : Int := L.entries.length + (l.entries.filter (fun e => !has L.entries e.hash)).length
  let size : Int := if amount > -1 && amount ≥ merged then -1 else amount
  match joinSize acl.canAppend L l.entries l.heads l.id size with
  | .ok L' => .ok L'
  | .error .panic => .error .panic
  | .error _ => .ok L            -- a failed join is ignored by `Load`

/-- One head of `Load(amount)` as it was after the F30 repair and before the F36 one (every fetched
entry handed to `Join`): the fetched log is joined
WITHOUT a trim; only when the merged log then LISTS more than `amount` entries is `Join(l, amount)`
called a second time. Joining the same log again finds nothing new, so that second call is modelled as
what is left of it: the trim of the listing to its last `amount` entries and the clock update
(assumption recorded in DESIGN §7: a `Join` that adds nothing leaves the heads as they are; provable
for logs that satisfy `Inv`, validated by the correspondence run on the others).
`fetch h` is the bounded Fetcher of go-ipfs-log (a parameter; contract in DESIGN §7). -/
def loadHead1 (acl : Acl) (fetch : Nat → OMap) (amount : Int) (L : Log) (h : Nat) : Except Err Log :=
  let l := logOfEntries L.id (fetch h)
  match joinSize acl.canAppend L l.entries l.heads l.id (-1) with
  | .ok L' =>
    if amount > -1 && (values L').length > amount then (trim L' amount.toNat).map bumpClock else .ok L'
  | .error .panic => .error .panic
  | .error _ => .ok L            -- a failed join is ignored by `Load`

/-- what `Load` keeps of a fetched log on a store that already holds a part of it: the entries the
log does NOT hold (after the `fix:` commit, finding F36). `Join` does not walk through held entries
(`difference` stops at them), so a fetched log whose head is held merged nothing of what lies below. -/
def missingFetch (L : Log) (fetch : Nat → OMap) (h : Nat) : OMap :=
  (fetch h).filter (fun e => !has L.entries e.hash)

/-- One head of `Load(amount)`: `loadHead1` over the fetched entries the log does not hold yet. On a
freshly opened store (the case of every restart) nothing is held and this is `loadHead1`
(`loadHead_empty`). -/
def loadHead (acl : Acl) (fetch : Nat → OMap) (amount : Int) (L : Log) (h : Nat) : Except Err Log :=
  loadHead1 acl (missingFetch L fetch) amount L h

/-- the pinned tree: `Join(l, amount)` whatever the sizes (finding F11) -/
def loadHeadPinned (acl : Acl) (fetch : Nat → OMap) (amount : Int) (L : Log) (h : Nat) : Except Err Log :=
  let l := logOfEntries L.id (fetch h)
  match joinSize acl.canAppend L l.entries l.heads l.id amount with
  | .ok L' => .ok L'
  | .error .panic => .error .panic
  | .error _ => .ok L

def loadHeadsWith (step : Log → Nat → Except Err Log) : Log → List Nat → Except Err Log
  | L, [] => .ok L
  | L, h :: hs => match step L h with
    | .ok L' => loadHeadsWith step L' hs
    | .error e => .error e

def loadHeads (acl : Acl) (fetch : Nat → OMap) (amount : Int) : Log → List Nat → Except Err Log :=
  loadHeadsWith (loadHead acl fetch amount)

/-- the `amount` normalisation of `Load`: `maxHistory` replaces a non-positive amount when set; a
non-positive amount then means "everything" (`-1`) -/
def loadAmount (amount : Int) (maxHistory : Option Int) : Int :=
  let a := if amount ≤ 0 then (match maxHistory with | some m => m | none => amount) else amount
  if a ≤ 0 then -1 else a

/-- what `Load` keeps of a fetched log: only the entries written for this log (after the `fix:`
commit, finding F27 — an entry of another log reached through a `refs` link was handed to `Join`,
which merges a foreign head without verifying it; the replicator has had the same filter since F4) -/
def ownFetch (id : Nat) (fetch : Nat → OMap) (h : Nat) : OMap := (fetch h).filter (fun e => e.logId == id)

/-- … and, of those, only the entries `Join` will accept (after the `fix:` commit, finding F29 — `Join`
refuses the WHOLE fetched log when one entry is refused by the access controller or badly signed, so a
valid entry whose ancestry holds a refused one, merged by the replicator, was gone after a restart) -/
def goodFetch1 (acl : Acl) (id : Nat) (fetch : Nat → OMap) (h : Nat) : OMap :=
  (ownFetch id fetch h).filter (acceptable acl.canAppend)

/-- … and only the entries whose address is the address of their content (after the `fix:` commit,
finding F46 — the decoder accepts every encoding of an entry and stamps it with the address it was
asked for: the same signed entry, written again with other bytes, was merged a second time under the
new address; `Sync` compared the re-encoded hash for announced heads only) -/
def goodFetch (acl : Acl) (id : Nat) (fetch : Nat → OMap) (h : Nat) : OMap :=
  (goodFetch1 acl id fetch h).filter (·.hashOk)

/-- `Load(amount)` on a freshly opened store: heads = cached local ++ remote heads, in that order
(the goroutines are serialised by `muJoining`; the order is an input). -/
def Store.load (acl : Acl) (s : Store) (fetch : Nat → OMap) (amount : Int) (maxHistory : Option Int := none) :
    Except Err Store :=
  let amount := loadAmount amount maxHistory
  let heads := (s.localHeads.getD []) ++ (s.remoteHeads.getD [])
  match loadHeads acl (goodFetch acl s.log.id fetch) amount s.log heads with
  | .error e => .error e
  | .ok L' =>
    let idx := if heads.isEmpty then s.idx else updateIndex s.kind s.idx L'
    let len : Int := L'.entries.length
    -- at rest: every fetched entry and every head went through recalculateReplicationStatus
    let st := if heads.isEmpty then s.status else { progress := len, max := len }
    .ok { s with log := L', idx := idx, status := st }

/-- `Load(amount)` with the check of the `fix:` commit of finding F32: a cached head whose block did not
come back from the fetcher (the context had ended, the block is unreachable) is an error, not an
empty contribution. `Store.load` is `Load` as it was before: the fetcher swallows its errors, and a
head that fetched nothing was silently skipped. -/
def Store.loadChecked (acl : Acl) (s : Store) (fetch : Nat → OMap) (amount : Int) (maxHistory : Option Int := none) :
    Except Err Store :=
  let heads := (s.localHeads.getD []) ++ (s.remoteHeads.getD [])
  if heads.any (fun h => !has (fetch h) h) then .error .notFound
  else s.load acl fetch amount maxHistory

/-- what a store holds after a `Load` that FAILED on a head (`loadChecked` = `.error .notFound`): the
goroutines of the heads that did come back have merged what they led to, and the view is rebuilt over
it before the error is returned (review of the F32 repair, `fix:` commit: it returned before
`updateIndex`, the log held the entries and `Get` answered nil). The cache is left as it is. -/
def Store.loadReadable (acl : Acl) (s : Store) (fetch : Nat → OMap) (amount : Int) : Store :=
  let back : Nat → Bool := fun h => has (fetch h) h
  let s' := { s with localHeads := s.localHeads.map (List.filter back), remoteHeads := s.remoteHeads.map (List.filter back) }
  match s'.load acl fetch amount with
  | .ok t => { t with localHeads := s.localHeads, remoteHeads := s.remoteHeads,
                      idx := updateIndex s.kind s.idx t.log }
  | .error _ => s

/-- the pinned `Load`: no normalisation of a zero amount, no size clamp -/
def Store.loadPinned (acl : Acl) (s : Store) (fetch : Nat → OMap) (amount : Int) : Except Err Store :=
  let heads := (s.localHeads.getD []) ++ (s.remoteHeads.getD [])
  match loadHeadsWith (loadHeadPinned acl fetch amount) s.log heads with
  | .error e => .error e
  | .ok L' => .ok { s with log := L', idx := if heads.isEmpty then s.idx else updateIndex s.kind s.idx L' }

/-- a restarted instance: same cache, everything else fresh -/
def Store.reopened (s : Store) : Store :=
  { kind := s.kind, log := Log.empty s.log.id, localHeads := s.localHeads, remoteHeads := s.remoteHeads }

end Orbit
