/-!
# The replicator as a transition system (`stores/replicator/replicator.go`, after the `fix:` commits)

Task table, FIFO queue, buffer of single-entry logs, semaphore, one worker per queued item (each
worker is bound to the item it was spawned for), the set of failed hashes retried by the next `Load`,
pending `LoadEnd` events, and the store's `replicationLoadComplete` (a rejected log is skipped).
A successful fetch is two steps, as in the Go text: `fetched` (buffer the log, queue what it names —
the task stays `fetching`, the slot stays held) and, possibly after moves of other workers including
the ones just spawned, `finish` (`processEntryDone`).
Scheduler choices — which worker moves, which fetch completes or fails, when a context is
cancelled, when the store handles a `LoadEnd` — are the actions. Hashes are `Nat`.
-/
namespace Orbit.Repl

inductive TS where | added | fetching | fetched
deriving DecidableEq, Repr

/-- where a worker is: waiting for a fetch slot; inside the fetch (slot held, task `fetching`);
after `processItems` and before `processEntryDone` (its log is buffered and the hashes it names are
queued; it still holds its slot, its task is still `fetching`, `taskInProgress` still counts it) -/
inductive PC where | waitSlot | fetching | finishing
deriving DecidableEq, Repr

/-- a worker goroutine: the context of the request that spawned it, the item it is bound to -/
structure Worker where
  ctx  : Nat
  item : Nat
  pc   : PC
deriving DecidableEq, Repr

/-- what the network knows about a hash: its links (`next ++ refs`), whether `Join` accepts the
entry (authorised author, valid signature), whether it was written for another log -/
structure Info where
  links   : List Nat
  valid   : Bool := true
  foreign : Bool := false

structure St where
  log        : List Nat := []            -- hashes in the store's oplog
  tasks      : List (Nat × TS) := []
  queue      : List Nat := []
  failed     : List Nat := []            -- fetches that were cancelled or failed: retried by the next Load
  buffer     : List Nat := []            -- fetched single-entry logs, completion order
  sem        : Nat := 2
  inProgress : Nat := 0
  workers    : List Worker := []
  cancelled  : List Nat := []
  pending    : List (List Nat) := []     -- LoadEnd batches not yet handled by the store main loop
deriving Repr

def task (s : St) (h : Nat) : Option TS := (s.tasks.find? (·.1 == h)).map (·.2)
def setTask (s : St) (h : Nat) (t : TS) : St :=
  { s with tasks := (h, t) :: s.tasks.filter (·.1 != h) }
def delTask (s : St) (h : Nat) : St := { s with tasks := s.tasks.filter (·.1 != h) }

/-- `AddEntryToQueue` / `AddHashToQueue` + spawn one worker bound to the new item and to `ctx` -/
def enqueue (ctx : Nat) (s : St) (h : Nat) : St :=
  if s.log.contains h || (task s h).isSome then s
  else { setTask s h .added with queue := s.queue ++ [h], workers := s.workers ++ [⟨ctx, h, .waitSlot⟩] }

/-- `isIdle` -/
def isIdle (s : St) : Bool :=
  if s.inProgress > 0 && s.queue.length > 0 then false
  else s.tasks.all (fun p => p.2 == .fetched)

/-- `idle()`: flush the buffer as a `LoadEnd` when there is something in it -/
def flush (s : St) : St :=
  if isIdle s && !s.buffer.isEmpty then { s with pending := s.pending ++ [s.buffer], buffer := [] } else s

/-- `processEntryDone` -/
def done (s : St) (h : Nat) : St :=
  let s := { setTask s h .fetched with inProgress := s.inProgress - 1 }
  { flush s with sem := (flush s).sem + 1 }

/-- `processEntryFailed`: forget the item, remember it for the next `Load` -/
def failedDone (s : St) (h : Nat) : St :=
  let s := { delTask s h with inProgress := s.inProgress - 1, failed := h :: s.failed }
  { flush s with sem := (flush s).sem + 1 }

inductive Act where
  | load (ctx : Nat) (hs : List Nat)   -- Load(ctx, heads): re-queue the failed hashes, queue the heads
  | cancel (ctx : Nat)
  | acquire (i : Nat)        -- worker i leaves waitForProcessSlot (with a slot, or failing if its ctx is done)
  | fetched (i : Nat)        -- worker i's fetch returns the requested entry: buffered, the hashes it names queued
  | finish (i : Nat)         -- worker i runs `processEntryDone`: task fetched, maybe flush, slot released
  | fetchFail (i : Nat)      -- worker i's fetch fails or is cancelled (the fetcher returns an empty log)
  | deliver                  -- the store main loop handles the oldest LoadEnd
deriving Repr

def removeAt {α : Type} (l : List α) (i : Nat) : List α := l.take i ++ l.drop (i+1)

/-- `replicationLoadComplete`: join one by one, skipping rejected logs -/
def joinBatch (net : Nat → Info) (log : List Nat) : List Nat → List Nat
  | [] => log
  | h :: hs => if (net h).valid && !log.contains h then joinBatch net (log ++ [h]) hs else joinBatch net log hs

def step (net : Nat → Info) (s : St) : Act → St
  | .load ctx hs =>
    let retry := s.failed
    let s := { s with failed := [] }
    (retry ++ hs).foldl (enqueue ctx) s
  | .cancel ctx => { s with cancelled := ctx :: s.cancelled }
  | .acquire i =>
    match s.workers[i]? with
    | some ⟨ctx, h, .waitSlot⟩ =>
      if s.cancelled.contains ctx then
        -- sem.Acquire fails: remove the item, forget the task, remember the hash, maybe flush
        let s := { delTask s h with workers := removeAt s.workers i, queue := s.queue.filter (· != h), failed := h :: s.failed }
        flush s
      else if s.sem = 0 then s
      else
        let s := { setTask s h .fetching with queue := s.queue.filter (· != h), sem := s.sem - 1, inProgress := s.inProgress + 1 }
        { s with workers := s.workers.set i ⟨ctx, h, .fetching⟩ }
    | _ => s
  | .fetched i =>
    -- `processHash` + the critical section of `processItems`, merged: between them the task is
    -- `fetching`, so nobody can flush the buffer
    match s.workers[i]? with
    | some ⟨ctx, h, .fetching⟩ =>
      if s.cancelled.contains ctx then s else
      let s := { s with workers := s.workers.set i ⟨ctx, h, .finishing⟩ }
      if (net h).foreign then s                  -- ignored: not buffered, links not followed
      else
        let s := { s with buffer := s.buffer ++ [h] }
        (net h).links.foldl (enqueue ctx) s
    | _ => s
  | .finish i =>
    -- `processEntryDone`; nothing looks at the context between `processItems` and here
    match s.workers[i]? with
    | some ⟨_, h, .finishing⟩ => done { s with workers := removeAt s.workers i } h
    | _ => s
  | .fetchFail i =>
    match s.workers[i]? with
    | some ⟨_, h, .fetching⟩ => failedDone { s with workers := removeAt s.workers i } h
    | _ => s
  | .deliver =>
    match s.pending with
    | [] => s
    | batch :: rest => { s with pending := rest, log := joinBatch net s.log batch }

def run (net : Nat → Info) (s : St) (acts : List Act) : St := acts.foldl (step net) s

/-- the deterministic scheduler used to state liveness: a worker that has queued its parents
finishes first; otherwise a fetching worker completes its fetch (successfully, or failing if its
context is cancelled); otherwise a waiting worker goes for a slot; otherwise the store handles a
pending LoadEnd. -/
def pickMove (s : St) : Option Act :=
  match s.workers.findIdx? (fun w => w.pc == .finishing) with
  | some i => some (.finish i)
  | none =>
    match s.workers.findIdx? (fun w => w.pc == .fetching) with
    | some i =>
      match s.workers[i]? with
      | some w => if s.cancelled.contains w.ctx then some (.fetchFail i) else some (.fetched i)
      | none => none
    | none =>
      match s.workers.findIdx? (fun w => w.pc == .waitSlot) with
      | some i => some (.acquire i)
      | none => if s.pending.isEmpty then none else some .deliver

/-- run the deterministic scheduler to quiescence (`fuel` bounds the number of moves) -/
def drain (net : Nat → Info) : Nat → St → St
  | 0, s => s
  | n+1, s => match pickMove s with
    | some a => drain net n (step net s a)
    | none => s

/-- nothing left to do: no worker, no pending LoadEnd -/
def quiescent (s : St) : Bool := s.workers.isEmpty && s.pending.isEmpty

end Orbit.Repl
