/-!
# The order of effects the models assume

Each model function performs the effects of a Go function in one fixed order. That order is a
modelling assumption about the code; it is written down here once and compared, on every run, with
the order regenerated from the Go text (`Generated/Gen.lean`, lemmas in `Proofs/GenEq.lean`).
-/
namespace Orbit.Order

/-- `BaseStore.AddOperation` (`Store.addOp`, `Model/Writers.lean`, `Model/ViewRace.lean`): under the
write mutex read the cached `_localHeads` (what the log does not hold of them — BEFORE the append: F49 — is kept: F33),
append to the log, raise the replication status right away (the entry is held from the
append on, whatever fails afterwards: C19) and persist the entry as `_localHeads`; then refresh the
view; only then emit the write event (C16: an event is never ahead of the state it announces; C17). -/
def addOperation : List String := ["lock", "prevheads", "append", "status", "headput", "index", "emit"]

/-- one cached head of `BaseStore.Load` (`Store.loadChecked`, `loadHead`, `missingFetch`, `goodFetch`): the
log is fetched; an ended context or a head that did not come back ends the load with an error (F32);
of the fetched entries only those of this log (F27) that the store does not hold yet (F36) and that
the access controller and the signature check accept (F29) and that sit at the address of their content (F46; the address is computed, not written: F64, F66) are kept; when a limit is set and what was left
out made the fetch keep too little, it is made again, longer - by what was left out, and at least twice as long (`Refetch.loopR`, `nextLen`: F57, F63, F67); they are merged WITHOUT a trim,
and the trim is asked for only once the listing is longer than the limit (F30); when a head has failed, the
view is rebuilt over what the others led to BEFORE the error is returned (`Store.loadReadable`, F61) -/
def loadJoin : List String := ["fetch", "ctxcheck", "headcheck", "ownlog", "held", "address", "addresserr", "addresscheck", "canappend", "verify", "enough", "again", "double", "merge", "listing", "trim", "headerr", "readable", "failed"]

/-- `events.handleSubscriber`, when its context ends (`BusClose`, `drain := true`): a goroutine keeps
reading the bus subscription, THEN `Close` is called, and only after it has returned is the reader
stopped — an emitter blocked on the full subscription holds the lock `Close` needs (F38) -/
def subscriberClose : List String := ["drain", "close", "stopdrain"]

/-- `replicator.processHash` (one fetched batch, `Repl` model + `goodFetch`): the fetch; the requested entry
must have come back (a fetch that brought nothing has FAILED: F8); every entry is of this log (F5) and
sits at the address of its content (F46) - the address is COMPUTED (`utils.EntryAddress`), nothing is
written, so the check cannot fail because of the node or the context (F64: such a failure was taken for the
verdict; then, F66: made an error, it let one unencodable block fail every Load); an entry without an
encoding is a verdict like a wrong address -; only then is the batch buffered for `Join` -/
def processHash : List String := ["fetch", "headcheck", "ownlog", "address", "addresserr", "addresscheck", "buffer"]

/-- `eventlogstore.Get`: the listing from the asked entry on, one entry long; BEFORE it answers, the entry
the listing handed back is compared with the one asked for - the listing skips an entry that is not an
operation and hands back the next one (`getOps_of_non_operation`, F69) -/
def logGet : List String := ["listing", "asked", "held", "answer"]

/-- `accesscontroller.VerifyEntryAuthor`: the entry is signed with the key of the identity it names; an
identity of another type is handed to its own provider, which answers for its signature scheme; only
THEN - for "orbitdb" identities, whose signatures are ECDSA - the canonical (low-S) form is required of
the entry's and the identity's signatures (F31), before the two identity signatures are verified.
(Review of F31: the low-S test came before the type test and refused every entry of an identity
whose signatures are not DER-encoded ECDSA, e.g. Ed25519.) -/
def verifyAuthor : List String := ["keymatch", "othertype", "provider", "lows", "idlows", "idsig", "keysig"]

/-- the document store's `Get` and `Query`: keys and values are read from ONE state of the view (the
map `UpdateIndex` swapped in last), not key list first and values one by one (F58) -/
def docRead : List String := ["onestate", "decode"]

/-- `eventlogstore.read`: the bound is looked up among ALL the entries (it may be one that is not an
operation), and the window collects, from there on, the entries whose payload is an operation (F48: the
listing used to end, silently, at the first entry that is not one) -/
def logQuery : List String := ["bound", "operations", "collect"]

/-- `oneonone` `monitorTopic` (`Connect.monitor`): a message read from the pairwise topic is handed on
only after the test that its sender is the peer the channel was opened for -/
def monitorTopic : List String := ["next", "fromtarget", "emit"]

/-- `pubsubcoreapi` `WatchMessages`: the subscription of the underlying pubsub is closed when the
goroutine that reads it ends (the `defer` precedes the read loop): the node leaves the topic with the
store (C18, C20) -/
def watchMessages : List String := ["subscribe", "close", "next"]

/-- `replicationLoadComplete` (`Store.loadEnd`): join every log of the batch, refresh the view, take
the heads of the MERGED log, persist them as `_remoteHeads`, then emit `replicated` (C05: what is
reported as replicated is already covered by the cached heads; C16). -/
def loadComplete : List String := ["join", "index", "heads", "headput", "emit"]

/-- `BaseStore.Close` (`Model/Lifecycle.lean`): the already-closed guard comes first, so that the
tear-down — which unregisters the store in its instance BY ADDRESS — runs at most once per handle; the
channels of the legacy API are ended with the store (F51); the main loop's subscription is closed BEFORE the
replicator is stopped (F55: a held-up main loop otherwise leaves an emitter blocked on the lock `Stop` needs). -/
def close : List String := ["guard", "cancel", "unregister", "releaseloop", "stop", "unsubscribe", "cacheclose"]

/-- one iteration of the loop of `BaseStore.Sync` (`syncHeads`): access check, local write of the
head, hash check, and only then the head is put on the list handed to the replicator. -/
def sync : List String := ["access", "write", "hashcheck", "loadable", "load"]

/-- `SaveSnapshot` (`Snap.saveRacing`): the three unlocked reads of the log, in the only order for
which a snapshot written while the log grows can be loaded. -/
def saveSnapshot : List String := ["heads", "len", "entries"]

/-- `LoadFromSnapshot` (`Snap.statusAfterLoad`, `goodFetch`): the log is rebuilt from the recorded heads —
fetched again, through every link — and, as in `Load`, only the entries of this log that the access
controller and the signature check accept are kept (F47); the
largest clock is taken over the entries of THAT log (not over every record of the file), the maximum
is raised, the log is joined, the view refreshed and the status brought up to date (C19). -/
def loadSnapshot : List String := ["rebuild", "ownlog", "held", "address", "addresscheck", "canappend", "verify", "count", "max", "join", "index", "status"]

/-- `oneonone.Connect` (`Connect.connectLocked`): the look-up of the peer, the `Subscribe` and the insert
happen under one hold of `muSubs` (the first `Unlock` in the text is the error path after `Subscribe`) -/
def connect : List String := ["lock", "subscribe", "unlock"]

/-- `oneonone.Connect`, the life of the per-peer channel: its context derives from the channels' own (not
from the caller's: every store of the instance shares the channel), the subscription is made under
it, and the subscription is closed when the monitor ends (F50) -/
def connectCtx : List String := ["chanctx", "subscribe", "leave"]

/-- `kvIndex.UpdateIndex` / `documentIndex.UpdateIndex` (`Model/ViewRace.lean`, `locked := true`): the
log is copied under the index lock. -/
def updateIndex : List String := ["lock", "copy"]

/-- `BaseStore.Load` (`Store.load`): the bytes cached under `_localHeads` are decoded into the local
heads, those under `_remoteHeads` into the remote heads, and the heads to load are the local ones
followed by the remote ones (C05: everything the cached heads cover comes back). -/
def loadDecodes : List (String × String) := [("localHeadsBytes", "localHeads"), ("remoteHeadsBytes", "remoteHeads")]
def loadHeads : String := "append(localHeads, remoteHeads...)"

end Orbit.Order
