/-!
# The legacy `GlobalChannel`   (C16, finding F41)

One channel shared by the callers, created under the context of the caller that finds none (contexts
are numbers; `ended` lists those that are over, `UnsubscribeAll` included). A channel is closed once
the context it was created under has ended.
-/
namespace Orbit.GlobalChan

structure St where
  /-- the context the current global channel was created under -/
  cur   : Option Nat := none
  ended : List Nat := []
deriving DecidableEq, Repr

/-- `GlobalChannel(ctx)`: the context the returned channel lives under. `renew := true` is the code
after the `fix:` commit: a channel whose context has ended is replaced. -/
def globalChannel (renew : Bool) (s : St) (ctx : Nat) : St × Nat :=
  match s.cur with
  | none => ({ s with cur := some ctx }, ctx)
  | some c => if renew && s.ended.contains c then ({ s with cur := some ctx }, ctx) else (s, c)

def «end» (s : St) (ctx : Nat) : St := { s with ended := ctx :: s.ended }

end Orbit.GlobalChan
