/-!
# Concurrent updates of a store's view   (C06 / C17, finding F19)

Every writer (and every replication batch) ends with `updateIndex`: copy the log, then — under the
index lock — rebuild the view from that copy. What the view reflects is abstracted to *how much of the
log the copy held* (`view = k` means "the replay of the first k entries": the indices are functions of
the log they are given, C06/C07). After the `fix:` commit the copy is taken under the lock
(`locked := true`: copy and write are one atomic step); before it the copy was taken first and any
number of other updates could run between the copy and the write.
-/
namespace Orbit.View

inductive PC where
  | start                  -- has not appended yet
  | appended (e : Nat)     -- its entry is in the log; about to update the view
  | copied (e k : Nat)     -- (pinned tree only) holds a copy of the first k entries, waiting for the lock
  | done (e : Nat)         -- returned
deriving DecidableEq, Repr

structure St where
  pcs    : List PC
  logLen : Nat := 0
  view   : Nat := 0        -- the view is the replay of the first `view` entries
deriving Repr

def init (n : Nat) : St := { pcs := List.replicate n .start }

def step (locked : Bool) (s : St) (i : Nat) : St :=
  match s.pcs[i]? with
  | some .start => { s with pcs := s.pcs.set i (.appended (s.logLen + 1)), logLen := s.logLen + 1 }
  | some (.appended e) =>
    if locked then { s with pcs := s.pcs.set i (.done e), view := s.logLen }
    else { s with pcs := s.pcs.set i (.copied e s.logLen) }
  | some (.copied e k) => { s with pcs := s.pcs.set i (.done e), view := k }
  | _ => s

def run (locked : Bool) (s : St) (sched : List Nat) : St := sched.foldl (step locked) s

def allDone (s : St) : Bool := s.pcs.all (fun pc => match pc with | .done _ => true | _ => false)

end Orbit.View
