/-!
# The legacy channel API: `events.EventEmitter.handleSubscriber`   (C16 ordering/losslessness, C18 shutdown)

Two goroutines serve one subscriber channel `cevent` of capacity `cap`:

* **G1** (forwarder) takes the next event from the bus subscription; under the lock, if the overflow
  queue is empty (and, after the `fix:` commit, nothing is in flight) it tries a non-blocking send to
  `cevent`; otherwise (or if the channel is full) it appends the event to the queue and signals.
  When the context ends it signals (after the fix: under the lock) and exits.
* **G2** (drainer) loops while the context is alive: under the lock, if the queue is empty it waits on
  the condition variable; else it removes the front of the queue (after the fix: marks it in flight),
  releases the lock, does a *blocking* send to `cevent`, and takes the lock again. When it leaves the
  loop it waits for G1 and closes `cevent`.

Scheduler choices are the actions. `pinned := true` gives the pinned tree's behaviour.
-/
namespace Orbit.Emit

/-- program counter of the drainer G2 -/
inductive G2 where
  | top                 -- about to take the lock and test `ctx.Err() == nil`
  | checked             -- holds the lock, saw a live context and an empty queue: about to `Wait()`
  | waiting             -- inside `Wait()` (lock released)
  | sending (e : Nat)   -- lock released, blocking send of `e` in progress
  | exited              -- left the loop (will close the channel once G1 is done)
deriving DecidableEq, Repr

structure St where
  cap       : Nat
  bus       : List Nat := []      -- emitted, not yet taken by G1 (FIFO)
  chan      : List Nat := []      -- `cevent`, oldest first
  queue     : List Nat := []      -- overflow queue
  g2        : G2 := .top
  g1done    : Bool := false
  cancelled : Bool := false
  closed    : Bool := false       -- `close(cevent)`
  delivered : List Nat := []      -- what the subscriber has received, in order
  emitted   : List Nat := []      -- everything emitted, in order
deriving Repr

inductive Act where
  | emit (e : Nat)      -- `Emit`: the bus hands the event to the subscription
  | g1                  -- G1 takes one step
  | g2                  -- G2 takes one step
  | recv                -- the subscriber receives from `cevent`
  | cancel              -- the subscriber's context ends
deriving Repr

/-- is something in flight (taken from the queue, not yet in the channel)? -/
def inflight (s : St) : Bool := match s.g2 with | .sending _ => true | _ => false

/-- does G2 currently hold the lock? (only in `checked`: every other lock section is one atomic step) -/
def g2HoldsLock (s : St) : Bool := s.g2 == .checked

def step (pinned : Bool) (s : St) : Act → St
  | .emit e => if s.cancelled then s else { s with bus := s.bus ++ [e], emitted := s.emitted ++ [e] }
  | .cancel => { s with cancelled := true }
  | .recv =>
    match s.chan with
    | e :: rest => { s with chan := rest, delivered := s.delivered ++ [e] }
    | [] => s
  | .g1 =>
    if s.g1done then s
    else if s.cancelled then
      -- `case <-ctx.Done()`: signal, return. After the fix the signal needs the lock.
      if !pinned && g2HoldsLock s then s                         -- blocked on the lock: no step
      else
        let g2' := if s.g2 == .waiting then G2.top else s.g2     -- a signal only reaches a goroutine inside Wait()
        { s with g1done := true, g2 := g2' }
    else
      match s.bus with
      | [] => s
      | e :: rest =>
        if g2HoldsLock s then s                                  -- needs the lock
        else
          let direct := s.queue.isEmpty && (pinned || !inflight s) && s.chan.length < s.cap
          if direct then { s with bus := rest, chan := s.chan ++ [e] }
          else
            let g2' := if s.g2 == .waiting then G2.top else s.g2 -- `Signal()` under the lock
            { s with bus := rest, queue := s.queue ++ [e], g2 := g2' }
  | .g2 =>
    match s.g2 with
    | .top =>
      if s.cancelled then { s with g2 := .exited }
      else match s.queue with
        | [] => { s with g2 := .checked }
        | e :: rest => { s with queue := rest, g2 := .sending e }
    | .checked => { s with g2 := .waiting }
    | .waiting => s
    | .sending e =>
      if s.cancelled then { s with g2 := .top }                  -- `case <-ctx.Done()` of the send
      else if s.chan.length < s.cap then { s with chan := s.chan ++ [e], g2 := .top }
      else s
    | .exited => if s.g1done && !s.closed then { s with closed := true } else s

def run (pinned : Bool) (s : St) (acts : List Act) : St := acts.foldl (step pinned) s

def init (cap : Nat) : St := { cap := cap }

/-- everything emitted and not yet delivered, in the order the subscriber will get it -/
def pipeline (s : St) : List Nat :=
  s.chan ++ (match s.g2 with | .sending e => [e] | _ => []) ++ s.queue ++ s.bus

end Orbit.Emit
