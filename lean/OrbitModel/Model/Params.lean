/-!
# Access controller parameters handed to `DetermineAddress` / `Create`   (C14, findings F54, F59, F68)

What `DetermineAddress` decides for one database when the caller left it open - the name recorded in the
parameters, the controller type, and, through the `ipfs` controller, the DEFAULT WRITER: the creator's own
id when no write list was given - is decided on the parameters value the call works on. `decide` is that
decision; `useShared` is the pinned tree (and the tree up to F59): the call works on the caller's value,
which comes back changed; `useCopy` is the repaired tree for the library's own parameters type: the call
works on a copy, the caller's value is returned as it was.
-/
namespace Orbit.Params

structure P where
  name  : String := ""
  type  : String := ""
  write : List String := []          -- [] = no write list given
deriving Repr, DecidableEq

/-- the values `DetermineAddress` (name, type) and the ipfs controller (default writer) fill in -/
def decide (creator dbName : String) (p : P) : P :=
  { name := if p.name == "" then dbName else p.name,
    type := if p.type == "" then "ipfs" else p.type,
    write := if p.write.isEmpty then [creator] else p.write }

/-- (what the database is made with, what the caller's value is afterwards) -/
def useShared (creator dbName : String) (p : P) : P × P := (decide creator dbName p, decide creator dbName p)

def useCopy (creator dbName : String) (p : P) : P × P := (decide creator dbName p, p)

/-- a caller handing ONE value to a sequence of calls (creator, database name): what each database is made with -/
def run (use : String → String → P → P × P) : P → List (String × String) → List P
  | _, [] => []
  | p, (c, n) :: rest => (use c n p).1 :: run use (use c n p).2 rest

end Orbit.Params
