import OrbitModel.Model.Path
/-!
# `Create` / `Open` decision logic of one OrbitDB instance (`baseorbitdb/orbitdb.go`)   (C14)

UNSURE / deliberately abstracted (nothing below is guessed silently):

* U1. **`Open` does NOT write the `_manifest` cache key.** Only `Create` calls
  `addManifestToCache`; neither `Open` nor `createStore` does (the JS reference implementation
  calls `_addManifestToCache` in `open()` -- from memory, not checked here). So here `Open` leaves
  `local` unchanged: after a successful non-local `Open` of a remote database, `haveLocalData` is
  still false and a later `LocalOnly` open is refused (`open_keeps_state`,
  `open_remote_then_localonly_refused`). The task description expected `local` to gain the address
  on `Open`; the code does not do that.
* U2. **`DetermineAddress` writes to IPFS before any refusal.** It creates and saves the access
  controller and the database manifest (`CreateDBManifest` -> `io.WriteCBOR`) and only then parses
  the address / checks that the name stays below the root; `Create` checks "already exists" after
  that. `options.OnlyHash` is set to true by default and never read. So a refused `Create` (escaping
  name, existing database) has already put the manifest block into `net`. Modelled as such.
* U3. One cache directory. `Create` checks and writes the `_manifest` key in the cache of
  `o.directory`, while `Open` looks in `options.Directory` when it is given; with a
  `Directory` option different from the instance's, `Create(..., LocalOnly)` writes the key in one
  cache and `Open` looks for it in another (refused "database doesn't exist"). `local` is the cache of
  `o.directory`: a `Directory` option given to `Create` changes nothing in this model (the address
  family passes one in a third of its creations: the second `Create` is still refused); `Open` is
  modelled without the option.
* U4. Access controller. Only the write list is kept; the controller type is the default `"ipfs"`
  and is registered; `SkipManifest` is false. (With `SkipManifest` in `Open`'s options
  `ResolveManifest` takes the controller *type and parameters from the caller's options* instead of
  the stored manifest; for a controller type whose `Load` ignores the address this lets the opener
  choose the write list. Out of the model.) The access-controller blocks are retrievable whenever
  the database manifest is: `Manifest.acl` stands for manifest -> AC manifest -> write list.
* U5. An empty write list is replaced by `[identity.ID]` in `NewIPFSAccessController` BEFORE the
  controller is hashed: the address then depends on the instance's identity (`St.self`, `effAcl`).
* U6. `Overwrite`: nil and false behave the same (`Bool`); `StoreType`: nil and `""` behave the same
  (`String`). Nothing is ever deleted by `Overwrite := true`: it only skips the refusal.
* U7. `Open` never compares the manifest's `name` with the address path, nor the manifest's type
  with `options.StoreType` (silently opens with the manifest's type). Modelled as such.
* U8. After `Create` wrote the key it calls `Open(dbAddress.String())`. If that string were not a
  valid address, Go would call `Create` again (unbounded recursion when `options.Create` is set).
  This cannot happen when manifest hashes are CIDs without `/` (`determine_parse_print`); the model
  returns `Err.diverges` there so that every function is total without fuel.
* U9. IPFS reads that time out, cache I/O errors, an already-open store for the same address
  (`setStore` overwrites the map entry, no check), and store-constructor errors are not modelled.
* U10. Spellings. `haveLocalData` looks into the cache found by `datastoreKey` (a cleaned path), so
  two spellings of one address (`/orbitdb/<r>/x`, `/orbitdb/<r>/./x`) share their local data, while
  the model's `local` is a list of parsed addresses compared field by field. The two agree on the
  addresses `DetermineAddress` answers and on their printed forms (what `Create` and every honest
  caller use); for other spellings only the non-local-only `Open` is compared with the code.
-/
namespace Orbit.OC
open Orbit.Path

/-- `utils.Manifest` with the access controller resolved to its write list -/
structure Manifest where
  name : String
  type : String
  acl  : List String
deriving DecidableEq, Repr

inductive Err where
  | invalidType    -- `DetermineAddress`: "invalid database type"
  | nameIsAddress  -- "given database name is an address, give only the name of the database"
  | badName        -- the joined path does not parse / "does not stay below the database root"
  | exists         -- `Create`: "database %s already exists"
  | createFalse    -- `Open`: "'options.Create' set to 'false'..."
  | noType         -- `Open`: "database type not provided!"
  | notLocal       -- `Open`: "database doesn't exist: %s"
  | noManifest     -- `Open`: "unable to fetch database manifest"
  | nameMismatch   -- `Open`: "manifest '%s' cannot be opened as '%s'" (after the `fix:` commit, finding F52)
  | unsupported    -- `createStore`: "store type %s is not supported"
  | diverges       -- unreachable (U8)
deriving DecidableEq, Repr, Inhabited

/-- one OrbitDB instance -/
structure St where
  /-- `Identity().ID` -/
  self  : String
  /-- registered store types (`RegisterStoreType`) -/
  types : List String
  /-- databases whose cache holds the `_manifest` key (`haveLocalData`) -/
  «local» : List Addr
  /-- manifests retrievable from IPFS, by root hash; the first match is what is read -/
  net   : List (String × Manifest)
deriving DecidableEq, Repr

/-- the part of `CreateDBOptions` the decisions depend on (Go defaults) -/
structure Opts where
  localOnly : Bool := false
  create    : Bool := false
  storeType : String := ""
  overwrite : Bool := false
  /-- `AccessController` write list -/
  acl       : List String := []
deriving DecidableEq, Repr

/-- address, store type, write list of the store handed back -/
abbrev Out := Addr × String × List String

/-- `NewIPFSAccessController`: no writer given = only myself -/
def effAcl (self : String) (acl : List String) : List String := if acl.isEmpty then [self] else acl

/-- `io.ReadCBOR(root)` + decode -/
def fetch (net : List (String × Manifest)) (root : String) : Option Manifest := net.lookup root

/-- `haveLocalData` -/
def haveLocal (s : St) (a : Addr) : Bool := s.local.contains a

/-- `addManifestToCache` (a `Put` of the same key twice is one key) -/
def addLocal (s : St) (a : Addr) : St :=
  { s with «local» := if s.local.contains a then s.local else a :: s.local }

/-- `CreateDBManifest`: the block is written under its hash -/
def putNet (s : St) (h : String) (m : Manifest) : St := { s with net := (h, m) :: s.net }

section
variable (isCid : String → Bool) (H : String → String → List String → String)

/-- `DetermineAddress(name, storeType, {AccessController})`, in the order of the Go code: store
type registered; name not an address; access controller + manifest SAVED; then the joined path
must parse and keep the manifest hash as its root (`Path.determine`). -/
def determineAddr (s : St) (name ty : String) (acl : List String) : Except Err Addr × St :=
  if !s.types.contains ty then (.error .invalidType, s) else
  if isAddress isCid name then (.error .nameIsAddress, s) else
  let wl := effAcl s.self acl
  let h := H name ty wl
  let s1 := putNet s h ⟨name, ty, wl⟩
  match determine isCid h name with
  | some a => (.ok a, s1)
  | none => (.error .badName, s1)

/-- `Open` once the address has parsed: local-only check, manifest fetch, `createStore`.
The state is returned unchanged; `open` records the database afterwards (`record`). -/
def openValid (s : St) (a : Addr) (o : Opts) : Except Err Out × St :=
  if o.localOnly && !haveLocal s a then (.error .notLocal, s) else
  match fetch s.net a.root with
  | none => (.error .noManifest, s)
  | some m =>
    if !s.types.contains m.type then (.error .unsupported, s) else (.ok (a, m.type, m.acl), s)

/-- `Create(name, storeType, options)` -/
def create (s : St) (name ty : String) (o : Opts) : Except Err Out × St :=
  match determineAddr isCid H s name ty o.acl with
  | (.error e, s1) => (.error e, s1)
  | (.ok a, s1) =>
    if haveLocal s1 a && !o.overwrite then (.error .exists, s1) else
    let s2 := addLocal s1 a
    -- `return o.Open(ctx, dbAddress.String(), options)`
    match parse isCid (print a) with
    | some a' => openValid s2 a' o
    | none =>   -- U8: unreachable for well-formed hashes
      if !o.create then (.error .createFalse, s2)
      else if o.storeType == "" then (.error .noType, s2)
      else (.error .diverges, s2)

/-- the address names the database its manifest describes: the address rebuilt from the root and the
NAME recorded in the manifest prints as the address that is being opened -/
def named (a : Addr) (m : Manifest) : Bool :=
  match parse isCid (joinAddr a.root m.name) with
  | some a' => print a' == print a
  | none => false

/-- a store that came back from `Open` is recorded as existing locally (`addManifestToCache`, after the
`fix:` commit, finding F53: only `Create` used to record it — a database obtained through `Open`,
however fully replicated, was unknown to a later local-only `Open` and could be "created" again
without overwrite) -/
def record (a : Addr) (r : Except Err Out × St) : Except Err Out × St :=
  match r.1 with
  | .ok _ => (r.1, addLocal r.2 a)
  | .error _ => r

/-- the address as the cache key spells it: printed (that cleans the path) and parsed again (U10: the
code finds a local copy by the cleaned key, whatever spelling the caller used) -/
def canon (a : Addr) : Addr := (parse isCid (print a)).getD a

/-- `Open(dbAddress, options)`. After the local-only refusal and the manifest fetch (`openValid` has
both) an address whose path is not the name recorded in the manifest is refused (after the `fix:`
commit, finding F52: `/orbitdb/<root>/anything` opened as a database of its own — its own log id,
cache and topic — built from the manifest of the database really named by `<root>`). -/
def «open» (s : St) (addr : String) (o : Opts) : Except Err Out × St :=
  match parse isCid addr with
  | some a =>
    match fetch s.net a.root with
    | some m =>
      if !(o.localOnly && !haveLocal s a) && !named isCid a m then (.error .nameMismatch, s)
      else record (canon isCid a) (openValid s a o)
    | none => record (canon isCid a) (openValid s a o)
  | none =>
    if !o.create then (.error .createFalse, s)
    else if o.storeType == "" then (.error .noType, s)
    else create isCid H s addr o.storeType { o with overwrite := true }

/-- `Create(name, type, acl, overwrite)` with every other option at its default -/
def createDB (s : St) (name ty : String) (acl : List String) (overwrite : Bool) : Except Err Out × St :=
  create isCid H s name ty { acl := acl, overwrite := overwrite }

/-- `Open(addr, localOnly, create, storeType, overwrite)` with the default access controller -/
def openDB (s : St) (addr : String) (localOnly create : Bool) (storeType : String) (overwrite : Bool) :
    Except Err Out × St :=
  «open» isCid H s addr
    { localOnly := localOnly, create := create, storeType := storeType, overwrite := overwrite }

end

end Orbit.OC
