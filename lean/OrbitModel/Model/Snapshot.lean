import OrbitModel.Model.Store
/-!
# Snapshots (`stores/basestore/utils.go` SaveSnapshot, `base_store.go` LoadFromSnapshot)   (C13)

A snapshot is a byte stream: a header record then one record per entry of the log (insertion
order), each `u16 big-endian length ++ bytes`, then a trailing 0. The header carries the log id, the
heads (as full entries) and the number of entries. Loading reads the header, then `size` records,
builds a log from them with the header's heads and joins it into the (fresh) store's log.
Serialisation of one entry to bytes (`encoding/json`) is a parameter `ser` with a left inverse `de`.
-/
namespace Orbit.Snap

def maxRec : Nat := 65535

def u16 (n : Nat) : List Nat := [(n / 256) % 256, n % 256]

/-- after the `fix:` commit: refuse a record that does not fit the 16-bit length -/
def encodeRec (r : List Nat) : Option (List Nat) :=
  if r.length > maxRec then none else some (u16 r.length ++ r)

/-- the pinned tree wrote the length modulo 65536 (finding F9a) -/
def encodeRecPinned (r : List Nat) : List Nat := u16 (r.length % 65536) ++ r

def encodeRecs : List (List Nat) → Option (List Nat)
  | [] => some []
  | r :: rs => match encodeRec r, encodeRecs rs with
    | some a, some b => some (a ++ b)
    | _, _ => none

def encodeRecsPinned (rs : List (List Nat)) : List Nat := rs.flatMap encodeRecPinned

/-- read `n` records -/
def decodeRecs : Nat → List Nat → Option (List (List Nat) × List Nat)
  | 0, bs => some ([], bs)
  | n+1, hi :: lo :: rest =>
    let len := hi * 256 + lo
    if rest.length < len then none else
    match decodeRecs n (rest.drop len) with
    | some (rs, tl) => some (rest.take len :: rs, tl)
    | none => none
  | _+1, _ => none

/-- what a snapshot stores of a log -/
structure Image where
  id      : Nat
  heads   : List Entry
  entries : List Entry
deriving Repr

def imageOf (L : Log) : Image := { id := L.id, heads := sortedHeads L, entries := L.entries }

/-- `SaveSnapshot`: header record + one record per entry + trailing zero; `none` = an error is returned -/
def save (ser : Entry → List Nat) (serHeader : Image → List Nat) (L : Log) : Option (List Nat) :=
  let img := imageOf L
  match encodeRecs (serHeader img :: img.entries.map ser) with
  | some bs => some (bs ++ [0])
  | none => none

/-- `LoadFromSnapshot` into a fresh log: decode, rebuild the log with the header's heads, join -/
def load (acl : Acl) (de : List Nat → Option Entry) (deHeader : List Nat → Option (Nat × List Entry × Nat))
    (bs : List Nat) : Option Log :=
  match decodeRecs 1 bs with
  | some ([h], rest) =>
    match deHeader h with
    | some (id, heads, size) =>
      match decodeRecs size rest with
      | some (recs, _) =>
        match recs.mapM de with
        | some es =>
          match join acl.canAppend (Log.empty id) (ofList es) (ofList heads) id with
          | .ok L => some L
          | .error _ => none
        | none => none
      | none => none
    | none => none
  | _ => none

/-- `LoadFromSnapshot` **as the Go port performs it**: the header and every record are decoded (a
record that does not decode fails the load), but the decoded entries are NOT what the log is built
from — `ipfslog.NewFromJSON` ignores `LogOptions.Entries` and fetches everything reachable from the
recorded heads out of IPFS (`fetchAll heads`; on the node that saved the snapshot these are its own
blocks). `load` above builds the log from the records; the two agree whenever the fetcher returns
what was recorded (`Proofs/SnapshotFetch.lean`), which is how the theorems about `load` carry over. -/
def loadFetching (acl : Acl) (de : List Nat → Option Entry) (deHeader : List Nat → Option (Nat × List Entry × Nat))
    (fetchAll : List Entry → List Entry) (bs : List Nat) : Option Log :=
  match decodeRecs 1 bs with
  | some ([h], rest) =>
    match deHeader h with
    | some (id, heads, size) =>
      match decodeRecs size rest with
      | some (recs, _) =>
        match recs.mapM de with
        | some _ =>
          match join acl.canAppend (Log.empty id) (ofList (fetchAll heads)) (ofList heads) id with
          | .ok L => some L
          | .error _ => none
        | none => none
      | none => none
    | none => none
  | _ => none

/-! ### the replication status of the fresh store after `LoadFromSnapshot` -/

/-- the largest clock time of a list of entries (0 for none) -/
def maxClockOf (es : List Entry) : Int := es.foldl (fun m e => if m < (e.time : Int) then (e.time : Int) else m) 0

/-- `LoadFromSnapshot` on a fresh store (status 0/0, empty log), in the order of the Go code: the
largest clock over `counted` raises the maximum while the store's log is still empty; then the
rebuilt log `L` is joined and `recalculateReplicationStatus` runs with the same argument.
`counted` is what the clock is taken over: the entries of the rebuilt log after the `fix:` commit
(finding F23), every record read from the file before it. -/
def statusAfterLoad (counted : List Entry) (L : Log) : Status :=
  let mc := maxClockOf counted
  recalcStatus L.entries.length (recalcMax 0 {} mc) mc

/-! ### `SaveSnapshot` takes no lock: its three reads of the log may see three different states -/

/-- the header `SaveSnapshot` builds when `oplog.Heads()` is read in state `L1` and `oplog.Len()`
in state `L2` (the `Image`'s `entries` only serve as the header's `Size`: their number) -/
def racingImage (L1 L2 : Log) : Image := { id := L1.id, heads := sortedHeads L1, entries := L2.entries }

/-- `SaveSnapshot` racing with appends/joins, in the order of the Go code: heads from `L1`
(`oplog.Heads()`), then the header's `Size` from `L2` (`oplog.Len()`), then one record per entry of
`L3` (`oplog.GetEntries()`), then the trailing 0. -/
def saveRacing (ser : Entry → List Nat) (serHeader : Image → List Nat) (L1 L2 L3 : Log) :
    Option (List Nat) :=
  match encodeRecs (serHeader (racingImage L1 L2) :: L3.entries.map ser) with
  | some bs => some (bs ++ [0])
  | none => none

/-- a "tidied-up" `SaveSnapshot` that reads the entries FIRST (`L1`), then the heads (`L2`), then
the size (`L3`): header = (id, heads of `L2`, |`L3`|), records = entries of `L1`. -/
def saveRacingReordered (ser : Entry → List Nat) (serHeader : Image → List Nat) (L1 L2 L3 : Log) :
    Option (List Nat) :=
  match encodeRecs (serHeader (racingImage L2 L3) :: L1.entries.map ser) with
  | some bs => some (bs ++ [0])
  | none => none

end Orbit.Snap
