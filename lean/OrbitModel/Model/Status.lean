/-!
# Replication status arithmetic (`recalculateReplicationMax/Progress/Status`)

Hand-written form; `Generated/Status.lean` is regenerated from the Go text on every run and proved
equal to this in `Proofs/StatusGen.lean`.
-/
namespace Orbit

structure Status where
  progress : Int := 0
  max      : Int := 0
deriving DecidableEq, Repr, Inhabited

/-- `recalculateReplicationMax(arg)` with `len = OpLog().Len()`: the largest of the argument, the
log length and the recorded maximum (after the `fix:` commit; see `recalcMaxPinned`). -/
def recalcMax (len : Int) (s : Status) (arg : Int) : Status :=
  let m := if len > arg then len else arg
  { s with max := if s.max > m then s.max else m }

/-- the pinned tree's version (finding F15): the recorded maximum is ignored whenever `len > arg` -/
def recalcMaxPinned (len : Int) (s : Status) (arg : Int) : Status :=
  { s with max := if len > arg then len else if s.max > arg then s.max else arg }

/-- `recalculateReplicationProgress()` -/
def recalcProgress (len : Int) (s : Status) : Status :=
  let m := s.max
  let m := if s.progress + 1 < m then s.progress + 1 else m
  let m := if len > m then len else m
  { s with progress := m }

/-- `recalculateReplicationStatus(arg)` -/
def recalcStatus (len : Int) (s : Status) (arg : Int) : Status :=
  recalcProgress len (recalcMax len s arg)

end Orbit
