import OrbitModel.Model.Store
/-!
# Persistence effects, crash = prefix, recovery = Load   (C05)

An execution of a store emits an ordered trace of effects: block writes (local appends write the
entry's block inside `Append`; the replicator writes a block when it has fetched it), cache writes
(`_localHeads` in `AddOperation`, `_remoteHeads` in `replicationLoadComplete`), and the two
*acknowledgement markers* the property speaks about (a write call returning, a `replicated` event).
Each effect is assumed durable and atomic once its call returns. A crash keeps a prefix of the trace.
-/
namespace Orbit

inductive Eff where
  | block       (h : Nat)            -- the block of entry `h` is written to the local block store
  | cacheLocal  (hs : List Nat)      -- cache.Put("_localHeads", hs)
  | cacheRemote (hs : List Nat)      -- cache.Put("_remoteHeads", hs)
  | ack         (h : Nat)            -- marker: the write call that created `h` returned success
  | replicated  (hs : List Nat)      -- marker: a `replicated` event was emitted for these entries
deriving DecidableEq, Repr

/-- what survives on disk -/
structure Disk where
  blocks : List Nat := []
  lheads : List Nat := []
  rheads : List Nat := []
deriving Repr

def Disk.apply (d : Disk) : Eff → Disk
  | .block h => { d with blocks := h :: d.blocks }
  | .cacheLocal hs => { d with lheads := hs }
  | .cacheRemote hs => { d with rheads := hs }
  | .ack _ => d
  | .replicated _ => d

def diskOf (tr : List Eff) : Disk := tr.foldl Disk.apply {}

/-- the effects of one store operation, in the order the code performs them -/
inductive SOp where
  | write (e : Entry)                         -- AddOperation creating `e`
  | fetched (e : Entry)                       -- the replicator fetched the block of `e`
  | merged (batch : List Entry) (heads : List Nat)  -- replicationLoadComplete: `batch` = entries of the logs it joined (`joinedEntries`); the log's heads are now `heads`

def SOp.effects : SOp → List Eff
  | .write e => [.block e.hash, .cacheLocal [e.hash], .ack e.hash]
  | .fetched e => [.block e.hash]
  | .merged batch heads => [.cacheRemote heads, .replicated (batch.map (·.hash))]

/-- the entries `replicationLoadComplete` reports in its `replicated` event:
`entries = append(entries, log.GetEntries()...)` is executed only for the logs whose `Join`
succeeded (a rejected log is skipped before it), each log being joined into the result of the
accepted joins before it -/
def joinedEntries (acl : Acl) (L : Log) : List (OMap × OMap) → List Entry
  | [] => []
  | (es, hs) :: rest =>
    match join acl.canAppend L es hs L.id with
    | .ok L' => es ++ joinedEntries acl L' rest
    | .error _ => joinedEntries acl L rest

/-- hashes reachable from `roots` through `next` links among entries of `U` whose block is on disk
(what `Load(-1)` rebuilds: `NewFromEntryHash` per cached head, then `Join`). Fuel = number of blocks. -/
def reach (U : List Entry) (blocks : List Nat) : Nat → List Nat → List Nat → List Nat
  | 0, _, acc => acc
  | _+1, [], acc => acc
  | f+1, h :: rest, acc =>
    if acc.contains h || !blocks.contains h then reach U blocks f rest acc
    else match U.find? (fun e => e.hash == h) with
      | none => reach U blocks f rest acc
      | some e => reach U blocks f (e.next ++ rest) (h :: acc)

def recover (U : List Entry) (d : Disk) : List Nat :=
  reach U d.blocks (d.blocks.length + (U.flatMap (·.next)).length + d.lheads.length + d.rheads.length + 1) (d.lheads ++ d.rheads) []

end Orbit
