import OrbitModel.Proofs.DiffAll
import OrbitModel.Proofs.SnapshotCodec
import OrbitModel.Proofs.LogReach
import OrbitModel.Proofs.Covers
/-!
# `SaveSnapshot` then `LoadFromSnapshot` gives the log back   (C13)

`save` writes the header (id, sorted heads, number of entries) and one record per entry;
`load` decodes them, rebuilds the incoming log with the header's heads and joins it into a fresh log.
For a `Good` log whose entries are all acceptable to the access controller and carry the log id, the
loaded log holds exactly the same entries, so `Values()` and the sorted heads agree (`save_load`).
Records are in `SnapshotCodec.lean` (round trip, and finding F9a: the pinned encoder wraps at 65536).
-/
namespace Orbit.Snap

/-! ### The byte level: what `save` writes, `load` reads back -/

theorem mapM_de_ser {ser : Entry → List Nat} {de : List Nat → Option Entry} :
    ∀ (es : List Entry), (∀ e ∈ es, de (ser e) = some e) → (es.map ser).mapM de = some es := by
  intro es
  induction es with
  | nil => intro _; rfl
  | cons e es ih =>
    intro h
    rw [List.map_cons, List.mapM_cons, h e List.mem_cons_self,
      ih (fun x hx => h x (List.mem_cons_of_mem _ hx))]
    rfl

/-- what a successful `save` wrote -/
theorem save_some {ser : Entry → List Nat} {serHeader : Image → List Nat} {L : Log} {bs : List Nat}
    (h : save ser serHeader L = some bs) :
    ∃ a b, encodeRec (serHeader (imageOf L)) = some a ∧ encodeRecs (L.entries.map ser) = some b ∧
      bs = a ++ (b ++ [0]) := by
  unfold save at h
  simp only at h
  split at h
  · rename_i bs0 henc
    injection h with h
    obtain ⟨a, b, ha, hb, rfl⟩ := encodeRecs_cons_some henc
    exact ⟨a, b, ha, hb, by rw [← h, List.append_assoc]⟩
  · cases h

/-- **`save` returns an error exactly when the header or some entry exceeds 65535 bytes** -/
theorem save_none_iff (ser : Entry → List Nat) (serHeader : Image → List Nat) (L : Log) :
    save ser serHeader L = none ↔
      65535 < (serHeader (imageOf L)).length ∨ ∃ e ∈ L.entries, 65535 < (ser e).length := by
  have hiff := encodeRecs_none_iff (serHeader (imageOf L) :: (imageOf L).entries.map ser)
  have hsave : save ser serHeader L = none ↔
      encodeRecs (serHeader (imageOf L) :: (imageOf L).entries.map ser) = none := by
    unfold save
    simp only
    split <;> simp_all
  rw [hsave, hiff]
  simp only [List.mem_cons, List.mem_map, imageOf]
  constructor
  · rintro ⟨r, (rfl | ⟨e, he, rfl⟩), hlt⟩
    · exact Or.inl hlt
    · exact Or.inr ⟨e, he, hlt⟩
  · rintro (hlt | ⟨e, he, hlt⟩)
    · exact ⟨_, Or.inl rfl, hlt⟩
    · exact ⟨_, Or.inr ⟨e, he, rfl⟩, hlt⟩

/-- reading the header record -/
theorem decode_header {r a : List Nat} (ha : encodeRec r = some a) (tl : List Nat) :
    decodeRecs 1 (a ++ tl) = some ([r], tl) := by
  obtain ⟨hr, rfl⟩ := encodeRec_some ha
  have := decodeRecs_succ 0 r tl hr
  rw [this]
  rfl

/-- `load` of a saved snapshot is the join of the saved entries (with the saved heads) into the
empty log -/
theorem load_save {acl : Acl} {ser : Entry → List Nat} {serHeader : Image → List Nat}
    {de : List Nat → Option Entry} {deHeader : List Nat → Option (Nat × List Entry × Nat)}
    {L : Log} {bs : List Nat}
    (hde : ∀ e ∈ L.entries, de (ser e) = some e)
    (hdh : deHeader (serHeader (imageOf L)) = some (L.id, sortedHeads L, L.entries.length))
    (hs : save ser serHeader L = some bs) :
    load acl de deHeader bs =
      match join acl.canAppend (Log.empty L.id) (ofList L.entries) (ofList (sortedHeads L)) L.id with
      | .ok L' => some L'
      | .error _ => none := by
  obtain ⟨a, b, ha, hb, rfl⟩ := save_some hs
  have h1 := decode_header ha (b ++ [0])
  have h2 := records_roundtrip (L.entries.map ser) b [0] hb
  rw [List.length_map] at h2
  have h3 := mapM_de_ser L.entries hde
  unfold load
  simp only [h1, hdh, h2, h3]
  cases join acl.canAppend (Log.empty L.id) (ofList L.entries) (ofList (sortedHeads L)) L.id <;> rfl

/-! ### The log level: re-joining a good log into the empty log gives its entries back -/

theorem mem_sortedHeads {L : Log} {e : Entry} : e ∈ sortedHeads L ↔ e ∈ L.heads := by
  unfold sortedHeads
  exact Trav.mem_sortDesc _ _ _

/-- the incoming log rebuilt by `load` is honest -/
theorem rebuilt_honest {U : List Entry} (hU : HashDet U) {L : Log} (hI : Inv U L) :
    Honest U (ofList L.entries) (ofList (sortedHeads L)) := by
  constructor
  · intro e he
    exact hI.sub e (mem_of_mem_ofList he)
  · intro e he
    have h1 : e ∈ L.heads := mem_sortedHeads.mp (mem_of_mem_ofList he)
    exact (mem_ofList hU hI.sub e).mpr ((hI.heads e).mp h1).1

/-- ... and covered by its heads -/
theorem rebuilt_covered {U : List Entry} (hU : HashDet U) (hM : ClockMono U) {L : Log} (hI : Inv U L) :
    CoveredBy (asLog (ofList L.entries)) ((ofList (sortedHeads L)).map (·.hash)) := by
  have hHU : ∀ e ∈ sortedHeads L, e ∈ U := fun e he =>
    hI.sub e ((hI.heads e).mp (mem_sortedHeads.mp he)).1
  intro x hx
  have hxL : x ∈ L.entries := mem_of_mem_ofList hx
  obtain ⟨h, hh, d⟩ := sortedHeads_cover hM hI x hxL
  obtain ⟨e, he, rfl⟩ := List.mem_map.mp hh
  refine ⟨e.hash, List.mem_map.mpr ⟨e, (mem_ofList hU hHU e).mpr he, rfl⟩, ?_⟩
  exact d.mono (L' := asLog (ofList L.entries)) (fun y hy => (mem_ofList hU hI.sub y).mpr hy)

/-- **re-joining a good, acceptable log into the empty log of its id succeeds and gives a log with
the same entries that satisfies the invariants** -/
theorem rejoin {U : List Entry} (hU : HashDet U) (hM : ClockMono U) {canAppend : Entry → Bool}
    {L : Log} (hG : Good U L)
    (hacc : ∀ e ∈ L.entries, canAppend e = true ∧ e.sigOk = true)
    (hid : ∀ e ∈ L.entries, e.logId = L.id) :
    ∃ L', join canAppend (Log.empty L.id) (ofList L.entries) (ofList (sortedHeads L)) L.id = .ok L' ∧
      (∀ e, e ∈ L'.entries ↔ e ∈ L.entries) ∧ Inv U L' ∧ L'.entries.Nodup := by
  have hI := hG.inv
  have hA := rebuilt_honest hU hI
  have hmem := mem_ofList hU hI.sub
  have hidA : ∀ e ∈ ofList L.entries, e.logId = (Log.empty L.id).id :=
    fun e he => hid e ((hmem e).mp he)
  obtain ⟨L', hj⟩ := join_ok_of_acceptable (canAppend := canAppend) (Log.empty L.id)
    (ofList L.entries) (ofList (sortedHeads L)) (fun x hx => by
      obtain ⟨h1, h2⟩ := hacc x ((hmem x).mp hx)
      simp [acceptable, h1, h2])
  have hj' : join canAppend (Log.empty L.id) (ofList L.entries) (ofList (sortedHeads L)) L.id = .ok L' := hj
  have hE := inv_empty U L.id
  refine ⟨L', hj', ?_, inv_join_honest hU hE hA hidA hj, nodup_join (by simp [Log.empty]) hj⟩
  intro e
  rw [join_fresh_entries hU hE hA hidA (fun _ _ => rfl) (rebuilt_covered hU hM hI) hj e, hmem e]
  simp [Log.empty]

/-! ### Save then load -/

/-- **Save/load round trip**, with the codec hypotheses only on what is actually saved. -/
theorem save_load' {U : List Entry} {acl : Acl} {ser : Entry → List Nat} {serHeader : Image → List Nat}
    {de : List Nat → Option Entry} {deHeader : List Nat → Option (Nat × List Entry × Nat)}
    {L : Log} {bs : List Nat}
    (hde : ∀ e ∈ L.entries, de (ser e) = some e)
    (hdh : deHeader (serHeader (imageOf L)) = some (L.id, sortedHeads L, L.entries.length))
    (hU : HashDet U) (hT : TieFree U) (hM : ClockMono U) (hG : Good U L)
    (hacc : ∀ e ∈ L.entries, acl.canAppend e = true ∧ e.sigOk = true)
    (hid : ∀ e ∈ L.entries, e.logId = L.id)
    (hs : save ser serHeader L = some bs) :
    ∃ L', load acl de deHeader bs = some L' ∧ (∀ e, e ∈ L'.entries ↔ e ∈ L.entries) ∧
      values L' = values L ∧ sortedHeads L' = sortedHeads L := by
  obtain ⟨L', hj, hent, hI', hnd'⟩ := rejoin hU hM (canAppend := acl.canAppend) hG hacc hid
  refine ⟨L', ?_, hent, values_unique hU hT hM L' L hI' hnd' hG.inv hG.nodup hent,
    sortedHeads_unique hT L' L hI' hG.inv hent⟩
  rw [load_save hde hdh hs, hj]

/-- **Save/load round trip**: a snapshot of a good log whose entries the access controller accepts
loads back (into a fresh store) as a log with the same entries, the same `Values()` and the same
sorted heads. -/
theorem save_load {U : List Entry} {acl : Acl} {ser : Entry → List Nat} {serHeader : Image → List Nat}
    {de : List Nat → Option Entry} {deHeader : List Nat → Option (Nat × List Entry × Nat)}
    {L : Log} {bs : List Nat}
    (hde : ∀ e, de (ser e) = some e)
    (hdh : ∀ img, deHeader (serHeader img) = some (img.id, img.heads, img.entries.length))
    (hU : HashDet U) (hT : TieFree U) (hM : ClockMono U) (hG : Good U L)
    (hacc : ∀ e ∈ L.entries, acl.canAppend e = true ∧ e.sigOk = true)
    (hid : ∀ e ∈ L.entries, e.logId = L.id)
    (hs : save ser serHeader L = some bs) :
    ∃ L', load acl de deHeader bs = some L' ∧ (∀ e, e ∈ L'.entries ↔ e ∈ L.entries) ∧
      values L' = values L ∧ sortedHeads L' = sortedHeads L :=
  save_load' (fun e _ => hde e) (hdh (imageOf L)) hU hT hM hG hacc hid hs

end Orbit.Snap

/-! ### Non-vacuity: a concrete fork saved and loaded with a toy codec -/
namespace Orbit.Snap.Example

def a : Entry := { hash := 1, logId := 9, time := 1, cid := 0, next := [] }
def b : Entry := { hash := 2, logId := 9, time := 2, cid := 0, next := [1] }
def c : Entry := { hash := 3, logId := 9, time := 2, cid := 1, next := [1] }
def U : List Entry := [a, b, c]
def acl : Acl := { wildcard := true }

theorem hU : HashDet U := by unfold HashDet; decide
theorem hT : TieFree U := by unfold TieFree; decide
theorem hM : ClockMono U := by unfold ClockMono; decide

def okOr (x : Except Err Log) (d : Log) : Log := match x with | .ok l => l | .error _ => d

/-- this replica wrote `a`, `b` and merged the concurrent `c`: heads `c`, `b` -/
def L1 : Log := (append acl.canAppend (Log.empty 9) (fun _ _ => a)).1
def L2 : Log := (append acl.canAppend L1 (fun _ _ => b)).1
def L3 : Log := okOr (join acl.canAppend L2 [a, c] [c] 9) L2

theorem reach_L3 : Reachable acl.canAppend U 9 L3 := by
  have h1 : Reachable acl.canAppend U 9 L1 :=
    .step .empty (.appendOk (Log.empty 9) (fun _ _ => a) (by decide) (by decide) (by decide) (by decide) rfl)
  have h2 : Reachable acl.canAppend U 9 L2 :=
    .step h1 (.appendOk L1 (fun _ _ => b) (by decide) (by decide) (by decide) (by decide) rfl)
  exact .step h2 (.join L2 L3 [a, c] [c] 9 ⟨by decide, by decide⟩ (by decide) rfl)

/-- toy codec: an entry is its hash; the header is id, size, head hashes -/
def ser (e : Entry) : List Nat := [e.hash]
def lookup : Nat → Option Entry
  | 1 => some a | 2 => some b | 3 => some c | _ => none
def de : List Nat → Option Entry
  | [h] => lookup h
  | _ => none
def serHeader (img : Image) : List Nat := img.id :: img.entries.length :: img.heads.map (·.hash)
def deHeader : List Nat → Option (Nat × List Entry × Nat)
  | id :: n :: hs => (hs.mapM lookup).map (fun heads => (id, heads, n))
  | _ => none

/-- the snapshot bytes: header record, three entry records, trailing zero -/
example : save ser serHeader L3 = some [0, 4, 9, 3, 3, 2,  0, 1, 1,  0, 1, 2,  0, 1, 3,  0] := by decide

/-- direct evaluation: the loaded log has the same entries, values and heads; the insertion order of
the entry map is NOT kept (`difference` walks from the heads: newest first) -/
example : ((save ser serHeader L3).bind (load acl de deHeader)).map
      (fun l => (l.id, l.entries, values l, sortedHeads l)) =
    some (9, [c, b, a], [a, b, c], [c, b]) := by decide

example : L3.entries = [a, b, c] ∧ values L3 = [a, b, c] ∧ sortedHeads L3 = [c, b] := by decide

/-- the theorem applies: all its hypotheses hold on the example -/
example : ∃ L', load acl de deHeader [0, 4, 9, 3, 3, 2,  0, 1, 1,  0, 1, 2,  0, 1, 3,  0] = some L' ∧
    (∀ e, e ∈ L'.entries ↔ e ∈ L3.entries) ∧ values L' = values L3 ∧
    sortedHeads L' = sortedHeads L3 :=
  save_load' (U := U) (ser := ser) (serHeader := serHeader) (by decide) (by decide) hU hT hM
    (reachable_good hU hM reach_L3) (by decide) (by decide) (by decide)

end Orbit.Snap.Example
