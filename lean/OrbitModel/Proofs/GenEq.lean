import OrbitModel.Generated.Gen
import OrbitModel.Model.Status
import OrbitModel.Model.Index
import OrbitModel.Model.Codec
import OrbitModel.Model.Store
import OrbitModel.Model.Snapshot
/-!
# The regenerated Go fragments equal the hand-written model (tie 2)

`Generated/Gen.lean` is rewritten from /repo's Go text on every run; these equations are part of the
build, so changing the Go arithmetic breaks one of them.
-/
namespace Orbit

theorem gen_recalcProgress (len : Int) (s : Status) :
    Gen.genRecalcProgress len s.max s.progress = (recalcProgress len s).progress := by
  unfold Gen.genRecalcProgress recalcProgress
  simp only []
  split <;> split <;> simp_all <;> omega

theorem gen_recalcMax (len : Int) (s : Status) (arg : Int) :
    Gen.genRecalcMax len s.max s.progress arg = (recalcMax len s arg).max := by
  unfold Gen.genRecalcMax recalcMax
  simp only []
  split <;> split <;> simp_all <;> omega

theorem gen_normAmount (a : Option Int) (len : Nat) :
    Gen.genNormAmount a.isSome (a.getD 0) len = (normAmount a len : Int) := by
  unfold Gen.genNormAmount normAmount
  cases a with
  | none => simp
  | some x =>
    simp only [Option.isSome_some, Option.getD_some, if_true]
    by_cases h0 : x = 0
    · simp [h0]
    · by_cases h1 : x > -1
      · simp [h0, h1]; omega
      · simp [h0, h1]

theorem gen_batchSize : Gen.batchSize = 1 := rfl
theorem gen_referenceCount : Gen.referenceCount = 64 := rfl
theorem gen_maxFrame : Gen.delimitedReadMaxSize = 4 * 1024 * 1024 := by decide

end Orbit

namespace Orbit
/-- the size check regenerated from `directchannel.handleNewPeer` is the model's guard -/
theorem gen_frameRefused (len64 : BitVec 64) :
    Gen.genFrameRefused len64 = (Codec.frameGuard len64 == .refused) := by
  have hmax : Gen.delimitedReadMaxSize = Codec.maxFrame := by decide
  unfold Gen.genFrameRefused Codec.frameGuard
  rw [hmax]
  by_cases h : (len64.toNat : Int) > Codec.maxFrame
  · rw [if_pos h]; simp [h]
  · rw [if_neg h]; simp [h]
/-- the limit normalisation at the top of `Load` in the Go text of this run is the model's `loadAmount` -/
theorem gen_loadAmount (amount : Int) (mh : Option Int) :
    Gen.genLoadAmount mh.isSome (mh.getD 0) amount = loadAmount amount mh := by
  unfold Gen.genLoadAmount loadAmount
  cases mh with
  | none =>
    simp only [Option.isSome_none, Bool.and_false, Bool.false_eq_true, if_false]
    by_cases h : amount ≤ 0 <;> simp [h]
  | some m =>
    simp only [Option.isSome_some, Bool.and_true, Option.getD_some, decide_eq_true_eq]

/-- the size guards of `SaveSnapshot` in the Go text of this run are the model's `encodeRec` refusal -/
theorem gen_snapRefused (r : List Nat) :
    Gen.genSnapEntryRefused r.length = (Snap.encodeRec r).isNone ∧
    Gen.genSnapHeaderRefused r.length = (Snap.encodeRec r).isNone := by
  unfold Gen.genSnapEntryRefused Gen.genSnapHeaderRefused Snap.encodeRec Snap.maxRec
  by_cases h : r.length > 65535
  · have h' : (r.length : Int) > 65535 := by omega
    simp [h, h']
  · have h' : ¬ (r.length : Int) > 65535 := by omega
    simp [h, h']

/-- no statement of the Go text of this run ends a message-listener loop on an error -/
theorem gen_listener_never_exits : Gen.listenerExitsOnError = 0 := by decide

end Orbit
