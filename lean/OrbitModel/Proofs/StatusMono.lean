import OrbitModel.Model.Status
/-!
# Replication status: never regresses; equals the log length at rest   (C19)
-/
namespace Orbit

/-- the status-affecting events of the store main loop and write path -/
inductive StEv where
  | status  (len arg : Int)     -- recalculateReplicationStatus(arg) while the log has `len` entries
  | maxOnly (len arg : Int)     -- recalculateReplicationMax(arg) (EventLoadAdded)
deriving Repr

def Status.ev (s : Status) : StEv → Status
  | .status len arg => recalcStatus len s arg
  | .maxOnly len arg => recalcMax len s arg

def Status.run (s : Status) (evs : List StEv) : Status := evs.foldl Status.ev s

def StEv.len : StEv → Int | .status l _ => l | .maxOnly l _ => l
def StEv.arg : StEv → Int | .status _ a => a | .maxOnly _ a => a

/-- progress never exceeds the maximum -/
def Status.Ok (s : Status) : Prop := s.progress ≤ s.max

theorem recalcMax_spec (len : Int) (s : Status) (arg : Int) :
    (recalcMax len s arg).progress = s.progress ∧ s.max ≤ (recalcMax len s arg).max ∧
    len ≤ (recalcMax len s arg).max ∧ arg ≤ (recalcMax len s arg).max ∧
    ((recalcMax len s arg).max = s.max ∨ (recalcMax len s arg).max = len ∨ (recalcMax len s arg).max = arg) := by
  unfold recalcMax
  simp only []
  split <;> split <;> simp_all <;> omega

theorem recalcProgress_spec (len : Int) (s : Status) (hok : s.Ok) (hlen : len ≤ s.max) :
    (recalcProgress len s).max = s.max ∧ s.progress ≤ (recalcProgress len s).progress ∧
    (recalcProgress len s).progress ≤ s.max ∧ len ≤ (recalcProgress len s).progress := by
  unfold Status.Ok at hok
  unfold recalcProgress
  simp only []
  split <;> split <;> simp_all <;> omega

theorem ev_mono (s : Status) (hok : s.Ok) (e : StEv) :
    (s.ev e).Ok ∧ s.progress ≤ (s.ev e).progress ∧ s.max ≤ (s.ev e).max := by
  cases e with
  | maxOnly len arg =>
    have h := recalcMax_spec len s arg
    unfold Status.Ok at *
    simp only [Status.ev]
    omega
  | status len arg =>
    have h := recalcMax_spec len s arg
    have hok' : (recalcMax len s arg).Ok := by unfold Status.Ok at *; omega
    have h2 := recalcProgress_spec len (recalcMax len s arg) hok' h.2.2.1
    unfold Status.Ok at *
    simp only [Status.ev, recalcStatus]
    omega

/-- **Progress and maximum never decrease**, over any sequence of events with any lengths and
arguments (the log length does not even have to be monotone). -/
theorem run_mono (s : Status) (hok : s.Ok) (evs : List StEv) :
    (s.run evs).Ok ∧ s.progress ≤ (s.run evs).progress ∧ s.max ≤ (s.run evs).max := by
  induction evs generalizing s with
  | nil => exact ⟨hok, Int.le_refl _, Int.le_refl _⟩
  | cons e es ih =>
    have h1 := ev_mono s hok e
    have h2 := ih (s.ev e) h1.1
    have : s.run (e :: es) = (s.ev e).run es := by simp only [Status.run, List.foldl_cons]
    rw [this]
    exact ⟨h2.1, Int.le_trans h1.2.1 h2.2.1, Int.le_trans h1.2.2 h2.2.2⟩

theorem zero_ok : ({} : Status).Ok := by unfold Status.Ok; decide

/-- every prefix/suffix split of a run is monotone: status sampled at any two moments -/
theorem run_mono_between (evs₁ evs₂ : List StEv) :
    ((({} : Status).run evs₁).progress ≤ (({} : Status).run (evs₁ ++ evs₂)).progress) ∧
    ((({} : Status).run evs₁).max ≤ (({} : Status).run (evs₁ ++ evs₂)).max) := by
  have h1 := run_mono {} zero_ok evs₁
  have h2 := run_mono (({} : Status).run evs₁) h1.1 evs₂
  have : ({} : Status).run (evs₁ ++ evs₂) = (({} : Status).run evs₁).run evs₂ := by
    simp only [Status.run, List.foldl_append]
  rw [this]
  exact ⟨h2.2.1, h2.2.2⟩

/-- the maximum is bounded by any bound on the lengths and arguments seen -/
theorem run_max_le (s : Status) (B : Int) (hs : s.max ≤ B) (evs : List StEv)
    (hb : ∀ e ∈ evs, e.len ≤ B ∧ e.arg ≤ B) : (s.run evs).max ≤ B := by
  induction evs generalizing s with
  | nil => exact hs
  | cons e es ih =>
    simp only [Status.run, List.foldl_cons]
    apply ih
    · have he := hb e (List.mem_cons_self)
      cases e with
      | maxOnly len arg =>
        have h := recalcMax_spec len s arg
        simp only [Status.ev, StEv.len, StEv.arg] at *; omega
      | status len arg =>
        have h := recalcMax_spec len s arg
        simp only [Status.ev, recalcStatus, StEv.len, StEv.arg] at *
        have : (recalcProgress len (recalcMax len s arg)).max = (recalcMax len s arg).max := by
          unfold recalcProgress; rfl
        omega
    · intro e' he'; exact hb e' (List.mem_cons_of_mem _ he')

/-- **At rest with a complete log**: if the last event was a full status update taken when the log had
`n` entries, and no length or argument seen so far exceeds `n` (Lamport times of a complete log never
exceed its size), then progress = maximum = `n`. -/
theorem rest_eq_len (evs : List StEv) (n arg : Int) (hn : 0 ≤ n)
    (hb : ∀ e ∈ evs, e.len ≤ n ∧ e.arg ≤ n) (harg : arg ≤ n) :
    (({} : Status).run (evs ++ [.status n arg])).progress = n ∧
    (({} : Status).run (evs ++ [.status n arg])).max = n := by
  have hrun : ({} : Status).run (evs ++ [.status n arg]) = recalcStatus n (({} : Status).run evs) arg := by
    simp only [Status.run, List.foldl_append, List.foldl_cons, List.foldl_nil, Status.ev]
  rw [hrun]
  have hok := (run_mono {} zero_ok evs).1
  have hmax := run_max_le {} n (by show (0 : Int) ≤ n; exact hn) evs hb
  generalize ({} : Status).run evs = s at hok hmax
  have h := recalcMax_spec n s arg
  have hok' : (recalcMax n s arg).Ok := by unfold Status.Ok at *; omega
  have h2 := recalcProgress_spec n (recalcMax n s arg) hok' h.2.2.1
  simp only [recalcStatus]
  omega

/-- the pinned tree's `recalculateReplicationMax` could lower the maximum (finding F15, repaired) -/
theorem pinned_max_regresses :
    (recalcMaxPinned 5 { progress := 3, max := 10 } 3).max = 5 ∧ (recalcMax 5 { progress := 3, max := 10 } 3).max = 10 := by
  decide

end Orbit
