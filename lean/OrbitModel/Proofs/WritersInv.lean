import OrbitModel.Model.Writers
/-!
# With the write mutex, the cached head is always the newest entry whose writer got that far   (C17)
-/
namespace Orbit.Writers

/-- Invariant of the atomic protocol. -/
structure Inv (s : St) : Prop where
  /-- finished writers hold entries numbered from 1 up to the log length -/
  done_le : ∀ pc ∈ s.pcs, ∀ e, pc = .done e → 1 ≤ e ∧ e ≤ s.logLen
  /-- mutex free: nobody is between append and put, and the cache holds the last appended entry -/
  free    : s.lockedBy = none → (∀ pc ∈ s.pcs, ∀ e, pc ≠ .appended e) ∧
              (s.logLen = 0 ∧ s.cache = none ∨ s.cache = some s.logLen)
  /-- mutex held by `i`: it is the only writer between append and put, its entry is the last appended
  one, every finished entry is older, and the cache holds the previous entry -/
  held    : ∀ i, s.lockedBy = some i → 1 ≤ s.logLen ∧ s.pcs[i]? = some (.appended s.logLen) ∧
              (∀ j pc e, s.pcs[j]? = some pc → pc = .appended e → j = i) ∧
              (∀ pc ∈ s.pcs, ∀ e, pc = .done e → e < s.logLen) ∧
              (s.logLen = 1 ∧ s.cache = none ∨ s.cache = some (s.logLen - 1))

theorem inv_init (n : Nat) : Inv (init n) := by
  have hstart : ∀ pc ∈ (init n).pcs, pc = .start := by
    intro pc hpc; simp [init] at hpc; exact hpc.2
  refine ⟨?_, ?_, ?_⟩
  · intro pc hpc e he; rw [hstart pc hpc] at he; cases he
  · intro _; refine ⟨?_, Or.inl ⟨rfl, rfl⟩⟩
    intro pc hpc e he; rw [hstart pc hpc] at he; cases he
  · intro i h; simp [init] at h

theorem mem_set_cases {α : Type} {l : List α} {i : Nat} {a x : α} (h : x ∈ l.set i a) : x = a ∨ x ∈ l := by
  rcases List.mem_or_eq_of_mem_set h with h | h
  · exact Or.inr h
  · exact Or.inl h

theorem lt_of_getElem?_some {α : Type} {l : List α} {i : Nat} {a : α} (h : l[i]? = some a) : i < l.length := by
  rcases Nat.lt_or_ge i l.length with h' | h'
  · exact h'
  · rw [List.getElem?_eq_none h'] at h; cases h

theorem inv_step (s : St) (i : Nat) (hi : Inv s) : Inv (step true s i) := by
  unfold step
  cases hpc : s.pcs[i]? with
  | none => exact hi
  | some pc =>
    have hilt := lt_of_getElem?_some hpc
    cases pc with
    | done e => exact hi
    | start =>
      simp only [Bool.true_and]
      cases hl : s.lockedBy with
      | some j => simpa [hl] using hi
      | none =>
        simp only [Option.isSome_none, Bool.false_eq_true, ↓reduceIte]
        have hf := hi.free hl
        refine ⟨?_, ?_, ?_⟩
        · intro pc hm e he
          rcases mem_set_cases hm with h | h
          · rw [h] at he; cases he
          · exact ⟨(hi.done_le pc h e he).1, Nat.le_succ_of_le (hi.done_le pc h e he).2⟩
        · intro h; simp at h
        · intro j hj
          simp only [Option.some.injEq] at hj
          subst hj
          refine ⟨Nat.succ_le_succ (Nat.zero_le _), by simp [hilt], ?_, ?_, ?_⟩
          · intro k pc e hk he
            by_cases hki : i = k
            · exact hki.symm
            · rw [List.getElem?_set_ne hki] at hk
              exact absurd he (hf.1 pc (List.mem_of_getElem? hk) e)
          · intro pc hm e he
            rcases mem_set_cases hm with h | h
            · rw [h] at he; cases he
            · exact Nat.lt_succ_of_le (hi.done_le pc h e he).2
          · rcases hf.2 with ⟨hz, hc⟩ | hc
            · left; exact ⟨by simp [hz], hc⟩
            · right; simpa using hc
    | appended e =>
      simp only [↓reduceIte]
      -- the writer in `appended` holds the mutex
      have hlock : s.lockedBy = some i := by
        cases hl : s.lockedBy with
        | none => exact absurd rfl ((hi.free hl).1 _ (List.mem_of_getElem? hpc) e)
        | some j => rw [(hi.held j hl).2.2.1 i _ e hpc rfl]
      obtain ⟨hpos, hmine, honly, hdone, _⟩ := hi.held i hlock
      have he : e = s.logLen := by
        rw [hpc] at hmine; simp at hmine; exact hmine
      refine ⟨?_, ?_, ?_⟩
      · intro pc hm e' he'
        rcases mem_set_cases hm with h | h
        · rw [h] at he'; cases he'; exact ⟨by omega, Nat.le_of_eq he⟩
        · exact hi.done_le pc h e' he'
      · intro _
        refine ⟨?_, Or.inr (by rw [he])⟩
        intro pc hm e' he'
        rcases List.getElem?_of_mem hm with ⟨k, hk⟩
        by_cases hki : i = k
        · subst hki; rw [List.getElem?_set_self hilt] at hk; cases hk; cases he'
        · rw [List.getElem?_set_ne hki] at hk
          exact hki (honly k pc e' hk he').symm
      · intro j hj; cases hj

theorem inv_run (n : Nat) (sched : List Nat) : Inv (run true (init n) sched) := by
  unfold run
  suffices ∀ s, Inv s → Inv (sched.foldl (step true) s) from this _ (inv_init n)
  induction sched with
  | nil => intro s h; exact h
  | cons i rest ih => intro s h; exact ih _ (inv_step s i h)

theorem mem_range'_one {e n : Nat} (h1 : 1 ≤ e) (h2 : e ≤ n) : e ∈ List.range' 1 n := by
  rw [List.mem_range'_1]; omega

/-- **Every acknowledged write is recoverable**, for every number of writers and every schedule:
the entry of every writer that has returned lies in the ancestry of the cached head. -/
theorem acked_recoverable (n : Nat) (sched : List Nat) :
    ∀ e ∈ acked (run true (init n) sched), e ∈ recovered (run true (init n) sched) := by
  intro e he
  have hi := inv_run n sched
  generalize run true (init n) sched = s at hi he
  unfold acked at he
  obtain ⟨pc, hpc, hsome⟩ := List.mem_filterMap.mp he
  cases pc with
  | start => cases hsome
  | appended _ => cases hsome
  | done e' =>
    simp at hsome; subst hsome
    obtain ⟨h1, hle⟩ := hi.done_le _ hpc e' rfl
    unfold recovered
    cases hl : s.lockedBy with
    | none =>
      rcases (hi.free hl).2 with ⟨hz, _⟩ | hc
      · omega
      · rw [hc]; exact mem_range'_one h1 hle
    | some i =>
      obtain ⟨_, _, _, hdone, hcache⟩ := hi.held i hl
      have hlt := hdone _ hpc e' rfl
      rcases hcache with ⟨hone, _⟩ | hc
      · omega
      · rw [hc]; exact mem_range'_one h1 (by omega)

/-- acknowledged entries are pairwise distinct (each append creates a new entry) -/
theorem acked_distinct_example :
    acked (run true (init 3) [0, 1, 0, 2, 1, 1, 2, 2, 1, 1]) = [1, 3, 2] := by decide

/-- Refutation witness for the pinned tree (finding F13, repaired): two writers, appends 1 then 2,
puts in the opposite order: the cache ends on entry 1, whose ancestry does not contain the
acknowledged entry 2. -/
theorem pinned_loses_acked_write :
    let s := run false (init 2) [0, 1, 1, 0]
    acked s = [1, 2] ∧ s.cache = some 1 ∧ recovered s = [1] := by decide

/-- the same schedule with the mutex: writer 1 cannot append before writer 0 has put -/
example : (run true (init 2) [0, 1, 1, 0]).cache = some 1 ∧ acked (run true (init 2) [0, 1, 1, 0]) = [1] := by decide

end Orbit.Writers
