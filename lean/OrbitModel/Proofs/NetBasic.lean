import OrbitModel.Model.Net
/-!
# Step lemmas for the replica/network model (C02)

`covers_step`, `held_mono_step`, `AckedSomewhere` and their lifting to `run`.
-/
namespace Orbit.Net

/-! ## plumbing -/

theorem getElem?_updRep (s : State) (i : Nat) (f : Replica → Replica) (k : Nat) :
    (updRep s i f).reps[k]? = (s.reps[k]?).map (fun r => if k = i then f r else r) := by
  simp only [updRep, List.getElem?_mapIdx, beq_iff_eq]

@[simp] theorem updRep_soup (s : State) (i f) : (updRep s i f).soup = s.soup := rfl
@[simp] theorem updRep_acked (s : State) (i f) : (updRep s i f).acked = s.acked := rfl
@[simp] theorem updRep_length (s : State) (i f) : (updRep s i f).reps.length = s.reps.length := by
  simp only [updRep, List.length_mapIdx]

theorem mem_ancAll {u : Univ} {hs : List Nat} {x : Nat} :
    x ∈ ancAll u hs ↔ ∃ h ∈ hs, x ∈ u.anc h := by
  simp only [ancAll, List.mem_flatMap]

theorem covers_iff {u : Univ} {s : State} :
    Covers u s ↔ ∀ (i : Nat) (r : Replica), s.reps[i]? = some r → ∀ x ∈ r.held, x ∈ ancAll u r.heads := by
  constructor
  · intro h i r hi
    exact h r (List.mem_of_getElem? hi)
  · intro h r hr
    obtain ⟨i, hi⟩ := List.getElem?_of_mem hr
    exact h i r hi

def Act.isWrite : Act → Bool
  | .write _ _ => true
  | _ => false

/-- every action of the list is valid in the state in which it is executed -/
def ValidRun (u : Univ) : State → List Act → Prop
  | _, [] => True
  | s, a :: as => Valid u s a ∧ ValidRun u (step u s a) as

@[simp] theorem run_nil (u : Univ) (s : State) : run u s [] = s := rfl
@[simp] theorem run_cons (u : Univ) (s : State) (a : Act) (as : List Act) :
    run u s (a :: as) = run u (step u s a) as := rfl
theorem run_append (u : Univ) (s : State) (as bs : List Act) :
    run u s (as ++ bs) = run u (run u s as) bs := by
  simp only [run, List.foldl_append]

theorem validRun_append {u : Univ} {s : State} {as bs : List Act} :
    ValidRun u s (as ++ bs) ↔ ValidRun u s as ∧ ValidRun u (run u s as) bs := by
  induction as generalizing s with
  | nil => simp only [List.nil_append, ValidRun, true_and, run_nil]
  | cons a as ih => simp only [List.cons_append, ValidRun, ih, run_cons, and_assoc]

/-! ## the number of replicas, the soup, the acknowledged list -/

theorem step_length (u : Univ) (s : State) (a : Act) : (step u s a).reps.length = s.reps.length := by
  cases a with
  | write i h => simp only [step]; split <;> simp only [updRep_length]
  | send i j => simp only [step]; split <;> rfl
  | recv k c => simp only [step]; split <;> simp only [updRep_length]
  | restart i => simp only [step, updRep_length]
  | fault => rfl

theorem run_length (u : Univ) (s : State) (as : List Act) : (run u s as).reps.length = s.reps.length := by
  induction as generalizing s with
  | nil => rfl
  | cons a as ih => rw [run_cons, ih, step_length]

/-- the soup only grows, by appending -/
theorem step_soup (u : Univ) (s : State) (a : Act) {k : Nat} {m : Msg} (hk : s.soup[k]? = some m) :
    (step u s a).soup[k]? = some m := by
  cases a with
  | write i h => simp only [step]; split <;> simp only [updRep_soup, hk]
  | send i j =>
    simp only [step]; split
    · simp only [List.getElem?_append_left (List.getElem?_eq_some_iff.mp hk).1, hk]
    · exact hk
  | recv q c => simp only [step]; split <;> simp only [updRep_soup, hk]
  | restart i => simp only [step, updRep_soup, hk]
  | fault => exact hk

theorem run_soup (u : Univ) (s : State) (as : List Act) {k : Nat} {m : Msg} (h : s.soup[k]? = some m) :
    (run u s as).soup[k]? = some m := by
  induction as generalizing s with
  | nil => exact h
  | cons a as ih => exact ih _ (step_soup u s a h)

theorem step_acked (u : Univ) (s : State) (a : Act) (hw : a.isWrite = false) :
    (step u s a).acked = s.acked := by
  cases a with
  | write i h => simp [Act.isWrite] at hw
  | send i j => simp only [step]; split <;> rfl
  | recv k c => simp only [step]; split <;> rfl
  | restart i => rfl
  | fault => rfl

theorem run_acked (u : Univ) (s : State) (as : List Act) (hw : ∀ a ∈ as, a.isWrite = false) :
    (run u s as).acked = s.acked := by
  induction as generalizing s with
  | nil => rfl
  | cons a as ih =>
    rw [run_cons, ih _ (fun b hb => hw b (List.mem_cons_of_mem _ hb)),
      step_acked u s a (hw a List.mem_cons_self)]

/-! ## 1. cached heads keep covering the held set -/

theorem covers_step (u : Univ) (s : State) (a : Act) (hc : Covers u s) (hv : Valid u s a) :
    Covers u (step u s a) := by
  rw [covers_iff] at hc ⊢
  intro k r' hk x hx
  cases a with
  | write i h =>
    simp only [step] at hk
    split at hk
    · simp only [getElem?_updRep, Option.map_eq_some_iff] at hk
      obtain ⟨r, hr, rfl⟩ := hk
      split at hx
      · rename_i hki
        simp only [hki, if_true, ancAll, List.flatMap_cons, List.mem_append, List.mem_cons] at hx ⊢
        rcases hx with rfl | hx
        · exact Or.inl (u.self_mem _)
        · exact Or.inr (hc k r hr x hx)
      · rename_i hki
        simp only [hki, if_false]
        exact hc k r hr x hx
    · exact hc k r' hk x hx
  | send i j =>
    simp only [step] at hk
    split at hk <;> exact hc k r' hk x hx
  | recv q c =>
    simp only [step] at hk
    split at hk
    · rename_i m hm
      simp only [getElem?_updRep, Option.map_eq_some_iff] at hk
      obtain ⟨r, hr, rfl⟩ := hk
      split at hx
      · rename_i hki
        subst hki
        simp only [if_true, List.mem_append] at hx ⊢
        exact hv m hm r hr x hx
      · rename_i hki
        simp only [hki, if_false]
        exact hc k r hr x hx
    · exact hc k r' hk x hx
  | restart i =>
    simp only [step, getElem?_updRep, Option.map_eq_some_iff] at hk
    obtain ⟨r, hr, rfl⟩ := hk
    split at hx
    · rename_i hki
      simp only [hki, if_true] at hx ⊢
      exact hx
    · rename_i hki
      simp only [hki, if_false]
      exact hc k r hr x hx
  | fault => exact hc k r' hk x hx

/-! ## 2. a replica never loses an entry -/

theorem held_mono_step (u : Univ) (s : State) (a : Act) (hc : Covers u s) :
    ∀ (i : Nat) (r : Replica), s.reps[i]? = some r →
      ∃ r', (step u s a).reps[i]? = some r' ∧ ∀ x ∈ r.held, x ∈ r'.held := by
  rw [covers_iff] at hc
  intro k r hr
  have keep : ∃ r', s.reps[k]? = some r' ∧ ∀ x ∈ r.held, x ∈ r'.held := ⟨r, hr, fun _ h => h⟩
  cases a with
  | write i h =>
    simp only [step]
    split
    · simp only [getElem?_updRep, hr, Option.map_some]
      refine ⟨_, rfl, fun x hx => ?_⟩
      split
      · exact List.mem_cons_of_mem _ hx
      · exact hx
    · exact keep
  | send i j => simp only [step]; split <;> exact keep
  | recv q c =>
    simp only [step]
    split
    · simp only [getElem?_updRep, hr, Option.map_some]
      refine ⟨_, rfl, fun x hx => ?_⟩
      split
      · exact List.mem_append_left _ hx
      · exact hx
    · exact keep
  | restart i =>
    simp only [step, getElem?_updRep, hr, Option.map_some]
    refine ⟨_, rfl, fun x hx => ?_⟩
    split
    · exact hc k r hr x hx
    · exact hx
  | fault => exact keep

/-! ## lifting to runs -/

theorem covers_run (u : Univ) (s : State) (as : List Act) (hc : Covers u s) (hv : ValidRun u s as) :
    Covers u (run u s as) := by
  induction as generalizing s with
  | nil => exact hc
  | cons a as ih => exact ih _ (covers_step u s a hc hv.1) hv.2

theorem held_mono_run (u : Univ) (s : State) (as : List Act) (hc : Covers u s) (hv : ValidRun u s as) :
    ∀ (i : Nat) (r : Replica), s.reps[i]? = some r →
      ∃ r', (run u s as).reps[i]? = some r' ∧ ∀ x ∈ r.held, x ∈ r'.held := by
  induction as generalizing s with
  | nil => exact fun i r hr => ⟨r, hr, fun _ h => h⟩
  | cons a as ih =>
    intro i r hr
    obtain ⟨r₁, hr₁, h₁⟩ := held_mono_step u s a hc i r hr
    obtain ⟨r₂, hr₂, h₂⟩ := ih _ (covers_step u s a hc hv.1) hv.2 i r₁ hr₁
    exact ⟨r₂, hr₂, fun x hx => h₂ x (h₁ x hx)⟩

/-! ## 3. acknowledged writes stay held -/

/-- every acknowledged write is held by some replica -/
def AckedSomewhere (_u : Univ) (s : State) : Prop := ∀ h ∈ s.acked, ∃ r ∈ s.reps, h ∈ r.held

theorem ackedSomewhere_iff {u : Univ} {s : State} :
    AckedSomewhere u s ↔ ∀ h ∈ s.acked, ∃ (i : Nat) (r : Replica), s.reps[i]? = some r ∧ h ∈ r.held := by
  constructor
  · intro H h hh
    obtain ⟨r, hr, hx⟩ := H h hh
    obtain ⟨i, hi⟩ := List.getElem?_of_mem hr
    exact ⟨i, r, hi, hx⟩
  · intro H h hh
    obtain ⟨i, r, hi, hx⟩ := H h hh
    exact ⟨r, List.mem_of_getElem? hi, hx⟩

/-- a write is held by its author immediately afterwards -/
theorem write_held (u : Univ) (s : State) (i h : Nat) (hi : i < s.reps.length) :
    h ∈ (step u s (.write i h)).acked ∧
      ∃ r, (step u s (.write i h)).reps[i]? = some r ∧ h ∈ r.held := by
  obtain ⟨r, hr⟩ : ∃ r, s.reps[i]? = some r := ⟨_, List.getElem?_eq_getElem hi⟩
  simp only [step, hr, getElem?_updRep, Option.map_some, if_true, updRep_acked]
  exact ⟨List.mem_cons_self, _, rfl, List.mem_cons_self⟩

theorem ackedSomewhere_step (u : Univ) (s : State) (a : Act) (hc : Covers u s)
    (ha : AckedSomewhere u s) : AckedSomewhere u (step u s a) := by
  rw [ackedSomewhere_iff] at ha ⊢
  have old : ∀ h ∈ s.acked, ∃ (i : Nat) (r : Replica), (step u s a).reps[i]? = some r ∧ h ∈ r.held := by
    intro h hh
    obtain ⟨i, r, hr, hx⟩ := ha h hh
    obtain ⟨r', hr', hm⟩ := held_mono_step u s a hc i r hr
    exact ⟨i, r', hr', hm h hx⟩
  by_cases hw : a.isWrite = false
  · intro h hh
    rw [step_acked u s a hw] at hh
    exact old h hh
  · cases a with
    | write i h =>
      intro x hx
      cases hs : s.reps[i]? with
      | none =>
        simp only [step, hs] at hx ⊢
        exact ha x hx
      | some r =>
        have hi : i < s.reps.length := (List.getElem?_eq_some_iff.mp hs).1
        have hx' : x = h ∨ x ∈ s.acked := by
          simp only [step, hs, updRep_acked, List.mem_cons] at hx
          exact hx
        rcases hx' with rfl | hx'
        · obtain ⟨_, r', hr', hm⟩ := write_held u s i x hi
          exact ⟨i, r', hr', hm⟩
        · exact old x hx'
    | send i j => simp [Act.isWrite] at hw
    | recv k c => simp [Act.isWrite] at hw
    | restart i => simp [Act.isWrite] at hw
    | fault => simp [Act.isWrite] at hw

theorem ackedSomewhere_run (u : Univ) (s : State) (as : List Act) (hc : Covers u s)
    (hv : ValidRun u s as) (ha : AckedSomewhere u s) : AckedSomewhere u (run u s as) := by
  induction as generalizing s with
  | nil => exact ha
  | cons a as ih =>
    exact ih _ (covers_step u s a hc hv.1) hv.2 (ackedSomewhere_step u s a hc ha)

/-- **an acknowledged write stays held by its author for ever**: whatever valid actions follow
(faults, restarts of the author included), replica `i` still holds `h`. -/
theorem acked_held_by_author (u : Univ) (s : State) (i h : Nat) (hi : i < s.reps.length)
    (hc : Covers u s) (hw : Valid u s (.write i h)) (as : List Act)
    (hv : ValidRun u (step u s (.write i h)) as) :
    ∃ r, (run u s (.write i h :: as)).reps[i]? = some r ∧ h ∈ r.held := by
  obtain ⟨_, r, hr, hx⟩ := write_held u s i h hi
  obtain ⟨r', hr', hm⟩ := held_mono_run u _ as (covers_step u s _ hc hw) hv i r hr
  exact ⟨r', hr', hm h hx⟩

end Orbit.Net
