import OrbitModel.Proofs.ReplDrain
/-!
# Replicator: liveness under the deterministic scheduler (core lemmas)

At a quiescent state with `failed = []` every tracked hash has been fetched, and so has everything
reachable from it; accepted ones are in the oplog. One `Load` with a live context from a state
without workers of cancelled requests, run to quiescence, ends in such a state.
-/
namespace Orbit.Repl

/-- reachable from the heads through links of entries of this log. (The replicator follows the
links of every fetched entry that is not foreign, whether `Join` accepts it or not.) -/
inductive Reach (net : Nat → Info) (hs : List Nat) : Nat → Prop
  | head {h : Nat} : h ∈ hs → Reach net hs h
  | link {h l : Nat} : Reach net hs h → (net h).foreign = false → l ∈ (net h).links → Reach net hs l

/-- reachable through accepted entries of this log only: the `closure` of the property statements
(every entry on the path, the end point included, is valid and not foreign) -/
inductive ReachV (net : Nat → Info) (hs : List Nat) : Nat → Prop
  | head {h : Nat} : h ∈ hs → (net h).valid = true → (net h).foreign = false → ReachV net hs h
  | link {h l : Nat} : ReachV net hs h → l ∈ (net h).links → (net l).valid = true →
      (net l).foreign = false → ReachV net hs l

theorem ReachV.reach {net : Nat → Info} {hs : List Nat} {x : Nat} (h : ReachV net hs x) :
    Reach net hs x ∧ (net x).valid = true ∧ (net x).foreign = false := by
  induction h with
  | head hm hv hf => exact ⟨.head hm, hv, hf⟩
  | link _ hl hv hf ih => exact ⟨.link ih.1 ih.2.2 hl, hv, hf⟩

theorem Reach.mono {net : Nat → Info} {hs hs' : List Nat} (hsub : ∀ h ∈ hs, h ∈ hs') {x : Nat}
    (h : Reach net hs x) : Reach net hs' x := by
  induction h with
  | head hm => exact .head (hsub _ hm)
  | link _ hf hl ih => exact .link ih hf hl

variable {net : Nat → Info} {c : Nat} {s : St} {U : List Nat}

/-- at a quiescent state with nothing to retry, "tracked" means "fetched" -/
theorem settled_fetched (hi : Inv net c s) (hw : s.workers = []) (hf : s.failed = []) {x : Nat}
    (hx : tracked s x) : task s x = some .fetched := by
  rcases hx with hx | hx | hx
  · exact (hi.log_ok x hx).1
  · cases ht : task s x with
    | none => exact absurd ht hx
    | some t =>
      cases t with
      | fetched => rfl
      | added =>
        obtain ⟨w, hm, _⟩ := hi.task_w x .added ht (by simp)
        rw [hw] at hm; cases hm
      | fetching =>
        obtain ⟨w, hm, _⟩ := hi.task_w x .fetching ht (by simp)
        rw [hw] at hm; cases hm
  · rw [hf] at hx; cases hx

theorem settled_reach (hi : Inv net c s) (hw : s.workers = []) (hf : s.failed = []) {hs : List Nat}
    (hh : ∀ h ∈ hs, tracked s h) {x : Nat} (hx : Reach net hs x) : task s x = some .fetched := by
  induction hx with
  | head hm => exact settled_fetched hi hw hf (hh _ hm)
  | link _ hnf hl ih => exact settled_fetched hi hw hf (hi.closure _ (Or.inl ih) hnf _ hl)

/-- at a quiescent state, a tracked hash has been fetched or waits in `failed` for the next `Load` -/
theorem quiet_fetched (hi : Inv net c s) (hw : s.workers = []) {x : Nat} (hx : tracked s x) :
    task s x = some .fetched ∨ x ∈ s.failed := by
  rcases hx with hx | hx | hx
  · exact Or.inl (hi.log_ok x hx).1
  · cases ht : task s x with
    | none => exact absurd ht hx
    | some t =>
      cases t with
      | fetched => exact Or.inl rfl
      | added =>
        obtain ⟨w, hm, _⟩ := hi.task_w x .added ht (by simp)
        rw [hw] at hm; cases hm
      | fetching =>
        obtain ⟨w, hm, _⟩ := hi.task_w x .fetching ht (by simp)
        rw [hw] at hm; cases hm
  · exact Or.inr hx

/-- at a quiescent state, everything reachable from tracked heads has been fetched, or lies behind
a hash that waits in `failed` -/
theorem quiet_reach (hi : Inv net c s) (hw : s.workers = []) {hs : List Nat}
    (hh : ∀ h ∈ hs, tracked s h) {x : Nat} (hx : Reach net hs x) :
    task s x = some .fetched ∨ ∃ y ∈ s.failed, Reach net [y] x := by
  induction hx with
  | head hm =>
    rcases quiet_fetched hi hw (hh _ hm) with h | h
    · exact Or.inl h
    · exact Or.inr ⟨_, h, .head List.mem_cons_self⟩
  | link _ hnf hl ih =>
    rcases ih with ih | ⟨y, hy, hr⟩
    · rcases quiet_fetched hi hw (hi.closure _ (Or.inl ih) hnf _ hl) with h | h
      · exact Or.inl h
      · exact Or.inr ⟨_, h, .head List.mem_cons_self⟩
    · exact Or.inr ⟨y, hy, .link hr hnf hl⟩

theorem settled_log (hi : Inv net c s) (hw : s.workers = []) (hp : s.pending = []) {x : Nat}
    (hx : task s x = some .fetched) (hv : (net x).valid = true) (hnf : (net x).foreign = false) :
    x ∈ s.log := by
  have hidle : isIdle s = true := by
    apply isIdle_true_of hi.keys_nodup
    · rw [hi.inprog_eq, hw]; rfl
    · intro h t ht
      cases t with
      | fetched => rfl
      | added =>
        obtain ⟨w, hm, _⟩ := hi.task_w h .added ht (by simp)
        rw [hw] at hm; cases hm
      | fetching =>
        obtain ⟨w, hm, _⟩ := hi.task_w h .fetching ht (by simp)
        rw [hw] at hm; cases hm
  have hb : s.buffer = [] := by
    cases hb : s.buffer with
    | nil => rfl
    | cons a l =>
      have := hi.buf_idle (by rw [hb]; simp)
      rw [hidle] at this; cases this
  rcases hi.fetched_in x hx hv hnf with h | h | ⟨b, hb', _⟩
  · exact h
  · rw [hb] at h; cases h
  · rw [hp] at hb'; cases hb'

/-- what a `Load` does, in terms of the observations used here -/
theorem load_facts (hin : StIn U s) (ctx : Nat) {hs : List Nat} (hhs : ∀ h ∈ hs, h ∈ U) :
    let s1 := step net s (.load ctx hs)
    StIn U s1 ∧ s1.cancelled = s.cancelled ∧ s1.failed = [] ∧ s1.pending = s.pending ∧
    (∀ h, tracked s h → tracked s1 h) ∧ (∀ h ∈ hs, tracked s1 h) ∧
    (Clean s → s.cancelled.contains ctx = false → Clean s1 ∧ potB U s1 ≤ potB U s) ∧
    s1.workers.length ≤ s.workers.length + U.length := by
  obtain ⟨nw, hnd, hnew, hcov, heq⟩ := foldl_enqueue_spec ctx (s.failed ++ hs) { s with failed := [] }
  intro s1
  have e : s1 = enqd { s with failed := [] } ctx nw := heq
  clear_value s1
  subst e
  have hnwU : ∀ k ∈ nw, k ∈ U := by
    intro k hk
    rcases List.mem_append.1 (hnew k hk).1 with h | h
    · exact hin.failed k h
    · exact hhs k h
  have hkeep : ∀ l, task s l ≠ none → task (enqd { s with failed := [] } ctx nw) l ≠ none := by
    intro l hl
    rw [task_enqd]
    by_cases e' : l ∈ nw
    · simp [e']
    · simp only [e', if_false]; exact hl
  have hcovt : ∀ k ∈ s.failed ++ hs, tracked (enqd { s with failed := [] } ctx nw) k := by
    intro k hk
    rcases hcov k hk with h | h | h
    · exact Or.inl h
    · exact Or.inr (Or.inl (hkeep k h))
    · refine Or.inr (Or.inl ?_)
      rw [task_enqd]; simp [h]
  have hfr : fresh U (enqd { s with failed := [] } ctx nw) + nw.length ≤ fresh U s := by
    apply countP_add_le nw _ _ hnd
    · intro k hk
      exact ⟨hnwU k hk, isFresh_iff.2 ⟨(hnew k hk).2.2, (hnew k hk).2.1⟩⟩
    · intro k hk
      rw [isFresh_iff, task_enqd] at hk
      by_cases e' : k ∈ nw
      · simp [e'] at hk
      · simp only [e', if_false] at hk
        exact ⟨isFresh_iff.2 hk, e'⟩
  refine ⟨⟨?_, by intro h hh; cases hh⟩, rfl, rfl, rfl, ?_, ?_, ?_, ?_⟩
  · intro w hw
    rw [enqd_workers] at hw
    rcases List.mem_append.1 hw with hw | hw
    · exact hin.workers w hw
    · obtain ⟨k, hk, rfl⟩ := mem_spawn.1 hw
      exact hnwU k hk
  · intro h hh
    rcases hh with hh | hh | hh
    · exact Or.inl hh
    · exact Or.inr (Or.inl (hkeep h hh))
    · exact hcovt h (List.mem_append.2 (Or.inl hh))
  · intro h hh
    exact hcovt h (List.mem_append.2 (Or.inr hh))
  · intro hcl hctx
    refine ⟨?_, ?_⟩
    · intro w hw
      rw [enqd_workers] at hw
      rcases List.mem_append.1 hw with hw | hw
      · exact hcl w hw
      · obtain ⟨k, hk, rfl⟩ := mem_spawn.1 hw
        exact hctx
    · unfold potB
      rw [enqd_workers, enqd_cancelled, enqd_pending, wsum_append]
      have : wsum U.length s.cancelled (spawn ctx nw) = 3 * nw.length := wsum_spawn _ _ _ _ hctx
      show _ + (wsum U.length s.cancelled s.workers + wsum U.length s.cancelled (spawn ctx nw)) +
        s.pending.length ≤ _
      rw [this]; omega
  · rw [enqd_workers, List.length_append]
    have : (spawn ctx nw).length = nw.length := by simp [spawn]
    have := fresh_le_length U s
    show s.workers.length + (spawn ctx nw).length ≤ _
    omega

/-- **one live `Load` from a state without workers of cancelled requests, run to quiescence,
brings in everything reachable from its heads and from every hash tracked before.** -/
theorem load_drain_clean (hc : 0 < c) (hU : Closed net U) (hi : Inv net c s) (hin : StIn U s)
    (hcl : Clean s) {ctx : Nat} (hctx : s.cancelled.contains ctx = false) {hs : List Nat}
    (hhs : ∀ h ∈ hs, h ∈ U) {n : Nat} (hn : potB U s < n) :
    let s' := drain net n (step net s (.load ctx hs))
    Inv net c s' ∧ StIn U s' ∧ s'.workers = [] ∧ s'.pending = [] ∧ s'.failed = [] ∧
    s'.cancelled = s.cancelled ∧
    ∀ hs0 : List Nat, (∀ h ∈ hs0, tracked s h ∨ h ∈ hs) → ∀ x, Reach net hs0 x →
      task s' x = some .fetched ∧ ((net x).valid = true → (net x).foreign = false → x ∈ s'.log) := by
  intro s'
  obtain ⟨l1, l2, l3, _, l5, l6, l7, _⟩ := load_facts (net := net) hin ctx hhs
  obtain ⟨c1, c2⟩ := l7 hcl hctx
  obtain ⟨r1, r2, r3, r4, r5, r6, r7⟩ :=
    drain_spec hc hU n (step net s (.load ctx hs)) (hi.load ctx hs) l1
      (by unfold pot; have := busy_le (step net s (.load ctx hs)).workers; omega)
  have hf : s'.failed = [] := (r7 c1).trans l3
  refine ⟨r1, r2, r3, r4, hf, r5.trans l2, ?_⟩
  intro hs0 hh x hx
  have hfx : task s' x = some .fetched := by
    apply settled_reach r1 r3 hf _ hx
    intro h hm
    rcases hh h hm with h' | h'
    · exact r6 h (l5 h h')
    · exact r6 h (l6 h h')
  exact ⟨hfx, settled_log r1 r3 r4 hfx⟩

end Orbit.Repl
