import OrbitModel.Proofs.Durable
import OrbitModel.Proofs.StoreCovers
/-!
# Valid store histories and the invariants of their traces   (C05)

`ValidHist acl U id ops L`: `ops` is the sequence of effectful store operations of a replica started on
the empty log of id `id`, and `L` is its log afterwards ("`logOf ops`"). Operations without effects
(denied writes, aborted `replicationLoadComplete`s) change `L` and not `ops`.
`valid_inv`: at every operation boundary the log is good, closed under `next`, and every entry has
its block on disk; and every prefix of the trace has a durable log (`PrefOk`).
-/
namespace Orbit

/-- the effect trace of a history -/
def trace (ops : List SOp) : List Eff := ops.flatMap SOp.effects

theorem trace_snoc (ops : List SOp) (o : SOp) : trace (ops ++ [o]) = trace ops ++ o.effects := by
  simp [trace]

/-- what the replicator guarantees about the logs it hands to `replicationLoadComplete`, and what
`Join` did with them (`L'` is the log after the joins) -/
structure BatchOk (U : List Entry) (tr : List Eff) (L : Log) (logs : List (OMap × OMap)) (L' : Log) :
    Prop where
  /-- honest logs carrying our log id -/
  honest  : BatchHonest U L.id logs
  /-- every block was fetched (or written) earlier in the trace -/
  fetched : ∀ p ∈ logs, ∀ e ∈ p.1, Eff.block e.hash ∈ tr
  /-- a merged entry comes with its parents: each `next` link names an entry held after the joins -/
  parents : ∀ p ∈ logs, ∀ e ∈ p.1, e ∈ L'.entries → ∀ n ∈ e.next, has L'.entries n = true

inductive ValidHist (acl : Acl) (U : List Entry) (id : Nat) : List SOp → Log → Prop
  | nil : ValidHist acl U id [] (Log.empty id)
  /-- `AddOperation` allowed by the access controller -/
  | write {ops : List SOp} {L : Log} (mk : Nat → List Nat → Entry) : ValidHist acl U id ops L →
      acl.canAppend (mk (appendTime L) (appendNext L)) = true → WriteOk acl U L mk →
      ValidHist acl U id (ops ++ [.write (mk (appendTime L) (appendNext L))]) (append acl.canAppend L mk).1
  /-- `AddOperation` denied: the clock moves, nothing is written -/
  | denied {ops : List SOp} {L : Log} (mk : Nat → List Nat → Entry) : ValidHist acl U id ops L →
      acl.canAppend (mk (appendTime L) (appendNext L)) = false →
      ValidHist acl U id ops (append acl.canAppend L mk).1
  /-- the replicator stored a block (any block, at any time) -/
  | fetched {ops : List SOp} {L : Log} (e : Entry) : ValidHist acl U id ops L →
      ValidHist acl U id (ops ++ [.fetched e]) L
  /-- `replicationLoadComplete`, every join accepted; all the reported entries are in the log -/
  | merged {ops : List SOp} {L : Log} (logs : List (OMap × OMap)) (L' : Log) : ValidHist acl U id ops L →
      BatchOk U (trace ops) L logs L' → joinAllPinned acl L logs = (L', true) →
      (∀ p ∈ logs, ∀ e ∈ p.1, e ∈ L'.entries) →
      ValidHist acl U id (ops ++ [.merged (logs.flatMap (·.1)) ((sortedHeads L').map (·.hash))]) L'
  /-- `replicationLoadComplete` aborted by a refused join: earlier joins stay, nothing is written -/
  | aborted {ops : List SOp} {L : Log} (logs : List (OMap × OMap)) (L' : Log) : ValidHist acl U id ops L →
      BatchOk U (trace ops) L logs L' → joinAllPinned acl L logs = (L', false) →
      ValidHist acl U id ops L'

/-- every prefix of the trace has a durable log, part of the current log -/
def PrefOk (U : List Entry) (L : Log) (T : List Eff) : Prop :=
  ∀ p, p <+: T → ∃ D, Durable U p D ∧ ∀ e ∈ D.entries, e ∈ L.entries

theorem PrefOk.mono {U : List Entry} {L L' : Log} {T : List Eff} (h : PrefOk U L T)
    (hsub : ∀ e ∈ L.entries, e ∈ L'.entries) : PrefOk U L' T := by
  intro p hp
  obtain ⟨D, hD, hDL⟩ := h p hp
  exact ⟨D, hD, fun e he => hsub e (hDL e he)⟩

theorem PrefOk.snoc {U : List Entry} {L : Log} {T : List Eff} {e : Eff} (h : PrefOk U L T)
    (hnew : ∃ D, Durable U (T ++ [e]) D ∧ ∀ x ∈ D.entries, x ∈ L.entries) :
    PrefOk U L (T ++ [e]) := by
  intro p hp
  rcases List.prefix_concat_iff.mp hp with rfl | hp
  · exact hnew
  · exact h p hp

/-- the log-level invariant at operation boundaries -/
structure HistInv (U : List Entry) (id : Nat) (T : List Eff) (L : Log) : Prop where
  good   : Good U L
  lid    : L.id = id
  closed : Closed L
  blocks : ∀ e ∈ L.entries, Eff.block e.hash ∈ T

theorem joinAll_entries_sub (acl : Acl) : ∀ (logs : List (OMap × OMap)) (L : Log),
    ∀ e ∈ (joinAllPinned acl L logs).1.entries, e ∈ L.entries ∨ ∃ p ∈ logs, e ∈ p.1 := by
  intro logs
  induction logs with
  | nil => intro L e he; exact Or.inl he
  | cons p rest ih =>
    intro L e he
    obtain ⟨es, hs⟩ := p
    rw [joinAll_cons] at he
    cases hj : join acl.canAppend L es hs L.id with
    | error _ => rw [hj] at he; exact Or.inl he
    | ok L' =>
      rw [hj] at he
      rcases ih L' e he with h | ⟨q, hq, heq⟩
      · rcases join_new_acceptable hj e h with h | ⟨_, _, _, h⟩
        · exact Or.inl h
        · exact Or.inr ⟨(es, hs), List.mem_cons_self, h⟩
      · exact Or.inr ⟨q, List.mem_cons_of_mem _ hq, heq⟩

/-- a batch (accepted or aborted) keeps the boundary invariant: it writes nothing, so the trace is
the same -/
theorem HistInv.batch {acl : Acl} {U : List Entry} (hU : HashDet U) (hM : ClockMono U) {id : Nat}
    {T : List Eff} {L L' : Log} {logs : List (OMap × OMap)} {ok : Bool} (h : HistInv U id T L)
    (hB : BatchOk U T L logs L') (hj : joinAllPinned acl L logs = (L', ok)) :
    HistInv U id T L' ∧ ∀ e ∈ L.entries, e ∈ L'.entries := by
  obtain ⟨h1, h2, h3⟩ := joinAll_good (acl := acl) hU hM logs L h.good hB.honest
  rw [hj] at h1 h2 h3
  have hfrom := joinAll_entries_sub acl logs L
  rw [hj] at hfrom
  refine ⟨⟨h1, h2.trans h.lid, ?_, ?_⟩, h3⟩
  · intro e he n hn
    rcases hfrom e he with hL | ⟨p, hp, hep⟩
    · exact has_mono h3 (h.closed e hL n hn)
    · exact hB.parents p hp e hep he n hn
  · intro e he
    rcases hfrom e he with hL | ⟨p, hp, hep⟩
    · exact h.blocks e hL
    · exact hB.fetched p hp e hep

/-- an allowed write: what the new log looks like -/
theorem HistInv.write {acl : Acl} {U : List Entry} (hU : HashDet U) (hM : ClockMono U) {id : Nat}
    {T : List Eff} {L : Log} {mk : Nat → List Nat → Entry} (h : HistInv U id T L)
    (hcan : acl.canAppend (mk (appendTime L) (appendNext L)) = true) (hw : WriteOk acl U L mk) :
    let e := mk (appendTime L) (appendNext L)
    let L' := (append acl.canAppend L mk).1
    Good U L' ∧ L'.id = id ∧ Closed L' ∧ L'.entries = L.entries ++ [e] ∧
      CoveredBy L' [e.hash] := by
  intro e L'
  obtain ⟨_, hnext, _, hfresh⟩ := hw hcan
  have hent : L'.entries = L.entries ++ [e] := append_ok_entries acl.canAppend L mk hcan hfresh
  have hstep := writeOk_step hw
  refine ⟨good_step hU hM h.good hstep, (step_id hstep).trans h.lid, ?_, hent,
    append_covers hM acl.canAppend L mk h.good hnext hfresh hcan⟩
  have hsub : ∀ x ∈ L.entries, x ∈ L'.entries := fun x hx => by
    rw [hent]; exact List.mem_append_left _ hx
  intro x hx n hn
  rw [hent] at hx
  rcases List.mem_append.mp hx with hx | hx
  · exact has_mono hsub (h.closed x hx n hn)
  · rw [List.mem_singleton.mp hx] at hn
    have hn' : n ∈ appendNext L := hnext ▸ hn
    obtain ⟨y, hy, hyn⟩ := (mem_appendNext L n).mp hn'
    exact (has_iff _ _).mpr ⟨y, hsub y ((h.good.inv.heads y).mp hy).1, hyn⟩

end Orbit
