import OrbitModel.Proofs.Durable
import OrbitModel.Proofs.StoreCovers
/-!
# Valid store histories and the invariants of their traces   (C05)

`ValidHist acl U id ops L`: `ops` is the sequence of effectful store operations of a replica started on
the empty log of id `id`, and `L` is its log afterwards ("`logOf ops`"). Operations without effects
(denied writes) change `L` and not `ops`. `replicationLoadComplete` always has effects: it skips the
rejected logs, rewrites `_remoteHeads` and reports the entries of the logs it joined.
`valid_inv`: at every operation boundary the log is good, closed under `next`, and every entry has
its block on disk; and every prefix of the trace has a durable log (`PrefOk`).
-/
namespace Orbit

/-- the effect trace of a history -/
def trace (ops : List SOp) : List Eff := ops.flatMap SOp.effects

theorem trace_snoc (ops : List SOp) (o : SOp) : trace (ops ++ [o]) = trace ops ++ o.effects := by
  simp [trace]

/-- what the replicator guarantees about the logs it hands to `replicationLoadComplete`, and what
`Join` did with them (`L'` is the log after the joins) -/
structure BatchOk (U : List Entry) (tr : List Eff) (L : Log) (logs : List (OMap × OMap)) (L' : Log) :
    Prop where
  /-- honest logs carrying our log id -/
  honest  : BatchHonest U L.id logs
  /-- every block was fetched (or written) earlier in the trace -/
  fetched : ∀ p ∈ logs, ∀ e ∈ p.1, Eff.block e.hash ∈ tr
  /-- the batch is parent-closed among the entries that are merged: each `next` link of a merged
  entry names an entry held after the joins. Since rejected logs are skipped this is a genuine
  restriction: it excludes a child that is accepted while the log bringing its parent is rejected
  (`CrashExample.rejected_parent_*` shows what happens then). `CrashCor` derives it from conditions
  on the batch alone. -/
  parents : ∀ p ∈ logs, ∀ e ∈ p.1, e ∈ L'.entries → ∀ n ∈ e.next, has L'.entries n = true

inductive ValidHist (acl : Acl) (U : List Entry) (id : Nat) : List SOp → Log → Prop
  | nil : ValidHist acl U id [] (Log.empty id)
  /-- `AddOperation` allowed by the access controller -/
  | write {ops : List SOp} {L : Log} (mk : Nat → List Nat → Entry) : ValidHist acl U id ops L →
      acl.canAppend (mk (appendTime L) (appendNext L)) = true → WriteOk acl U L mk →
      ValidHist acl U id (ops ++ [.write (mk (appendTime L) (appendNext L))]) (append acl.canAppend L mk).1
  /-- `AddOperation` denied: the clock moves, nothing is written -/
  | denied {ops : List SOp} {L : Log} (mk : Nat → List Nat → Entry) : ValidHist acl U id ops L →
      acl.canAppend (mk (appendTime L) (appendNext L)) = false →
      ValidHist acl U id ops (append acl.canAppend L mk).1
  /-- the replicator stored a block (any block, at any time) -/
  | fetched {ops : List SOp} {L : Log} (e : Entry) : ValidHist acl U id ops L →
      ValidHist acl U id (ops ++ [.fetched e]) L
  /-- `replicationLoadComplete`: the rejected logs are skipped, `_remoteHeads` is rewritten, the
  entries of the joined logs are reported; all the reported entries are in the log -/
  | merged {ops : List SOp} {L : Log} (logs : List (OMap × OMap)) (L' : Log) : ValidHist acl U id ops L →
      BatchOk U (trace ops) L logs L' → joinAll acl L logs = L' →
      (∀ e ∈ joinedEntries acl L logs, e ∈ L'.entries) →
      ValidHist acl U id
        (ops ++ [.merged (joinedEntries acl L logs) ((sortedHeads L').map (·.hash))]) L'

/-- every prefix of the trace has a durable log, part of the current log -/
def PrefOk (U : List Entry) (L : Log) (T : List Eff) : Prop :=
  ∀ p, p <+: T → ∃ D, Durable U p D ∧ ∀ e ∈ D.entries, e ∈ L.entries

theorem PrefOk.mono {U : List Entry} {L L' : Log} {T : List Eff} (h : PrefOk U L T)
    (hsub : ∀ e ∈ L.entries, e ∈ L'.entries) : PrefOk U L' T := by
  intro p hp
  obtain ⟨D, hD, hDL⟩ := h p hp
  exact ⟨D, hD, fun e he => hsub e (hDL e he)⟩

theorem PrefOk.snoc {U : List Entry} {L : Log} {T : List Eff} {e : Eff} (h : PrefOk U L T)
    (hnew : ∃ D, Durable U (T ++ [e]) D ∧ ∀ x ∈ D.entries, x ∈ L.entries) :
    PrefOk U L (T ++ [e]) := by
  intro p hp
  rcases List.prefix_concat_iff.mp hp with rfl | hp
  · exact hnew
  · exact h p hp

/-- the log-level invariant at operation boundaries -/
structure HistInv (U : List Entry) (id : Nat) (T : List Eff) (L : Log) : Prop where
  good   : Good U L
  lid    : L.id = id
  closed : Closed L
  blocks : ∀ e ∈ L.entries, Eff.block e.hash ∈ T

theorem joinAll_entries_sub (acl : Acl) : ∀ (logs : List (OMap × OMap)) (L : Log),
    ∀ e ∈ (joinAll acl L logs).entries, e ∈ L.entries ∨ ∃ p ∈ logs, e ∈ p.1 := by
  intro logs
  induction logs with
  | nil => intro L e he; exact Or.inl he
  | cons p rest ih =>
    intro L e he
    obtain ⟨es, hs⟩ := p
    have lift : (∃ q ∈ rest, e ∈ q.1) → ∃ q ∈ (es, hs) :: rest, e ∈ q.1 :=
      fun ⟨q, hq, heq⟩ => ⟨q, List.mem_cons_of_mem _ hq, heq⟩
    rw [joinAll_cons] at he
    cases hj : join acl.canAppend L es hs L.id with
    | error _ => rw [hj] at he; exact (ih L e he).imp id lift
    | ok L' =>
      rw [hj] at he
      rcases ih L' e he with h | h
      · rcases join_new_acceptable hj e h with h | ⟨_, _, _, h⟩
        · exact Or.inl h
        · exact Or.inr ⟨(es, hs), List.mem_cons_self, h⟩
      · exact Or.inr (lift h)

/-- the reported entries are entries of the batch -/
theorem joinedEntries_sub (acl : Acl) : ∀ (logs : List (OMap × OMap)) (L : Log),
    ∀ e ∈ joinedEntries acl L logs, ∃ p ∈ logs, e ∈ p.1 := by
  intro logs
  induction logs with
  | nil => intro L e he; cases he
  | cons p rest ih =>
    intro L e he
    obtain ⟨es, hs⟩ := p
    have lift : (∃ q ∈ rest, e ∈ q.1) → ∃ q ∈ (es, hs) :: rest, e ∈ q.1 :=
      fun ⟨q, hq, heq⟩ => ⟨q, List.mem_cons_of_mem _ hq, heq⟩
    unfold joinedEntries at he
    cases hj : join acl.canAppend L es hs L.id with
    | error _ => rw [hj] at he; exact lift (ih L e he)
    | ok L' =>
      rw [hj] at he
      rcases List.mem_append.mp he with h | h
      · exact ⟨(es, hs), List.mem_cons_self, h⟩
      · exact lift (ih L' e h)

/-- a batch keeps the boundary invariant on the log (the trace grows afterwards) -/
theorem HistInv.batch {acl : Acl} {U : List Entry} (hU : HashDet U) (hM : ClockMono U) {id : Nat}
    {T : List Eff} {L L' : Log} {logs : List (OMap × OMap)} (h : HistInv U id T L)
    (hB : BatchOk U T L logs L') (hj : joinAll acl L logs = L') :
    HistInv U id T L' ∧ ∀ e ∈ L.entries, e ∈ L'.entries := by
  obtain ⟨h1, h2, h3⟩ := joinAll_good' (acl := acl) hU hM logs L h.good hB.honest
  rw [hj] at h1 h2 h3
  have hfrom := joinAll_entries_sub acl logs L
  rw [hj] at hfrom
  refine ⟨⟨h1, h2.trans h.lid, ?_, ?_⟩, h3⟩
  · intro e he n hn
    rcases hfrom e he with hL | ⟨p, hp, hep⟩
    · exact has_mono h3 (h.closed e hL n hn)
    · exact hB.parents p hp e hep he n hn
  · intro e he
    rcases hfrom e he with hL | ⟨p, hp, hep⟩
    · exact h.blocks e hL
    · exact hB.fetched p hp e hep

/-- an allowed write: what the new log looks like -/
theorem HistInv.write {acl : Acl} {U : List Entry} (hU : HashDet U) (hM : ClockMono U) {id : Nat}
    {T : List Eff} {L : Log} {mk : Nat → List Nat → Entry} (h : HistInv U id T L)
    (hcan : acl.canAppend (mk (appendTime L) (appendNext L)) = true) (hw : WriteOk acl U L mk) :
    let e := mk (appendTime L) (appendNext L)
    let L' := (append acl.canAppend L mk).1
    Good U L' ∧ L'.id = id ∧ Closed L' ∧ L'.entries = L.entries ++ [e] ∧
      CoveredBy L' [e.hash] := by
  intro e L'
  obtain ⟨_, hnext, _, hfresh⟩ := hw hcan
  have hent : L'.entries = L.entries ++ [e] := append_ok_entries acl.canAppend L mk hcan hfresh
  have hstep := writeOk_step hw
  refine ⟨good_step hU hM h.good hstep, (step_id hstep).trans h.lid, ?_, hent,
    append_covers hM acl.canAppend L mk h.good hnext hfresh hcan⟩
  have hsub : ∀ x ∈ L.entries, x ∈ L'.entries := fun x hx => by
    rw [hent]; exact List.mem_append_left _ hx
  intro x hx n hn
  rw [hent] at hx
  rcases List.mem_append.mp hx with hx | hx
  · exact has_mono hsub (h.closed x hx n hn)
  · rw [List.mem_singleton.mp hx] at hn
    have hn' : n ∈ appendNext L := hnext ▸ hn
    obtain ⟨y, hy, hyn⟩ := (mem_appendNext L n).mp hn'
    exact (has_iff _ _).mpr ⟨y, hsub y ((h.good.inv.heads y).mp hy).1, hyn⟩

end Orbit
