import OrbitModel.Model.Emitter
/-!
# C16 for the legacy channel API: ordering and losslessness of `handleSubscriber` (repaired code)

For every capacity and every interleaving of emits, forwarder steps, drainer steps, receives and
cancellation:

* `fifo_alive`        while the context is alive, `delivered ++ pipeline = emitted`
                      (nothing lost, nothing duplicated, nothing reordered, wherever the events sit);
* `delivered_prefix`  always (also after cancellation, when undelivered events may be dropped)
                      `delivered` is a prefix of `emitted`;
* `no_loss_while_alive`  alive and nothing pending ⇒ `delivered = emitted`;
* `pinned_overtake`   the pinned code delivers `[1, 3, 2]` on a concrete schedule, the repaired code
                      `[1, 2, 3]`.

The eventual-delivery half (a fair scheduler empties the pipeline) is in `EmitterSettle.lean`.
-/
namespace Orbit.Emit

/-! ## `run` plumbing -/

@[simp] theorem run_nil (p : Bool) (s : St) : run p s [] = s := rfl
@[simp] theorem run_cons (p : Bool) (s : St) (a : Act) (l : List Act) :
    run p s (a :: l) = run p (step p s a) l := rfl
theorem run_append (p : Bool) (s : St) (l₁ l₂ : List Act) :
    run p s (l₁ ++ l₂) = run p (run p s l₁) l₂ := by
  simp only [run, List.foldl_append]

/-- a step-invariant holds along every run -/
theorem run_inv {P : St → Prop} {p : Bool} (hstep : ∀ s a, P s → P (step p s a))
    (acts : List Act) : ∀ s, P s → P (run p s acts) := by
  induction acts with
  | nil => intro s h; exact h
  | cons a l ih => intro s h; exact ih _ (hstep s a h)

/-! ## Cancellation is permanent, and only `.cancel` causes it -/

theorem cancelled_mono (p : Bool) (s : St) (a : Act) (h : s.cancelled = true) :
    (step p s a).cancelled = true := by
  cases a <;> simp only [step] <;> (repeat' split) <;> simp_all

theorem cancelled_step (p : Bool) (s : St) (a : Act) (h : (step p s a).cancelled = true) :
    s.cancelled = true ∨ step p s a = { s with cancelled := true } := by
  cases a with
  | cancel => exact .inr rfl
  | emit e => left; simp only [step] at h; split at h <;> simp_all
  | recv => left; simp only [step] at h; split at h <;> simp_all
  | g1 => left; simp only [step] at h; (repeat' split at h) <;> simp_all
  | g2 => left; simp only [step] at h; (repeat' split at h) <;> simp_all

theorem alive_of_step_alive {p : Bool} {s : St} {a : Act} (h : (step p s a).cancelled = false) :
    s.cancelled = false := by
  cases hc : s.cancelled with
  | false => rfl
  | true => rw [cancelled_mono p s a hc] at h; exact h

/-! ## A1. The FIFO invariant while the context is alive -/

/-- delivered events followed by everything still on its way are exactly the emitted events -/
def Fifo (s : St) : Prop := s.delivered ++ pipeline s = s.emitted

theorem fifo_init (cap : Nat) : Fifo (init cap) := rfl

/-- One step of the repaired code keeps `Fifo` as long as the context stays alive. The direct-send
branch is sound only because it requires an empty queue *and* nothing in flight. -/
theorem fifo_step (s : St) (a : Act) (hF : Fifo s) (_h0 : s.cancelled = false)
    (h1 : (step false s a).cancelled = false) : Fifo (step false s a) := by
  have h0 := alive_of_step_alive h1
  unfold Fifo pipeline at *
  cases a with
  | emit e => simp only [step, h0, Bool.false_eq_true, if_false, ← hF, List.append_assoc]
  | cancel => simp [step] at h1
  | recv => simp only [step] <;> split <;> simp_all
  | g1 => simp only [step] <;> (repeat' split) <;> simp_all [inflight]
  | g2 => simp only [step] <;> (repeat' split) <;> simp_all

/-- `Fifo` guarded by liveness is a plain step invariant -/
def AliveFifo (s : St) : Prop := s.cancelled = false → Fifo s

theorem aliveFifo_step (s : St) (a : Act) (h : AliveFifo s) : AliveFifo (step false s a) :=
  fun h1 => fifo_step s a (h (alive_of_step_alive h1)) (alive_of_step_alive h1) h1

/-- **C16, alive.** Whatever the interleaving and the capacity, while the subscriber's context is
alive the delivered events followed by the pending ones are exactly the emitted events, in order. -/
theorem fifo_alive (cap : Nat) (acts : List Act) :
    let s := run false (init cap) acts
    s.cancelled = false → s.delivered ++ pipeline s = s.emitted :=
  run_inv aliveFifo_step acts _ (fun _ => fifo_init cap)

/-- **A3.** alive and nothing pending ⇒ everything emitted has been delivered, in order. -/
theorem no_loss_while_alive (cap : Nat) (acts : List Act) :
    let s := run false (init cap) acts
    s.cancelled = false → pipeline s = [] → s.delivered = s.emitted := by
  intro s hc hp
  have h := fifo_alive cap acts hc
  rw [hp, List.append_nil] at h
  exact h

/-! ## A2. `delivered` is always a prefix of `emitted` -/

/-- what has reached the subscriber or its channel is an initial segment of what was emitted -/
def ChanPrefix (s : St) : Prop := s.delivered ++ s.chan <+: s.emitted

theorem chanPrefix_of_fifo {s : St} (h : Fifo s) : ChanPrefix s := by
  unfold Fifo pipeline at h
  unfold ChanPrefix
  rw [← h]
  simp only [List.append_assoc]
  exact List.prefix_append_right_inj _ |>.mpr (List.prefix_append _ _)

/-- after cancellation nothing enters the channel any more: only receives move things -/
theorem chanPrefix_step_cancelled (s : St) (a : Act) (hc : s.cancelled = true)
    (h : ChanPrefix s) : ChanPrefix (step false s a) := by
  unfold ChanPrefix at *
  cases a with
  | emit e => simpa only [step, hc, if_true] using h
  | cancel => exact h
  | recv => simp only [step] <;> split <;> simp_all
  | g1 => simp only [step] <;> (repeat' split) <;> simp_all
  | g2 => simp only [step] <;> (repeat' split) <;> simp_all

/-- the invariant that survives cancellation -/
def Pre (s : St) : Prop := AliveFifo s ∧ ChanPrefix s

theorem pre_step (s : St) (a : Act) (h : Pre s) : Pre (step false s a) := by
  refine ⟨aliveFifo_step s a h.1, ?_⟩
  cases hc : s.cancelled with
  | true => exact chanPrefix_step_cancelled s a hc h.2
  | false =>
    cases hc' : (step false s a).cancelled with
    | false => exact chanPrefix_of_fifo (fifo_step s a (h.1 hc) hc hc')
    | true =>
      rcases cancelled_step false s a hc' with h' | h'
      · rw [hc] at h'; cases h'
      · rw [h']; exact h.2

theorem pre_run (cap : Nat) (acts : List Act) : Pre (run false (init cap) acts) :=
  run_inv pre_step acts _ ⟨fun _ => fifo_init cap, chanPrefix_of_fifo (fifo_init cap)⟩

/-- **C16, always.** Also after cancellation (when pending events may be dropped) the subscriber has
received an initial segment of the emitted sequence: never out of order, never a duplicate, never an
event while an earlier one is missing. -/
theorem delivered_prefix (cap : Nat) (acts : List Act) :
    (run false (init cap) acts).delivered <+: (run false (init cap) acts).emitted :=
  List.IsPrefix.trans (List.prefix_append _ _) (pre_run cap acts).2

/-! ## A4. The pinned code reorders; the repaired code does not -/

/-- a slow reader, capacity 1: event 2 is in flight in G2 when G1 sees an empty queue and room -/
def overtakeSchedule : List Act :=
  [.emit 1, .g1, .emit 2, .g1, .g2, .recv, .emit 3, .g1, .recv, .g2, .recv]

/-- **pinned defect (F-emit-order).** event 3 overtakes event 2 -/
theorem pinned_overtake : (run true (init 1) overtakeSchedule).delivered = [1, 3, 2] := by decide

/-- the repaired code on the same schedule has delivered `[1, 2]` with 3 queued … -/
theorem repaired_same_schedule :
    (run false (init 1) overtakeSchedule).delivered = [1, 2] ∧
    pipeline (run false (init 1) overtakeSchedule) = [3] := by decide

/-- … and finishes in order -/
theorem repaired_in_order :
    (run false (init 1) (overtakeSchedule ++ [.g2, .g2, .recv])).delivered = [1, 2, 3] := by decide

/-- non-vacuity: an alive state with events in every stage of the pipeline at once -/
example : let s := run false (init 1) [.emit 1, .emit 2, .emit 3, .emit 4, .g1, .g1, .g2, .g1]
    s.cancelled = false ∧ s.chan = [1] ∧ s.g2 = .sending 2 ∧ s.queue = [3] ∧ s.bus = [4] ∧
    pipeline s = [1, 2, 3, 4] := by decide

/-- non-vacuity: after cancellation events are really dropped (so `delivered_prefix` is the most one
can say), here with capacity 0 -/
example : let s := run false (init 0) [.emit 1, .g1, .g2, .cancel, .g2, .g2, .g1, .g2, .recv]
    s.delivered = [] ∧ s.emitted = [1] ∧ s.closed = true := by decide

end Orbit.Emit
