import OrbitModel.Generated.GenLoadJoin
import OrbitModel.Model.Order
/-!
# Regenerated Go fragment = hand-written model (tie 2): the steps of `Load` for one cached head
-/
namespace Orbit

theorem gen_loadJoin_order : Gen.loadJoinOrder = Order.loadJoin := by decide

end Orbit
