import OrbitModel.Proofs.OMap
/-!
# `difference`: soundness (`DiffOK`) and completeness for the incoming heads
-/
namespace Orbit

theorem pushNext_unfold (held : OMap) (n : Nat) (ns stack trav : List Nat) :
    pushNext held (n :: ns) stack trav =
      if trav.contains n || has held n then pushNext held ns stack trav
      else pushNext held ns (stack ++ [n]) (n :: trav) := by
  simp only [pushNext, List.foldl_cons]
  split <;> rfl

theorem pushNext_stack (held : OMap) (ns : List Nat) : ∀ (stack trav : List Nat) (x : Nat),
    x ∈ (pushNext held ns stack trav).1 → x ∈ stack ∨ x ∈ ns := by
  induction ns with
  | nil => intro stack trav x hx; left; simpa [pushNext] using hx
  | cons n ns ih =>
    intro stack trav x hx
    rw [pushNext_unfold] at hx
    split at hx
    · rcases ih stack trav x hx with h | h
      · exact Or.inl h
      · exact Or.inr (List.mem_cons_of_mem _ h)
    · rcases ih (stack ++ [n]) (n :: trav) x hx with h | h
      · rcases List.mem_append.mp h with h | h
        · exact Or.inl h
        · simp at h; exact Or.inr (h ▸ List.mem_cons_self)
      · exact Or.inr (List.mem_cons_of_mem _ h)

/-- Every item returned by `difference` is a member of `A`, not held, of our log id.
Holds for an arbitrary (possibly adversarial) `A`. -/
theorem diffLoop_item (A : OMap) (L : Log) :
    ∀ (fuel : Nat) (stack trav : List Nat) (res : OMap),
      (∀ e ∈ res, e ∈ A ∧ has L.entries e.hash = false ∧ e.logId = L.id) →
      ∀ e ∈ diffLoop A L fuel stack trav res, e ∈ A ∧ has L.entries e.hash = false ∧ e.logId = L.id := by
  intro fuel
  induction fuel with
  | zero => intro stack trav res h; exact h
  | succ f ih =>
    intro stack trav res h
    cases stack with
    | nil => exact h
    | cons hd stack =>
      simp only [diffLoop]
      cases hg : get A hd with
      | none => exact ih stack trav res h
      | some eA =>
        obtain ⟨heA, hhash⟩ := get_some hg
        simp only
        split
        · rename_i hcond
          simp only [Bool.and_eq_true, Bool.not_eq_true', beq_iff_eq] at hcond
          apply ih
          intro e he
          rcases (mem_set res eA e).mp he with he | ⟨rfl, _⟩
          · exact h e he
          · exact ⟨heA, by rw [hhash]; exact hcond.1, hcond.2⟩
        · exact ih stack trav res h

theorem difference_item (A headsA : OMap) (L : Log) :
    ∀ e ∈ difference A headsA L, e ∈ A ∧ has L.entries e.hash = false ∧ e.logId = L.id := by
  unfold difference
  exact diffLoop_item A L _ _ _ _ (by simp)

/-- what `difference` guarantees about every item it returns -/
structure DiffOK (A : OMap) (L : Log) (init : List Nat) (stack : List Nat) (res : OMap) : Prop where
  item  : ∀ e ∈ res, e ∈ A ∧ has L.entries e.hash = false ∧ e.logId = L.id
  stk   : ∀ h ∈ stack, h ∈ init ∨ ∃ e' ∈ res, h ∈ e'.next
  why   : ∀ e ∈ res, e.hash ∈ init ∨ ∃ e' ∈ res, e.hash ∈ e'.next

theorem diffLoop_ok {A : OMap} (hA : HashDet A) (L : Log) (init : List Nat) :
    ∀ (fuel : Nat) (stack trav : List Nat) (res : OMap),
      DiffOK A L init stack res → DiffOK A L init [] (diffLoop A L fuel stack trav res) := by
  intro fuel
  induction fuel with
  | zero =>
    intro stack trav res h
    exact ⟨h.item, by simp, h.why⟩
  | succ f ih =>
    intro stack trav res h
    cases stack with
    | nil => exact ⟨h.item, by simp, h.why⟩
    | cons hd stack =>
      simp only [diffLoop]
      cases hg : get A hd with
      | none =>
        exact ih stack trav res ⟨h.item, fun x hx => h.stk x (List.mem_cons_of_mem _ hx), h.why⟩
      | some eA =>
        obtain ⟨heA, hhash⟩ := get_some hg
        simp only
        split
        · rename_i hcond
          simp only [Bool.and_eq_true, Bool.not_eq_true', beq_iff_eq] at hcond
          apply ih
          have hin : eA ∈ set res eA := by
            cases hh : has res eA.hash
            · exact (mem_set res eA eA).mpr (Or.inr ⟨rfl, hh⟩)
            · obtain ⟨y, hy, hyh⟩ := (has_iff res eA.hash).mp hh
              have : y = eA := hA y (h.item y hy).1 eA heA hyh
              exact (mem_set res eA eA).mpr (Or.inl (this ▸ hy))
          constructor
          · intro e he
            rcases (mem_set res eA e).mp he with he | ⟨rfl, _⟩
            · exact h.item e he
            · exact ⟨heA, by rw [hhash]; exact hcond.1, hcond.2⟩
          · intro x hx
            rcases pushNext_stack L.entries eA.next stack (hd :: trav) x hx with hx | hx
            · rcases h.stk x (List.mem_cons_of_mem _ hx) with h1 | ⟨e', he', hn⟩
              · exact Or.inl h1
              · exact Or.inr ⟨e', (mem_set res eA e').mpr (Or.inl he'), hn⟩
            · exact Or.inr ⟨eA, hin, hx⟩
          · intro e he
            rcases (mem_set res eA e).mp he with he | ⟨rfl, _⟩
            · rcases h.why e he with h1 | ⟨e', he', hn⟩
              · exact Or.inl h1
              · exact Or.inr ⟨e', (mem_set res eA e').mpr (Or.inl he'), hn⟩
            · rcases h.stk hd List.mem_cons_self with h1 | ⟨e', he', hn⟩
              · exact Or.inl (hhash ▸ h1)
              · exact Or.inr ⟨e', (mem_set res e e').mpr (Or.inl he'), hhash ▸ hn⟩
        · exact ih stack trav res ⟨h.item, fun x hx => h.stk x (List.mem_cons_of_mem _ hx), h.why⟩

theorem difference_ok {A : OMap} (hA : HashDet A) (headsA : OMap) (L : Log) :
    DiffOK A L (headsA.map (·.hash)) [] (difference A headsA L) := by
  unfold difference
  apply diffLoop_ok hA
  exact ⟨by simp, fun h hh => Or.inl hh, by simp⟩

/-! ### Completeness: the fuel of `difference` suffices for the incoming heads -/

theorem filter_len_le {α : Type} (p q : α → Bool) (l : List α)
    (h : ∀ x ∈ l, q x = true → p x = true) : (l.filter q).length ≤ (l.filter p).length := by
  induction l with
  | nil => simp
  | cons a as ih =>
    have ih' := ih (fun x hx => h x (List.mem_cons_of_mem _ hx))
    have ha := h a List.mem_cons_self
    simp only [List.filter_cons]
    cases hq : q a <;> cases hp : p a <;> simp <;> first | omega | (rw [hq] at ha; simp [hp] at ha)

theorem filter_len_lt {α : Type} (p q : α → Bool) (l : List α)
    (h : ∀ x ∈ l, q x = true → p x = true) (x : α) (hx : x ∈ l) (hp : p x = true) (hq : q x = false) :
    (l.filter q).length < (l.filter p).length := by
  induction l with
  | nil => simp at hx
  | cons a as ih =>
    have hle := filter_len_le p q as (fun y hy => h y (List.mem_cons_of_mem _ hy))
    simp only [List.filter_cons]
    rcases List.mem_cons.mp hx with rfl | hx'
    · simp [hp, hq]; omega
    · have ih' := ih (fun y hy => h y (List.mem_cons_of_mem _ hy)) hx'
      have ha := h a List.mem_cons_self
      cases hqa : q a <;> cases hpa : p a <;> simp <;> first | omega | (rw [hqa] at ha; simp [hpa] at ha)

/-- untraversed weight: occurrences in `l` of hashes not yet in `t` -/
def W (l t : List Nat) : Nat := (l.filter (fun n => decide (n ∉ t))).length

theorem W_cons_le (l t : List Nat) (n : Nat) : W l (n :: t) ≤ W l t := by
  unfold W
  apply filter_len_le
  intro x _ hq
  simp only [List.mem_cons, not_or, decide_eq_true_eq] at hq ⊢
  exact hq.2

theorem W_cons_lt (l t : List Nat) (n : Nat) (hn : n ∈ l) (ht : t.contains n = false) :
    W l (n :: t) < W l t := by
  unfold W
  apply filter_len_lt _ _ l _ n hn
  · simpa using ht
  · simp
  · intro x _ hq
    simp only [List.mem_cons, not_or, decide_eq_true_eq] at hq ⊢
    exact hq.2

theorem pushNext_measure (held : OMap) (l : List Nat) (ns : List Nat) :
    ∀ (stack trav : List Nat), (∀ n ∈ ns, n ∈ l) →
      (pushNext held ns stack trav).1.length + W l (pushNext held ns stack trav).2
        ≤ stack.length + W l trav := by
  induction ns with
  | nil => intro stack trav _; simp [pushNext]
  | cons n ns ih =>
    intro stack trav hsub
    rw [pushNext_unfold]
    have hsub' : ∀ m ∈ ns, m ∈ l := fun m hm => hsub m (List.mem_cons_of_mem _ hm)
    split
    · exact ih stack trav hsub'
    · rename_i hc
      simp only [Bool.or_eq_true, not_or, Bool.not_eq_true] at hc
      have h1 := ih (stack ++ [n]) (n :: trav) hsub'
      have h2 := W_cons_lt l trav n (hsub n List.mem_cons_self) hc.1
      simp at h1; omega

theorem pushNext_stack_mono (held : OMap) (ns : List Nat) : ∀ (stack trav : List Nat) (x : Nat),
    x ∈ stack → x ∈ (pushNext held ns stack trav).1 := by
  induction ns with
  | nil => intro stack trav x hx; simpa [pushNext] using hx
  | cons n ns ih =>
    intro stack trav x hx
    rw [pushNext_unfold]
    split
    · exact ih stack trav x hx
    · exact ih _ _ x (List.mem_append_left _ hx)

theorem diffLoop_mono (A : OMap) (L : Log) : ∀ (fuel : Nat) (stack trav : List Nat) (res : OMap) (x : Entry),
    x ∈ res → x ∈ diffLoop A L fuel stack trav res := by
  intro fuel
  induction fuel with
  | zero => intro _ _ _ x hx; exact hx
  | succ f ih =>
    intro stack trav res x hx
    cases stack with
    | nil => exact hx
    | cons hd stack =>
      simp only [diffLoop]
      cases hg : get A hd with
      | none => exact ih _ _ _ x hx
      | some eA =>
        simp only
        split
        · exact ih _ _ _ x ((mem_set res eA x).mpr (Or.inl hx))
        · exact ih _ _ _ x hx

/-- with enough fuel every stacked hash that names an acceptable entry ends up in the result -/
theorem diffLoop_complete (A : OMap) (L : Log) :
    ∀ (fuel : Nat) (stack trav : List Nat) (res : OMap),
      stack.length + W (nexts A) trav < fuel →
      ∀ h ∈ stack, ∀ e, get A h = some e → has L.entries h = false → e.logId = L.id →
        ∃ y ∈ diffLoop A L fuel stack trav res, y.hash = h := by
  intro fuel
  induction fuel with
  | zero => intro _ _ _ hlt; omega
  | succ f ih =>
    intro stack trav res hlt h hh e hge hheld hlid
    cases stack with
    | nil => simp at hh
    | cons hd stack =>
      simp only [diffLoop]
      cases hg : get A hd with
      | none =>
        rcases List.mem_cons.mp hh with rfl | hh
        · rw [hg] at hge; cases hge
        · exact ih stack trav res (by simp at hlt; omega) h hh e hge hheld hlid
      | some eA =>
        obtain ⟨heA, hhash⟩ := get_some hg
        simp only
        split
        · rename_i hcond
          have hsubn : ∀ n ∈ eA.next, n ∈ nexts A := fun n hn => (mem_nexts A n).mpr ⟨eA, heA, hn⟩
          have hm := pushNext_measure L.entries (nexts A) eA.next stack (hd :: trav) hsubn
          have hw := W_cons_le (nexts A) trav hd
          have hfuel : (pushNext L.entries eA.next stack (hd :: trav)).1.length
              + W (nexts A) (pushNext L.entries eA.next stack (hd :: trav)).2 < f := by
            simp at hlt; omega
          rcases List.mem_cons.mp hh with rfl | hh
          · -- the popped hash itself: its entry was just set
            have hin : ∃ y ∈ set res eA, y.hash = h := by
              cases hs : has res eA.hash
              · exact ⟨eA, (mem_set res eA eA).mpr (Or.inr ⟨rfl, hs⟩), hhash⟩
              · obtain ⟨y, hy, hyh⟩ := (has_iff res eA.hash).mp hs
                exact ⟨y, (mem_set res eA y).mpr (Or.inl hy), hyh.trans hhash⟩
            obtain ⟨y, hy, hyh⟩ := hin
            exact ⟨y, diffLoop_mono A L f _ _ _ y hy, hyh⟩
          · exact ih _ _ _ hfuel h (pushNext_stack_mono _ _ _ _ h hh) e hge hheld hlid
        · rename_i hcond
          rcases List.mem_cons.mp hh with rfl | hh
          · rw [hg] at hge; cases hge
            simp only [Bool.and_eq_true, Bool.not_eq_true', beq_iff_eq, not_and] at hcond
            exact absurd hlid (hcond hheld)
          · exact ih stack trav res (by simp at hlt; omega) h hh e hge hheld hlid

end Orbit
