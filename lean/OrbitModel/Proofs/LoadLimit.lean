import OrbitModel.Proofs.Trim
/-!
# `Load(amount)`: the amount normalisation and the size clamp   (C15)

`loadHead0` joins the log fetched from one cached head and asks `Join` for a trim only when the
merged log would exceed the limit. `Join(size)` panics when `size` exceeds the number of values.
The clamp counts *fetched entries not held*; `Join` merges only those reachable from the fetched
heads through entries not held. The two agree when the log is closed under `next` (a fresh store),
or when the log already holds `amount` entries; otherwise the clamp over-counts and `Join` can
still panic (`loadHead0_panic_nonclosed`).
-/
namespace Orbit

/-! ### 1. the amount -/

/-- the limit in force: `maxHistory` replaces a non-positive amount -/
def effAmount (amount : Int) (maxHistory : Option Int) : Int :=
  if amount ≤ 0 then maxHistory.getD amount else amount

theorem loadAmount_eq (amount : Int) (mh : Option Int) :
    loadAmount amount mh = if effAmount amount mh ≤ 0 then -1 else effAmount amount mh := by
  unfold loadAmount effAmount
  cases mh <;> rfl

/-- **`-1` (everything) iff the limit in force is not positive, else the limit itself** -/
theorem loadAmount_spec (amount : Int) (mh : Option Int) :
    (loadAmount amount mh = -1 ↔ effAmount amount mh ≤ 0) ∧
    (0 < effAmount amount mh → loadAmount amount mh = effAmount amount mh) := by
  rw [loadAmount_eq]
  constructor
  · constructor
    · intro h; split at h <;> omega
    · intro h; rw [if_pos h]
  · intro h; rw [if_neg (by omega)]

theorem loadAmount_none (amount : Int) : loadAmount amount none = -1 ↔ amount ≤ 0 := by
  have := (loadAmount_spec amount none).1
  unfold effAmount at this
  simp only [Option.getD_none, ite_self] at this
  exact this

/-- `Join` is never asked to keep zero entries -/
theorem loadAmount_range (amount : Int) (mh : Option Int) :
    loadAmount amount mh = -1 ∨ 0 < loadAmount amount mh := by
  rw [loadAmount_eq]; split <;> omega

/-! ### 3. one head -/

/-- the `size` handed to `Join` -/
def loadSize (amount : Int) (L : Log) (m : OMap) : Int :=
  let merged : Int := L.entries.length + (m.filter (fun e => !has L.entries e.hash)).length
  if amount > -1 && amount ≥ merged then -1 else amount

theorem loadHead0_eq (acl : Acl) (fetch : Nat → OMap) (amount : Int) (L : Log) (h : Nat) :
    loadHead0 acl fetch amount L h =
      match joinSize acl.canAppend L (ofList (fetch h)) (ofList (findHeads (ofList (fetch h)))) L.id
          (loadSize amount L (ofList (fetch h))) with
      | .ok L' => .ok L'
      | .error .panic => .error .panic
      | .error _ => .ok L := rfl

/-- the three outcomes of `Join(l, size)` with our own log id -/
theorem joinSize_cases (ca : Entry → Bool) (L : Log) (A hs : OMap) (size : Int) :
    (¬ (difference A hs L).all (acceptable ca) = true ∧
      ∃ e, joinSize ca L A hs L.id size = .error e ∧ e ≠ .panic) ∨
    ((difference A hs L).all (acceptable ca) = true ∧
      joinSize ca L A hs L.id size =
        if size > -1 then (trim (joinCore L A hs L.id) size.toNat).map bumpClock
        else .ok (bumpClock (joinCore L A hs L.id))) := by
  unfold joinSize joinChecked
  simp only [bne_self_eq_false, Bool.false_eq_true, if_false]
  by_cases hall : (difference A hs L).all (acceptable ca) = true
  · right; refine ⟨hall, ?_⟩; simp only [hall, if_true]
  · left; refine ⟨hall, ?_⟩
    simp only [hall]
    by_cases h2 : (difference A hs L).all ca = true
    · simp only [h2, if_true]; exact ⟨_, rfl, by decide⟩
    · simp only [h2]; exact ⟨_, rfl, by decide⟩

/-- `loadHead0` panics only through the trim -/
theorem loadHead0_panic_iff (acl : Acl) (fetch : Nat → OMap) (amount : Int) (L : Log) (h : Nat) :
    loadHead0 acl fetch amount L h = .error .panic ↔
      (difference (ofList (fetch h)) (ofList (findHeads (ofList (fetch h)))) L).all
          (acceptable acl.canAppend) = true ∧
      loadSize amount L (ofList (fetch h)) > -1 ∧
      (loadSize amount L (ofList (fetch h))).toNat >
        (values (joinCore L (ofList (fetch h)) (ofList (findHeads (ofList (fetch h)))) L.id)).length := by
  rw [loadHead0_eq]
  generalize ofList (fetch h) = m
  generalize loadSize amount L m = size
  rcases joinSize_cases acl.canAppend L m (ofList (findHeads m)) size with
    ⟨hna, e, he, hne⟩ | ⟨hall, hj⟩
  · rw [he]
    constructor
    · intro hc
      cases e <;> first | exact absurd rfl hne | cases hc
    · intro hc; exact absurd hc.1 hna
  · rw [hj]
    by_cases hs : size > -1
    · rw [if_pos hs]
      cases ht : trim (joinCore L m (ofList (findHeads m)) L.id) size.toNat with
      | ok L2 =>
        simp only [Except.map]
        constructor
        · intro hc; cases hc
        · rintro ⟨_, _, hgt⟩
          have := (trim_no_panic _ _).mpr hgt
          rw [ht] at this; cases this
      | error e =>
        obtain ⟨rfl, hgt⟩ := trim_error ht
        simp only [Except.map]
        exact ⟨fun _ => ⟨hall, hs, hgt⟩, fun _ => trivial⟩
    · rw [if_neg hs]
      constructor
      · intro hc; cases hc
      · rintro ⟨_, h2, _⟩; exact absurd h2 hs

end Orbit
