import OrbitModel.Proofs.CrashHist
/-!
# Crash = prefix of the effect trace; recovery returns a durable log   (C05)

`valid_inv`: the invariants of a valid history, and a durable log for every prefix of its trace.
`crash_recovers`: whatever prefix `p` of the trace survives, `recover U (diskOf p)`
 (i) contains every acknowledged write and every entry reported as replicated in `p`,
 (ii) contains only hashes whose block was written in `p`,
 (iii) is closed under `next` (this is where `BatchOk.parents` is used: rejected logs being skipped,
       a child accepted while its parent is rejected would be recovered with a parent the log never
       held — `CrashExample.rejected_parent_recovered`),
 (iv) is exactly the hash set of a good, closed log `D` whose entries are entries of the pre-crash log.
`blocks_before_heads`: when a cache key is written, the blocks of the whole ancestry of the value are
already on disk.
-/
namespace Orbit

theorem valid_inv {acl : Acl} {U : List Entry} (hU : HashDet U) (hM : ClockMono U) {id : Nat}
    {ops : List SOp} {L : Log} (hv : ValidHist acl U id ops L) :
    HistInv U id (trace ops) L ∧ PrefOk U L (trace ops) := by
  induction hv with
  | nil =>
    refine ⟨⟨good_empty U id, rfl, ?_, ?_⟩, ?_⟩
    · intro e he; simp [Log.empty] at he
    · intro e he; simp [Log.empty] at he
    · intro p hp
      have : p = [] := List.prefix_nil.mp hp
      exact ⟨Log.empty id, this ▸ durable_nil U id, fun _ h => h⟩
  | @write ops L mk _ hcan hw ih =>
    obtain ⟨hI, hP⟩ := ih
    obtain ⟨hG', hid', hC', hent, hcov⟩ := hI.write hU hM hcan hw
    generalize mk (appendTime L) (appendNext L) = e at *
    generalize (append acl.canAppend L mk).1 = L' at *
    have hT : trace (ops ++ [.write e]) =
        trace ops ++ [.block e.hash] ++ [.cacheLocal [e.hash]] ++ [.ack e.hash] := by
      rw [trace_snoc]; simp [SOp.effects]
    rw [hT]
    have hsub : ∀ x ∈ L.entries, x ∈ L'.entries := fun x hx => by
      rw [hent]; exact List.mem_append_left _ hx
    have heL : e ∈ L'.entries := by rw [hent]; simp
    have hhas : has L'.entries e.hash = true := (has_iff _ _).mpr ⟨e, heL, rfl⟩
    have hblk : ∀ x ∈ L'.entries, Eff.block x.hash ∈ trace ops ++ [.block e.hash] := by
      intro x hx
      rw [hent] at hx
      rcases List.mem_append.mp hx with hx | hx
      · exact List.mem_append_left _ (hI.blocks x hx)
      · rw [List.mem_singleton.mp hx]; simp
    obtain ⟨D, hD, hDL⟩ := hP _ (List.prefix_refl _)
    have d1 := hD.block e.hash
    have g : CacheStep U (trace ops ++ [.block e.hash]) D L' [e.hash] :=
      ⟨fun x hx => hsub x (hDL x hx), hG', hC', fun x hx => (mem_blocks _ _).mpr (hblk x hx),
        fun h hh => by rw [List.mem_singleton.mp hh]; exact hhas, hcov⟩
    have d2 := d1.cacheLocal g
    have d3 := d2.ack e.hash hhas
    refine ⟨⟨hG', hid', hC', ?_⟩, ?_⟩
    · intro x hx
      exact List.mem_append_left _ (List.mem_append_left _ (hblk x hx))
    · exact (((hP.mono hsub).snoc ⟨D, d1, fun x hx => hsub x (hDL x hx)⟩).snoc
        ⟨L', d2, fun _ h => h⟩).snoc ⟨L', d3, fun _ h => h⟩
  | @denied ops L mk _ hcan ih =>
    obtain ⟨hI, hP⟩ := ih
    have hstep : Step acl.canAppend U L (append acl.canAppend L mk).1 := .appendDenied L mk hcan
    have hent : (append acl.canAppend L mk).1.entries = L.entries := by
      rw [append_eq, hcan]; rfl
    refine ⟨⟨good_step hU hM hI.good hstep, (step_id hstep).trans hI.lid, ?_, ?_⟩, ?_⟩
    · unfold Closed; rw [hent]; exact hI.closed
    · rw [hent]; exact hI.blocks
    · exact hP.mono (fun x hx => by rw [hent]; exact hx)
  | @fetched ops L e _ ih =>
    obtain ⟨hI, hP⟩ := ih
    have hT : trace (ops ++ [.fetched e]) = trace ops ++ [.block e.hash] := by
      rw [trace_snoc]; rfl
    rw [hT]
    obtain ⟨D, hD, hDL⟩ := hP _ (List.prefix_refl _)
    exact ⟨⟨hI.good, hI.lid, hI.closed, fun x hx => List.mem_append_left _ (hI.blocks x hx)⟩,
      hP.snoc ⟨D, hD.block e.hash, hDL⟩⟩
  | @merged ops L logs L' _ hB hj hall ih =>
    obtain ⟨hI, hP⟩ := ih
    obtain ⟨hI', hsub⟩ := hI.batch hU hM hB hj
    have hT : trace (ops ++ [.merged (joinedEntries acl L logs) ((sortedHeads L').map (·.hash))]) =
        trace ops ++ [.cacheRemote ((sortedHeads L').map (·.hash))] ++
          [.replicated ((joinedEntries acl L logs).map (·.hash))] := by
      rw [trace_snoc]; simp [SOp.effects]
    rw [hT]
    obtain ⟨D, hD, hDL⟩ := hP _ (List.prefix_refl _)
    have g : CacheStep U (trace ops) D L' ((sortedHeads L').map (·.hash)) := by
      refine ⟨fun x hx => hsub x (hDL x hx), hI'.good, hI'.closed,
        fun x hx => (mem_blocks _ _).mpr (hI'.blocks x hx), ?_, sortedHeads_cover hM hI'.good.inv⟩
      intro h hh
      obtain ⟨x, hx, rfl⟩ := List.mem_map.mp hh
      have hx' : x ∈ L'.heads := by
        unfold sortedHeads at hx; exact (Trav.mem_sortDesc _ _ _).mp hx
      exact (has_iff _ _).mpr ⟨x, ((hI'.good.inv.heads x).mp hx').1, rfl⟩
    have d1 := hD.cacheRemote g
    have d2 := d1.replicated ((joinedEntries acl L logs).map (·.hash)) (by
      intro h hh
      obtain ⟨x, hx, rfl⟩ := List.mem_map.mp hh
      exact (has_iff _ _).mpr ⟨x, hall x hx, rfl⟩)
    refine ⟨⟨hI'.good, hI'.lid, hI'.closed, ?_⟩, ?_⟩
    · intro x hx
      exact List.mem_append_left _ (List.mem_append_left _ (hI'.blocks x hx))
    · exact ((hP.mono hsub).snoc ⟨L', d1, fun _ h => h⟩).snoc ⟨L', d2, fun _ h => h⟩

/-- **C05.** Cut the effect trace of a valid history anywhere (`p` is what reached the disk) and
recover from what is left. -/
theorem crash_recovers {acl : Acl} {U : List Entry} (hU : HashDet U) (hM : ClockMono U) {id : Nat}
    {ops : List SOp} {L : Log} (hvalid : ValidHist acl U id ops L) (p : List Eff)
    (hp : p <+: trace ops) :
    -- (i) acknowledged writes and replicated entries are recovered
    (∀ h, Eff.ack h ∈ p → h ∈ recover U (diskOf p)) ∧
    (∀ hs, Eff.replicated hs ∈ p → ∀ h ∈ hs, h ∈ recover U (diskOf p)) ∧
    -- (ii) only entries whose block was really written
    (∀ h ∈ recover U (diskOf p), h ∈ (diskOf p).blocks ∧ Eff.block h ∈ p) ∧
    -- (iii) closed under `next`
    (∀ h ∈ recover U (diskOf p), ∀ e ∈ U, e.hash = h → ∀ n ∈ e.next, n ∈ recover U (diskOf p)) ∧
    -- (iv) exactly the hashes of a good, closed part of the pre-crash log
    (∃ D, Good U D ∧ Closed D ∧ (∀ e ∈ D.entries, e ∈ L.entries) ∧
      ∀ h, h ∈ recover U (diskOf p) ↔ has D.entries h = true) := by
  obtain ⟨D, hD, hDL⟩ := (valid_inv hU hM hvalid).2 p hp
  have hR := recover_durable hU hD
  refine ⟨fun h hh => (hR h).mpr (hD.acks h hh), fun hs hh h hm => (hR h).mpr (hD.repl hs hh h hm),
    fun h hh => ⟨recover_blocks U _ h hh, (mem_blocks p h).mp (recover_blocks U _ h hh)⟩, ?_,
    ⟨D, hD.good, hD.closed, hDL, hR⟩⟩
  intro h hh e heU heh n hn
  obtain ⟨y, hy, hyh⟩ := (has_iff _ _).mp ((hR h).mp hh)
  have : y = e := hU y (hD.good.inv.sub y hy) e heU (hyh.trans heh.symm)
  exact (hR n).mpr (hD.closed e (this ▸ hy) n hn)

/-! ### Blocks are written before the heads that name them -/

/-- ancestry in the universe: follow `next` links of universe entries -/
inductive Anc (U : List Entry) : Nat → Nat → Prop
  | refl (h : Nat) : Anc U h h
  | step {p : Entry} {n x : Nat} : p ∈ U → n ∈ p.next → Anc U n x → Anc U p.hash x

theorem anc_closed {U : List Entry} (hU : HashDet U) {D : Log} (hsub : ∀ e ∈ D.entries, e ∈ U)
    (hC : Closed D) {h x : Nat} (ha : Anc U h x) : has D.entries h = true → has D.entries x = true := by
  induction ha with
  | refl _ => exact id
  | step hp hn _ ih =>
    intro hh
    obtain ⟨y, hy, hyh⟩ := (has_iff _ _).mp hh
    have := hU y (hsub y hy) _ hp hyh
    exact ih (hC _ (this ▸ hy) _ hn)

/-- **Whenever `_localHeads` or `_remoteHeads` is written, the block of every ancestor of the
value is already on disk.** -/
theorem blocks_before_heads {acl : Acl} {U : List Entry} (hU : HashDet U) (hM : ClockMono U)
    {id : Nat} {ops : List SOp} {L : Log} (hvalid : ValidHist acl U id ops L) (pre post : List Eff)
    (hs : List Nat) (c : Eff) (hc : c = .cacheLocal hs ∨ c = .cacheRemote hs)
    (hsplit : trace ops = pre ++ c :: post) :
    ∀ h ∈ hs, ∀ x, Anc U h x → Eff.block x ∈ pre := by
  have hp : pre ++ [c] <+: trace ops := by
    rw [hsplit]; exact ⟨post, by simp⟩
  obtain ⟨D, hD, _⟩ := (valid_inv hU hM hvalid).2 _ hp
  intro h hh x hx
  have hroot : h ∈ (diskOf (pre ++ [c])).lheads ++ (diskOf (pre ++ [c])).rheads := by
    rw [diskOf_snoc]
    rcases hc with rfl | rfl
    · exact List.mem_append_left _ hh
    · exact List.mem_append_right _ hh
  have hx' := anc_closed hU hD.good.inv.sub hD.closed hx (hD.roots h hroot)
  obtain ⟨y, hy, hyx⟩ := (has_iff _ _).mp hx'
  have hb := (mem_blocks _ _).mp (hD.blocks y hy)
  rw [hyx] at hb
  rcases List.mem_append.mp hb with hb | hb
  · exact hb
  · rcases hc with rfl | rfl <;> simp at hb

end Orbit
