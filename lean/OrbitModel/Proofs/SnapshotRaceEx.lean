import OrbitModel.Proofs.SnapshotRace
/-!
# Racing `SaveSnapshot`: the order of the three reads matters; examples   (C13)

* `saveRacingReordered_load_none`: a "tidied-up" `SaveSnapshot` reading the entries first, then the
  heads, then the size, "succeeds" but writes a snapshot that cannot be loaded as soon as the log
  grew in between (the header announces more records than were written).
* the same three logs saved in the order of the Go code load back as the first state.
* `saveRacing_load'` applies to a concrete run (non-vacuity).
* `hole_filled_is_loaded`: the hypothesis `hclosed` of `saveRacing_load` is needed.
-/
namespace Orbit.Snap

/-- reading more records than were written (before the trailing 0) fails -/
theorem decodeRecs_short : ∀ (rs : List (List Nat)) (b : List Nat), encodeRecs rs = some b →
    ∀ n, rs.length < n → decodeRecs n (b ++ [0]) = none := by
  intro rs
  induction rs with
  | nil =>
    intro b h n hn
    simp only [encodeRecs] at h
    injection h with h
    subst h
    cases n with
    | zero => simp at hn
    | succ k => rfl
  | cons r rs ih =>
    intro b h n hn
    obtain ⟨a, b', ha, hb', rfl⟩ := encodeRecs_cons_some h
    obtain ⟨hr, rfl⟩ := encodeRec_some ha
    cases n with
    | zero => simp at hn
    | succ k =>
      have hk : rs.length < k := by simp only [List.length_cons] at hn; omega
      have := decodeRecs_succ k r (b' ++ [0]) hr
      rw [List.append_assoc, this, ih b' hb' k hk]

/-- **the reordered reads write snapshots that cannot be loaded**: whenever the log grew between the
read of the entries (`L1`) and the read of the size (`L3`), every snapshot the reordered save
returns is refused by `load` -/
theorem saveRacingReordered_load_none {acl : Acl} {ser : Entry → List Nat}
    {serHeader : Image → List Nat} {de : List Nat → Option Entry}
    {deHeader : List Nat → Option (Nat × List Entry × Nat)} {L1 L2 L3 : Log} {bs : List Nat}
    (hdh : deHeader (serHeader (racingImage L2 L3)) = some (L2.id, sortedHeads L2, L3.entries.length))
    (hgrow : L1.entries.length < L3.entries.length)
    (hs : saveRacingReordered ser serHeader L1 L2 L3 = some bs) :
    load acl de deHeader bs = none := by
  unfold saveRacingReordered at hs
  split at hs
  · rename_i bs0 henc
    injection hs with hs
    obtain ⟨a, b, ha, hb, rfl⟩ := encodeRecs_cons_some henc
    have h1 := decode_header ha (b ++ [0])
    have h2 := decodeRecs_short (L1.entries.map ser) b hb L3.entries.length
      (by rw [List.length_map]; exact hgrow)
    unfold load
    rw [← hs, List.append_assoc]
    simp only [h1, hdh, h2]
  · cases hs

/-- it does return a snapshot (no error) whenever the records fit 16 bits -/
theorem saveRacingReordered_some {ser : Entry → List Nat} {serHeader : Image → List Nat}
    {L1 L2 L3 : Log} (hh : (serHeader (racingImage L2 L3)).length ≤ 65535)
    (he : ∀ e ∈ L1.entries, (ser e).length ≤ 65535) :
    ∃ bs, saveRacingReordered ser serHeader L1 L2 L3 = some bs := by
  have : encodeRecs (serHeader (racingImage L2 L3) :: L1.entries.map ser) ≠ none := by
    rw [encodeRecs_some_iff]
    intro r hr
    rcases List.mem_cons.mp hr with rfl | hr
    · exact hh
    · obtain ⟨e, he', rfl⟩ := List.mem_map.mp hr
      exact he e he'
  unfold saveRacingReordered
  cases h : encodeRecs (serHeader (racingImage L2 L3) :: L1.entries.map ser) with
  | none => exact absurd h this
  | some b => exact ⟨_, rfl⟩

end Orbit.Snap

namespace Orbit.Snap.Example

/-! ### Three growing states `L1 = [a]`, `L2 = [a, b]`, `L3 = [a, b, c]` of `SnapshotRT`'s example -/

example : L1.entries = [a] ∧ L2.entries = L1.entries ++ [b] ∧ L3.entries = L2.entries ++ [c] := by decide

/-- Go order (heads `L1`, size `L2`, entries `L3`): header (id 9, size 2, head 1), three records -/
example : saveRacing ser serHeader L1 L2 L3 =
    some [0, 3, 9, 2, 1,  0, 1, 1,  0, 1, 2,  0, 1, 3,  0] := by decide

/-- ... which loads back as the state at the first read, `L1` -/
example : ((saveRacing ser serHeader L1 L2 L3).bind (load acl de deHeader)).map
      (fun l => (l.id, l.entries, values l, sortedHeads l)) =
    some (9, [a], [a], [a]) ∧ (L1.entries, values L1, sortedHeads L1) = ([a], [a], [a]) := by decide

/-- **refutation witness for the reordered reads** (entries `L1`, heads `L2`, size `L3`): a
snapshot is returned -- header (id 9, size 3, head 2) and ONE record -- and `load` refuses it -/
theorem reordered_unloadable :
    saveRacingReordered ser serHeader L1 L2 L3 = some [0, 3, 9, 3, 2,  0, 1, 1,  0] ∧
    load acl de deHeader [0, 3, 9, 3, 2,  0, 1, 1,  0] = none ∧
    L1.entries.length < L3.entries.length := by decide

/-- the general theorem applies to it -/
example : load acl de deHeader [0, 3, 9, 3, 2,  0, 1, 1,  0] = none :=
  saveRacingReordered_load_none (ser := ser) (serHeader := serHeader) (L1 := L1) (L2 := L2) (L3 := L3)
    (by decide) (by decide) (by decide)

theorem reach_L1 : Reachable acl.canAppend U 9 L1 :=
  .step .empty (.appendOk (Log.empty 9) (fun _ _ => a) (by decide) (by decide) (by decide) (by decide) rfl)

/-- **non-vacuity**: every hypothesis of `saveRacing_load'` holds on the three states -/
example : ∃ L', load acl de deHeader [0, 3, 9, 2, 1,  0, 1, 1,  0, 1, 2,  0, 1, 3,  0] = some L' ∧
    (∀ e, e ∈ L'.entries ↔ e ∈ L1.entries) ∧ values L' = values L1 ∧
    sortedHeads L' = sortedHeads L1 :=
  saveRacing_load' (U := U) (ser := ser) (serHeader := serHeader) (L1 := L1) (L2 := L2) (L3 := L3)
    (x := [b]) (y := [c]) (by decide) (by decide) hU hT hM (reachable_good hU hM reach_L1)
    (by decide) (by decide) (by decide) (by decide) (by decide) (by decide) (by decide)

/-- the toy codec satisfies the codec hypotheses of `saveRacing_load` on what it knows -/
example : (∀ e ∈ U, de (ser e) = some e) ∧
    deHeader (serHeader (racingImage L1 L2)) = some (L1.id, sortedHeads L1, L2.entries.length) := by
  decide

/-! ### `hclosed` is needed: a racing join that fills a hole of `L1` ends up in the loaded log -/

def d : Entry := { hash := 4, logId := 9, time := 3, cid := 0, next := [2] }
def lookup' : Nat → Option Entry
  | 1 => some a | 2 => some b | 3 => some c | 4 => some d | _ => none
def de' : List Nat → Option Entry
  | [h] => lookup' h
  | _ => none
def deHeader' : List Nat → Option (Nat × List Entry × Nat)
  | id :: n :: hs => (hs.mapM lookup').map (fun heads => (id, heads, n))
  | _ => none

/-- a replica that so far fetched only `d` (its parent `b` is a hole) ... -/
def H1 : Log := okOr (join acl.canAppend (Log.empty 9) [d] [d] 9) (Log.empty 9)
/-- ... then receives `b` and `a` while `SaveSnapshot` runs -/
def H2 : Log := okOr (join acl.canAppend H1 [b, a] [b] 9) H1

theorem hole_filled_is_loaded :
    H1.entries = [d] ∧ H2.entries = H1.entries ++ [b, a] ∧ sortedHeads H1 = [d] ∧
    -- `hclosed` fails: `b` arrived in between and is the `next` of `d`
    (b ∈ [b, a] ∧ b.hash ∈ d.next ∧ b ∉ H1.entries) ∧
    -- the snapshot loads, but as `{d, b, a}`, not as the state `{d}` of the first read
    ((saveRacing ser serHeader H1 H2 H2).bind (load acl de' deHeader')).map
      (fun l => (l.entries, values l, sortedHeads l)) = some ([d, b, a], [a, b, d], [d]) ∧
    values H1 = [d] := by decide

end Orbit.Snap.Example
