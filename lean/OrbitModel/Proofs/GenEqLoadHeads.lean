import OrbitModel.Generated.GenLoadHeads
import OrbitModel.Model.Order
/-!
# Regenerated Go fragment = hand-written model (tie 2): what `Load` decodes into what
-/
namespace Orbit

theorem gen_loadDecodes : Gen.loadDecodes = Order.loadDecodes ∧ Gen.loadDecodesHeads = Order.loadHeads := by decide

end Orbit
