import OrbitModel.Proofs.KvLemmas
/-!
# The generic index theorem

`W : Entry → List Wr` says which atomic writes an entry stands for. `scanW` is the Go index loop
(newest → oldest, `handled` set, mutating the old index), `replayW` the specification (oldest →
newest from the empty map). They agree when every entry's writes have distinct keys and every
key of the old index is written by some entry of the listing.
-/
namespace Orbit

def scanW (W : Entry → List Wr) (idx : KV) (vs : List Entry) : KV :=
  ((vs.reverse.flatMap W).foldl wStep ([], idx)).2

def replayW (W : Entry → List Wr) (vs : List Entry) : KV := (vs.flatMap W).foldl applyW []

/-- `W` writes key `k` somewhere in `vs` -/
def writesW (W : Entry → List Wr) (vs : List Entry) (k : String) : Prop :=
  ∃ e ∈ vs, k ∈ (W e).map (·.1)

/-- each entry writes a key at most once -/
def NodupW (W : Entry → List Wr) (vs : List Entry) : Prop := ∀ e ∈ vs, ((W e).map (·.1)).Nodup

/-- the last write to `k` in the listing -/
def lastW (W : Entry → List Wr) (vs : List Entry) (k : String) : Option (Option String) :=
  firstW (vs.flatMap W).reverse k

/-- if some step function is, on the listing, the `wStep` fold of the entry's writes, the whole
loop is a `wStep` fold of the flattened writes -/
theorem foldl_eq_flat {β : Type} (step : β → Entry → β) (g : β → Wr → β) (W : Entry → List Wr)
    (l : List Entry) (acc : β) (h : ∀ e ∈ l, ∀ acc, step acc e = (W e).foldl g acc) :
    l.foldl step acc = (l.flatMap W).foldl g acc := by
  induction l generalizing acc with
  | nil => rfl
  | cons e es ih =>
    rw [List.foldl_cons, List.flatMap_cons, List.foldl_append, h e List.mem_cons_self]
    exact ih _ (fun x hx => h x (List.mem_cons_of_mem _ hx))

theorem get_replayW (W : Entry → List Wr) (vs : List Entry) (k : String) :
    KV.get (replayW W vs) k = (lastW W vs k).getD none := by
  unfold replayW lastW
  rw [get_foldl_applyW, KV.get_nil]

theorem get_scanW (W : Entry → List Wr) (idx : KV) (vs : List Entry) (hnd : NodupW W vs)
    (k : String) : KV.get (scanW W idx vs) k = (lastW W vs k).getD (KV.get idx k) := by
  unfold scanW lastW
  rw [get_foldl_wStep]
  simp only [List.not_mem_nil, if_false]
  congr 1
  rw [List.reverse_flatMap]
  apply firstW_flatMap_congr
  intro e he
  exact (firstW_reverse (hnd e (List.mem_reverse.mp he)) k).symm

theorem writesW_of_lastW {W : Entry → List Wr} {vs : List Entry} {k : String}
    (h : lastW W vs k ≠ none) : writesW W vs k := by
  unfold lastW at h
  rw [Ne, firstW_eq_none, Classical.not_not, List.map_reverse, List.mem_reverse, List.mem_map] at h
  obtain ⟨w, hw, hk⟩ := h
  obtain ⟨e, he, hwe⟩ := List.mem_flatMap.mp hw
  exact ⟨e, he, List.mem_map.mpr ⟨w, hwe, hk⟩⟩

theorem lastW_of_writesW {W : Entry → List Wr} {vs : List Entry} {k : String}
    (h : writesW W vs k) : lastW W vs k ≠ none := by
  obtain ⟨e, he, hk⟩ := h
  obtain ⟨w, hwe, hk⟩ := List.mem_map.mp hk
  unfold lastW
  rw [Ne, firstW_eq_none, Classical.not_not, List.map_reverse, List.mem_reverse, List.mem_map]
  exact ⟨w, List.mem_flatMap.mpr ⟨e, he, hwe⟩, hk⟩

/-- a key present in the replay is written by the listing -/
theorem writesW_of_get_replayW {W : Entry → List Wr} {vs : List Entry} {k : String}
    (h : (KV.get (replayW W vs) k).isSome) : writesW W vs k := by
  apply writesW_of_lastW
  intro hn
  rw [get_replayW, hn] at h
  simp at h

/-- **index = replay**, generic form -/
theorem scanW_eq_replayW (W : Entry → List Wr) (idx : KV) (vs : List Entry) (hnd : NodupW W vs)
    (hpre : ∀ k, (KV.get idx k).isSome → writesW W vs k) :
    KV.equiv (scanW W idx vs) (replayW W vs) := by
  intro k
  rw [get_scanW W idx vs hnd, get_replayW]
  cases hl : lastW W vs k with
  | some x => rfl
  | none =>
    simp only [Option.getD_none]
    cases hg : KV.get idx k with
    | none => rfl
    | some v =>
      exact absurd hl (lastW_of_writesW (hpre k (by rw [hg]; rfl)))

/-- the invariant step: the listing only grows -/
theorem scanW_inv_step (W : Entry → List Wr) (idx : KV) (vs vs' : List Entry) (hnd : NodupW W vs')
    (hinv : KV.equiv idx (replayW W vs)) (hsub : ∀ e ∈ vs, e ∈ vs') :
    KV.equiv (scanW W idx vs') (replayW W vs') := by
  apply scanW_eq_replayW W idx vs' hnd
  intro k hk
  rw [hinv k] at hk
  obtain ⟨e, he, hke⟩ := writesW_of_get_replayW hk
  exact ⟨e, hsub e he, hke⟩

/-- successive listings, each contained in the next -/
def Grows : List (List Entry) → Prop
  | [] => True
  | [_] => True
  | a :: b :: t => (∀ e ∈ a, e ∈ b) ∧ Grows (b :: t)

/-- chaining any invariant step along growing listings -/
theorem inv_chain_gen (upd : KV → List Entry → KV) (rep : List Entry → KV)
    (P : List Entry → Prop)
    (hstep : ∀ idx vs vs', P vs' → KV.equiv idx (rep vs) → (∀ e ∈ vs, e ∈ vs') →
      KV.equiv (upd idx vs') (rep vs'))
    (l : List (List Entry)) (idx : KV) (vs : List Entry) (hinv : KV.equiv idx (rep vs))
    (hg : Grows (vs :: l)) (hP : ∀ x ∈ l, P x) :
    KV.equiv (l.foldl upd idx) (rep (l.getLastD vs)) := by
  induction l generalizing idx vs with
  | nil => exact hinv
  | cons a t ih =>
    rw [List.foldl_cons, List.getLastD_cons]
    exact ih (upd idx a) a (hstep idx vs a (hP a List.mem_cons_self) hinv hg.1) hg.2
      (fun x hx => hP x (List.mem_cons_of_mem _ hx))

theorem grows_nil_cons (l : List (List Entry)) (hg : Grows l) : Grows ([] :: l) := by
  cases l with
  | nil => trivial
  | cons a t => exact ⟨fun e he => absurd he List.not_mem_nil, hg⟩

end Orbit
