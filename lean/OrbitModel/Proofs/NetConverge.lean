import OrbitModel.Proofs.NetBasic
/-!
# Convergence after a final exchange (C02)

Whatever happened before (writes, arbitrary deliveries, drops, duplicates, restarts), once every
ordered pair of replicas has exchanged heads -- a `send i j` whose *very message* is later handled
by `j` -- every replica holds every acknowledged write.

The final phase is not a canonical list: it is any write-free action list in which every ordered
pair is delivered (`Delivers`), with arbitrary further sends, deliveries of old or duplicated
messages, restarts and faults interleaved anywhere.
-/
namespace Orbit.Net

/-- running `fin` from `s`, there is a `send i j` and, later, the handling of exactly that message:
the soup only grows by appending, so the message's index is the soup length at the time of sending. -/
def Delivers (u : Univ) (s : State) (fin : List Act) (i j : Nat) : Prop :=
  ∃ (pre mid post : List Act) (c : List Nat),
    fin = pre ++ .send i j :: (mid ++ .recv (run u s pre).soup.length c :: post)

/-- a final phase for `n` replicas, run from state `s`: no writes, and every ordered pair of distinct
replicas is delivered. Anything else (faults, restarts, other sends and deliveries) may be interleaved. -/
structure FinalPhase (u : Univ) (s : State) (n : Nat) (fin : List Act) : Prop where
  noWrite : ∀ a ∈ fin, a.isWrite = false
  delivers : ∀ i j, i < n → j < n → i ≠ j → Delivers u s fin i j

/-- the initial state: `n` empty replicas, nothing sent, nothing acknowledged -/
def init (n : Nat) : State := { reps := List.replicate n {} }

/-- what `i` holds when the delivered message is sent, `j` holds at the end -/
theorem delivers_held (u : Univ) (s : State) (fin : List Act) (i j : Nat)
    (hc : Covers u s) (hv : ValidRun u s fin) (hd : Delivers u s fin i j) (hj : j < s.reps.length)
    (r : Replica) (hr : s.reps[i]? = some r) (h : Nat) (hh : h ∈ r.held) :
    ∃ r', (run u s fin).reps[j]? = some r' ∧ h ∈ r'.held := by
  obtain ⟨pre, mid, post, c, rfl⟩ := hd
  simp only [validRun_append, ValidRun] at hv
  obtain ⟨hv₁, hvs, hv₃, hvr, hv₅⟩ := hv
  simp only [run_append, run_cons]
  -- up to the send
  have hc₂ := covers_run u s pre hc hv₁
  obtain ⟨r₂, hr₂, hm₂⟩ := held_mono_run u s pre hc hv₁ i r hr
  have hcov : h ∈ ancAll u r₂.heads := covers_iff.mp hc₂ i r₂ hr₂ h (hm₂ h hh)
  have hlen₂ : (run u s pre).reps.length = s.reps.length := run_length u s pre
  generalize run u s pre = s₂ at *
  -- the send
  have hc₃ := covers_step u s₂ (.send i j) hc₂ hvs
  have hk₃ : (step u s₂ (.send i j)).soup[s₂.soup.length]? = some { dst := j, heads := r₂.heads } := by
    simp only [step, hr₂, List.getElem?_append_right (Nat.le_refl _), Nat.sub_self,
      List.getElem?_cons_zero]
  have hlen₃ : (step u s₂ (.send i j)).reps.length = s.reps.length := by rw [step_length, hlen₂]
  generalize step u s₂ (.send i j) = s₃ at *
  -- in between
  have hc₄ := covers_run u s₃ mid hc₃ hv₃
  have hk₄ := run_soup u s₃ mid hk₃
  have hlen₄ : (run u s₃ mid).reps.length = s.reps.length := by rw [run_length, hlen₃]
  generalize run u s₃ mid = s₄ at *
  -- the delivery
  have hc₅ := covers_step u s₄ _ hc₄ hvr
  obtain ⟨r₄, hr₄⟩ : ∃ r₄, s₄.reps[j]? = some r₄ := ⟨_, List.getElem?_eq_getElem (hlen₄ ▸ hj)⟩
  have hr₅ : ∃ r₅, (step u s₄ (.recv s₂.soup.length c)).reps[j]? = some r₅ ∧ h ∈ r₅.held := by
    simp only [step, hk₄, getElem?_updRep, hr₄, Option.map_some, if_true]
    exact ⟨_, rfl, List.mem_append_right _ hcov⟩
  obtain ⟨r₅, hr₅, hh₅⟩ := hr₅
  -- afterwards
  obtain ⟨r₆, hr₆, hm₆⟩ := held_mono_run u _ post hc₅ hv₅ j r₅ hr₅
  exact ⟨r₆, hr₆, hm₆ h hh₅⟩

/-- convergence from a state satisfying the invariants -/
theorem converge_final (u : Univ) (s : State) (fin : List Act)
    (hc : Covers u s) (ha : AckedSomewhere u s) (hv : ValidRun u s fin)
    (hf : FinalPhase u s s.reps.length fin) :
    ∀ r ∈ (run u s fin).reps, ∀ h ∈ (run u s fin).acked, h ∈ r.held := by
  intro r hr h hh
  rw [run_acked u s fin hf.noWrite] at hh
  obtain ⟨a, ra, hra, hha⟩ := ackedSomewhere_iff.mp ha h hh
  obtain ⟨j, hj⟩ := List.getElem?_of_mem hr
  have hjn : j < s.reps.length := by
    rw [← run_length u s fin]; exact (List.getElem?_eq_some_iff.mp hj).1
  have han : a < s.reps.length := (List.getElem?_eq_some_iff.mp hra).1
  have key : ∃ r', (run u s fin).reps[j]? = some r' ∧ h ∈ r'.held := by
    by_cases haj : a = j
    · subst haj
      obtain ⟨r', hr', hm⟩ := held_mono_run u s fin hc hv a ra hra
      exact ⟨r', hr', hm h hha⟩
    · exact delivers_held u s fin a j hc hv (hf.delivers a j han hjn haj) hjn ra hra h hha
  obtain ⟨r', hr', hh'⟩ := key
  rw [hj] at hr'
  cases hr'
  exact hh'

/-- **Convergence.** From any state in which cached heads cover the held sets and every acknowledged
write is held somewhere: after an arbitrary valid prefix (writes, faults, restarts, arbitrary
deliveries, messages never delivered) followed by a final phase in which every ordered pair of
replicas exchanges heads, every replica holds every acknowledged write. -/
theorem converge (u : Univ) (s₀ : State) (pre fin : List Act)
    (hc : Covers u s₀) (ha : AckedSomewhere u s₀) (hv : ValidRun u s₀ (pre ++ fin))
    (hf : FinalPhase u (run u s₀ pre) s₀.reps.length fin) :
    ∀ r ∈ (run u s₀ (pre ++ fin)).reps, ∀ h ∈ (run u s₀ (pre ++ fin)).acked, h ∈ r.held := by
  rw [validRun_append] at hv
  rw [run_append]
  refine converge_final u (run u s₀ pre) fin (covers_run u s₀ pre hc hv.1)
    (ackedSomewhere_run u s₀ pre hc hv.1 ha) hv.2 ?_
  rw [run_length]
  exact hf

theorem covers_init (u : Univ) (n : Nat) : Covers u (init n) := by
  intro r hr x hx
  rw [init, List.mem_replicate] at hr
  rw [hr.2] at hx
  cases hx

theorem ackedSomewhere_init (u : Univ) (n : Nat) : AckedSomewhere u (init n) := by
  intro h hh
  cases hh

@[simp] theorem init_length (n : Nat) : (init n).reps.length = n := by
  simp only [init, List.length_replicate]

/-- **Convergence from the initial state**, at full strength: any valid history whatsoever of `n`
replicas, then a final exchange. -/
theorem converge_from_init (u : Univ) (n : Nat) (pre fin : List Act)
    (hv : ValidRun u (init n) (pre ++ fin))
    (hf : FinalPhase u (run u (init n) pre) n fin) :
    ∀ r ∈ (run u (init n) (pre ++ fin)).reps, ∀ h ∈ (run u (init n) (pre ++ fin)).acked, h ∈ r.held :=
  converge u (init n) pre fin (covers_init u n) (ackedSomewhere_init u n) hv
    (by rw [init_length]; exact hf)

/-- the invariants hold in every state reachable from the initial one -/
theorem reachable_inv (u : Univ) (n : Nat) (as : List Act) (hv : ValidRun u (init n) as) :
    Covers u (run u (init n) as) ∧ AckedSomewhere u (run u (init n) as) ∧
      (run u (init n) as).reps.length = n :=
  ⟨covers_run u _ as (covers_init u n) hv,
   ackedSomewhere_run u _ as (covers_init u n) hv (ackedSomewhere_init u n),
   by rw [run_length, init_length]⟩

end Orbit.Net
