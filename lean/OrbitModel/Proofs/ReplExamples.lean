import OrbitModel.Model.Replicator
/-!
# Replicator: non-vacuity and regression witnesses (C10, C11), all checked by `decide`

Net: chain `1 ← 2 ← 3 ← 4`; `9` is rejected by `Join`; `8` belongs to another log (and links to 3).
-/
namespace Orbit.Repl.Ex

def net0 : Nat → Info := fun h =>
  match h with
  | 2 => { links := [1] }
  | 3 => { links := [2] }
  | 4 => { links := [3] }
  | 9 => { links := [], valid := false }
  | 8 => { links := [3], foreign := true }
  | _ => { links := [] }

def s0 : St := { sem := 2 }

/-- the history, then the deterministic scheduler to quiescence -/
def finish (acts : List Act) : St := drain net0 40 (run net0 s0 acts)

def settled (s : St) : Bool := quiescent s && s.failed.isEmpty

/-! ## the repaired replicator (`step`) -/

/-- C11, cancelled before it starts: the worker of the pre-cancelled request gives up at the slot
wait, the hash is remembered, the next request fetches everything -/
theorem precancelled_then_retry :
    (finish [.cancel 1, .load 1 [3], .acquire 0, .load 2 [3]]).log = [3, 2, 1] ∧
    settled (finish [.cancel 1, .load 1 [3], .acquire 0, .load 2 [3]]) = true := by decide

/-- C11, a fetch fails part-way (entry 2 unavailable), then the same heads are requested again -/
theorem fetchfail_then_retry :
    (finish [.load 1 [3], .acquire 0, .fetched 0, .finish 0, .acquire 0, .fetchFail 0, .load 2 [3]]).log = [3, 2, 1] ∧
    settled (finish [.load 1 [3], .acquire 0, .fetched 0, .finish 0, .acquire 0, .fetchFail 0, .load 2 [3]]) = true := by
  decide

/-- C11, cancelled in the middle of a fetch -/
theorem cancelled_midfetch_then_retry :
    (finish [.load 1 [3], .acquire 0, .cancel 1, .fetchFail 0, .load 2 [3]]).log = [3, 2, 1] ∧
    settled (finish [.load 1 [3], .acquire 0, .cancel 1, .fetchFail 0, .load 2 [3]]) = true := by decide

/-- C11, cancelled while waiting for a fetch slot (one slot, held by another request) -/
theorem cancelled_waiting_then_retry :
    (drain net0 40 (run net0 { sem := 1 }
      [.load 1 [9], .acquire 0, .load 2 [3], .cancel 2, .acquire 1, .fetched 0, .finish 0,
       .load 3 [3]])).log = [3, 2, 1] := by
  decide

/-- C11, cancelled between fetch and join (entry 3 fetched and buffered, its link not yet); the
worker spawned for the link has noticed the cancellation before the next request -/
theorem cancelled_before_join_then_retry :
    (finish [.load 1 [3], .acquire 0, .fetched 0, .finish 0, .cancel 1, .acquire 0, .load 2 [3]]).log = [3, 2, 1] := by
  decide

/-- C11, cancelled between `processItems` and `processEntryDone` (entry 3 buffered, its link queued,
its task still `fetching`): nothing looks at the context there, the entry is marked done -/
theorem cancelled_before_done_then_retry :
    (finish [.load 1 [3], .acquire 0, .fetched 0, .cancel 1, .finish 0, .acquire 0, .load 2 [3]]).log
      = [3, 2, 1] := by decide

/-- C10: a rejected head and a foreign head first in the batch; the valid ones all arrive -/
theorem rejected_first :
    (finish [.load 1 [9, 8, 3]]).log = [3, 2, 1] ∧ settled (finish [.load 1 [9, 8, 3]]) = true := by decide

/-- C10: same with the rejected entry's fetch completing between the valid ones, the workers
interleaved as the real ones can be: 3 and 9 are fetched before either is marked done, 9 is done
first, the worker spawned for 2 gets its slot before its parent 3 has run `processEntryDone` -/
theorem rejected_between :
    (finish [.load 1 [3, 9], .acquire 0, .acquire 1, .fetched 0, .fetched 1, .finish 1, .acquire 1,
      .finish 0, .fetched 0, .finish 0, .acquire 0]).log = [3, 2, 1] := by decide

/-- the refinement at work: the child (entry 2) is spawned, gets a slot, is fetched and is marked
done while its parent (entry 3) still sits between `processItems` and `processEntryDone` — task
`fetching`, slot held, log already in the buffer; nothing is flushed before the parent is done, and
everything arrives -/
theorem child_done_before_parent :
    let s := run net0 s0 [.load 1 [3], .acquire 0, .fetched 0, .acquire 1, .fetched 1, .finish 1]
    task s 3 = some .fetching ∧ task s 2 = some .fetched ∧ s.buffer = [3, 2] ∧ s.pending = [] ∧
    s.sem = 1 ∧ s.inProgress = 1 ∧
    (finish [.load 1 [3], .acquire 0, .fetched 0, .acquire 1, .fetched 1, .finish 1, .finish 0]).log
      = [3, 2, 1] := by decide

/-- a worker keeps its slot until it has run `processEntryDone`: with one slot the child cannot
start before its parent is done -/
theorem slot_held_while_finishing :
    let s := run net0 { sem := 1 } [.load 1 [3], .acquire 0, .fetched 0]
    s.sem = 0 ∧ (step net0 s (.acquire 1)).workers = s.workers ∧ (step net0 s (.acquire 1)).sem = 0 ∧
    (drain net0 40 (step net0 s (.acquire 1))).log = [3, 2, 1] := by decide

/-- **Finding.** One later request is not always enough: if the worker of a cancelled request has
not yet noticed the cancellation when the next `Load` arrives, `Load` skips its hash (it still has a
task); the old worker then gives up, the hash lands in `failed` and waits for yet another `Load`.
Here the new request for the same head 3 reaches quiescence with 2 and 1 missing … -/
theorem one_load_not_enough :
    (finish [.load 1 [3], .acquire 0, .fetched 0, .finish 0, .cancel 1, .load 2 [3]]).log = [3] ∧
    quiescent (finish [.load 1 [3], .acquire 0, .fetched 0, .finish 0, .cancel 1, .load 2 [3]]) = true ∧
    (finish [.load 1 [3], .acquire 0, .fetched 0, .finish 0, .cancel 1, .load 2 [3]]).failed = [2] := by decide

/-- … and any further request (even with no heads) completes it: at most two requests. -/
theorem second_load_enough :
    (drain net0 40 (step net0 (finish [.load 1 [3], .acquire 0, .fetched 0, .finish 0, .cancel 1, .load 2 [3]])
      (.load 3 []))).log = [3, 2, 1] := by decide

/-- the same with a pre-cancelled request whose worker is still waiting -/
theorem one_load_not_enough' :
    (finish [.cancel 1, .load 1 [3], .load 2 [3]]).log = [] ∧
    (finish [.cancel 1, .load 1 [3], .load 2 [3]]).failed = [3] := by decide

/-- a hash can be in `failed` and in `tasks` at the same time (harmless: `Load` skips it) -/
theorem failed_and_task :
    let s := run net0 s0 [.load 2 [2], .acquire 0, .cancel 1, .load 1 [1], .acquire 1, .fetched 0, .finish 0]
    s.failed = [1] ∧ task s 1 = some .added := by decide

/-! ## the replicator before the repairs (`stepPinned`), kept as documentation of F6/F7

* a worker that gets a slot takes the queue's *next* item, not the one it was spawned for;
* a failed or cancelled fetch marks the task `fetched`;
* a worker whose context is done while it waits for a slot just exits: item and task stay;
* `replicationLoadComplete` drops the rest of the batch at the first entry that `Join` rejects;
* there is no `failed` set: `Load` queues the heads only. -/

def joinBatchPinned (net : Nat → Info) (log : List Nat) : List Nat → List Nat
  | [] => log
  | h :: hs =>
    if (net h).valid then joinBatchPinned net (if log.contains h then log else log ++ [h]) hs
    else log

def stepPinned (net : Nat → Info) (s : St) : Act → St
  | .load ctx hs => hs.foldl (enqueue ctx) s
  | .cancel ctx => { s with cancelled := ctx :: s.cancelled }
  | .acquire i =>
    match s.workers[i]? with
    | some ⟨ctx, _, .waitSlot⟩ =>
      if s.cancelled.contains ctx then { s with workers := removeAt s.workers i }
      else if s.sem = 0 then s
      else match s.queue with
        | [] => { s with workers := removeAt s.workers i }
        | h :: q =>
          let s := { setTask s h .fetching with queue := q, sem := s.sem - 1, inProgress := s.inProgress + 1 }
          { s with workers := s.workers.set i ⟨ctx, h, .fetching⟩ }
    | _ => s
  | .fetched i =>
    match s.workers[i]? with
    | some ⟨ctx, h, .fetching⟩ =>
      if s.cancelled.contains ctx then s else
      let s := { s with workers := s.workers.set i ⟨ctx, h, .finishing⟩ }
      if (net h).foreign then s
      else
        let s := { s with buffer := s.buffer ++ [h] }
        (net h).links.foldl (enqueue ctx) s
    | _ => s
  | .finish i =>
    match s.workers[i]? with
    | some ⟨_, h, .finishing⟩ => done { s with workers := removeAt s.workers i } h
    | _ => s
  | .fetchFail i =>
    match s.workers[i]? with
    | some ⟨_, h, .fetching⟩ => done { s with workers := removeAt s.workers i } h
    | _ => s
  | .deliver =>
    match s.pending with
    | [] => s
    | batch :: rest => { s with pending := rest, log := joinBatchPinned net s.log batch }

def drainPinned (net : Nat → Info) : Nat → St → St
  | 0, s => s
  | n+1, s => match pickMove s with
    | some a => drainPinned net n (stepPinned net s a)
    | none => s

def finishPinned (s : St) (acts : List Act) : St := drainPinned net0 40 (acts.foldl (stepPinned net0) s)

/-- F7: one pre-cancelled request leaves a queued item and an `added` task without a worker. The
same head requested again is skipped; a newer head shifts the workers by one item, leaves entry 2
orphaned, and the buffer is never flushed: nothing becomes visible, ever. -/
theorem pinned_cancel_wedges :
    let s1 := finishPinned s0 [.cancel 1, .load 1 [3], .acquire 0, .load 2 [3]]
    let s2 := finishPinned s1 [.load 3 [4]]
    s1.log = [] ∧ quiescent s1 = true ∧ task s1 3 = some .added ∧
    s2.log = [] ∧ quiescent s2 = true ∧ s2.buffer = [3, 4] ∧ task s2 2 = some .added := by decide

/-- the repaired replicator on the same history -/
theorem fixed_cancel_ok :
    (drain net0 40 (step net0 (finish [.cancel 1, .load 1 [3], .acquire 0, .load 2 [3]]) (.load 3 [4]))).log
      = [3, 2, 1, 4] := by decide

/-- F6: a rejected head first in the batch drops the valid entries behind it; they stay `fetched`,
so neither re-announcing them nor a newer head ever brings them in. -/
theorem pinned_mixed_blocks_valid :
    let s1 := finishPinned s0 [.load 1 [9, 3]]
    let s2 := finishPinned s1 [.load 2 [3], .load 2 [4]]
    s1.log = [] ∧ quiescent s1 = true ∧ s2.log = [4] ∧ quiescent s2 = true := by decide

/-- the repaired replicator on the same history -/
theorem fixed_mixed_ok :
    (drain net0 40 (run net0 (finish [.load 1 [9, 3]]) [.load 2 [3], .load 2 [4]])).log = [3, 2, 1, 4] := by
  decide

end Orbit.Repl.Ex

namespace Orbit.Repl.Ex

/-! ## known finding K2: a retried fetch that never returns withholds what later requests fetched -/

/-- two independent branches: `1 ← 2` (nobody serves 1 any more) and `5 ← 6` (entirely available) -/
def netK : Nat → Info := fun h =>
  match h with
  | 2 => { links := [1] }
  | 6 => { links := [5] }
  | _ => { links := [] }

/-- request 1 (context 1) for head 2 is cancelled while 1 is being fetched: 2 is merged, 1 goes to the
retry list. Request 2 (context 2, never cancelled) asks for the same head and the newer head 6: it
re-queues 1 under its own context; the fetch of 1 does not return; 6 and 5 are fetched. -/
def wedgeHistory : List Act :=
  [.load 1 [2], .acquire 0, .fetched 0, .finish 0, .acquire 0, .cancel 1, .fetchFail 0, .deliver,
   .load 2 [2, 6], .acquire 0, .acquire 1, .fetched 1, .finish 1, .acquire 1, .fetched 1, .finish 1]

def wedged : St := run netK s0 wedgeHistory

theorem wedged_eq : wedged =
    { log := [2], tasks := [(5, .fetched), (6, .fetched), (1, .fetching), (2, .fetched)], queue := [], failed := [],
      buffer := [6, 5], sem := 1, inProgress := 1, workers := [⟨2, 1, .fetching⟩], cancelled := [1],
      pending := [] } := by
  unfold wedged wedgeHistory; rfl

/-- **K2**: in that state 6 and 5 are fetched and buffered but not handed to the store, and no move of
the replicator or of the store other than the return of the hung fetch changes anything: the store
never sees them while the block of 1 stays unavailable -/
theorem hung_retry_withholds (a : Act) (h1 : a ≠ .fetched 0) (h2 : a ≠ .fetchFail 0)
    (h3 : ∀ c hs, a ≠ .load c hs) (h4 : ∀ c, a ≠ .cancel c) :
    step netK wedged a = wedged := by
  rw [wedged_eq]
  cases a with
  | load c hs => exact absurd rfl (h3 c hs)
  | cancel c => exact absurd rfl (h4 c)
  | acquire i => cases i <;> rfl
  | fetched i =>
    cases i with
    | zero => exact absurd rfl h1
    | succ n => rfl
  | finish i => cases i <;> rfl
  | fetchFail i =>
    cases i with
    | zero => exact absurd rfl h2
    | succ n => rfl
  | deliver => rfl

/-- once the block is served the fetch returns and everything arrives -/
theorem wedge_ends_when_the_block_is_served :
    (drain netK 40 wedged).log = [2, 6, 5, 1] ∧ quiescent (drain netK 40 wedged) = true := by decide

end Orbit.Repl.Ex
