import OrbitModel.Proofs.LogReach
/-!
# The heads of a log cover it: every entry is reachable from some head through `next`   (C05, C02)

`Desc L h x`: inside the log `L`, the hash `x` is reachable from the hash `h` by following `next`
links from member to member. `CoveredBy L hs`: every entry of `L` is reachable from one of `hs`.
The store-level consequences (cache keys `_localHeads`, `_remoteHeads`) are in `StoreCovers.lean`.
-/
namespace Orbit

/-- `h` reaches `x` through `next` links between members of `L` -/
inductive Desc (L : Log) : Nat → Nat → Prop
  | refl {e : Entry} (he : e ∈ L.entries) : Desc L e.hash e.hash
  | step {p c : Entry} {x : Nat} (hp : p ∈ L.entries) (hc : c ∈ L.entries) (hn : c.hash ∈ p.next)
      (h : Desc L c.hash x) : Desc L p.hash x

/-- every entry of the log is reachable from one of the hashes `hs` -/
def CoveredBy (L : Log) (hs : List Nat) : Prop := ∀ x ∈ L.entries, ∃ h ∈ hs, Desc L h x.hash

/-- reachability only depends on the entry set, monotonically -/
theorem Desc.mono {L L' : Log} (hsub : ∀ e ∈ L.entries, e ∈ L'.entries) {h x : Nat}
    (d : Desc L h x) : Desc L' h x := by
  induction d with
  | refl he => exact .refl (hsub _ he)
  | step hp hc hn _ ih => exact .step (hsub _ hp) (hsub _ hc) hn ih

theorem Desc.trans {L : Log} {a b c : Nat} (d1 : Desc L a b) (d2 : Desc L b c) : Desc L a c := by
  induction d1 with
  | refl _ => exact d2
  | step hp hc hn _ ih => exact .step hp hc hn (ih d2)

/-- extend a path at its far end -/
theorem Desc.tail {L : Log} {h : Nat} {p c : Entry} (d : Desc L h p.hash) (hp : p ∈ L.entries)
    (hc : c ∈ L.entries) (hn : c.hash ∈ p.next) : Desc L h c.hash :=
  d.trans (.step hp hc hn (.refl hc))

/-- both ends of a path are hashes of members -/
theorem Desc.left_mem {L : Log} {h x : Nat} (d : Desc L h x) : ∃ e ∈ L.entries, e.hash = h := by
  cases d with
  | refl he => exact ⟨_, he, rfl⟩
  | step hp _ _ _ => exact ⟨_, hp, rfl⟩

theorem Desc.right_mem {L : Log} {h x : Nat} (d : Desc L h x) : ∃ e ∈ L.entries, e.hash = x := by
  induction d with
  | refl he => exact ⟨_, he, rfl⟩
  | step _ _ _ _ ih => exact ih

theorem CoveredBy.mono_heads {L : Log} {hs hs' : List Nat} (h : CoveredBy L hs)
    (hsub : ∀ x ∈ hs, x ∈ hs') : CoveredBy L hs' := by
  intro x hx
  obtain ⟨a, ha, d⟩ := h x hx
  exact ⟨a, hsub a ha, d⟩

theorem CoveredBy.of_entries_eq {L L' : Log} {hs : List Nat} (h : CoveredBy L hs)
    (he : L'.entries = L.entries) : CoveredBy L' hs := by
  intro x hx
  obtain ⟨a, ha, d⟩ := h x (he ▸ hx)
  exact ⟨a, ha, d.mono (fun e h => he ▸ h)⟩

theorem coveredBy_empty (id : Nat) (hs : List Nat) : CoveredBy (Log.empty id) hs := by
  intro x hx; simp [Log.empty] at hx

/-- every entry is reachable from a head (induction on the number of entries above it) -/
theorem desc_from_head {U : List Entry} (hM : ClockMono U) {L : Log} (hI : Inv U L) :
    ∀ (n : Nat) (x : Entry), x ∈ L.entries → (L.entries.filter (fun y => Entry.lt x y)).length ≤ n →
      ∃ h ∈ L.heads, Desc L h.hash x.hash := by
  intro n
  induction n with
  | zero =>
    intro x hx hlen
    by_cases hr : x.hash ∈ nexts L.entries
    · obtain ⟨p, hp, hn⟩ := (mem_nexts _ _).mp hr
      have hlt := hM p (hI.sub p hp) x (hI.sub x hx) hn
      have : 0 < (L.entries.filter (fun y => Entry.lt x y)).length :=
        List.length_pos_of_mem (List.mem_filter.mpr ⟨hp, hlt⟩)
      omega
    · exact ⟨x, (hI.heads x).mpr ⟨hx, hr⟩, .refl hx⟩
  | succ n ih =>
    intro x hx hlen
    by_cases hr : x.hash ∈ nexts L.entries
    · obtain ⟨p, hp, hn⟩ := (mem_nexts _ _).mp hr
      have hlt := hM p (hI.sub p hp) x (hI.sub x hx) hn
      have hlen' : (L.entries.filter (fun y => Entry.lt p y)).length
          < (L.entries.filter (fun y => Entry.lt x y)).length :=
        filter_len_lt _ _ L.entries (fun y _ hy => Entry.lt_trans _ _ _ hlt hy) p hp hlt
          (Entry.lt_irrefl p)
      obtain ⟨h, hh, d⟩ := ih p hp (by omega)
      exact ⟨h, hh, d.tail hp hx hn⟩
    · exact ⟨x, (hI.heads x).mpr ⟨hx, hr⟩, .refl hx⟩

/-- the heads cover the log; only `ClockMono` and the heads invariant are used -/
theorem heads_cover_inv {U : List Entry} (hM : ClockMono U) {L : Log} (hI : Inv U L) :
    CoveredBy L (L.heads.map (·.hash)) := by
  intro x hx
  obtain ⟨h, hh, d⟩ := desc_from_head hM hI _ x hx (Nat.le_refl _)
  exact ⟨h.hash, List.mem_map.mpr ⟨h, hh, rfl⟩, d⟩

set_option linter.unusedVariables false in
/-- **The heads of a good log cover it.** -/
theorem heads_cover {U : List Entry} (hU : HashDet U) (hT : TieFree U) (hM : ClockMono U) (L : Log)
    (hG : Good U L) : CoveredBy L (L.heads.map (·.hash)) :=
  heads_cover_inv hM hG.inv

/-- the value written to `_remoteHeads` covers the log -/
theorem sortedHeads_cover {U : List Entry} (hM : ClockMono U) {L : Log} (hI : Inv U L) :
    CoveredBy L ((sortedHeads L).map (·.hash)) := by
  apply (heads_cover_inv hM hI).mono_heads
  intro h hh
  obtain ⟨e, he, rfl⟩ := List.mem_map.mp hh
  exact List.mem_map.mpr ⟨e, by unfold sortedHeads; exact (Trav.mem_sortDesc _ _ _).mpr he, rfl⟩

/-- the entries after a successful `append` of a fresh entry -/
theorem append_ok_entries (canAppend : Entry → Bool) (L : Log) (mk : Nat → List Nat → Entry)
    (hcan : canAppend (mk (appendTime L) (appendNext L)) = true)
    (hfresh : has L.entries (mk (appendTime L) (appendNext L)).hash = false) :
    (append canAppend L mk).1.entries = L.entries ++ [mk (appendTime L) (appendNext L)] := by
  rw [append_eq, hcan]
  simp only [if_true]
  unfold set
  simp [hfresh]

/-- **After a successful `append` the new entry alone covers the log**: its `next` links are the
hashes of the old heads, which covered the old log. -/
theorem append_covers {U : List Entry} (hM : ClockMono U) (canAppend : Entry → Bool) (L : Log)
    (mk : Nat → List Nat → Entry) (hG : Good U L)
    (hnext : (mk (appendTime L) (appendNext L)).next = appendNext L)
    (hfresh : has L.entries (mk (appendTime L) (appendNext L)).hash = false)
    (hcan : canAppend (mk (appendTime L) (appendNext L)) = true) :
    CoveredBy (append canAppend L mk).1 [(mk (appendTime L) (appendNext L)).hash] := by
  have hent := append_ok_entries canAppend L mk hcan hfresh
  generalize mk (appendTime L) (appendNext L) = e at *
  generalize (append canAppend L mk).1 = L' at *
  have hsub : ∀ y ∈ L.entries, y ∈ L'.entries := fun y hy => by
    rw [hent]; exact List.mem_append_left _ hy
  have heL : e ∈ L'.entries := by rw [hent]; simp
  intro x hx
  refine ⟨e.hash, List.mem_singleton.mpr rfl, ?_⟩
  rw [hent] at hx
  rcases List.mem_append.mp hx with hx | hx
  · obtain ⟨h, hh, d⟩ := desc_from_head hM hG.inv _ x hx (Nat.le_refl _)
    have hhL : h ∈ L.entries := ((hG.inv.heads h).mp hh).1
    have hn : h.hash ∈ e.next := by rw [hnext, mem_appendNext]; exact ⟨h, hh, rfl⟩
    exact .step heL (hsub h hhL) hn (d.mono hsub)
  · rw [List.mem_singleton.mp hx]; exact .refl heL

end Orbit
