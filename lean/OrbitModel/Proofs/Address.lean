import OrbitModel.Proofs.AddressSplit
/-!
# Database addresses: `DetermineAddress`, `Parse`/`String`, cache directory keys   (C14, C18)

* `determine_root`, `determine_inj`: the address answered names the manifest the name was hashed
  into, so different (name, type, access controller) triples get different addresses;
* `determine_below` / `joinAddr_escape`: a name that stays below its root gets
  `/orbitdb/<h>/<cleaned name>`; a name that climbs above gets a path in which `h` plays no part
  (what the pinned tree answered: `pinned_not_injective`), accepted only if it re-enters `h`;
* `determine_wf`, `parse_print`: addresses answered are well formed and `Parse (String a) = a`;
* `drop_scope`: cache directories of addresses with different roots are not nested.
-/
namespace Orbit.Path

/-- what `determine = some a` says -/
theorem determine_some {isCid : String → Bool} {h name : String} {a : Addr}
    (hd : determine isCid h name = some a) :
    isAddress isCid name = false ∧ parse0 isCid (joinAddr h name) = some a ∧ a.root = h := by
  unfold determine at hd
  generalize isAddress isCid name = b at hd ⊢
  generalize parse0 isCid (joinAddr h name) = p at hd ⊢
  cases b with
  | true => cases hd
  | false =>
    cases p with
    | none => cases hd
    | some a' =>
      simp only [Bool.false_eq_true, if_false] at hd
      by_cases hr : (a'.root == h) = true
      · rw [if_pos hr] at hd
        cases Option.some.inj hd
        exact ⟨rfl, rfl, eq_of_beq hr⟩
      · rw [if_neg hr] at hd; cases hd

/-- 1. **the address always names the manifest the name was hashed into** -/
theorem determine_root {isCid : String → Bool} {h name : String} {a : Addr}
    (hd : determine isCid h name = some a) : a.root = h := (determine_some hd).2.2

theorem determine_of_parse {isCid : String → Bool} {h name : String} {a : Addr}
    (hn : isAddress isCid name = false) (hp : parse0 isCid (joinAddr h name) = some a)
    (hr : a.root = h) : determine isCid h name = some a := by
  unfold determine
  rw [hn, hp]
  simp only [Bool.false_eq_true, if_false]
  rw [if_pos (by rw [hr]; exact BEq.refl _)]

/-- 2. **different inputs give different addresses**: `H` is the manifest hash of
(name, type, access controller), injective (a cryptographic hash of an injective encoding) -/
theorem determine_inj {α : Type} {isCid : String → Bool} (H : α → String) (nameOf : α → String)
    (hH : ∀ x y, H x = H y → x = y) {x y : α} {a a' : Addr}
    (hx : determine isCid (H x) (nameOf x) = some a)
    (hy : determine isCid (H y) (nameOf y) = some a') (he : a = a') : x = y := by
  apply hH
  rw [← determine_root hx, ← determine_root hy, he]

/-- CIDs of the examples: strings starting with `@` -/
def atCid (s : String) : Bool := hasPrefix "@" s

/-- 3. **the pinned tree answered someone else's address**: the name `../@V/victim` hashed into the
manifest `@H` got the address `/orbitdb/@V/victim`; after the fix it is refused -/
theorem pinned_not_injective :
    determinePinned atCid "@H" "../@V/victim" = some ⟨"@V", "victim"⟩ ∧
    determinePinned atCid "@V" "victim" = some ⟨"@V", "victim"⟩ ∧
    determine atCid "@H" "../@V/victim" = none ∧
    determine atCid "@V" "victim" = some ⟨"@V", "victim"⟩ := by decide

/-! ### Well-formed addresses -/

/-- the path of an address: `/`-joined proper segments (possibly none) -/
def CleanPath (p : String) : Prop := ∃ segs : List String, (∀ x ∈ segs, Seg x) ∧ p = "/".intercalate segs

/-- a well-formed address: the root is a CID and a proper segment, the path is clean -/
def WF (isCid : String → Bool) (a : Addr) : Prop := isCid a.root = true ∧ Seg a.root ∧ CleanPath a.path

theorem noSlash_joined {h : String} (hh : Seg h) (name : String) :
    ∀ x ∈ cleanAbs (["orbitdb", h] ++ segments name), Seg x := by
  intro x hx
  obtain ⟨hm, hp⟩ := cleanAbs_mem _ x hx
  refine ⟨hp, ?_⟩
  simp only [List.cons_append, List.nil_append, List.mem_cons] at hm
  rcases hm with rfl | rfl | hm
  · decide
  · exact hh.2
  · exact segments_noSlash name x hm

/-- what `determine` answers, in terms of the cleaned segments -/
theorem determine_some_iff {isCid : String → Bool} {h : String} (hc : isCid h = true) (hh : Seg h)
    (name : String) (a : Addr) :
    determine isCid h name = some a ↔
      isAddress isCid name = false ∧ ∃ rest,
        cleanAbs (["orbitdb", h] ++ segments name) = "orbitdb" :: h :: rest ∧
        a = ⟨h, "/".intercalate rest⟩ := by
  have hseg := noSlash_joined hh name
  constructor
  · intro hd
    obtain ⟨hn, hp, hr⟩ := determine_some hd
    refine ⟨hn, ?_⟩
    unfold joinAddr at hp
    rcases parse_render isCid _ (fun x hx => (hseg x hx).2) a hp with h0 | ⟨rest, hcl, hpath, _⟩
    · exact absurd (hr ▸ h0) hh.1.1
    · refine ⟨rest, by rw [hcl, hr], ?_⟩
      cases a; simp only at hr hpath; subst hr hpath; rfl
  · rintro ⟨hn, rest, hcl, rfl⟩
    refine determine_of_parse (a := ⟨h, "/".intercalate rest⟩) hn ?_ rfl
    unfold joinAddr
    rw [hcl]
    refine parse_render_root isCid h rest ?_ hc
    intro x hx
    exact (hseg x (by rw [hcl]; exact List.mem_cons_of_mem _ hx)).2

/-- **addresses answered by `determine` are well formed** -/
theorem determine_wf {isCid : String → Bool} {h name : String} {a : Addr} (hc : isCid h = true)
    (hh : Seg h) (hd : determine isCid h name = some a) : WF isCid a := by
  obtain ⟨_, rest, hcl, rfl⟩ := (determine_some_iff hc hh name a).mp hd
  refine ⟨hc, hh, rest, ?_, rfl⟩
  intro x hx
  exact noSlash_joined hh name x (by rw [hcl]; exact List.mem_cons_of_mem _ (List.mem_cons_of_mem _ hx))

/-- 1'. **a name that stays below its root** (and is not itself an address) gets the address
`/orbitdb/<h>/<cleaned name>` -/
theorem determine_below {isCid : String → Bool} {h : String} (hc : isCid h = true) (hh : Seg h)
    (name : String) (hn : isAddress isCid name = false) (hs : staysBelow (segments name) = true) :
    determine isCid h name = some ⟨h, "/".intercalate (cleanAbs (segments name))⟩ :=
  (determine_some_iff hc hh name _).mpr ⟨hn, _, clean_below hh.1 _ hs, rfl⟩

/-- 1''. **a name that climbs above its root** is joined to a path in which the manifest hash
plays no part: the pinned tree answered the same address whatever was hashed -/
theorem joinAddr_escape {h h' : String} (hh : Plain h) (hh' : Plain h') (name : String)
    (hs : staysBelow (segments name) = false) : joinAddr h name = joinAddr h' name := by
  unfold joinAddr; rw [clean_escape hh hh' _ hs]

theorem determinePinned_escape {isCid : String → Bool} {h h' : String} (hh : Plain h) (hh' : Plain h')
    (name : String) (hs : staysBelow (segments name) = false) :
    determinePinned isCid h name = determinePinned isCid h' name := by
  unfold determinePinned; rw [joinAddr_escape hh hh' name hs]

/-- after the fix such a name is accepted for one hash at most: the one it spells itself -/
theorem determine_escape_unique {isCid : String → Bool} {h h' : String} (hh : Plain h) (hh' : Plain h')
    (name : String) (hs : staysBelow (segments name) = false) {a a' : Addr}
    (hd : determine isCid h name = some a) (hd' : determine isCid h' name = some a') : h = h' := by
  obtain ⟨_, hp, hr⟩ := determine_some hd
  obtain ⟨_, hp', hr'⟩ := determine_some hd'
  rw [joinAddr_escape hh hh' name hs, hp'] at hp
  rw [← hr, ← hr', Option.some.inj hp]

/-- 4. **`Parse (String a) = a`** for well-formed addresses -/
theorem parse_print {isCid : String → Bool} {a : Addr} (hw : WF isCid a) :
    parse0 isCid (print a) = some a := by
  obtain ⟨hc, hr, segs, hsegs, hpath⟩ := hw
  have hcl : cleanAbs (["orbitdb", a.root] ++ segments a.path) = "orbitdb" :: a.root :: segs := by
    rw [cleanAbs_root hr.1, hpath, segments_intercalate' segs (fun x hx => (hsegs x hx).2)]
    by_cases hnil : segs = []
    · subst hnil; rfl
    · simp only [hnil, if_false]
      exact foldl_cleanStep_plain _ _ (fun x hx => (hsegs x hx).1)
  unfold print joinAddr
  rw [hcl, parse_render_root isCid a.root segs _ hc]
  · cases a; simp only at hpath; subst hpath; rfl
  · intro x hx
    rcases List.mem_cons.mp hx with rfl | hx
    · exact hr.2
    · exact (hsegs x hx).2

/-- so every address answered by `determine` survives printing and parsing -/
theorem determine_parse_print {isCid : String → Bool} {h name : String} {a : Addr}
    (hc : isCid h = true) (hh : Seg h) (hd : determine isCid h name = some a) :
    parse0 isCid (print a) = some a := parse_print (determine_wf hc hh hd)

/-! ### 5. Cache directories (C18) -/

/-- the cache directory of a well-formed address under a clean directory -/
theorem datastoreKey_wf {dir segs : List String} {a : Addr} (hdir : ∀ x ∈ dir, Plain x)
    (hr : Seg a.root) (hsegs : ∀ x ∈ segs, Seg x) (hpath : a.path = "/".intercalate segs) :
    datastoreKey dir a = dir ++ [a.root] ++ segs := by
  unfold datastoreKey
  rw [cleanAbs_append, cleanAbs_plain, hpath, segments_intercalate' segs (fun x hx => (hsegs x hx).2)]
  · by_cases hnil : segs = []
    · subst hnil; simp [cleanStep_skip]
    · simp only [hnil, if_false]
      exact foldl_cleanStep_plain _ _ (fun x hx => (hsegs x hx).1)
  · intro x hx
    rcases List.mem_append.mp hx with hx | hx
    · exact hdir x hx
    · rw [List.mem_singleton] at hx; subst hx; exact hr.1

/-- **`Drop` of one store cannot reach another's cache**: for well-formed addresses with different
roots the directory of one is not a prefix of the other's -/
theorem drop_scope {isCid : String → Bool} {dir : List String} {a b : Addr} (hdir : ∀ x ∈ dir, Plain x)
    (ha : WF isCid a) (hb : WF isCid b) (hne : a.root ≠ b.root) :
    ¬ (datastoreKey dir a <+: datastoreKey dir b) := by
  obtain ⟨_, har, sa, hsa, hpa⟩ := ha
  obtain ⟨_, hbr, sb, hsb, hpb⟩ := hb
  rw [datastoreKey_wf hdir har hsa hpa, datastoreKey_wf hdir hbr hsb hpb]
  intro hp
  rw [List.append_assoc, List.append_assoc, List.prefix_append_right_inj] at hp
  exact hne (List.cons_prefix_cons.mp hp).1

/-! ### Non-vacuity -/

example : determine atCid "@H" "" = some ⟨"@H", ""⟩ := by decide
example : determine atCid "@H" "a//b/./c/" = some ⟨"@H", "a/b/c"⟩ := by decide
example : determine atCid "@H" "x/../../@H/y" = some ⟨"@H", "y"⟩ := by decide   -- re-enters `@H`
example : determine atCid "@H" "/orbitdb/@V/x" = none := by decide             -- already an address
example : determine atCid "@H" "../.." = none := by decide
example : parse0 atCid (print ⟨"@H", ""⟩) = some ⟨"@H", ""⟩ := by decide
example : parse0 atCid (print ⟨"@H", "a/b/c"⟩) = some ⟨"@H", "a/b/c"⟩ := by decide
example : parse0 atCid (print ⟨"@H", "é/ü/日本"⟩) = some ⟨"@H", "é/ü/日本"⟩ := by decide
/-- an ill-formed path is not a fixed point: `Parse ∘ String` cleans it -/
example : parse0 atCid (print ⟨"@H", "a/../b"⟩) = some ⟨"@H", "b"⟩ := by decide
example : WF atCid ⟨"@H", "a/b"⟩ := ⟨by decide, by decide, ["a", "b"], by decide, by decide⟩
example : datastoreKey ["tmp", "cache"] ⟨"@H", "a/b"⟩ = ["tmp", "cache", "@H", "a", "b"] := by decide
/-- without `CleanPath` a `..` in the path climbs into the neighbour's directory -/
example : datastoreKey ["c"] ⟨"@H", "../@V"⟩ <+: datastoreKey ["c"] ⟨"@V", "x"⟩ := by decide
example : determine atCid "@H" "shop" = some ⟨"@H", "shop"⟩ :=
  determine_below (by decide) (by decide) "shop" (by decide) (by decide)

/-! ### `address.Parse` with its "stays below the root" guard (finding F28) -/

/-- an address that prints and splits back to itself passes the guard -/
theorem parse_print_of_parse0 {isCid : String → Bool} {a : Addr}
    (h : parse0 isCid (print a) = some a) : parse isCid (print a) = some a := by
  unfold parse staysBelowRoot
  simp [h]

/-- what the splitting step refuses, `Parse` refuses -/
theorem parse_none_of_parse0 {isCid : String → Bool} {s : String}
    (h : parse0 isCid s = none) : parse isCid s = none := by
  unfold parse
  rw [h]

/-- a string that splits into `a` and is the printed form of `a` is accepted as `a` -/
theorem parse_of_printed {isCid : String → Bool} {s : String} {a : Addr}
    (h0 : parse0 isCid s = some a) (hp : print a = s) : parse isCid s = some a := by
  have := parse_print_of_parse0 (isCid := isCid) (a := a) (by rw [hp]; exact h0)
  rw [hp] at this
  exact this

/-- whatever `Parse` accepts, the splitting step accepted -/
theorem parse0_of_parse {isCid : String → Bool} {s : String} {a : Addr}
    (h : parse isCid s = some a) : parse0 isCid s = some a := by
  unfold parse at h
  cases h0 : parse0 isCid s with
  | none => simp [h0] at h
  | some b =>
    simp only [h0] at h
    split at h
    · exact h
    · cases h

/-- **whatever `Parse` accepts prints as an address of the same database**: the printed form splits
back to the same root -/
theorem parse_print_same_root {isCid : String → Bool} {s : String} {a : Addr}
    (h : parse isCid s = some a) : ∃ b, parse0 isCid (print a) = some b ∧ b.root = a.root := by
  have h0 := parse0_of_parse h
  unfold parse at h
  rw [h0] at h
  have h' : (if staysBelowRoot isCid a = true then some a else none) = some a := h
  have hg : staysBelowRoot isCid a = true := by
    cases hg : staysBelowRoot isCid a with
    | true => rfl
    | false => rw [hg] at h'; cases h'
  unfold staysBelowRoot at hg
  cases hp : parse0 isCid (print a) with
  | none => rw [hp] at hg; cases hg
  | some b =>
    rw [hp] at hg
    exact ⟨b, rfl, by simpa using hg⟩

end Orbit.Path
