import OrbitModel.Model.BusClose
/-!
# `Close` of a legacy subscription: stuck before the repair, always gets through after it (F38)
-/
namespace Orbit.BusClose

/-- the state the forwarder used to leave behind: channel full, the emitter inside `emit` with events
left, nobody reading, `Close` asked for -/
def Stuck (s : St) : Prop :=
  s.chan = s.cap ∧ s.pending > 0 ∧ s.reading = false ∧ s.closing = true ∧ s.closed = false

/-- **before the repair that state is a deadlock**: no action of anybody changes it — the emitter
cannot send (no room), nobody reads, `Close` cannot get the lock (the emitter holds it), for ever -/
theorem stuck_forever (s : St) (h : Stuck s) (acts : List Act) : run false s acts = s := by
  obtain ⟨h1, h2, h3, h4, h5⟩ := h
  induction acts with
  | nil => rfl
  | cons a as ih =>
    have : step false s a = s := by
      cases a
      · simp [step, h1, h5]
      · simp [step, reads, h3]
      · simp [step, h3]
      · have : s.pending ≠ 0 := by omega
        simp [step, h4, h5, this]
    show run false (step false s a) as = s
    rw [this]; exact ih

/-- one round of the repaired design: the drainer takes an event out, the emitter puts its next one in -/
theorem drain_round (s : St) (hc : s.closing = true) (hd : s.closed = false) (hf : s.chan = s.cap)
    (hp : s.pending > 0) (hcap : s.cap > 0) :
    step true (step true s .recv) .send = { s with pending := s.pending - 1 } := by
  have h1 : step true s .recv = { s with chan := s.chan - 1 } := by
    simp [step, reads, hc, hd]; omega
  rw [h1]
  simp only [step, hd, Bool.not_false, Bool.true_and]
  have : s.chan - 1 < s.cap := by omega
  simp only [hp, this, decide_true, Bool.and_self, if_true]
  congr 1
  omega

theorem unwind_closes : ∀ (n : Nat) (s : St), s.chan = s.cap → s.closing = true → s.closed = false →
    s.cap > 0 → s.pending = n →
    (run true s (unwind n)).closed = true ∧ (run true s (unwind n)).pending = 0
  | 0, s, _, hc, hd, _, hp => by
    simp [run, unwind, step, hc, hd, hp]
  | n+1, s, hf, hc, hd, hcap, hp => by
    show (run true (step true (step true s .recv) .send) (unwind n)).closed = true ∧
      (run true (step true (step true s .recv) .send) (unwind n)).pending = 0
    rw [drain_round s hc hd hf (by omega) hcap]
    exact unwind_closes n { s with pending := s.pending - 1 } hf hc hd hcap (by simp; omega)

/-- **after the repair `Close` always gets through**: from the very state that used to be a deadlock,
whatever the capacity and however many events the emitter has left, the drainer lets the emitter
finish and `Close` returns -/
theorem close_gets_through (s : St) (h : Stuck s) (hcap : s.cap > 0) :
    (run true s (unwind s.pending)).closed = true ∧ (run true s (unwind s.pending)).pending = 0 :=
  unwind_closes s.pending s h.1 h.2.2.2.1 h.2.2.2.2 hcap rfl

/-- the hypotheses are met: the forwarder 17 events behind a 16-slot subscription when its context ends -/
example : Stuck { cap := 16, chan := 16, pending := 1, reading := false, closing := true } := by
  unfold Stuck; decide

/-- how the state arises: the emitter fills the channel while the forwarder lags, the context ends -/
theorem stuck_is_reachable :
    run false { cap := 2, pending := 3 } [.send, .send, .leave] =
      { cap := 2, chan := 2, pending := 1, reading := false, closing := true } := by decide

end Orbit.BusClose
