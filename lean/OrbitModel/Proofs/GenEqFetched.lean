import OrbitModel.Generated.GenFetched
import OrbitModel.Model.Order
/-!
# Regenerated Go fragment = hand-written model (tie 2): the steps of the replicator's `processHash`
-/
namespace Orbit

theorem gen_processHash_order : Gen.processHashOrder = Order.processHash := by decide

end Orbit
