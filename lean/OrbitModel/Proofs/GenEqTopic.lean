import OrbitModel.Generated.GenTopic
/-!
# Regenerated Go fragment = hand-written model (tie 2)
-/
namespace Orbit

theorem gen_store_topic_is_address : Gen.storeTopicIsAddress = true := by decide

end Orbit
