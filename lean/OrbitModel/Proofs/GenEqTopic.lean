import OrbitModel.Generated.GenTopic
import OrbitModel.Generated.GenNewPeer
/-!
# Regenerated Go fragment = hand-written model (tie 2)
-/
namespace Orbit

theorem gen_store_topic_is_address : Gen.storeTopicIsAddress = true := by decide

theorem gen_newpeer_event_has_address : Gen.newPeerEventHasAddress = true := by decide

end Orbit
