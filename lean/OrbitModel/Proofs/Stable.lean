import OrbitModel.Proofs.LogExample
/-!
# Append-only, stable order of `Values()`

* merging (`join`) and writing (`append`) never remove an entry from the listing and never change
  the relative order of two entries already listed (`reachable_step_values_sublist`);
* each entry is listed after everything its writer had seen (`seen_before`);
* a freshly appended entry is listed last (`append_values`, `append_listed_last`), hence a writer's
  own entries are listed in the order it wrote them (`own_entries_in_order`).

"Before" is stated by decomposition: `c` is before `p` in `l` iff `∃ a b d, l = a ++ c :: b ++ p :: d`.
-/
namespace Orbit

/-! ### General lemmas on strictly sorted lists -/

/-- two lists strictly sorted by the same irreflexive transitive relation: inclusion of members is
inclusion as a subsequence -/
theorem sublist_of_sorted {α : Type} {r : α → α → Prop} (irrefl : ∀ a, ¬ r a a)
    (trans : ∀ a b c, r a b → r b c → r a c) {l₁ l₂ : List α} (h₁ : l₁.Pairwise r)
    (h₂ : l₂.Pairwise r) (hsub : ∀ x ∈ l₁, x ∈ l₂) : l₁.Sublist l₂ := by
  induction l₂ generalizing l₁ with
  | nil =>
    cases l₁ with
    | nil => exact List.Sublist.slnil
    | cons x xs => exact absurd (hsub x List.mem_cons_self) List.not_mem_nil
  | cons y ys ih =>
    rw [List.pairwise_cons] at h₂
    cases l₁ with
    | nil => exact List.nil_sublist _
    | cons x xs =>
      rw [List.pairwise_cons] at h₁
      by_cases hxy : x = y
      · subst hxy
        refine List.Sublist.cons_cons x (ih h₁.2 h₂.2 ?_)
        intro z hz
        rcases List.mem_cons.mp (hsub z (List.mem_cons_of_mem _ hz)) with rfl | h
        · exact absurd (h₁.1 z hz) (irrefl z)
        · exact h
      · have hx : x ∈ ys := by
          rcases List.mem_cons.mp (hsub x List.mem_cons_self) with h | h
          · exact absurd h hxy
          · exact h
        have hyx := h₂.1 x hx
        refine List.Sublist.cons y (ih (List.pairwise_cons.mpr h₁) h₂.2 ?_)
        intro z hz
        rcases List.mem_cons.mp hz with rfl | hz'
        · exact hx
        · rcases List.mem_cons.mp (hsub z hz) with rfl | h
          · exact absurd (trans _ _ _ hyx (h₁.1 z hz')) (irrefl z)
          · exact h

/-- in a strictly sorted list the smaller of two members comes first -/
theorem before_of_sorted {α : Type} {r : α → α → Prop} (irrefl : ∀ a, ¬ r a a)
    (trans : ∀ a b c, r a b → r b c → r a c) {l : List α} (hl : l.Pairwise r) {c p : α}
    (hc : c ∈ l) (hp : p ∈ l) (hcp : r c p) : ∃ a b d, l = a ++ c :: b ++ p :: d := by
  obtain ⟨s, t, rfl⟩ := List.append_of_mem hp
  rw [List.pairwise_append] at hl
  have hne : c ≠ p := fun h => irrefl p (h ▸ hcp)
  rcases List.mem_append.mp hc with hcs | hct
  · obtain ⟨a, b, rfl⟩ := List.append_of_mem hcs
    exact ⟨a, b, t, rfl⟩
  · rcases List.mem_cons.mp hct with h | h
    · exact absurd h hne
    · exact absurd (trans _ _ _ hcp ((List.pairwise_cons.mp hl.2.1).1 c h)) (irrefl c)

theorem lt_irrefl' (a : Entry) : ¬ Entry.lt a a = true := by
  rw [Entry.lt_irrefl]; exact Bool.noConfusion

/-! ### `Values()` is monotone in the entry set -/

/-- **a log holding more entries lists the common ones in the same relative order** -/
theorem values_sublist {U : List Entry} (hU : HashDet U) (hT : TieFree U) (hM : ClockMono U)
    (L L' : Log) (hG : Good U L) (hG' : Good U L') (hsub : ∀ e ∈ L.entries, e ∈ L'.entries) :
    (values L).Sublist (values L') := by
  obtain ⟨s, m⟩ := values_sorted hU hT hM L hG.inv hG.nodup
  obtain ⟨s', m'⟩ := values_sorted hU hT hM L' hG'.inv hG'.nodup
  exact sublist_of_sorted lt_irrefl' Entry.lt_trans s s'
    (fun x hx => (m' x).mpr (hsub x ((m x).mp hx)))

/-- every step keeps the entries held -/
theorem step_mono {canAppend : Entry → Bool} {U : List Entry} {L L' : Log}
    (hs : Step canAppend U L L') : ∀ e ∈ L.entries, e ∈ L'.entries := by
  cases hs with
  | appendOk mk _ _ _ _ _ => exact fun e he => (append_entries canAppend L mk e).mpr (Or.inl he)
  | appendDenied mk _ => exact fun e he => (append_entries canAppend L mk e).mpr (Or.inl he)
  | join _ A headsA Aid _ _ h => exact join_mono h

/-- **merging never removes an entry from the listing and never changes the relative order of two
entries already listed** (hypotheses of the `Step.join` constructor) -/
theorem join_values_sublist {canAppend : Entry → Bool} {U : List Entry} (hU : HashDet U)
    (hT : TieFree U) (hM : ClockMono U) {id : Nat} {L L' : Log} {A headsA : OMap} {Aid : Nat}
    (hR : Reachable canAppend U id L) (hA : Honest U A headsA) (hid : ∀ e ∈ A, e.logId = L.id)
    (h : join canAppend L A headsA Aid = .ok L') : (values L).Sublist (values L') :=
  have hG := reachable_good hU hM hR
  values_sublist hU hT hM L L' hG (good_step hU hM hG (.join L L' A headsA Aid hA hid h))
    (join_mono h)

/-- the same for a successful `append` (hypotheses of the `Step.appendOk` constructor) -/
theorem append_values_sublist {canAppend : Entry → Bool} {U : List Entry} (hU : HashDet U)
    (hT : TieFree U) (hM : ClockMono U) {id : Nat} {L : Log} (hR : Reachable canAppend U id L)
    (mk : Nat → List Nat → Entry)
    (hmem : mk (appendTime L) (appendNext L) ∈ U)
    (hnext : (mk (appendTime L) (appendNext L)).next = appendNext L)
    (htime : (mk (appendTime L) (appendNext L)).time = appendTime L)
    (hfresh : has L.entries (mk (appendTime L) (appendNext L)).hash = false)
    (hcan : canAppend (mk (appendTime L) (appendNext L)) = true) :
    (values L).Sublist (values (append canAppend L mk).1) :=
  have hG := reachable_good hU hM hR
  have hs : Step canAppend U L (append canAppend L mk).1 :=
    .appendOk L mk hmem hnext htime hfresh hcan
  values_sublist hU hT hM L _ hG (good_step hU hM hG hs) (step_mono hs)

/-- **any step (append allowed, append denied, join) from a log satisfying the invariants** -/
theorem good_step_values_sublist {canAppend : Entry → Bool} {U : List Entry} (hU : HashDet U)
    (hT : TieFree U) (hM : ClockMono U) {L L' : Log} (hG : Good U L)
    (hs : Step canAppend U L L') : (values L).Sublist (values L') :=
  values_sublist hU hT hM L L' hG (good_step hU hM hG hs) (step_mono hs)

/-- **the listing of a reachable log only grows, order preserved, under any step** -/
theorem reachable_step_values_sublist {canAppend : Entry → Bool} {U : List Entry} (hU : HashDet U)
    (hT : TieFree U) (hM : ClockMono U) {id : Nat} {L L' : Log} (hR : Reachable canAppend U id L)
    (hs : Step canAppend U L L') : (values L).Sublist (values L') :=
  good_step_values_sublist hU hT hM (reachable_good hU hM hR) hs

/-- any number of steps -/
inductive Steps (canAppend : Entry → Bool) (U : List Entry) : Log → Log → Prop
  | refl (L : Log) : Steps canAppend U L L
  | tail {L L' L'' : Log} : Steps canAppend U L L' → Step canAppend U L' L'' → Steps canAppend U L L''

theorem good_steps {canAppend : Entry → Bool} {U : List Entry} (hU : HashDet U) (hM : ClockMono U)
    {L L' : Log} (hG : Good U L) (hs : Steps canAppend U L L') : Good U L' := by
  induction hs with
  | refl => exact hG
  | tail _ s ih => exact good_step hU hM ih s

theorem steps_values_sublist {canAppend : Entry → Bool} {U : List Entry} (hU : HashDet U)
    (hT : TieFree U) (hM : ClockMono U) {L L' : Log} (hG : Good U L)
    (hs : Steps canAppend U L L') : (values L).Sublist (values L') := by
  induction hs with
  | refl => exact List.Sublist.refl _
  | tail h s ih => exact ih.trans (good_step_values_sublist hU hT hM (good_steps hU hM hG h) s)

/-! ### Causal order: an entry is listed after everything its writer had seen -/

/-- **if `p` links to `c` (`c.hash ∈ p.next`) and both are held, `c` is listed strictly before
`p`** (decomposition form) -/
theorem seen_before {U : List Entry} (hU : HashDet U) (hT : TieFree U) (hM : ClockMono U) (L : Log)
    (hG : Good U L) (p c : Entry) (hp : p ∈ L.entries) (hc : c ∈ L.entries)
    (hnext : c.hash ∈ p.next) : ∃ a b d, values L = a ++ c :: b ++ p :: d := by
  obtain ⟨s, m⟩ := values_sorted hU hT hM L hG.inv hG.nodup
  exact before_of_sorted lt_irrefl' Entry.lt_trans s ((m c).mpr hc) ((m p).mpr hp)
    (hM p (hG.inv.sub p hp) c (hG.inv.sub c hc) hnext)

/-! ### A freshly appended entry is listed last -/

/-- **after a successful `append` the listing is the old listing followed by the new entry** -/
theorem append_values {canAppend : Entry → Bool} {U : List Entry} (hU : HashDet U) (hT : TieFree U)
    (hM : ClockMono U) {L : Log} (hG : Good U L) (mk : Nat → List Nat → Entry)
    (hmem : mk (appendTime L) (appendNext L) ∈ U)
    (hnext : (mk (appendTime L) (appendNext L)).next = appendNext L)
    (htime : (mk (appendTime L) (appendNext L)).time = appendTime L)
    (hfresh : has L.entries (mk (appendTime L) (appendNext L)).hash = false)
    (hcan : canAppend (mk (appendTime L) (appendNext L)) = true) :
    values (append canAppend L mk).1 = values L ++ [mk (appendTime L) (appendNext L)] := by
  have hs : Step canAppend U L (append canAppend L mk).1 :=
    .appendOk L mk hmem hnext htime hfresh hcan
  have hG' := good_step hU hM hG hs
  obtain ⟨s, m⟩ := values_sorted hU hT hM L hG.inv hG.nodup
  obtain ⟨s', m'⟩ := values_sorted hU hT hM _ hG'.inv hG'.nodup
  apply sorted_lt_unique s'
  · rw [List.pairwise_append]
    refine ⟨s, List.pairwise_singleton _ _, ?_⟩
    intro x hx y hy
    rw [List.mem_singleton] at hy
    subst hy
    have := append_time_gt hG.clock x ((m x).mp hx)
    rw [Entry.lt_iff]
    omega
  · intro x
    rw [m', append_entries, List.mem_append, m, List.mem_singleton]
    constructor
    · rintro (h | ⟨h, _, _⟩)
      · exact Or.inl h
      · exact Or.inr h
    · rintro (h | h)
      · exact Or.inl h
      · exact Or.inr ⟨h, h ▸ hcan, h ▸ hfresh⟩

/-- **the new entry is the last element of the listing** -/
theorem append_listed_last {canAppend : Entry → Bool} {U : List Entry} (hU : HashDet U)
    (hT : TieFree U) (hM : ClockMono U) {L : Log} (hG : Good U L) (mk : Nat → List Nat → Entry)
    (hmem : mk (appendTime L) (appendNext L) ∈ U)
    (hnext : (mk (appendTime L) (appendNext L)).next = appendNext L)
    (htime : (mk (appendTime L) (appendNext L)).time = appendTime L)
    (hfresh : has L.entries (mk (appendTime L) (appendNext L)).hash = false)
    (hcan : canAppend (mk (appendTime L) (appendNext L)) = true) :
    (values (append canAppend L mk).1).getLast? = some (mk (appendTime L) (appendNext L)) := by
  rw [append_values hU hT hM hG mk hmem hnext htime hfresh hcan, List.getLast?_concat]

/-- **a writer's own entries are listed in the order it wrote them**: replica appends `e₁`
(giving `L₁`), then any steps lead to `L₂`, then it appends `e₂`: `e₁` is listed before `e₂`, and
`e₂` is last. -/
theorem own_entries_in_order {canAppend : Entry → Bool} {U : List Entry} (hU : HashDet U)
    (hT : TieFree U) (hM : ClockMono U) {L L₂ : Log} (hG : Good U L)
    (mk₁ : Nat → List Nat → Entry)
    (hmem₁ : mk₁ (appendTime L) (appendNext L) ∈ U)
    (hnext₁ : (mk₁ (appendTime L) (appendNext L)).next = appendNext L)
    (htime₁ : (mk₁ (appendTime L) (appendNext L)).time = appendTime L)
    (hfresh₁ : has L.entries (mk₁ (appendTime L) (appendNext L)).hash = false)
    (hcan₁ : canAppend (mk₁ (appendTime L) (appendNext L)) = true)
    (hsteps : Steps canAppend U (append canAppend L mk₁).1 L₂)
    (mk₂ : Nat → List Nat → Entry)
    (hmem₂ : mk₂ (appendTime L₂) (appendNext L₂) ∈ U)
    (hnext₂ : (mk₂ (appendTime L₂) (appendNext L₂)).next = appendNext L₂)
    (htime₂ : (mk₂ (appendTime L₂) (appendNext L₂)).time = appendTime L₂)
    (hfresh₂ : has L₂.entries (mk₂ (appendTime L₂) (appendNext L₂)).hash = false)
    (hcan₂ : canAppend (mk₂ (appendTime L₂) (appendNext L₂)) = true) :
    ∃ a b, values (append canAppend L₂ mk₂).1 =
      a ++ mk₁ (appendTime L) (appendNext L) :: b ++ [mk₂ (appendTime L₂) (appendNext L₂)] := by
  have hG₁ : Good U (append canAppend L mk₁).1 :=
    good_step hU hM hG (.appendOk L mk₁ hmem₁ hnext₁ htime₁ hfresh₁ hcan₁)
  have hG₂ := good_steps hU hM hG₁ hsteps
  have hsub := steps_values_sublist hU hT hM hG₁ hsteps
  rw [append_values hU hT hM hG mk₁ hmem₁ hnext₁ htime₁ hfresh₁ hcan₁] at hsub
  have hin : mk₁ (appendTime L) (appendNext L) ∈ values L₂ :=
    hsub.subset (List.mem_append_right _ List.mem_cons_self)
  obtain ⟨a, b, hab⟩ := List.append_of_mem hin
  exact ⟨a, b, by rw [append_values hU hT hM hG₂ mk₂ hmem₂ hnext₂ htime₂ hfresh₂ hcan₂, hab]⟩

/-! ### Non-vacuity on the 3-entry fork of `LogExample.lean` -/

namespace Example

/-- merging replica 2's log into replica 1's: `[a, b]` is a subsequence of `[a, b, c]` -/
example : (values P2).Sublist (values R1) :=
  reachable_step_values_sublist hU hT hM reach_P2
    (.join P2 R1 Q2.entries Q2.heads 9 ⟨by decide, by decide⟩ (by decide) rfl)

/-- and on replica 2 the merge inserts `b` *between* `a` and `c`: `[a, c]` ⊑ `[a, b, c]` -/
example : (values Q2).Sublist (values R2) ∧ values Q2 = [a, c] ∧ values R2 = [a, b, c] :=
  ⟨reachable_step_values_sublist hU hT hM reach_Q2
    (.join Q2 R2 P2.entries P2.heads 9 ⟨by decide, by decide⟩ (by decide) rfl), by decide, by decide⟩

/-- `c` links to `a`: `a` is listed before `c` in the merged log -/
example : ∃ x y z, values R1 = x ++ a :: y ++ c :: z :=
  seen_before hU hT hM R1 (reachable_good hU hM reach_R1) c a (by decide) (by decide) (by decide)

/-- appending `b` to replica 1 lists it last -/
example : (values P2).getLast? = some b :=
  append_listed_last (canAppend := ca) hU hT hM
    (reachable_good hU hM (.step .empty (.appendOk E (fun _ _ => a) (by decide) (by decide)
      (by decide) (by decide) rfl) : Reachable ca U 9 P1))
    (fun _ _ => b) (by decide) (by decide) (by decide) (by decide) rfl

end Example

end Orbit
