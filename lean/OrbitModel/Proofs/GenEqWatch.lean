import OrbitModel.Generated.GenWatch
import OrbitModel.Model.Order
/-!
# Regenerated Go fragment = hand-written model (tie 2): `WatchMessages` closes its subscription
-/
namespace Orbit

theorem gen_watchMessages_order : Gen.watchMessagesOrder = Order.watchMessages := by decide

end Orbit
