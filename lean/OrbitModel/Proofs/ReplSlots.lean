import OrbitModel.Proofs.ReplEnq
/-!
# The fetch slots are conserved   (C11)

In every reachable state the free slots plus the workers that hold one (inside a fetch, or between
`processItems` and `processEntryDone`) add up to the capacity, and the in-progress counter is the
number of workers that hold a slot. So whenever no worker is left,
every slot is free again: aborted requests (cancelled before, while waiting for a slot, or in the
middle of a fetch, or failing) never leak one. (Seeded change C11b removed the release from
`processEntryFailed`; the harness checks the same equation on the real replicator at every rest.)
-/
namespace Orbit.Repl

/-- a worker holds a slot while it fetches and until it has run `processEntryDone` -/
def holds (w : Worker) : Bool := w.pc == .fetching || w.pc == .finishing

/-- workers that hold a slot -/
def holding (ws : List Worker) : Nat := (ws.filter holds).length

structure Slots (c : Nat) (s : St) : Prop where
  sem : s.sem + holding s.workers = c
  inp : s.inProgress = holding s.workers

theorem holding_append (a b : List Worker) : holding (a ++ b) = holding a + holding b := by
  simp [holding, List.filter_append]

theorem holding_spawn (ctx : Nat) (nw : List Nat) : holding (spawn ctx nw) = 0 := by
  unfold holding spawn
  induction nw with
  | nil => rfl
  | cons h t ih => simp [holds]

theorem holding_enqd (s : St) (ctx : Nat) (nw : List Nat) : holding (enqd s ctx nw).workers = holding s.workers := by
  rw [enqd_workers, holding_append, holding_spawn, Nat.add_zero]

theorem holding_foldl_enqueue (ctx : Nat) (l : List Nat) (s : St) :
    holding (l.foldl (enqueue ctx) s).workers = holding s.workers ∧
    (l.foldl (enqueue ctx) s).sem = s.sem ∧ (l.foldl (enqueue ctx) s).inProgress = s.inProgress := by
  obtain ⟨nw, _, _, _, heq⟩ := foldl_enqueue_spec ctx l s
  rw [heq]
  exact ⟨holding_enqd s ctx nw, rfl, rfl⟩

theorem getElem?_lt {α : Type} {l : List α} {i : Nat} {a : α} (h : l[i]? = some a) : i < l.length := by
  rcases Nat.lt_or_ge i l.length with h' | h'
  · exact h'
  · rw [List.getElem?_eq_none h'] at h; cases h

/-- removing a worker: the count drops by one iff it held a slot -/
theorem holding_removeAt {ws : List Worker} {i : Nat} {w : Worker} (h : ws[i]? = some w) :
    holding (removeAt ws i) + (if holds w then 1 else 0) = holding ws := by
  have hlt := getElem?_lt h
  have hsplit : ws = ws.take i ++ w :: ws.drop (i+1) := by
    have hw : ws[i] = w := by
      have := List.getElem?_eq_getElem hlt
      rw [this] at h; exact Option.some.inj h
    rw [← hw]
    exact (List.take_append_drop i ws).symm.trans (by rw [List.drop_eq_getElem_cons hlt])
  unfold removeAt
  conv => rhs; rw [hsplit]
  rw [holding_append, holding_append]
  have : holding (w :: ws.drop (i+1)) = (if holds w then 1 else 0) + holding (ws.drop (i+1)) := by
    unfold holding
    by_cases hp : holds w = true
    · simp [hp]; omega
    · simp [hp]
  rw [this]; omega

/-- re-labelling worker `i` from waiting to fetching adds one holder -/
theorem holding_set {ws : List Worker} {i : Nat} {ctx h : Nat} (hw : ws[i]? = some ⟨ctx, h, .waitSlot⟩) :
    holding (ws.set i ⟨ctx, h, .fetching⟩) = holding ws + 1 := by
  have hlt := getElem?_lt hw
  have hsplit : ws = ws.take i ++ (⟨ctx, h, .waitSlot⟩ : Worker) :: ws.drop (i+1) := by
    have hv : ws[i] = ⟨ctx, h, .waitSlot⟩ := by
      have := List.getElem?_eq_getElem hlt
      rw [this] at hw; exact Option.some.inj hw
    rw [← hv]
    exact (List.take_append_drop i ws).symm.trans (by rw [List.drop_eq_getElem_cons hlt])
  have hset : ws.set i ⟨ctx, h, .fetching⟩ = ws.take i ++ (⟨ctx, h, .fetching⟩ : Worker) :: ws.drop (i+1) := by
    rw [List.set_eq_take_append_cons_drop]; simp [hlt]
  rw [hset]
  conv => rhs; rw [hsplit]
  simp only [holding_append]
  unfold holding
  simp [holds]
  omega

/-- re-labelling worker `i` from fetching to finishing keeps the holders -/
theorem holding_set_fin {ws : List Worker} {i : Nat} {ctx h : Nat} (hw : ws[i]? = some ⟨ctx, h, .fetching⟩) :
    holding (ws.set i ⟨ctx, h, .finishing⟩) = holding ws := by
  have hlt := getElem?_lt hw
  have hsplit : ws = ws.take i ++ (⟨ctx, h, .fetching⟩ : Worker) :: ws.drop (i+1) := by
    have hv : ws[i] = ⟨ctx, h, .fetching⟩ := by
      have := List.getElem?_eq_getElem hlt
      rw [this] at hw; exact Option.some.inj hw
    rw [← hv]
    exact (List.take_append_drop i ws).symm.trans (by rw [List.drop_eq_getElem_cons hlt])
  have hset : ws.set i ⟨ctx, h, .finishing⟩ = ws.take i ++ (⟨ctx, h, .finishing⟩ : Worker) :: ws.drop (i+1) := by
    rw [List.set_eq_take_append_cons_drop]; simp [hlt]
  rw [hset]
  conv => rhs; rw [hsplit]
  simp only [holding_append]
  unfold holding
  simp [holds]

theorem slots_init (c : Nat) : Slots c { sem := c } := ⟨by simp [holding], by simp [holding]⟩

theorem slots_step (net : Nat → Info) (c : Nat) (s : St) (a : Act) (hs : Slots c s) : Slots c (step net s a) := by
  cases a with
  | load ctx hs' =>
    simp only [step]
    obtain ⟨h1, h2, h3⟩ := holding_foldl_enqueue ctx (s.failed ++ hs') { s with failed := [] }
    exact ⟨by rw [h1, h2]; exact hs.sem, by rw [h1, h3]; exact hs.inp⟩
  | cancel ctx => exact ⟨hs.sem, hs.inp⟩
  | deliver =>
    simp only [step]
    split
    · exact hs
    · exact ⟨hs.sem, hs.inp⟩
  | acquire i =>
    simp only [step]
    split
    · rename_i ctx h hw
      split
      · -- cancelled while waiting: the worker goes, nothing was held
        have hr := holding_removeAt hw
        simp only [show (holds ⟨ctx, h, .waitSlot⟩ = false) from rfl, Bool.false_eq_true, if_false, Nat.add_zero] at hr
        refine ⟨?_, ?_⟩
        · simp only [flush_sem, flush_workers, delTask]; rw [hr]; exact hs.sem
        · simp only [flush_inProgress, flush_workers, delTask]; rw [hr]; exact hs.inp
      · split
        · exact hs
        · rename_i hne
          have hset := holding_set hw
          refine ⟨?_, ?_⟩
          · simp only [setTask]; rw [hset]; have := hs.sem; omega
          · simp only [setTask]; rw [hset, hs.inp]
    · exact hs
  | fetched i =>
    simp only [step]
    split
    · rename_i ctx h hw
      split
      · exact hs
      · have hset := holding_set_fin hw
        split
        · exact ⟨by show s.sem + holding (s.workers.set i _) = c; rw [hset]; exact hs.sem,
            by show s.inProgress = holding (s.workers.set i _); rw [hset]; exact hs.inp⟩
        · obtain ⟨h1, h2, h3⟩ := holding_foldl_enqueue ctx (net h).links
            { { s with workers := s.workers.set i ⟨ctx, h, .finishing⟩ } with buffer := s.buffer ++ [h] }
          refine ⟨?_, ?_⟩
          · rw [h1, h2]; show s.sem + holding (s.workers.set i _) = c; rw [hset]; exact hs.sem
          · rw [h1, h3]; show s.inProgress = holding (s.workers.set i _); rw [hset]; exact hs.inp
    · exact hs
  | finish i =>
    simp only [step]
    split
    · rename_i ctx h hw
      have hr := holding_removeAt hw
      simp only [show (holds ⟨ctx, h, .finishing⟩ = true) from rfl, if_true] at hr
      have hsem := hs.sem
      have hinp := hs.inp
      refine ⟨?_, ?_⟩
      · rw [done_sem, done_workers]
        show s.sem + 1 + holding (removeAt s.workers i) = c
        omega
      · rw [done_inProgress, done_workers]
        show s.inProgress - 1 = holding (removeAt s.workers i)
        omega
    · exact hs
  | fetchFail i =>
    simp only [step]
    split
    · rename_i ctx h hw
      have hr := holding_removeAt hw
      simp only [show (holds ⟨ctx, h, .fetching⟩ = true) from rfl, if_true] at hr
      have hsem := hs.sem
      have hinp := hs.inp
      refine ⟨?_, ?_⟩
      · rw [failedDone_sem, failedDone_workers]
        show s.sem + 1 + holding (removeAt s.workers i) = c
        omega
      · rw [failedDone_inProgress, failedDone_workers]
        show s.inProgress - 1 = holding (removeAt s.workers i)
        omega
    · exact hs

theorem slots_run (net : Nat → Info) (c : Nat) (acts : List Act) : Slots c (run net { sem := c } acts) := by
  unfold run
  suffices ∀ s, Slots c s → Slots c (acts.foldl (step net) s) from this _ (slots_init c)
  induction acts with
  | nil => intro s h; exact h
  | cons a rest ih => intro s h; exact ih _ (slots_step net c s a h)

/-- **no aborted request leaks a slot**: in every reachable state free slots + holders = capacity, and
when no worker is left every slot is free and nothing is counted as in progress -/
theorem slots_all_free_at_rest (net : Nat → Info) (c : Nat) (acts : List Act)
    (hq : (run net { sem := c } acts).workers = []) :
    (run net { sem := c } acts).sem = c ∧ (run net { sem := c } acts).inProgress = 0 := by
  have h := slots_run net c acts
  have h0 : holding (run net { sem := c } acts).workers = 0 := by rw [hq]; rfl
  exact ⟨by have := h.sem; omega, by rw [h.inp, h0]⟩

end Orbit.Repl
