import OrbitModel.Proofs.OMap
import OrbitModel.Model.Persist
/-!
# `reach` (what `Load` rebuilds from the disk): soundness, fuel, closure   (C05)

`reach U blocks fuel roots []` with the fuel used by `recover` returns hashes that
* all have their block on disk (`reach_blocks`),
* stay inside every set that contains the roots and is closed under `next` (`reach_sound`),
* contain every eligible root and are closed under eligible `next` links (`reach_complete`),
where a hash is *eligible* when its block is on disk and the universe has an entry for it.
-/
namespace Orbit

/-- the universe's entry for a hash -/
def lookup (U : List Entry) (h : Nat) : Option Entry := U.find? (fun e => e.hash == h)

theorem lookup_some {U : List Entry} {h : Nat} {e : Entry} (hl : lookup U h = some e) :
    e ∈ U ∧ e.hash = h := get_some hl

theorem lookup_of_mem {U : List Entry} (hU : HashDet U) {e : Entry} (he : e ∈ U) :
    lookup U e.hash = some e := get_of_mem hU (fun _ h => h) he

theorem reach_step (U : List Entry) (blocks : List Nat) (f h : Nat) (rest acc : List Nat) :
    reach U blocks (f+1) (h :: rest) acc =
      if acc.contains h || !blocks.contains h then reach U blocks f rest acc
      else match lookup U h with
        | none => reach U blocks f rest acc
        | some e => reach U blocks f (e.next ++ rest) (h :: acc) := rfl

/-- everything recovered has its block on disk -/
theorem reach_blocks (U : List Entry) (blocks : List Nat) :
    ∀ (f : Nat) (stack acc : List Nat), (∀ h ∈ acc, h ∈ blocks) →
      ∀ h ∈ reach U blocks f stack acc, h ∈ blocks := by
  intro f
  induction f with
  | zero => intro stack acc ha; exact ha
  | succ f ih =>
    intro stack acc ha
    cases stack with
    | nil => exact ha
    | cons h rest =>
      rw [reach_step]
      split
      · exact ih rest acc ha
      · rename_i hc
        simp only [Bool.or_eq_true, not_or, Bool.not_eq_true, Bool.not_eq_false',
          List.contains_eq_mem, decide_eq_true_eq] at hc
        split
        · exact ih rest acc ha
        · apply ih
          intro x hx
          rcases List.mem_cons.mp hx with rfl | hx
          · exact hc.2
          · exact ha x hx

/-- the recovered hashes stay inside any `next`-closed set containing the roots -/
theorem reach_sound (U : List Entry) (blocks : List Nat) (S : Nat → Prop)
    (hS : ∀ h, S h → ∀ e, lookup U h = some e → ∀ n ∈ e.next, S n) :
    ∀ (f : Nat) (stack acc : List Nat), (∀ h ∈ stack, S h) → (∀ h ∈ acc, S h) →
      ∀ h ∈ reach U blocks f stack acc, S h := by
  intro f
  induction f with
  | zero => intro stack acc _ ha; exact ha
  | succ f ih =>
    intro stack acc hs ha
    cases stack with
    | nil => exact ha
    | cons h rest =>
      have hrest : ∀ x ∈ rest, S x := fun x hx => hs x (List.mem_cons_of_mem _ hx)
      rw [reach_step]
      split
      · exact ih rest acc hrest ha
      · split
        · exact ih rest acc hrest ha
        · rename_i e he
          apply ih
          · intro x hx
            rcases List.mem_append.mp hx with hx | hx
            · exact hS h (hs h List.mem_cons_self) e he x hx
            · exact hrest x hx
          · intro x hx
            rcases List.mem_cons.mp hx with rfl | hx
            · exact hs x List.mem_cons_self
            · exact ha x hx

/-! ### Fuel: each entry of the universe is expanded at most once -/

/-- links of the universe entries not yet expanded -/
def unexpanded (U : List Entry) (acc : List Nat) : Nat :=
  ((U.filter (fun e => !acc.contains e.hash)).flatMap (·.next)).length

theorem filter_flat_len (f : Entry → List Nat) (p q : Entry → Bool) (l : List Entry)
    (h : ∀ x ∈ l, q x = true → p x = true) :
    ((l.filter q).flatMap f).length ≤ ((l.filter p).flatMap f).length := by
  induction l with
  | nil => simp
  | cons a as ih =>
    have ih' := ih (fun x hx => h x (List.mem_cons_of_mem _ hx))
    have ha := h a List.mem_cons_self
    simp only [List.filter_cons]
    cases hq : q a <;> cases hp : p a <;>
      simp only [Bool.false_eq_true, if_false, if_true, List.flatMap_cons, List.length_append] <;>
      first | omega | (rw [hq] at ha; simp [hp] at ha)

theorem filter_flat_len_lt (f : Entry → List Nat) (p q : Entry → Bool) (l : List Entry)
    (h : ∀ x ∈ l, q x = true → p x = true) (x : Entry) (hx : x ∈ l) (hp : p x = true)
    (hq : q x = false) :
    ((l.filter q).flatMap f).length + (f x).length ≤ ((l.filter p).flatMap f).length := by
  induction l with
  | nil => simp at hx
  | cons a as ih =>
    have hle := filter_flat_len f p q as (fun y hy => h y (List.mem_cons_of_mem _ hy))
    simp only [List.filter_cons]
    rcases List.mem_cons.mp hx with rfl | hx'
    · simp only [hp, hq, Bool.false_eq_true, if_false, if_true, List.flatMap_cons,
        List.length_append]
      omega
    · have ih' := ih (fun y hy => h y (List.mem_cons_of_mem _ hy)) hx'
      have ha := h a List.mem_cons_self
      cases hqa : q a <;> cases hpa : p a <;>
        simp only [Bool.false_eq_true, if_false, if_true, List.flatMap_cons, List.length_append] <;>
        first | omega | (rw [hqa] at ha; simp [hpa] at ha)

theorem unexpanded_cons (U : List Entry) (acc : List Nat) (h : Nat) (e : Entry) (hl : lookup U h = some e)
    (hacc : acc.contains h = false) : unexpanded U (h :: acc) + e.next.length ≤ unexpanded U acc := by
  obtain ⟨heU, heh⟩ := lookup_some hl
  unfold unexpanded
  apply filter_flat_len_lt (·.next) _ _ U _ e heU
  · rw [heh, hacc]; rfl
  · simp [heh]
  · intro x _ hq
    simp only [List.contains_cons, Bool.or_eq_false_iff, Bool.not_eq_eq_eq_not,
      Bool.not_true] at hq ⊢
    exact hq.2

/-- a hash `Load` can fetch and decode -/
def Eligible (U : List Entry) (blocks : List Nat) (h : Nat) : Prop :=
  h ∈ blocks ∧ ∃ e, lookup U h = some e

/-- with enough fuel the result keeps `acc`, contains the eligible hashes of the stack and is
closed under eligible `next` links, provided `acc` was closed up to the stack -/
theorem reach_complete (U : List Entry) (blocks : List Nat) :
    ∀ (f : Nat) (stack acc : List Nat), stack.length + unexpanded U acc < f →
      (∀ h ∈ acc, ∀ e, lookup U h = some e → ∀ n ∈ e.next,
        n ∈ acc ∨ n ∈ stack ∨ ¬ Eligible U blocks n) →
      (∀ h ∈ acc, h ∈ reach U blocks f stack acc) ∧
      (∀ h ∈ stack, Eligible U blocks h → h ∈ reach U blocks f stack acc) ∧
      (∀ h ∈ reach U blocks f stack acc, ∀ e, lookup U h = some e → ∀ n ∈ e.next,
        Eligible U blocks n → n ∈ reach U blocks f stack acc) := by
  intro f
  induction f with
  | zero => intro _ _ hlt; omega
  | succ f ih =>
    intro stack acc hlt hinv
    cases stack with
    | nil =>
      refine ⟨fun _ h => h, fun _ h => (by cases h), ?_⟩
      intro h hh e he n hn hel
      rcases hinv h hh e he n hn with h1 | h1 | h1
      · exact h1
      · cases h1
      · exact absurd hel h1
    | cons hd rest =>
      simp only [List.length_cons] at hlt
      rw [reach_step]
      -- the three ways the head of the stack is dropped without being expanded
      have skip : (hd ∈ acc ∨ ¬ Eligible U blocks hd) →
          (∀ h ∈ acc, h ∈ reach U blocks f rest acc) ∧
          (∀ h ∈ hd :: rest, Eligible U blocks h → h ∈ reach U blocks f rest acc) ∧
          (∀ h ∈ reach U blocks f rest acc, ∀ e, lookup U h = some e → ∀ n ∈ e.next,
            Eligible U blocks n → n ∈ reach U blocks f rest acc) := by
        intro hwhy
        obtain ⟨h1, h2, h3⟩ := ih rest acc (by omega) (by
          intro h hh e he n hn
          rcases hinv h hh e he n hn with h1 | h1 | h1
          · exact Or.inl h1
          · rcases List.mem_cons.mp h1 with rfl | h1
            · rcases hwhy with hw | hw
              · exact Or.inl hw
              · exact Or.inr (Or.inr hw)
            · exact Or.inr (Or.inl h1)
          · exact Or.inr (Or.inr h1))
        refine ⟨h1, ?_, h3⟩
        intro h hh hel
        rcases List.mem_cons.mp hh with rfl | hh
        · rcases hwhy with hw | hw
          · exact h1 _ hw
          · exact absurd hel hw
        · exact h2 h hh hel
      split
      · rename_i hc
        apply skip
        simp only [Bool.or_eq_true, List.contains_eq_mem, decide_eq_true_eq, Bool.not_eq_true',
          decide_eq_false_iff_not] at hc
        rcases hc with hc | hc
        · exact Or.inl hc
        · exact Or.inr (fun hel => hc hel.1)
      · rename_i hc
        simp only [Bool.or_eq_true, not_or, Bool.not_eq_true, Bool.not_eq_false',
          List.contains_eq_mem, decide_eq_true_eq] at hc
        split
        · rename_i hnone
          apply skip
          exact Or.inr (fun hel => by obtain ⟨e, he⟩ := hel.2; rw [hnone] at he; cases he)
        · rename_i e he
          have hmu := unexpanded_cons U acc hd e he (by simpa using hc.1)
          obtain ⟨h1, h2, h3⟩ := ih (e.next ++ rest) (hd :: acc)
            (by simp only [List.length_append]; omega) (by
              intro h hh e' he' n hn
              rcases List.mem_cons.mp hh with rfl | hh
              · rw [he] at he'; cases he'
                exact Or.inr (Or.inl (List.mem_append_left _ hn))
              · rcases hinv h hh e' he' n hn with h1 | h1 | h1
                · exact Or.inl (List.mem_cons_of_mem _ h1)
                · rcases List.mem_cons.mp h1 with rfl | h1
                  · exact Or.inl List.mem_cons_self
                  · exact Or.inr (Or.inl (List.mem_append_right _ h1))
                · exact Or.inr (Or.inr h1))
          refine ⟨fun h hh => h1 h (List.mem_cons_of_mem _ hh), ?_, h3⟩
          intro h hh hel
          rcases List.mem_cons.mp hh with rfl | hh
          · exact h1 _ List.mem_cons_self
          · exact h2 h (List.mem_append_right _ hh) hel

/-- the fuel of `recover` suffices -/
theorem recover_complete (U : List Entry) (d : Disk) :
    (∀ h ∈ d.lheads ++ d.rheads, Eligible U d.blocks h → h ∈ recover U d) ∧
    (∀ h ∈ recover U d, ∀ e, lookup U h = some e → ∀ n ∈ e.next,
      Eligible U d.blocks n → n ∈ recover U d) := by
  have hfuel : (d.lheads ++ d.rheads).length + unexpanded U [] <
      d.blocks.length + (U.flatMap (·.next)).length + d.lheads.length + d.rheads.length + 1 := by
    have : unexpanded U [] = (U.flatMap (·.next)).length := by
      unfold unexpanded
      have hf : U.filter (fun e => !([] : List Nat).contains e.hash) = U :=
        List.filter_eq_self.mpr (fun _ _ => rfl)
      rw [hf]
    rw [this, List.length_append]; omega
  obtain ⟨_, h2, h3⟩ := reach_complete U d.blocks _ (d.lheads ++ d.rheads) [] hfuel
    (fun h hh => by cases hh)
  exact ⟨h2, h3⟩

theorem recover_blocks (U : List Entry) (d : Disk) : ∀ h ∈ recover U d, h ∈ d.blocks :=
  reach_blocks U d.blocks _ _ [] (fun h hh => by cases hh)

end Orbit
