import OrbitModel.Proofs.ReplTerm
/-!
# Replicator: the deterministic scheduler reaches quiescence (explicit fuel), forgetting nothing
-/
namespace Orbit.Repl

/-- no worker belongs to a cancelled request -/
def Clean (s : St) : Prop := ∀ w ∈ s.workers, s.cancelled.contains w.ctx = false

variable {net : Nat → Info} {c : Nat} {s s' : St} {U : List Nat}

theorem Move.stIn (hU : Closed net U) (hin : StIn U s) (m : Move net s s') : StIn U s' := by
  have hsub : ∀ {l1 l2 : List Worker} {w : Worker}, s.workers = l1 ++ w :: l2 →
      (∀ w' ∈ l1 ++ l2, w'.item ∈ U) ∧ w.item ∈ U := by
    intro l1 l2 w hw
    refine ⟨fun w' hw' => hin.workers w' (hw ▸ mem_split_of hw'), ?_⟩
    exact hin.workers w (hw ▸ List.mem_append.2 (Or.inr List.mem_cons_self))
  cases m with
  | fail l1 l2 ctx hh hw hc =>
    obtain ⟨h1, h2⟩ := hsub hw
    refine ⟨by rw [failedDone_workers]; exact h1, ?_⟩
    rw [failedDone_failed]
    intro k hk
    rcases List.mem_cons.1 hk with rfl | hk
    · exact h2
    · exact hin.failed k hk
  | fetchedForeign l1 l2 ctx hh hw hc hf =>
    obtain ⟨h1, h2⟩ := hsub hw
    refine ⟨?_, hin.failed⟩
    intro w hw'
    have hw'' : w ∈ l1 ++ ⟨ctx, hh, .finishing⟩ :: l2 := hw'
    rcases List.mem_append.1 hw'' with h' | h'
    · exact h1 w (List.mem_append.2 (Or.inl h'))
    · rcases List.mem_cons.1 h' with rfl | h'
      · exact h2
      · exact h1 w (List.mem_append.2 (Or.inr h'))
  | fetched l1 l2 ctx hh nw hw hc hf hnd hnew hcov =>
    obtain ⟨h1, h2⟩ := hsub hw
    refine ⟨?_, hin.failed⟩
    rw [enqd_workers]
    intro w hw'
    rcases List.mem_append.1 hw' with hw' | hw'
    · have hw'' : w ∈ l1 ++ ⟨ctx, hh, .finishing⟩ :: l2 := hw'
      rcases List.mem_append.1 hw'' with h' | h'
      · exact h1 w (List.mem_append.2 (Or.inl h'))
      · rcases List.mem_cons.1 h' with rfl | h'
        · exact h2
        · exact h1 w (List.mem_append.2 (Or.inr h'))
    · obtain ⟨k, hk, rfl⟩ := mem_spawn.1 hw'
      exact hU hh h2 hf k (hnew k hk).1
  | finish l1 l2 ctx hh hw =>
    obtain ⟨h1, _⟩ := hsub hw
    exact ⟨by rw [done_workers]; exact h1, by rw [done_failed]; exact hin.failed⟩
  | giveUp l1 l2 ctx hh hw hc =>
    obtain ⟨h1, h2⟩ := hsub hw
    refine ⟨by rw [flush_workers]; exact h1, ?_⟩
    rw [flush_failed]
    intro k hk
    rcases List.mem_cons.1 hk with rfl | hk
    · exact h2
    · exact hin.failed k hk
  | slot l1 l2 ctx hh hw hc hs =>
    obtain ⟨h1, h2⟩ := hsub hw
    refine ⟨?_, hin.failed⟩
    intro w hw'
    show w.item ∈ U
    have hw'' : w ∈ l1 ++ ⟨ctx, hh, .fetching⟩ :: l2 := hw'
    rcases List.mem_append.1 hw'' with h' | h'
    · exact h1 w (List.mem_append.2 (Or.inl h'))
    · rcases List.mem_cons.1 h' with rfl | h'
      · exact h2
      · exact h1 w (List.mem_append.2 (Or.inr h'))
  | deliver batch rest hp => exact ⟨hin.workers, hin.failed⟩

/-- a scheduler move never forgets a hash -/
theorem Move.keeps (m : Move net s s') (h : Nat) : Orbit.Repl.tracked s h → Orbit.Repl.tracked s' h := by
  have hdel : ∀ (s' : St) (hh : Nat), s'.log = s.log →
      (∀ k, task s' k = if hh = k then none else task s k) → s'.failed = hh :: s.failed →
      tracked s h → tracked s' h := by
    intro s' hh h1 h2 h3
    apply tracked_of
    · intro k hk; rw [h1]; exact hk
    · intro k hk
      by_cases e : hh = k
      · right; rw [h3, e]; exact List.mem_cons_self
      · left; rw [h2]; simp only [e, if_false]; exact hk
    · intro k hk; rw [h3]; exact List.mem_cons_of_mem _ hk
  have hset : ∀ (s' : St) (hh : Nat) (t : TS), (∀ k ∈ s.log, k ∈ s'.log) →
      (∀ k, task s k ≠ none → task s' k ≠ none) → s'.failed = s.failed →
      tracked s h → tracked s' h := by
    intro s' hh t h1 h2 h3
    apply tracked_of h1
    · intro k hk; exact Or.inl (h2 k hk)
    · intro k hk; rw [h3]; exact hk
  cases m with
  | fail l1 l2 ctx hh hw hc =>
    exact hdel _ hh (failedDone_log _ _) (fun k => task_failedDone _ hh k) (failedDone_failed _ _)
  | fetchedForeign l1 l2 ctx hh hw hc hf =>
    exact hset { s with workers := l1 ++ ⟨ctx, hh, .finishing⟩ :: l2 } hh .fetching
      (fun k hk => hk) (fun k hk => hk) rfl
  | fetched l1 l2 ctx hh nw hw hc hf hnd hnew hcov =>
    refine hset _ hh .fetching (fun k hk => hk) ?_ rfl
    intro k hk
    rw [task_enqd]
    by_cases e' : k ∈ nw
    · simp [e']
    · simp only [e', if_false]; exact hk
  | finish l1 l2 ctx hh hw =>
    refine hset _ hh .fetched (fun k hk => by rw [done_log]; exact hk) ?_ (done_failed _ _)
    intro k hk
    rw [task_done]
    by_cases e : hh = k
    · simp [e]
    · simp only [e, if_false]; exact hk
  | giveUp l1 l2 ctx hh hw hc =>
    refine hdel (flush (giveUpSt s (l1 ++ l2) hh)) hh (flush_log _) (fun k => ?_) (flush_failed _)
    rw [task_flush]
    exact task_delTask s hh k
  | slot l1 l2 ctx hh hw hc hs =>
    refine hset (slotSt s (l1 ++ ⟨ctx, hh, .fetching⟩ :: l2) hh) hh .fetching (fun k hk => hk) ?_ rfl
    intro k hk
    show task (setTask s hh .fetching) k ≠ none
    rw [task_setTask]
    by_cases e : hh = k
    · simp [e]
    · simp only [e, if_false]; exact hk
  | deliver batch rest hp =>
    exact hset { s with pending := rest, log := joinBatch net s.log batch } 0 .fetched
      (fun k hk => mem_joinBatch.2 (Or.inl hk)) (fun k hk => hk) rfl

/-- without workers of cancelled requests nothing fails -/
theorem Move.clean (m : Move net s s') (hcl : Clean s) : Clean s' ∧ s'.failed = s.failed := by
  have hcan := m.cancelled_eq
  have hsub : ∀ {l1 l2 : List Worker} {w : Worker}, s.workers = l1 ++ w :: l2 →
      (∀ w' ∈ l1 ++ l2, s.cancelled.contains w'.ctx = false) := by
    intro l1 l2 w hw w' hw'
    exact hcl w' (hw ▸ mem_split_of hw')
  unfold Clean
  rw [hcan]
  cases m with
  | fail l1 l2 ctx hh hw hc =>
    have := hcl ⟨ctx, hh, .fetching⟩ (hw ▸ List.mem_append.2 (Or.inr List.mem_cons_self))
    rw [hc] at this; cases this
  | fetchedForeign l1 l2 ctx hh hw hc hf =>
    refine ⟨?_, rfl⟩
    intro w hw'
    have hw'' : w ∈ l1 ++ ⟨ctx, hh, .finishing⟩ :: l2 := hw'
    rcases List.mem_append.1 hw'' with h' | h'
    · exact hsub hw w (List.mem_append.2 (Or.inl h'))
    · rcases List.mem_cons.1 h' with rfl | h'
      · exact hc
      · exact hsub hw w (List.mem_append.2 (Or.inr h'))
  | fetched l1 l2 ctx hh nw hw hc hf hnd hnew hcov =>
    refine ⟨?_, rfl⟩
    rw [enqd_workers]
    intro w hw'
    rcases List.mem_append.1 hw' with hw' | hw'
    · have hw'' : w ∈ l1 ++ ⟨ctx, hh, .finishing⟩ :: l2 := hw'
      rcases List.mem_append.1 hw'' with h' | h'
      · exact hsub hw w (List.mem_append.2 (Or.inl h'))
      · rcases List.mem_cons.1 h' with rfl | h'
        · exact hc
        · exact hsub hw w (List.mem_append.2 (Or.inr h'))
    · obtain ⟨k, hk, rfl⟩ := mem_spawn.1 hw'
      exact hc
  | finish l1 l2 ctx hh hw =>
    exact ⟨by rw [done_workers]; exact hsub hw, done_failed _ _⟩
  | giveUp l1 l2 ctx hh hw hc =>
    have := hcl ⟨ctx, hh, .waitSlot⟩ (hw ▸ List.mem_append.2 (Or.inr List.mem_cons_self))
    rw [hc] at this; cases this
  | slot l1 l2 ctx hh hw hc hs =>
    refine ⟨?_, rfl⟩
    intro w hw'
    have hw'' : w ∈ l1 ++ ⟨ctx, hh, .fetching⟩ :: l2 := hw'
    rcases List.mem_append.1 hw'' with h' | h'
    · exact hsub hw w (List.mem_append.2 (Or.inl h'))
    · rcases List.mem_cons.1 h' with rfl | h'
      · exact hc
      · exact hsub hw w (List.mem_append.2 (Or.inr h'))
  | deliver batch rest hp => exact ⟨hcl, rfl⟩

/-- **termination with explicit fuel**: `pot U s` moves bring the replicator to
quiescence; `Inv` holds there, the cancelled set is unchanged, no tracked hash is forgotten, and
without workers of cancelled requests nothing is added to `failed`. -/
theorem drain_spec (hc : 0 < c) (hU : Closed net U) : ∀ (n : Nat) (s : St), Inv net c s → StIn U s →
    pot U s ≤ n →
    Inv net c (drain net n s) ∧ StIn U (drain net n s) ∧ (drain net n s).workers = [] ∧
    (drain net n s).pending = [] ∧ (drain net n s).cancelled = s.cancelled ∧
    (∀ h, tracked s h → tracked (drain net n s) h) ∧ (Clean s → (drain net n s).failed = s.failed) := by
  intro n
  induction n with
  | zero =>
    intro s hi hin h
    have h0 : pot U s = 0 := Nat.le_zero.1 h
    unfold pot potB at h0
    have hw : s.workers = [] := by
      cases hw : s.workers with
      | nil => rfl
      | cons w ws => rw [hw] at h0; simp [busy] at h0
    have hp : s.pending = [] := List.eq_nil_of_length_eq_zero (by omega)
    exact ⟨hi, hin, hw, hp, rfl, fun _ h => h, fun _ => rfl⟩
  | succ n ih =>
    intro s hi hin hp
    unfold drain
    cases hpm : pickMove s with
    | none =>
      obtain ⟨h1, h2⟩ := pickMove_none hpm
      exact ⟨hi, hin, h1, h2, rfl, fun _ h => h, fun _ => rfl⟩
    | some a =>
      simp only
      have m := pickMove_move hi hc hpm
      have hlt := m.pot_lt hi.toInvS hU hin
      obtain ⟨r1, r2, r3, r4, r5, r6, r7⟩ := ih (step net s a) (hi.step a) (m.stIn hU hin) (by omega)
      refine ⟨r1, r2, r3, r4, r5.trans m.cancelled_eq, fun h hh => r6 h (m.keeps h hh), ?_⟩
      intro hcl
      obtain ⟨c1, c2⟩ := m.clean hcl
      exact (r7 c1).trans c2

/-- the explicit fuel bound (unchanged by the split of a fetch into `fetched` + `finish`: a
fetching worker still weighs 2 — one for each of its two moves — and the single `LoadEnd` that a
drain can emit is paid for by `busy`, not by every worker) -/
def fuelBound (U : List Nat) (s : St) : Nat :=
  3 * U.length + (3 * U.length + 3) * s.workers.length + s.pending.length

theorem wsum_le (u : Nat) (canc : List Nat) (ws : List Worker) :
    wsum u canc ws ≤ (3 * u + 3) * ws.length := by
  induction ws with
  | nil => simp [wsum]
  | cons w ws ih =>
    rw [wsum_cons, List.length_cons, Nat.mul_succ]
    have : wt u canc w ≤ 3 * u + 3 := by
      unfold wt
      obtain ⟨_, _, pc⟩ := w
      cases pc <;> split <;> simp <;> omega
    omega

theorem potB_le_fuelBound (U : List Nat) (s : St) : potB U s ≤ fuelBound U s := by
  unfold potB fuelBound
  have := fresh_le_length U s
  have := wsum_le U.length s.cancelled s.workers
  omega

/-- `fuelBound` moves bring any state to quiescence once exceeded: `fuelBound U s < n → pot U s ≤ n` -/
theorem pot_le_fuelBound (U : List Nat) (s : St) : pot U s ≤ fuelBound U s + 1 := by
  unfold pot
  have := potB_le_fuelBound U s
  have := busy_le s.workers
  omega

end Orbit.Repl
