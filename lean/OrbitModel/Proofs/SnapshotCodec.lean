import OrbitModel.Model.Snapshot
/-!
# Snapshot records: `u16 length ++ bytes` round-trips; the pinned encoder wraps at 65536   (C13, F9a)
-/
namespace Orbit.Snap

/-- the two length bytes decode to the length when it fits 16 bits -/
theorem u16_decode (n : Nat) (hn : n ≤ 65535) :
    ∃ hi lo, u16 n = [hi, lo] ∧ hi * 256 + lo = n ∧ hi < 256 ∧ lo < 256 := by
  refine ⟨(n / 256) % 256, n % 256, rfl, ?_, ?_, ?_⟩ <;> omega

theorem encodeRec_some {r a : List Nat} (h : encodeRec r = some a) :
    r.length ≤ 65535 ∧ a = u16 r.length ++ r := by
  unfold encodeRec maxRec at h
  split at h
  · cases h
  · injection h with h
    exact ⟨by omega, h.symm⟩

theorem encodeRec_none_iff (r : List Nat) : encodeRec r = none ↔ 65535 < r.length := by
  unfold encodeRec maxRec
  split <;> simp_all

theorem encodeRecs_cons_some {r : List Nat} {rs : List (List Nat)} {bs : List Nat}
    (h : encodeRecs (r :: rs) = some bs) :
    ∃ a b, encodeRec r = some a ∧ encodeRecs rs = some b ∧ bs = a ++ b := by
  simp only [encodeRecs] at h
  split at h
  · rename_i a b ha hb
    injection h with h
    exact ⟨a, b, ha, hb, h.symm⟩
  · cases h

/-- reading one well-formed record -/
theorem decodeRecs_succ (n : Nat) (r rest : List Nat) (hr : r.length ≤ 65535) :
    decodeRecs (n + 1) (u16 r.length ++ r ++ rest) =
      match decodeRecs n rest with
      | some (rs, tl) => some (r :: rs, tl)
      | none => none := by
  obtain ⟨hi, lo, hu, hlen, _, _⟩ := u16_decode r.length hr
  rw [hu]
  simp only [List.cons_append, List.nil_append, decodeRecs, hlen]
  have h1 : ¬ (r ++ rest).length < r.length := by simp
  simp only [h1, if_false, List.drop_left, List.take_left]
  cases decodeRecs n rest with
  | none => rfl
  | some p => rfl

/-- **decoding what was encoded gives the records back**, whatever follows -/
theorem records_roundtrip (rs : List (List Nat)) : ∀ (bs tl : List Nat),
    encodeRecs rs = some bs → decodeRecs rs.length (bs ++ tl) = some (rs, tl) := by
  induction rs with
  | nil =>
    intro bs tl h
    simp only [encodeRecs] at h
    injection h with h
    subst h
    simp [decodeRecs]
  | cons r rs ih =>
    intro bs tl h
    obtain ⟨a, b, ha, hb, rfl⟩ := encodeRecs_cons_some h
    obtain ⟨hr, rfl⟩ := encodeRec_some ha
    have := decodeRecs_succ rs.length r (b ++ tl) hr
    rw [List.length_cons, List.append_assoc, this, ih b tl hb]

/-- **the fixed encoder fails exactly when some record does not fit 16 bits** -/
theorem encodeRecs_some_iff (rs : List (List Nat)) :
    encodeRecs rs ≠ none ↔ ∀ r ∈ rs, r.length ≤ 65535 := by
  induction rs with
  | nil => simp [encodeRecs]
  | cons r rs ih =>
    simp only [List.mem_cons, forall_eq_or_imp, ← ih]
    cases h1 : encodeRec r with
    | none =>
      have := (encodeRec_none_iff r).mp h1
      simp only [encodeRecs, h1]
      constructor
      · intro h; exact absurd rfl h
      · intro h; omega
    | some a =>
      have := (encodeRec_some h1).1
      cases h2 : encodeRecs rs with
      | none => simp [encodeRecs, h1, h2]
      | some b => simp [encodeRecs, h1, h2, this]

theorem encodeRecs_none_iff (rs : List (List Nat)) :
    encodeRecs rs = none ↔ ∃ r ∈ rs, 65535 < r.length := by
  have := encodeRecs_some_iff rs
  constructor
  · intro h
    apply Classical.byContradiction
    intro hne
    apply this.mpr _ h
    intro r hr
    apply Classical.byContradiction
    intro hlt
    exact hne ⟨r, hr, by omega⟩
  · rintro ⟨r, hr, hlt⟩
    apply Classical.byContradiction
    intro hne
    have := this.mp hne r hr
    omega

/-! ### Finding F9a: the pinned encoder writes the length modulo 65536 -/

/-- a record of exactly 65536 bytes -/
def bigRec : List Nat := List.replicate 65536 7

theorem bigRec_length : bigRec.length = 65536 := List.length_replicate

/-- the pinned encoder frames the 65536-byte record with length bytes `0 0` -/
theorem pinned_frame (r : List Nat) (hr : r.length = 65536) : encodeRecPinned r = [0, 0] ++ r := by
  unfold encodeRecPinned u16
  rw [hr]

/-- the fixed encoder refuses it -/
theorem fixed_refuses (r : List Nat) (hr : r.length = 65536) : encodeRec r = none :=
  (encodeRec_none_iff r).mpr (by omega)

/-- length bytes `0 0` read as an empty record; everything after them is left over -/
theorem decodeRecs_zero_len (rest : List Nat) : decodeRecs 1 (0 :: 0 :: rest) = some ([[]], rest) := by
  simp [decodeRecs]

theorem pinned_decode (r tl : List Nat) (hr : r.length = 65536) :
    decodeRecs 1 (encodeRecsPinned [r] ++ tl) = some ([[]], r ++ tl) := by
  simp only [encodeRecsPinned, List.flatMap_cons, List.flatMap_nil, List.append_nil,
    pinned_frame r hr, List.cons_append, List.nil_append]
  exact decodeRecs_zero_len (r ++ tl)

theorem encodeRecs_single_none (r : List Nat) (h : encodeRec r = none) : encodeRecs [r] = none := by
  simp only [encodeRecs, h]

/-- **F9a**: saving with the pinned encoder "succeeds", but the snapshot does not load back: the
reader sees an EMPTY record and takes the 65536 bytes of the record for what follows. The fixed
encoder returns an error instead. (Stated for every record of 65536 bytes; `bigRec` is one.) -/
theorem pinned_frame_wraps (r tl : List Nat) (hr : r.length = 65536) :
    encodeRecPinned r = [0, 0] ++ r ∧
    decodeRecs 1 (encodeRecsPinned [r] ++ tl) = some ([[]], r ++ tl) ∧
    encodeRec r = none ∧ encodeRecs [r] = none :=
  ⟨pinned_frame r hr, pinned_decode r tl hr, fixed_refuses r hr,
    encodeRecs_single_none r (fixed_refuses r hr)⟩

/-- the instance asked for: `List.replicate 65536 7` -/
theorem pinned_frame_wraps_bigRec (tl : List Nat) :
    encodeRecPinned bigRec = [0, 0] ++ bigRec ∧
    decodeRecs 1 (encodeRecsPinned [bigRec] ++ tl) = some ([[]], bigRec ++ tl) ∧
    encodeRec bigRec = none ∧ encodeRecs [bigRec] = none :=
  pinned_frame_wraps bigRec tl bigRec_length

end Orbit.Snap
