import OrbitModel.Proofs.LogValues
/-!
# Reachable logs: every log built from `Log.empty` by `append` / `join` steps satisfies the
invariants, so two replicas holding the same entries list them identically.
-/
namespace Orbit

/-- one operation on a replica's log, with entries drawn from the universe `U` -/
inductive Step (canAppend : Entry → Bool) (U : List Entry) : Log → Log → Prop
  /-- `Append` allowed by the access controller: the entry built by `mk` is in the universe, carries
  the links and the Lamport time handed to `mk`, and its hash is not already held -/
  | appendOk (L : Log) (mk : Nat → List Nat → Entry)
      (hmem : mk (appendTime L) (appendNext L) ∈ U)
      (hnext : (mk (appendTime L) (appendNext L)).next = appendNext L)
      (htime : (mk (appendTime L) (appendNext L)).time = appendTime L)
      (hfresh : has L.entries (mk (appendTime L) (appendNext L)).hash = false)
      (hcan : canAppend (mk (appendTime L) (appendNext L)) = true) :
      Step canAppend U L (append canAppend L mk).1
  /-- `Append` denied: only the clock moves -/
  | appendDenied (L : Log) (mk : Nat → List Nat → Entry)
      (hcan : canAppend (mk (appendTime L) (appendNext L)) = false) :
      Step canAppend U L (append canAppend L mk).1
  /-- successful `Join` of an honest log whose entries carry our log id -/
  | join (L L' : Log) (A headsA : OMap) (Aid : Nat)
      (hA : Honest U A headsA) (hid : ∀ e ∈ A, e.logId = L.id)
      (h : Orbit.join canAppend L A headsA Aid = .ok L') :
      Step canAppend U L L'

/-- logs reachable from the empty log of id `id` -/
inductive Reachable (canAppend : Entry → Bool) (U : List Entry) (id : Nat) : Log → Prop
  | empty : Reachable canAppend U id (Log.empty id)
  | step {L L' : Log} : Reachable canAppend U id L → Step canAppend U L L' →
      Reachable canAppend U id L'

/-- the invariants carried by every reachable log -/
structure Good (U : List Entry) (L : Log) : Prop where
  inv    : Inv U L
  nodup  : L.entries.Nodup
  clock  : ClockInv L

theorem good_empty (U : List Entry) (id : Nat) : Good U (Log.empty id) :=
  ⟨inv_empty U id, by simp [Log.empty], clockInv_empty id⟩

theorem good_step {canAppend : Entry → Bool} {U : List Entry} (hU : HashDet U) (hM : ClockMono U)
    {L L' : Log} (hG : Good U L) (hs : Step canAppend U L L') : Good U L' := by
  cases hs with
  | appendOk mk hmem hnext htime hfresh hcan =>
    exact ⟨inv_append_clock hM canAppend L mk hG.inv hG.clock hnext htime hmem hfresh,
      nodup_append canAppend L mk hG.nodup, clockInv_append canAppend L mk hG.clock htime⟩
  | appendDenied mk hcan =>
    rw [append_eq, hcan]
    simp only [Bool.false_eq_true, if_false]
    exact ⟨⟨hG.inv.sub, hG.inv.heads, hG.inv.nidx, hG.inv.hnodup⟩, hG.nodup,
      fun x hx => Nat.le_trans (hG.clock x hx) (Nat.le_of_lt (clock_lt_appendTime L))⟩
  | join _ A headsA Aid hA hid h =>
    exact ⟨inv_join_honest hU hG.inv hA hid h, nodup_join hG.nodup h,
      clockInv_join hU hM hG.inv hG.clock hA hid h⟩

/-- **every reachable log satisfies `Inv`, has duplicate-free entries and a dominating clock** -/
theorem reachable_good {canAppend : Entry → Bool} {U : List Entry} (hU : HashDet U) (hM : ClockMono U)
    {id : Nat} {L : Log} (h : Reachable canAppend U id L) : Good U L := by
  induction h with
  | empty => exact good_empty U id
  | step _ hs ih => exact good_step hU hM ih hs

/-- **`Values()` of a reachable log is its entry set in ascending (time, clock id) order** -/
theorem reachable_values_sorted {canAppend : Entry → Bool} {U : List Entry} (hU : HashDet U)
    (hT : TieFree U) (hM : ClockMono U) {id : Nat} {L : Log} (h : Reachable canAppend U id L) :
    (values L).Pairwise (fun a b => Entry.lt a b = true) ∧ ∀ x, x ∈ values L ↔ x ∈ L.entries :=
  values_sorted hU hT hM L (reachable_good hU hM h).inv (reachable_good hU hM h).nodup

/-- **End-to-end convergence.** Two replicas (possibly with different access controllers) whose
logs were built by `append`/`join` steps over the same universe and hold the same set of entries
list them identically and agree on the sorted heads. -/
theorem reachable_same_entries_same_values {ca1 ca2 : Entry → Bool} {U : List Entry}
    (hU : HashDet U) (hT : TieFree U) (hM : ClockMono U) {id1 id2 : Nat} {L1 L2 : Log}
    (h1 : Reachable ca1 U id1 L1) (h2 : Reachable ca2 U id2 L2)
    (h : ∀ x, x ∈ L1.entries ↔ x ∈ L2.entries) :
    values L1 = values L2 ∧ sortedHeads L1 = sortedHeads L2 := by
  have g1 := reachable_good hU hM h1
  have g2 := reachable_good hU hM h2
  exact ⟨values_unique hU hT hM L1 L2 g1.inv g1.nodup g2.inv g2.nodup h,
    sortedHeads_unique hT L1 L2 g1.inv g2.inv h⟩

/-- the log id never changes -/
theorem step_id {canAppend : Entry → Bool} {U : List Entry} {L L' : Log}
    (hs : Step canAppend U L L') : L'.id = L.id := by
  cases hs with
  | appendOk mk _ _ _ _ _ => rw [append_eq]; split <;> rfl
  | appendDenied mk _ => rw [append_eq]; split <;> rfl
  | join _ A headsA Aid _ _ h =>
    rcases join_ok_cases h with ⟨_, rfl⟩ | ⟨hid, _, rfl⟩
    · rfl
    · rw [joinCore_eq L A headsA Aid hid]; rfl

theorem reachable_id {canAppend : Entry → Bool} {U : List Entry} {id : Nat} {L : Log}
    (h : Reachable canAppend U id L) : L.id = id := by
  induction h with
  | empty => rfl
  | step _ hs ih => rw [step_id hs, ih]

end Orbit
