import OrbitModel.Model.Replicator
/-!
# Replicator: elementary facts about the primitives

`lookup`/`task`, `setTask`, `delTask`, `flush`, `done`, `failedDone`, `removeAt`, and an explicit
description of `foldl (enqueue ctx)`.
-/
namespace Orbit.Repl

/-- the task state a worker at program counter `pc` has given its item -/
def tsOf : PC → TS
  | .waitSlot => .added
  | .fetching => .fetching
  | .finishing => .fetching

/-- a worker bound to `h` has buffered its log and queued its parents, and has not yet run
`processEntryDone` -/
def finAt (s : St) (h : Nat) : Prop := ∃ w ∈ s.workers, w.item = h ∧ w.pc = .finishing

/-- the entry `h` has been fetched: its task says so, or its worker is about to say so -/
def got (s : St) (h : Nat) : Prop := task s h = some .fetched ∨ finAt s h

/-- `h` sits in the buffer or in a `LoadEnd` batch that the store has not handled yet -/
def inBP (s : St) (h : Nat) : Prop := h ∈ s.buffer ∨ ∃ b ∈ s.pending, h ∈ b

/-- the replicator has not forgotten `h`: it is in the oplog, or has a task (any state), or is
remembered in `failed` for the next `Load` -/
def tracked (s : St) (h : Nat) : Prop := h ∈ s.log ∨ task s h ≠ none ∨ h ∈ s.failed

def lookup (ts : List (Nat × TS)) (h : Nat) : Option TS := (ts.find? (·.1 == h)).map (·.2)

theorem task_def (s : St) (h : Nat) : task s h = lookup s.tasks h := rfl

@[simp] theorem lookup_nil (h : Nat) : lookup [] h = none := rfl

theorem lookup_cons (k : Nat) (t : TS) (ts : List (Nat × TS)) (h : Nat) :
    lookup ((k, t) :: ts) h = if k = h then some t else lookup ts h := by
  unfold lookup
  by_cases hk : k = h
  · simp [hk]
  · simp [hk]

theorem lookup_filter (ts : List (Nat × TS)) (k h : Nat) :
    lookup (ts.filter (·.1 != k)) h = if h = k then none else lookup ts h := by
  induction ts with
  | nil => simp
  | cons p ts ih =>
    obtain ⟨a, t⟩ := p
    by_cases hak : a = k
    · subst hak
      have : List.filter (fun x : Nat × TS => x.1 != a) ((a, t) :: ts)
          = List.filter (fun x : Nat × TS => x.1 != a) ts := by simp
      rw [this, ih, lookup_cons]
      by_cases hh : h = a
      · simp [hh]
      · have : ¬ a = h := fun e => hh e.symm
        simp [hh, this]
    · have : List.filter (fun x : Nat × TS => x.1 != k) ((a, t) :: ts)
          = (a, t) :: List.filter (fun x : Nat × TS => x.1 != k) ts := by simp [hak]
      rw [this, lookup_cons, lookup_cons, ih]
      by_cases hah : a = h
      · have : ¬ h = k := fun e => hak (hah.trans e)
        simp [hah, this]
      · simp [hah]

theorem lookup_eq_none {ts : List (Nat × TS)} {h : Nat} :
    lookup ts h = none ↔ ∀ p ∈ ts, p.1 ≠ h := by
  unfold lookup
  simp [List.find?_eq_none]

theorem filter_of_lookup_none {ts : List (Nat × TS)} {h : Nat} (hn : lookup ts h = none) :
    ts.filter (·.1 != h) = ts := by
  rw [List.filter_eq_self]
  intro p hp
  have := lookup_eq_none.1 hn p hp
  simp [this]

theorem lookup_added_append (L : List Nat) (ts : List (Nat × TS)) (h : Nat) :
    lookup (L.map (fun k => (k, TS.added)) ++ ts) h = if h ∈ L then some .added else lookup ts h := by
  induction L with
  | nil => simp
  | cons a L ih =>
    rw [List.map_cons, List.cons_append, lookup_cons, ih]
    by_cases hah : a = h
    · simp [hah]
    · have : ¬ h = a := fun e => hah e.symm
      simp [hah, this]

/-! ### `setTask`, `delTask` -/

theorem task_setTask (s : St) (h : Nat) (t : TS) (k : Nat) :
    task (setTask s h t) k = if h = k then some t else task s k := by
  simp only [task_def, setTask, lookup_cons, lookup_filter]
  by_cases hk : h = k
  · simp [hk]
  · have : ¬ k = h := fun e => hk e.symm
    simp [hk, this]

theorem task_delTask (s : St) (h k : Nat) :
    task (delTask s h) k = if h = k then none else task s k := by
  simp only [task_def, delTask, lookup_filter]
  by_cases hk : h = k
  · simp [hk]
  · have : ¬ k = h := fun e => hk e.symm
    simp [hk, this]

/-! ### positions in the worker list -/

theorem split_at {α : Type} {l : List α} {i : Nat} {w : α} (h : l[i]? = some w) :
    ∃ l1 l2, l = l1 ++ w :: l2 ∧ l1.length = i ∧ removeAt l i = l1 ++ l2 ∧
      ∀ w2, l.set i w2 = l1 ++ w2 :: l2 := by
  obtain ⟨hi, hw⟩ := List.getElem?_eq_some_iff.1 h
  refine ⟨l.take i, l.drop (i+1), ?_, ?_, rfl, ?_⟩
  · have := List.take_append_drop i l
    rw [List.drop_eq_getElem_cons hi, hw] at this
    exact this.symm
  · simp [List.length_take]; omega
  · intro w2
    rw [List.set_eq_take_append_cons_drop]
    simp [hi]

/-! ### `isIdle`, `flush` -/

theorem isIdle_congr {s s' : St} (h1 : s'.inProgress = s.inProgress) (h2 : s'.queue = s.queue)
    (h3 : s'.tasks = s.tasks) : isIdle s' = isIdle s := by
  simp only [isIdle, h1, h2, h3]

theorem isIdle_false_of_task {s : St} {h : Nat} {t : TS} (ht : task s h = some t) (hne : t ≠ .fetched) :
    isIdle s = false := by
  unfold isIdle
  split
  · rfl
  · rw [Bool.eq_false_iff]
    intro hall
    rw [List.all_eq_true] at hall
    rw [task_def] at ht
    unfold lookup at ht
    cases hf : s.tasks.find? (·.1 == h) with
    | none => simp [hf] at ht
    | some p =>
      have hm := List.mem_of_find?_eq_some hf
      have := hall p hm
      simp [hf] at ht
      simp at this
      exact hne (ht ▸ this)

theorem lookup_of_mem {ts : List (Nat × TS)} (hn : (ts.map (·.1)).Nodup) {p : Nat × TS} (hp : p ∈ ts) :
    lookup ts p.1 = some p.2 := by
  induction ts with
  | nil => cases hp
  | cons q ts ih =>
    obtain ⟨a, t⟩ := q
    rw [List.map_cons, List.nodup_cons] at hn
    rw [lookup_cons]
    rcases List.mem_cons.1 hp with rfl | hp'
    · simp
    · have : ¬ a = p.1 := by
        intro e; apply hn.1; rw [e]; exact List.mem_map.2 ⟨p, hp', rfl⟩
      simp only [this, if_false]
      exact ih hn.2 hp'

theorem isIdle_true_of {s : St} (hn : (s.tasks.map (·.1)).Nodup) (h0 : s.inProgress = 0)
    (hall : ∀ h t, task s h = some t → t = .fetched) : isIdle s = true := by
  unfold isIdle
  simp only [h0, Nat.lt_irrefl, decide_false, Bool.false_and, Bool.false_eq_true, ↓reduceIte]
  rw [List.all_eq_true]
  intro p hp
  have := hall p.1 p.2 (lookup_of_mem hn hp)
  simp [this]

theorem flush_cases (s : St) : flush s = s ∨ (isIdle s = true ∧ s.buffer ≠ [] ∧
    flush s = { s with pending := s.pending ++ [s.buffer], buffer := [] }) := by
  unfold flush
  by_cases h : (isIdle s && !s.buffer.isEmpty) = true
  · right
    simp only [h, if_true]
    simp only [Bool.and_eq_true, Bool.not_eq_true', List.isEmpty_eq_false_iff] at h
    exact ⟨h.1, h.2, trivial⟩
  · left; simp only [h]; rfl

@[simp] theorem flush_log (s : St) : (flush s).log = s.log := by
  rcases flush_cases s with h | ⟨_, _, h⟩ <;> rw [h]
@[simp] theorem flush_tasks (s : St) : (flush s).tasks = s.tasks := by
  rcases flush_cases s with h | ⟨_, _, h⟩ <;> rw [h]
@[simp] theorem flush_queue (s : St) : (flush s).queue = s.queue := by
  rcases flush_cases s with h | ⟨_, _, h⟩ <;> rw [h]
@[simp] theorem flush_failed (s : St) : (flush s).failed = s.failed := by
  rcases flush_cases s with h | ⟨_, _, h⟩ <;> rw [h]
@[simp] theorem flush_sem (s : St) : (flush s).sem = s.sem := by
  rcases flush_cases s with h | ⟨_, _, h⟩ <;> rw [h]
@[simp] theorem flush_inProgress (s : St) : (flush s).inProgress = s.inProgress := by
  rcases flush_cases s with h | ⟨_, _, h⟩ <;> rw [h]
@[simp] theorem flush_workers (s : St) : (flush s).workers = s.workers := by
  rcases flush_cases s with h | ⟨_, _, h⟩ <;> rw [h]
@[simp] theorem flush_cancelled (s : St) : (flush s).cancelled = s.cancelled := by
  rcases flush_cases s with h | ⟨_, _, h⟩ <;> rw [h]
@[simp] theorem task_flush (s : St) (h : Nat) : task (flush s) h = task s h := by
  simp only [task_def, flush_tasks]
@[simp] theorem isIdle_flush (s : St) : isIdle (flush s) = isIdle s :=
  isIdle_congr (flush_inProgress s) (flush_queue s) (flush_tasks s)

theorem inBP_flush (s : St) (h : Nat) : inBP (flush s) h ↔ inBP s h := by
  rcases flush_cases s with e | ⟨_, _, e⟩
  · rw [e]
  · rw [e]; unfold inBP
    simp only [List.mem_append, List.mem_singleton, List.not_mem_nil, false_or]
    constructor
    · rintro ⟨b, hb | rfl, hh⟩
      · exact Or.inr ⟨b, hb, hh⟩
      · exact Or.inl hh
    · rintro (hh | ⟨b, hb, hh⟩)
      · exact ⟨_, Or.inr rfl, hh⟩
      · exact ⟨b, Or.inl hb, hh⟩

theorem tracked_flush (s : St) (h : Nat) : tracked (flush s) h ↔ tracked s h := by
  simp only [tracked, flush_log, task_flush, flush_failed]

theorem flush_buffer_nodup {s : St} (h : s.buffer.Nodup) : (flush s).buffer.Nodup := by
  rcases flush_cases s with e | ⟨_, _, e⟩ <;> rw [e]
  · exact h
  · exact List.nodup_nil

theorem flush_buf_idle (s : St) : (flush s).buffer ≠ [] → isIdle (flush s) = false := by
  rw [isIdle_flush]
  intro hb
  cases hi : isIdle s with
  | false => rfl
  | true =>
    exfalso; apply hb
    unfold flush
    simp only [hi, Bool.true_and]
    cases hbe : s.buffer <;> simp [hbe]

/-! ### `done`, `failedDone` -/

def donePre (s : St) (h : Nat) : St := { setTask s h .fetched with inProgress := s.inProgress - 1 }
def failPre (s : St) (h : Nat) : St :=
  { delTask s h with inProgress := s.inProgress - 1, failed := h :: s.failed }

theorem done_eq (s : St) (h : Nat) :
    done s h = { flush (donePre s h) with sem := (flush (donePre s h)).sem + 1 } := rfl
theorem failedDone_eq (s : St) (h : Nat) :
    failedDone s h = { flush (failPre s h) with sem := (flush (failPre s h)).sem + 1 } := rfl

theorem task_done (s : St) (h k : Nat) : task (done s h) k = if h = k then some .fetched else task s k := by
  have : task (done s h) k = task (setTask s h .fetched) k := by
    simp only [done, task_def, flush_tasks]
  rw [this, task_setTask]

theorem task_failedDone (s : St) (h k : Nat) : task (failedDone s h) k = if h = k then none else task s k := by
  have : task (failedDone s h) k = task (delTask s h) k := by
    simp only [failedDone, task_def, flush_tasks]
  rw [this, task_delTask]

@[simp] theorem done_log (s : St) (h : Nat) : (done s h).log = s.log := by simp [done, setTask]
@[simp] theorem done_failed (s : St) (h : Nat) : (done s h).failed = s.failed := by simp [done, setTask]
@[simp] theorem done_workers (s : St) (h : Nat) : (done s h).workers = s.workers := by simp [done, setTask]
@[simp] theorem done_queue (s : St) (h : Nat) : (done s h).queue = s.queue := by simp [done, setTask]
@[simp] theorem done_cancelled (s : St) (h : Nat) : (done s h).cancelled = s.cancelled := by simp [done, setTask]
@[simp] theorem done_sem (s : St) (h : Nat) : (done s h).sem = s.sem + 1 := by simp [done, setTask]
@[simp] theorem done_inProgress (s : St) (h : Nat) : (done s h).inProgress = s.inProgress - 1 := by
  simp [done, setTask]
@[simp] theorem done_tasks (s : St) (h : Nat) : (done s h).tasks = (setTask s h .fetched).tasks := by
  simp [done]

@[simp] theorem failedDone_log (s : St) (h : Nat) : (failedDone s h).log = s.log := by simp [failedDone, delTask]
@[simp] theorem failedDone_failed (s : St) (h : Nat) : (failedDone s h).failed = h :: s.failed := by
  simp [failedDone, delTask]
@[simp] theorem failedDone_workers (s : St) (h : Nat) : (failedDone s h).workers = s.workers := by
  simp [failedDone, delTask]
@[simp] theorem failedDone_queue (s : St) (h : Nat) : (failedDone s h).queue = s.queue := by
  simp [failedDone, delTask]
@[simp] theorem failedDone_cancelled (s : St) (h : Nat) : (failedDone s h).cancelled = s.cancelled := by
  simp [failedDone, delTask]
@[simp] theorem failedDone_sem (s : St) (h : Nat) : (failedDone s h).sem = s.sem + 1 := by
  simp [failedDone, delTask]
@[simp] theorem failedDone_inProgress (s : St) (h : Nat) : (failedDone s h).inProgress = s.inProgress - 1 := by
  simp [failedDone, delTask]
@[simp] theorem failedDone_tasks (s : St) (h : Nat) : (failedDone s h).tasks = (delTask s h).tasks := by
  simp [failedDone]

theorem inBP_congr {s s' : St} (h1 : s'.buffer = s.buffer) (h2 : s'.pending = s.pending) (h : Nat) :
    inBP s' h ↔ inBP s h := by simp only [inBP, h1, h2]

theorem inBP_done (s : St) (h k : Nat) : inBP (done s h) k ↔ inBP s k := by
  exact (inBP_congr (s' := done s h) (s := flush (donePre s h)) rfl rfl k).trans
    ((inBP_flush _ k).trans (inBP_congr (s' := donePre s h) (s := s) rfl rfl k))

theorem inBP_failedDone (s : St) (h k : Nat) : inBP (failedDone s h) k ↔ inBP s k := by
  exact (inBP_congr (s' := failedDone s h) (s := flush (failPre s h)) rfl rfl k).trans
    ((inBP_flush _ k).trans (inBP_congr (s' := failPre s h) (s := s) rfl rfl k))

theorem done_buffer_nodup {s : St} (h : Nat) (hb : s.buffer.Nodup) : (done s h).buffer.Nodup := by
  rw [done_eq]
  exact flush_buffer_nodup (s := donePre s h) hb

theorem failedDone_buffer_nodup {s : St} (h : Nat) (hb : s.buffer.Nodup) : (failedDone s h).buffer.Nodup := by
  rw [failedDone_eq]
  exact flush_buffer_nodup (s := failPre s h) hb

theorem done_buf_idle (s : St) (h : Nat) : (done s h).buffer ≠ [] → isIdle (done s h) = false := by
  intro hb
  exact (isIdle_congr (s' := done s h) (s := flush (donePre s h)) rfl rfl rfl).trans
    (flush_buf_idle (donePre s h) hb)

theorem failedDone_buf_idle (s : St) (h : Nat) :
    (failedDone s h).buffer ≠ [] → isIdle (failedDone s h) = false := by
  intro hb
  exact (isIdle_congr (s' := failedDone s h) (s := flush (failPre s h)) rfl rfl rfl).trans
    (flush_buf_idle (failPre s h) hb)

end Orbit.Repl
