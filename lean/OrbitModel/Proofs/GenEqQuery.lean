import OrbitModel.Generated.GenQuery
import OrbitModel.Model.Index
/-!
# Regenerated Go fragment = hand-written model (tie 2); one small module per fragment, so that a
change to one Go function only stops the theorems tied to it
-/
namespace Orbit

theorem gen_normAmount (a : Option Int) (len : Nat) :
    Gen.genNormAmount a.isSome (a.getD 0) len = (normAmount a len : Int) := by
  unfold Gen.genNormAmount normAmount
  cases a with
  | none => simp
  | some x =>
    simp only [Option.isSome_some, Option.getD_some, if_true]
    by_cases h0 : x = 0
    · simp [h0]
    · by_cases h1 : x > -1
      · simp [h0, h1]; omega
      · simp [h0, h1]

end Orbit
