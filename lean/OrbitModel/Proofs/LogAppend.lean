import OrbitModel.Proofs.EntryOrder
/-!
# `append` preserves the heads invariant; the Lamport clock dominates every entry
-/
namespace Orbit

/-- the `next` links given to an appended entry are exactly the hashes of the current heads -/
theorem mem_appendNext (L : Log) (h : Nat) : h ∈ appendNext L ↔ ∃ x ∈ L.heads, x.hash = h := by
  unfold appendNext sortedHeads
  simp only [List.mem_reverse, List.mem_map, Trav.mem_sortDesc]

theorem nexts_append (a b : OMap) : nexts (a ++ b) = nexts a ++ nexts b := by
  simp [nexts]

theorem append_eq (canAppend : Entry → Bool) (L : Log) (mk : Nat → List Nat → Entry) :
    (append canAppend L mk).1 =
      if canAppend (mk (appendTime L) (appendNext L)) then
        { L with clock := appendTime L,
                 entries := set L.entries (mk (appendTime L) (appendNext L)),
                 nextIdx := L.nextIdx ++ (mk (appendTime L) (appendNext L)).next,
                 heads := [mk (appendTime L) (appendNext L)] }
      else { L with clock := appendTime L } := by
  unfold append
  simp only
  split <;> rfl

/-- **`append` preserves the heads invariant.**  `e` is the entry built by `mk`; its `next` must be
the links handed to `mk`, it belongs to the universe and its hash is fresh. -/
theorem inv_append {U : List Entry} (canAppend : Entry → Bool) (L : Log) (mk : Nat → List Nat → Entry)
    (hI : Inv U L)
    (hnext : (mk (appendTime L) (appendNext L)).next = appendNext L)
    (hmem : mk (appendTime L) (appendNext L) ∈ U)
    (hfresh : has L.entries (mk (appendTime L) (appendNext L)).hash = false)
    (hunref : (mk (appendTime L) (appendNext L)).hash ∉ nexts L.entries)
    (hself : (mk (appendTime L) (appendNext L)).hash ∉ (mk (appendTime L) (appendNext L)).next) :
    Inv U (append canAppend L mk).1 := by
  rw [append_eq]
  generalize mk (appendTime L) (appendNext L) = e at *
  split
  · have hset : set L.entries e = L.entries ++ [e] := by unfold set; simp [hfresh]
    simp only [hset]
    constructor
    · intro x hx
      rcases List.mem_append.mp hx with hx | hx
      · exact hI.sub x hx
      · simp only [List.mem_singleton] at hx; exact hx ▸ hmem
    · intro x
      simp only [nexts_append, List.mem_append, List.mem_singleton, not_or]
      have hne : nexts [e] = e.next := by simp [nexts]
      rw [hne]
      constructor
      · rintro rfl
        exact ⟨Or.inr rfl, hunref, hself⟩
      · rintro ⟨hx | hx, hn1, hn2⟩
        · exfalso
          apply hn2
          rw [hnext, mem_appendNext]
          exact ⟨x, (hI.heads x).mpr ⟨hx, hn1⟩, rfl⟩
        · exact hx
    · intro h
      have hne : nexts [e] = e.next := by simp [nexts]
      simp only [nexts_append, List.mem_append, hne, hI.nidx]
    · simp
  · exact ⟨hI.sub, hI.heads, hI.nidx, hI.hnodup⟩

theorem nodup_append (canAppend : Entry → Bool) (L : Log) (mk : Nat → List Nat → Entry)
    (h : L.entries.Nodup) : (append canAppend L mk).1.entries.Nodup := by
  rw [append_eq]
  split
  · exact nodup_set _ h
  · exact h

/-- what `append` does to the entry set -/
theorem append_entries (canAppend : Entry → Bool) (L : Log) (mk : Nat → List Nat → Entry) (x : Entry) :
    x ∈ (append canAppend L mk).1.entries ↔
      x ∈ L.entries ∨ (x = mk (appendTime L) (appendNext L) ∧ canAppend x = true ∧
        has L.entries x.hash = false) := by
  rw [append_eq]
  split
  · rename_i hc
    simp only [mem_set]
    constructor
    · rintro (h | ⟨rfl, h⟩)
      · exact Or.inl h
      · exact Or.inr ⟨rfl, hc, h⟩
    · rintro (h | ⟨rfl, _, h⟩)
      · exact Or.inl h
      · exact Or.inr ⟨rfl, h⟩
  · rename_i hc
    constructor
    · exact Or.inl
    · rintro (h | ⟨rfl, h, _⟩)
      · exact h
      · exact absurd h hc

/-! ### The Lamport clock -/

/-- the log's clock is at least the time of every entry it holds -/
def ClockInv (L : Log) : Prop := ∀ e ∈ L.entries, e.time ≤ L.clock

theorem clockInv_empty (id : Nat) : ClockInv (Log.empty id) := by
  intro e he; simp [Log.empty] at he

theorem le_foldl_max_init (l : List Entry) (m : Nat) : m ≤ l.foldl (fun m e => max m e.time) m := by
  induction l generalizing m with
  | nil => exact Nat.le_refl _
  | cons a as ih => exact Nat.le_trans (Nat.le_max_left _ _) (ih (max m a.time))

theorem le_foldl_max (l : List Entry) (m : Nat) : ∀ h ∈ l, h.time ≤ l.foldl (fun m e => max m e.time) m := by
  induction l generalizing m with
  | nil => intro h hh; simp at hh
  | cons a as ih =>
    intro h hh
    rcases List.mem_cons.mp hh with rfl | hh
    · exact Nat.le_trans (Nat.le_max_right _ _) (le_foldl_max_init as (max m h.time))
    · exact ih (max m a.time) h hh

theorem clock_lt_appendTime (L : Log) : L.clock < appendTime L := by
  unfold appendTime; omega

/-- the time given to an appended entry exceeds the time of every entry held -/
theorem append_time_gt {L : Log} (hC : ClockInv L) : ∀ x ∈ L.entries, x.time < appendTime L :=
  fun x hx => Nat.lt_of_le_of_lt (hC x hx) (clock_lt_appendTime L)

/-- the time given to an appended entry exceeds the time of every head (no invariant needed) -/
theorem append_time_gt_heads (L : Log) : ∀ x ∈ L.heads, x.time < appendTime L := by
  intro x hx
  have := le_foldl_max L.heads 0 x hx
  unfold appendTime; omega

theorem clockInv_append (canAppend : Entry → Bool) (L : Log) (mk : Nat → List Nat → Entry)
    (hC : ClockInv L) (htime : (mk (appendTime L) (appendNext L)).time = appendTime L) :
    ClockInv (append canAppend L mk).1 := by
  rw [append_eq]
  have hlt := clock_lt_appendTime L
  split
  · intro x hx
    simp only [mem_set] at hx
    show x.time ≤ appendTime L
    rcases hx with hx | ⟨rfl, _⟩
    · exact Nat.le_trans (hC x hx) (Nat.le_of_lt hlt)
    · exact Nat.le_of_eq htime
  · intro x hx
    exact Nat.le_trans (hC x hx) (Nat.le_of_lt hlt)

/-- after `bumpClock` the clock dominates every entry: every entry lies below some head -/
theorem clockInv_bumpClock {U : List Entry} (hM : ClockMono U) {L : Log} (hI : Inv U L) :
    ClockInv (bumpClock L) := by
  intro x hx
  obtain ⟨h, hh, hle⟩ := time_le_head hM hI x hx
  have := le_foldl_max L.heads 0 h hh
  show x.time ≤ max L.clock _
  omega

/-- **`join` re-establishes the clock invariant** (derived from `ClockMono` and `Inv`) -/
theorem clockInv_join {U : List Entry} (hU : HashDet U) (hM : ClockMono U) {canAppend : Entry → Bool}
    {L L' : Log} {A headsA : OMap} {Aid : Nat} (hI : Inv U L) (hC : ClockInv L)
    (hA : Honest U A headsA) (hid : ∀ e ∈ A, e.logId = L.id)
    (h : join canAppend L A headsA Aid = .ok L') : ClockInv L' := by
  rcases join_ok_cases h with ⟨_, rfl⟩ | ⟨_, _, rfl⟩
  · exact hC
  · exact clockInv_bumpClock hM (inv_joinCore_honest hU L A headsA Aid hI hA hid)

/-! ### Freshness side conditions of `inv_append` that follow from the invariants -/

/-- a hash not held is not the hash of a head, hence not among the links of the new entry -/
theorem fresh_not_in_appendNext {U : List Entry} {L : Log} (hI : Inv U L) {h : Nat}
    (hfresh : has L.entries h = false) : h ∉ appendNext L := by
  intro hm
  obtain ⟨x, hx, hxh⟩ := (mem_appendNext L h).mp hm
  exact (has_false_iff L.entries h).mp hfresh x ((hI.heads x).mp hx).1 hxh

/-- an entry stamped with the append time cannot be referenced by an entry already held -/
theorem fresh_unreferenced {U : List Entry} (hM : ClockMono U) {L : Log} (hI : Inv U L)
    (hC : ClockInv L) {e : Entry} (he : e ∈ U) (htime : e.time = appendTime L) :
    e.hash ∉ nexts L.entries := by
  intro hm
  obtain ⟨p, hp, hn⟩ := (mem_nexts _ _).mp hm
  have h1 := Entry.lt_time_le (hM p (hI.sub p hp) e he hn)
  have h2 := append_time_gt hC p hp
  omega

/-- `inv_append` with the side conditions discharged from `ClockMono`, `ClockInv` -/
theorem inv_append_clock {U : List Entry} (hM : ClockMono U) (canAppend : Entry → Bool) (L : Log)
    (mk : Nat → List Nat → Entry) (hI : Inv U L) (hC : ClockInv L)
    (hnext : (mk (appendTime L) (appendNext L)).next = appendNext L)
    (htime : (mk (appendTime L) (appendNext L)).time = appendTime L)
    (hmem : mk (appendTime L) (appendNext L) ∈ U)
    (hfresh : has L.entries (mk (appendTime L) (appendNext L)).hash = false) :
    Inv U (append canAppend L mk).1 :=
  inv_append canAppend L mk hI hnext hmem hfresh (fresh_unreferenced hM hI hC hmem htime)
    (by rw [hnext]; exact fresh_not_in_appendNext hI hfresh)

end Orbit
