import OrbitModel.Model.Codec
/-!
# uvarint length prefix and the frame guard of `directchannel` (C12, frame part)
-/
namespace Orbit.Codec

/-! ## uvarint -/

/-- every byte `putUvarint` writes is a byte -/
theorem putUvarint_bytes (fuel n : Nat) : ∀ b ∈ putUvarint fuel n, b < 256 := by
  induction fuel generalizing n with
  | zero => intro b hb; simp [putUvarint] at hb
  | succ fuel ih =>
    intro b hb
    unfold putUvarint at hb
    split at hb
    · simp only [List.mem_singleton] at hb; omega
    · simp only [List.mem_cons] at hb
      rcases hb with hb | hb
      · have := Nat.mod_lt n (show 128 > 0 by omega); omega
      · exact ih _ b hb

theorem encodeUvarint_bytes (n : Nat) : ∀ b ∈ encodeUvarint n, b < 256 := putUvarint_bytes 10 n

/-- at most `fuel` bytes are written, and at least one when `fuel > 0` -/
theorem putUvarint_length_le (fuel n : Nat) : (putUvarint fuel n).length ≤ fuel := by
  induction fuel generalizing n with
  | zero => simp [putUvarint]
  | succ fuel ih =>
    unfold putUvarint
    split
    · simp
    · have := ih (n / 128); simp only [List.length_cons]; omega

/-- General round trip: with `fuel` bytes left and a value whose last permitted byte is 0 or 1
(`n < 2 * 128^(fuel-1)`), reading what was written gives the value back, at any shift, with any
trailing bytes left untouched. -/
theorem readUvarint_putUvarint (fuel : Nat) :
    ∀ (n shift acc : Nat) (rest : List Nat), n < 2 * 128 ^ fuel →
      readUvarint (fuel + 1) shift acc (putUvarint (fuel + 1) n ++ rest) = some (acc + n * 2 ^ shift, rest) := by
  induction fuel with
  | zero =>
    intro n shift acc rest hn
    have hn' : n < 128 := by simp only [Nat.pow_zero] at hn; omega
    have h1 : ¬ n > 1 := by simp only [Nat.pow_zero] at hn; omega
    simp [putUvarint, readUvarint, hn', h1]
  | succ fuel ih =>
    intro n shift acc rest hn
    by_cases h : n < 128
    · simp [putUvarint, readUvarint, h]
    · have hmod := Nat.mod_lt n (show 128 > 0 by omega)
      have hb : ¬ (n % 128 + 128 < 128) := by omega
      have hdiv : n / 128 < 2 * 128 ^ fuel := by
        rw [Nat.pow_succ] at hn
        exact (Nat.div_lt_iff_lt_mul (by omega)).2 (by omega)
      have := ih (n / 128) (shift + 7) (acc + (n % 128) * 2 ^ shift) rest hdiv
      rw [putUvarint, if_neg h, List.cons_append, readUvarint, if_neg hb,
        show n % 128 + 128 - 128 = n % 128 by omega, this]
      congr 2
      have hdm : n * 2 ^ shift = (128 * (n / 128) + n % 128) * 2 ^ shift := by rw [Nat.div_add_mod]
      rw [Nat.pow_add, show (2 : Nat) ^ 7 = 128 by rfl, hdm, Nat.add_mul]
      generalize 2 ^ shift = p, n / 128 = q, n % 128 = r
      ac_rfl

/-- **B1.** Every 64-bit value survives `PutUvarint` / `ReadUvarint`, whatever follows it. -/
theorem uvarint_roundtrip (n : Nat) (hn : n < 2 ^ 64) (rest : List Nat) :
    decodeUvarint (encodeUvarint n ++ rest) = some (n, rest) := by
  have := readUvarint_putUvarint 9 n 0 0 rest (by omega)
  simpa [decodeUvarint, encodeUvarint] using this

/-- what `ReadUvarint` returns from a byte stream fits in 64 bits (general form) -/
theorem readUvarint_bound (fuel : Nat) :
    ∀ (shift acc : Nat) (bs : List Nat) (v : Nat) (rest : List Nat), (∀ b ∈ bs, b < 256) →
      readUvarint (fuel + 1) shift acc bs = some (v, rest) →
      v + 2 ^ shift ≤ acc + 2 * 128 ^ fuel * 2 ^ shift := by
  induction fuel with
  | zero =>
    intro shift acc bs v rest hb h
    cases bs with
    | nil => simp [readUvarint] at h
    | cons b bs =>
      by_cases hlt : b < 128
      · by_cases h1 : b > 1
        · simp [readUvarint, hlt, h1] at h
        · simp only [readUvarint, hlt, h1, if_true, Nat.zero_add, and_false, if_false, Option.some.injEq,
            Prod.mk.injEq] at h
          have hb1 : b ≤ 1 := by omega
          have := Nat.mul_le_mul_right (2 ^ shift) hb1
          simp only [Nat.pow_zero]; omega
      · simp [readUvarint, hlt] at h
  | succ fuel ih =>
    intro shift acc bs v rest hb h
    cases bs with
    | nil => simp [readUvarint] at h
    | cons b bs =>
      have hb256 : b < 256 := hb b (List.mem_cons_self ..)
      have hq : 128 ^ fuel ≥ 1 := Nat.one_le_two_pow (n := 7 * fuel) |> fun h => by
        rw [Nat.pow_mul] at h; exact h
      by_cases hlt : b < 128
      · simp only [readUvarint, hlt, if_true, Nat.add_eq_right, Nat.add_eq_zero_iff, Nat.succ_ne_self,
          and_false, false_and, if_false, Option.some.injEq, Prod.mk.injEq] at h
        have hb127 : b + 1 ≤ 2 * 128 ^ (fuel + 1) := by rw [Nat.pow_succ]; omega
        have := Nat.mul_le_mul_right (2 ^ shift) hb127
        rw [Nat.add_mul] at this
        omega
      · rw [readUvarint, if_neg hlt] at h
        have := ih (shift + 7) _ bs v rest (fun x hx => hb x (List.mem_cons_of_mem _ hx)) h
        have hc : b - 128 ≤ 127 := by omega
        have hcp := Nat.mul_le_mul_right (2 ^ shift) hc
        rw [Nat.pow_add, show (2 : Nat) ^ 7 = 128 by rfl] at this
        rw [Nat.pow_succ]
        have e1 : 2 * 128 ^ fuel * (2 ^ shift * 128) = 256 * (128 ^ fuel * 2 ^ shift) := by
          generalize 2 ^ shift = p, 128 ^ fuel = q
          rw [Nat.mul_comm p 128, ← Nat.mul_assoc, Nat.mul_assoc 2 q 128, Nat.mul_comm q 128,
            ← Nat.mul_assoc 2 128 q, Nat.mul_assoc]
        have e2 : 2 * (128 ^ fuel * 128) * 2 ^ shift = 256 * (128 ^ fuel * 2 ^ shift) := by
          generalize 2 ^ shift = p, 128 ^ fuel = q
          rw [Nat.mul_comm q 128, ← Nat.mul_assoc 2 128 q, Nat.mul_assoc]
        rw [e1] at this
        rw [e2]
        omega

/-- on a byte stream `ReadUvarint` never returns more than 64 bits: the `n ≥ 2^64` branch of
`readFrame` is there for totality on `Nat` only -/
theorem decodeUvarint_lt (bs : List Nat) (hb : ∀ b ∈ bs, b < 256) (v : Nat) (rest : List Nat)
    (h : decodeUvarint bs = some (v, rest)) : v < 2 ^ 64 := by
  have := readUvarint_bound 9 0 0 bs v rest hb h
  omega

/-! ## the frame guard -/

/-- **B3.** the repaired guard only accepts lengths within the limit, and the length handed to
`make` is the unsigned length that was read -/
theorem frame_accept (len64 : BitVec 64) (n : Nat) (h : frameGuard len64 = .accept n) :
    (n : Int) ≤ maxFrame ∧ n = len64.toNat := by
  unfold frameGuard at h
  split at h
  · cases h
  · injection h with h; subst h; omega

theorem frameGuard_never_panics (len64 : BitVec 64) : frameGuard len64 ≠ .panic := by
  unfold frameGuard; split <;> simp

/-- the repaired guard refuses exactly the lengths above the limit -/
theorem frameGuard_refused_iff (len64 : BitVec 64) :
    frameGuard len64 = .refused ↔ len64.toNat > 4 * 1024 * 1024 := by
  unfold frameGuard maxFrame; split <;> simp <;> omega

/-- **B4.** the pinned reader calls `make` with a negative length on the header `2^63` -/
theorem frameGuardPinned_panics : frameGuardPinned (BitVec.ofNat 64 (2 ^ 63)) = .panic := by decide

theorem frameGuardPinned_panic_iff (len64 : BitVec 64) :
    frameGuardPinned len64 = .panic ↔ len64.toNat ≥ 2 ^ 63 := by
  have hlt := len64.isLt
  unfold frameGuardPinned maxFrame
  simp only [BitVec.toInt_eq_toNat_cond]
  split <;> split <;> (try split) <;> simp <;> omega

/-- below `2^63` the conversion to `int` is harmless: both readers decide alike -/
theorem frameGuard_eq_pinned (len64 : BitVec 64) (h : len64.toNat < 2 ^ 63) :
    frameGuard len64 = frameGuardPinned len64 := by
  have hi : len64.toInt = (len64.toNat : Int) := by
    rw [BitVec.toInt_eq_toNat_cond, if_pos (by omega)]
  unfold frameGuardPinned frameGuard
  simp only [hi]
  split
  · rfl
  · rw [if_neg (by omega)]; simp

/-- and from `2^63` on they differ: the repaired reader refuses where the pinned one panics -/
theorem frameGuard_refuses_where_pinned_panics (len64 : BitVec 64) (h : len64.toNat ≥ 2 ^ 63) :
    frameGuard len64 = .refused ∧ frameGuardPinned len64 = .panic :=
  ⟨(frameGuard_refused_iff len64).2 (by omega), (frameGuardPinned_panic_iff len64).2 h⟩

/-! ## frames -/

/-- **B2.** a payload within the limit is delivered unchanged, whatever follows it on the wire -/
theorem frame_roundtrip (payload rest : List Nat) (h : payload.length ≤ 4 * 1024 * 1024) :
    readFrame (writeFrame payload ++ rest) = some payload := by
  have hlt : payload.length < 2 ^ 64 := by omega
  have hg : frameGuard (BitVec.ofNat 64 payload.length) = .accept payload.length := by
    unfold frameGuard maxFrame
    rw [BitVec.toNat_ofNat, Nat.mod_eq_of_lt hlt, if_neg (by omega)]
  unfold readFrame writeFrame
  rw [List.append_assoc, uvarint_roundtrip _ hlt]
  simp only [hg]
  rw [if_neg (by omega), if_neg (by simp)]
  simp

/-- **B5.** a header announcing more than the limit delivers nothing (and nothing is allocated:
the guard answers `refused`) -/
theorem oversize_refused (n : Nat) (hbig : n > 4 * 1024 * 1024) (hn : n < 2 ^ 64) (rest : List Nat) :
    readFrame (encodeUvarint n ++ rest) = none := by
  have hg : frameGuard (BitVec.ofNat 64 n) = .refused := by
    rw [frameGuard_refused_iff, BitVec.toNat_ofNat, Nat.mod_eq_of_lt hn]; exact hbig
  unfold readFrame
  rw [uvarint_roundtrip _ hn]
  simp only [hg]
  rw [if_neg (by omega)]

/-- each stream carries one frame: the refusal of an oversized header on one stream has no effect
on the next stream, whose well-formed frame is delivered -/
theorem oversize_refused_then_ok (n : Nat) (hbig : n > 4 * 1024 * 1024) (hn : n < 2 ^ 64)
    (junk payload rest : List Nat) (h : payload.length ≤ 4 * 1024 * 1024) :
    readFrame (encodeUvarint n ++ junk) = none ∧ readFrame (writeFrame payload ++ rest) = some payload :=
  ⟨oversize_refused n hbig hn junk, frame_roundtrip payload rest h⟩

/-! ## non-vacuity -/

example : encodeUvarint 300 = [172, 2] := by decide
example : decodeUvarint [172, 2, 7] = some (300, [7]) := by decide
example : (encodeUvarint (2 ^ 64 - 1)).length = 10 := by decide
example : decodeUvarint (encodeUvarint (2 ^ 64 - 1) ++ [9]) = some (2 ^ 64 - 1, [9]) := by decide
-- overflow: a 10th byte above 1, and an 11-byte encoding
example : decodeUvarint [255, 255, 255, 255, 255, 255, 255, 255, 255, 2] = none := by decide
example : decodeUvarint [128, 128, 128, 128, 128, 128, 128, 128, 128, 128, 1] = none := by decide
example : decodeUvarint [128] = none := by decide
example : readFrame (writeFrame [1, 2, 3] ++ [4, 5]) = some [1, 2, 3] := by decide
example : readFrame [5, 1, 2] = none := by decide
example : readFrame (encodeUvarint (2 ^ 63) ++ [1, 2, 3]) = none := by decide
example : frameGuard (BitVec.ofNat 64 (2 ^ 63)) = .refused := by decide
example : frameGuard 3#64 = .accept 3 := by decide
example : frameGuardPinned 3#64 = .accept 3 := by decide

end Orbit.Codec
