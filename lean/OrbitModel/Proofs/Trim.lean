import OrbitModel.Proofs.DiffAll
import OrbitModel.Proofs.LogReach
/-!
# `Join(other, size)`: the trim keeps the last `size` values   (C15)

`trim` rebuilds `Entries` from the tail of `Values()` and `heads` from `FindHeads`; the reverse index
`Next` is *not* rebuilt (as in Go), so the trimmed log satisfies the heads invariant but not
`Inv.nidx`. `Values()` never reads `Next`, so the listing of the trimmed log is still determined.
-/
namespace Orbit

/-- `Values()` reads only `Entries` and the heads -/
theorem values_congr {L1 L2 : Log} (he : L1.entries = L2.entries) (hh : L1.heads = L2.heads) :
    values L1 = values L2 := by
  unfold values traverseN travFuel children
  rw [he, hh]

theorem values_bumpClock (L : Log) : values (bumpClock L) = values L := rfl

/-- a log whose heads are `FindHeads(entries)` and whose index is rebuilt satisfies the invariant -/
theorem inv_of_findHeads {U : List Entry} (hU : HashDet U) (id : Nat) (K : List Entry) (c : Nat)
    (hK : ∀ e ∈ K, e ∈ U) :
    Inv U { id := id, entries := ofList K, heads := ofList (findHeads (ofList K)),
            nextIdx := nexts (ofList K), clock := c } := by
  have hm : ∀ e ∈ ofList K, e ∈ U := fun e he => hK e (mem_of_mem_ofList he)
  refine ⟨hm, ?_, fun _ => Iff.rfl, ofList_nodup _⟩
  intro e
  show e ∈ ofList (findHeads (ofList K)) ↔ _
  rw [mem_ofList hU (fun x hx => hm x ((mem_findHeads _ x).mp hx).1), mem_findHeads]

/-- strictly sorted lists have no duplicates -/
theorem nodup_of_sorted {l : List Entry} (h : l.Pairwise (fun a b => Entry.lt a b = true)) : l.Nodup := by
  apply List.Pairwise.imp _ h
  intro a b hab e
  subst e
  rw [Entry.lt_irrefl] at hab
  exact Bool.noConfusion hab

/-- **a good log lists each of its entries once** -/
theorem values_length {U : List Entry} (hU : HashDet U) (hT : TieFree U) (hM : ClockMono U) (L : Log)
    (hI : Inv U L) (hnd : L.entries.Nodup) : (values L).length = L.entries.length := by
  obtain ⟨hs, hm⟩ := values_sorted hU hT hM L hI hnd
  exact ((List.perm_ext_iff_of_nodup (nodup_of_sorted hs) hnd).mpr hm).length_eq

theorem trim_eq (L : Log) (size : Nat) :
    trim L size = if size > (values L).length then .error .panic else
      .ok { L with entries := ofList ((values L).drop ((values L).length - size)),
                   heads := ofList (findHeads (ofList ((values L).drop ((values L).length - size)))) } := rfl

/-- 2a. **the trim panics exactly when asked for more than there is** -/
theorem trim_no_panic (L : Log) (size : Nat) :
    trim L size = .error .panic ↔ size > (values L).length := by
  rw [trim_eq]
  by_cases h : size > (values L).length
  · simp [h]
  · rw [if_neg h]
    constructor
    · intro hc; cases hc
    · intro hc; exact absurd hc h

/-- any error of the trim is the panic -/
theorem trim_error {L : Log} {size : Nat} {e : Err} (h : trim L size = .error e) :
    e = .panic ∧ size > (values L).length := by
  rw [trim_eq] at h
  by_cases hs : size > (values L).length
  · rw [if_pos hs] at h; injection h with h; exact ⟨h.symm, hs⟩
  · rw [if_neg hs] at h; cases h

/-- 2b. **the trimmed log lists the last `size` values of the original, in the same order** -/
theorem trim_values_inv {U : List Entry} (hU : HashDet U) (hT : TieFree U) (hM : ClockMono U)
    {L L' : Log} (hI : Inv U L) (hnd : L.entries.Nodup) {size : Nat} (h : trim L size = .ok L') :
    size ≤ (values L).length ∧ values L' = (values L).drop ((values L).length - size) ∧
    (∀ e, e ∈ L'.entries ↔ e ∈ (values L).drop ((values L).length - size)) ∧
    L'.entries.Nodup ∧ L'.id = L.id := by
  rw [trim_eq] at h
  by_cases hs : size > (values L).length
  · rw [if_pos hs] at h; cases h
  rw [if_neg hs] at h
  injection h with h
  obtain ⟨hsort, hmem⟩ := values_sorted hU hT hM L hI hnd
  generalize hK : (values L).drop ((values L).length - size) = K at h
  have hKsub : ∀ e ∈ K, e ∈ values L := fun e he => List.mem_of_mem_drop (hK ▸ he)
  have hKU : ∀ e ∈ K, e ∈ U := fun e he => hI.sub e ((hmem e).mp (hKsub e he))
  have hKsort : K.Pairwise (fun a b => Entry.lt a b = true) := by
    rw [← hK]; exact hsort.sublist (List.drop_sublist _ _)
  -- the trimmed log with its index rebuilt: same listing, full invariant
  let L2 : Log := { id := L.id, entries := ofList K, heads := ofList (findHeads (ofList K)),
                    nextIdx := nexts (ofList K), clock := L.clock }
  have hI2 : Inv U L2 := inv_of_findHeads hU L.id K L.clock hKU
  have hnd2 : L2.entries.Nodup := ofList_nodup K
  have hv : values L' = values L2 := by subst h; exact values_congr rfl rfl
  obtain ⟨hs2, hm2⟩ := values_sorted hU hT hM L2 hI2 hnd2
  have hmK : ∀ e, e ∈ ofList K ↔ e ∈ K := mem_ofList hU hKU
  refine ⟨Nat.le_of_not_gt hs, ?_, ?_, ?_, ?_⟩
  · rw [hv]
    exact sorted_lt_unique hs2 hKsort (fun x => by rw [hm2]; exact hmK x)
  · subst h; exact hmK
  · subst h; exact ofList_nodup K
  · subst h; rfl

/-- 2b for the logs of `LogReach` -/
theorem trim_values {U : List Entry} (hU : HashDet U) (hT : TieFree U) (hM : ClockMono U) {L L' : Log}
    (hG : Good U L) {size : Nat} (h : trim L size = .ok L') :
    size ≤ (values L).length ∧ values L' = (values L).drop ((values L).length - size) :=
  let r := trim_values_inv hU hT hM hG.inv hG.nodup h
  ⟨r.1, r.2.1⟩

/-- and it does trim whenever it can -/
theorem trim_ok {L : Log} {size : Nat} (h : size ≤ (values L).length) : ∃ L', trim L size = .ok L' := by
  rw [trim_eq, if_neg (by omega)]; exact ⟨_, rfl⟩

end Orbit
