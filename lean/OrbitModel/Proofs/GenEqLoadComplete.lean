import OrbitModel.Generated.GenLoadComplete
import OrbitModel.Model.Order
/-!
# Regenerated Go fragment = hand-written model (tie 2); one small module per fragment, so that a
change to one Go function only stops the theorems tied to it
-/
namespace Orbit

theorem gen_loadComplete_order : Gen.loadCompleteOrder = Order.loadComplete := by decide

end Orbit
