import OrbitModel.Proofs.JoinClosed
import OrbitModel.Proofs.JoinSingle
/-!
# `difference` takes the whole incoming log when it is fresh and covered by its heads   (C13)

`join_all_in` (JoinClosed) needs `ParentsIn` (no dangling link in the incoming log), which a general
`Good` log does not give. Here the incoming log is entirely *fresh* (none of its hashes is held) and
carries our log id: then every entry reachable from the incoming heads inside the incoming log is a
new item, dangling links or not. Also: `ofList` (`NewOrderedMapFromEntries`) keeps the members.
-/
namespace Orbit

/-- `ofList` is a `merge` into the empty map -/
theorem ofList_eq_merge (l : List Entry) : ofList l = merge [] l := rfl

theorem mem_ofList {U : List Entry} (hU : HashDet U) {l : List Entry} (hl : ∀ e ∈ l, e ∈ U)
    (x : Entry) : x ∈ ofList l ↔ x ∈ l := by
  rw [ofList_eq_merge, mem_merge_iff hU [] l (fun e he => by cases he) hl x]
  simp

theorem ofList_nodup (l : List Entry) : (ofList l).Nodup := by
  rw [ofList_eq_merge]
  exact nodup_merge l List.nodup_nil

/-- members of `ofList l` are members of `l` (no hypothesis) -/
theorem mem_of_mem_ofList {l : List Entry} {x : Entry} (hx : x ∈ ofList l) : x ∈ l := by
  rw [ofList_eq_merge] at hx
  rcases mem_merge [] l x hx with h | h
  · cases h
  · exact h

/-- inside a fresh incoming log of our id, being a new item propagates along `next` links -/
theorem difference_desc {U : List Entry} (hU : HashDet U) (L : Log) (A headsA : OMap)
    (hAU : ∀ e ∈ A, e ∈ U) (hid : ∀ e ∈ A, e.logId = L.id)
    (hfresh : ∀ e ∈ A, has L.entries e.hash = false) {a b : Nat} (d : Desc (asLog A) a b) :
    (∃ y ∈ difference A headsA L, y.hash = a) → ∃ y ∈ difference A headsA L, y.hash = b := by
  induction d with
  | refl _ => exact id
  | @step p c x hp hc hn _ ih =>
    rintro ⟨y, hy, hyh⟩
    apply ih
    have hp' : p ∈ A := hp
    have hc' : c ∈ A := hc
    have hyA : y ∈ A := (difference_item A headsA L y hy).1
    have hyp : y = p := hU y (hAU y hyA) p (hAU p hp') hyh
    subst hyp
    rcases difference_closed A headsA L y hy c.hash hn with h | h
    · rw [hfresh c hc'] at h; cases h
    · exact h ⟨c, get_of_mem hU hAU hc', hfresh c hc', hid c hc'⟩

/-- **every entry of a fresh incoming log covered by its heads is a new item of `difference`** -/
theorem difference_all {U : List Entry} (hU : HashDet U) (L : Log) (A headsA : OMap)
    (hA : Honest U A headsA) (hLU : ∀ e ∈ L.entries, e ∈ U) (hid : ∀ e ∈ A, e.logId = L.id)
    (hfresh : ∀ e ∈ A, has L.entries e.hash = false)
    (hcov : CoveredBy (asLog A) (headsA.map (·.hash))) :
    ∀ e ∈ A, e ∈ difference A headsA L := by
  intro e he
  obtain ⟨h, hh, d⟩ := hcov e he
  obtain ⟨x, hx, rfl⟩ := List.mem_map.mp hh
  have hxD : x ∈ difference A headsA L := by
    rcases heads_complete hU L A headsA hA hLU hid x hx with h | h
    · have := (has_false_iff _ _).mp (hfresh x (hA.hsub x hx)) x h
      exact absurd rfl this
    · exact h
  obtain ⟨y, hy, hye⟩ := difference_desc hU L A headsA hA.sub hid hfresh d ⟨x, hxD, rfl⟩
  have hyA : y ∈ A := (difference_item A headsA L y hy).1
  exact (hU y (hA.sub y hyA) e (hA.sub e he) hye) ▸ hy

/-- joining a fresh, covered, acceptable log of our id into `L`: afterwards the entries are exactly
the old ones plus the whole incoming log -/
theorem join_fresh_entries {U : List Entry} (hU : HashDet U) {canAppend : Entry → Bool} {L L' : Log}
    {A headsA : OMap} (hI : Inv U L) (hA : Honest U A headsA) (hid : ∀ e ∈ A, e.logId = L.id)
    (hfresh : ∀ e ∈ A, has L.entries e.hash = false)
    (hcov : CoveredBy (asLog A) (headsA.map (·.hash)))
    (hj : join canAppend L A headsA L.id = .ok L') :
    ∀ e, e ∈ L'.entries ↔ e ∈ L.entries ∨ e ∈ A := by
  intro e
  rw [join_entries hU hI hA rfl hj e]
  constructor
  · rintro (h | h)
    · exact Or.inl h
    · exact Or.inr (difference_item A headsA L e h).1
  · rintro (h | h)
    · exact Or.inl h
    · exact Or.inr (difference_all hU L A headsA hA hI.sub hid hfresh hcov e h)

end Orbit
