import OrbitModel.Proofs.TravInv
/-!
# `traverse` lists exactly the entry set, strictly descending
-/
set_option linter.unusedSectionVars false
namespace Trav
variable {α : Type} [DecidableEq α]
variable {lt : α → α → Bool} {children : α → List α} {S roots : List α}

theorem init_inv (hS : ShapeOn lt children S roots) :
    Inv lt children S roots { stack := sortDesc lt roots, seen := [], out := [] } := by
  constructor
  · exact desc_sortDesc hS.ord _ hS.rootsIn hS.rnodup
  · intro x hx; simp only at hx; rw [mem_sortDesc] at hx; exact ⟨hS.rootsIn x hx, by simp⟩
  · simp [Desc]
  · intro x hx; simp at hx
  · intro o ho; simp at ho
  · intro r hr; left; simp only; rw [mem_sortDesc]; exact hr
  · intro p hp; simp at hp
  · intro x hx; simp at hx
  · intro x hx; simp only at hx; rw [mem_sortDesc] at hx; exact Or.inl hx
  · intro x hx; simp at hx

theorem step_empty {s : St α} (h : s.stack = []) : step lt children s = s := by
  unfold step; rw [h]

/-- after n steps: invariant holds and either the stack emptied or exactly n more outputs -/
theorem run_inv (hS : ShapeOn lt children S roots) : ∀ (n : Nat) (s : St α),
    Inv lt children S roots s →
    Inv lt children S roots (run lt children n s) ∧
    ((run lt children n s).stack = [] ∨ (run lt children n s).out.length = s.out.length + n) := by
  intro n
  induction n with
  | zero => intro s hI; exact ⟨hI, Or.inr rfl⟩
  | succ n ih =>
    intro s hI
    show Inv lt children S roots (run lt children n (step lt children s)) ∧ _
    cases hst : s.stack with
    | nil =>
      have : step lt children s = s := step_empty hst
      rw [this]
      obtain ⟨h1, h2⟩ := ih s hI
      refine ⟨h1, ?_⟩
      show (run lt children n (step lt children s)).stack = [] ∨ _
      rw [this]
      rcases h2 with h2 | h2
      · exact Or.inl h2
      · -- stack stays empty
        left
        clear h2
        have : ∀ m, (run lt children m s) = s := by
          intro m; induction m with
          | zero => rfl
          | succ m ihm => show run lt children m (step lt children s) = s; rw [step_empty hst]; exact ihm
        rw [this]; exact hst
    | cons e rest =>
      obtain ⟨hI', hout⟩ := step_inv hS hI hst
      obtain ⟨h1, h2⟩ := ih _ hI'
      refine ⟨h1, ?_⟩
      show (run lt children n (step lt children s)).stack = [] ∨
        (run lt children n (step lt children s)).out.length = s.out.length + (n + 1)
      rcases h2 with h2 | h2
      · exact Or.inl h2
      · right; rw [h2, hout]; simp; omega

/-- With enough fuel the traversal lists exactly `S`, strictly descending (order total on `S`). -/
theorem traverse_sorted_on (hS : ShapeOn lt children S roots) (fuel : Nat) (hf : S.length ≤ fuel) :
    Desc lt (traverse lt children roots fuel) ∧ ∀ x, x ∈ traverse lt children roots fuel ↔ x ∈ S := by
  unfold traverse
  obtain ⟨hI, hlen⟩ := run_inv hS fuel _ (init_inv hS)
  generalize run lt children fuel { stack := sortDesc lt roots, seen := [], out := [] } = s at hI hlen
  refine ⟨hI.odesc, fun x => ⟨hI.oIn x, fun hx => ?_⟩⟩
  have hempty : s.stack = [] := by
    rcases hlen with h | h
    · exact h
    · simp at h
      -- out is nodup, ⊆ S, length ≥ |S| → covers S → stack (⊆ S \ out) is empty
      cases hst : s.stack with
      | nil => rfl
      | cons e rest =>
        exfalso
        have he := hI.sIn e (by rw [hst]; exact List.mem_cons_self)
        have hnd : (e :: s.out).Nodup :=
          List.nodup_cons.mpr ⟨he.2, desc_nodup hS.ord.irrefl hI.odesc⟩
        have hsub : (e :: s.out) ⊆ S := by
          intro y hy
          rcases List.mem_cons.mp hy with rfl | hy
          · exact he.1
          · exact hI.oIn y hy
        have := List.Nodup.length_le_of_subset hnd hsub
        simp at this; omega
  apply Classical.byContradiction
  intro hxo
  obtain ⟨t, ht, _⟩ := bounded hS hI _ x hx hxo (Nat.le_refl _)
  rw [hempty] at ht; simp at ht

/-- **Main traversal theorem** (statement of the spike: globally total order). -/
theorem traverse_sorted (hS : Shape lt children S roots) (fuel : Nat) (hf : S.length ≤ fuel) :
    Desc lt (traverse lt children roots fuel) ∧ ∀ x, x ∈ traverse lt children roots fuel ↔ x ∈ S :=
  traverse_sorted_on hS.on fuel hf

end Trav
