import OrbitModel.Proofs.EmitterStop
/-!
# C16, eventual delivery: a fair scheduler and a reading subscriber empty the pipeline

`settleRound = [g1, g2, g2, recv]`; `settle n` repeats it `n` times. From every reachable alive state
of the repaired code with capacity ≥ 1, `settle n` with `n ≥ 6 * |pipeline| + 2` delivers everything
(`settle_drains`).

Capacity 0 is excluded here — and only here: the model treats a channel send as "append if
`length < cap`", so an unbuffered channel (a rendezvous between G2's blocking send and the receiver)
never accepts anything. All safety theorems (`EmitterFifo`, `EmitterStop`) hold for capacity 0 too.

The proof is a potential argument: every quiet step (g1/g2/recv) either leaves the state unchanged or
strictly lowers `potential`, and if all of g1, g2, recv leave an alive state unchanged its pipeline is
empty.
-/
namespace Orbit.Emit

def settleRound : List Act := [.g1, .g2, .g2, .recv]
def settle (n : Nat) : List Act := (List.replicate n settleRound).flatten

/-- actions of the scheduler and the subscriber (no new events, no cancellation) -/
def Act.quiet : Act → Bool
  | .g1 | .g2 | .recv => true
  | _ => false

/-- control-state part: a woken G2 (`top`) still has to look at the queue, a `checked` one still has
to enter `Wait()`, a sending one to finish its send and come back -/
def g2pot : G2 → Nat
  | .top => 2 | .checked => 1 | .waiting => 0 | .sending _ => 4 | .exited => 0

/-- each event weighs more the further it is from the subscriber -/
def potential (s : St) : Nat :=
  s.chan.length + 3 * s.queue.length + 6 * s.bus.length + g2pot s.g2

theorem potential_le (s : St) : potential s ≤ 6 * (pipeline s).length + 2 := by
  unfold potential pipeline
  cases s.g2 <;> simp only [g2pot, List.length_append, List.length_cons, List.length_nil] <;> omega

theorem pipeline_nil_of_potential_zero {s : St} (h : potential s = 0) : pipeline s = [] := by
  unfold potential at h
  have h1 : s.chan = [] := List.eq_nil_of_length_eq_zero (by omega)
  have h2 : s.queue = [] := List.eq_nil_of_length_eq_zero (by omega)
  have h3 : s.bus = [] := List.eq_nil_of_length_eq_zero (by omega)
  have h4 : g2pot s.g2 = 0 := by omega
  unfold pipeline
  cases hg : s.g2 <;> simp_all [g2pot]

/-- alive, reachable-shaped, buffered -/
structure Good (s : St) : Prop where
  alive : s.cancelled = false
  ctl   : Ctl s
  cap   : 0 < s.cap

theorem quiet_cancelled (s : St) (a : Act) (ha : a.quiet = true) :
    (step false s a).cancelled = s.cancelled ∧ (step false s a).cap = s.cap ∧
    (step false s a).emitted = s.emitted := by
  cases a with
  | emit e => cases ha
  | cancel => cases ha
  | recv => simp only [step]; split <;> simp
  | g1 => simp only [step]; (repeat' split) <;> simp
  | g2 => simp only [step]; (repeat' split) <;> simp

theorem good_step (s : St) (a : Act) (ha : a.quiet = true) (h : Good s) : Good (step false s a) := by
  obtain ⟨h1, h2, h3⟩ := quiet_cancelled s a ha
  exact ⟨h1 ▸ h.alive, ctl_step false s a h.ctl, h2 ▸ h.cap⟩

/-- when does a quiet action do nothing? -/
def Idle (s : St) : Act → Prop
  | .g1 => s.bus = [] ∨ s.g2 = .checked
  | .g2 => s.g2 = .waiting ∨ ∃ e, s.g2 = .sending e ∧ s.cap ≤ s.chan.length
  | .recv => s.chan = []
  | _ => True

/-- every quiet step makes progress or is a no-op for one of the listed reasons -/
theorem step_progress (s : St) (a : Act) (ha : a.quiet = true) (h : Good s) :
    potential (step false s a) < potential s ∨ (step false s a = s ∧ Idle s a) := by
  obtain ⟨hal, hctl, _⟩ := h
  have hd : s.g1done = false := by
    cases hd : s.g1done with
    | false => rfl
    | true => rw [hctl.g1done_canc hd] at hal; cases hal
  have hx : s.g2 ≠ .exited := fun hx => by rw [hctl.exited_canc hx] at hal; cases hal
  unfold potential
  cases a with
  | emit e => cases ha
  | cancel => cases ha
  | recv =>
    simp only [step, Idle]
    split
    · left; simp_all only [List.length_cons]; omega
    · right; simp_all
  | g1 =>
    simp only [step, Idle, hd, hal, Bool.false_eq_true, if_false]
    split
    · right; simp_all
    · rename_i e rest hb
      split
      · right; simp_all [g2HoldsLock]
      · split
        · left; simp only [hb, List.length_append, List.length_cons, List.length_nil]; omega
        · left
          simp only [hb, List.length_append, List.length_cons, List.length_nil]
          cases hg : s.g2 <;> simp [g2pot] <;> omega
  | g2 =>
    simp only [step, Idle, hal, Bool.false_eq_true, if_false]
    split
    · split
      · left; simp_all [g2pot]
      · left; simp_all [g2pot]; omega
    · left; simp_all [g2pot]
    · right; simp_all
    · split
      · left; simp_all [g2pot]; omega
      · right; simp_all
    · simp_all

theorem step_potential_le (s : St) (a : Act) (ha : a.quiet = true) (h : Good s) :
    potential (step false s a) ≤ potential s := by
  rcases step_progress s a ha h with h' | ⟨h', _⟩
  · exact Nat.le_of_lt h'
  · rw [h']; exact Nat.le_refl _

theorem run_potential_le (l : List Act) : ∀ s, (∀ a ∈ l, a.quiet = true) → Good s →
    Good (run false s l) ∧ potential (run false s l) ≤ potential s := by
  induction l with
  | nil => intro s _ h; exact ⟨h, Nat.le_refl _⟩
  | cons a l ih =>
    intro s hq h
    have ha := hq a (List.mem_cons_self ..)
    obtain ⟨i1, i2⟩ := ih _ (fun b hb => hq b (List.mem_cons_of_mem _ hb)) (good_step s a ha h)
    exact ⟨i1, Nat.le_trans i2 (step_potential_le s a ha h)⟩

/-- if all three kinds of quiet action are idle, nothing is pending -/
theorem pipeline_nil_of_idle {s : St} (h : Good s) (h1 : Idle s .g1) (h2 : Idle s .g2)
    (h3 : Idle s .recv) : pipeline s = [] := by
  have hcap := h.cap
  have hw := h.ctl.wait_empty
  simp only [Idle] at h1 h2 h3
  unfold pipeline
  rcases h2 with h2 | ⟨e, h2, h2'⟩
  · simp_all
  · rw [h3] at h2'; simp only [List.length_nil] at h2'; omega

theorem settleRound_progress (s : St) (h : Good s) (hne : pipeline s ≠ []) :
    potential (run false s settleRound) < potential s := by
  have q1 : ∀ a ∈ [Act.g2, .g2, .recv], a.quiet = true := by decide
  have q2 : ∀ a ∈ [Act.g2, .recv], a.quiet = true := by decide
  have q3 : ∀ a ∈ ([] : List Act), a.quiet = true := by decide
  simp only [settleRound, run_cons]
  rcases step_progress s .g1 rfl h with d | ⟨e1, i1⟩
  · exact Nat.lt_of_le_of_lt (run_potential_le _ _ q1 (good_step s .g1 rfl h)).2 d
  rw [e1]
  rcases step_progress s .g2 rfl h with d | ⟨e2, i2⟩
  · exact Nat.lt_of_le_of_lt (run_potential_le _ _ q2 (good_step s .g2 rfl h)).2 d
  rw [e2, e2]
  rcases step_progress s .recv rfl h with d | ⟨_, i3⟩
  · exact d
  · exact absurd (pipeline_nil_of_idle h i1 i2 i3) hne

/-- an empty pipeline stays empty under quiet actions -/
theorem pipeline_nil_step (s : St) (a : Act) (ha : a.quiet = true) (h : Good s)
    (hp : pipeline s = []) : pipeline (step false s a) = [] := by
  have hal := h.alive
  unfold pipeline at hp
  simp only [List.append_eq_nil_iff] at hp
  obtain ⟨⟨⟨hc, hg⟩, hq⟩, hb⟩ := hp
  unfold pipeline
  cases a with
  | emit e => cases ha
  | cancel => cases ha
  | recv => simp [step, *]
  | g1 => simp only [step]; (repeat' split) <;> simp_all
  | g2 => simp only [step]; (repeat' split) <;> simp_all

theorem settleRound_quiet : ∀ a ∈ settleRound, a.quiet = true := by decide

theorem settle_succ (n : Nat) : settle (n + 1) = settleRound ++ settle n := by
  simp [settle, List.replicate_succ]

theorem settle_quiet (n : Nat) : ∀ a ∈ settle n, a.quiet = true := by
  induction n with
  | zero => intro a ha; simp [settle] at ha
  | succ n ih =>
    intro a ha
    rw [settle_succ, List.mem_append] at ha
    exact ha.elim (settleRound_quiet a) (ih a)

theorem pipeline_nil_run (l : List Act) : ∀ s, (∀ a ∈ l, a.quiet = true) → Good s →
    pipeline s = [] → pipeline (run false s l) = [] := by
  induction l with
  | nil => intro s _ _ hp; exact hp
  | cons a l ih =>
    intro s hq h hp
    have ha := hq a (List.mem_cons_self ..)
    exact ih _ (fun b hb => hq b (List.mem_cons_of_mem _ hb)) (good_step s a ha h)
      (pipeline_nil_step s a ha h hp)

theorem settle_empties (n : Nat) : ∀ s, Good s → potential s ≤ n →
    pipeline (run false s (settle n)) = [] := by
  induction n with
  | zero =>
    intro s _ hn
    exact pipeline_nil_of_potential_zero (Nat.le_zero.mp hn)
  | succ n ih =>
    intro s h hn
    by_cases hp : pipeline s = []
    · exact pipeline_nil_run _ s (settle_quiet _) h hp
    · rw [settle_succ, run_append]
      have hlt := settleRound_progress s h hp
      exact ih _ (run_potential_le _ s settleRound_quiet h).1 (by omega)

theorem run_quiet_emitted (l : List Act) : ∀ s, (∀ a ∈ l, a.quiet = true) →
    (run false s l).emitted = s.emitted ∧ (run false s l).cap = s.cap := by
  induction l with
  | nil => intro s _; exact ⟨rfl, rfl⟩
  | cons a l ih =>
    intro s hq
    have ha := hq a (List.mem_cons_self ..)
    obtain ⟨i1, i2⟩ := ih (step false s a) (fun b hb => hq b (List.mem_cons_of_mem _ hb))
    obtain ⟨_, h2, h3⟩ := quiet_cancelled s a ha
    exact ⟨by rw [run_cons, i1, h3], by rw [run_cons, i2, h2]⟩

theorem run_cap (p : Bool) (l : List Act) : ∀ s, (run p s l).cap = s.cap := by
  induction l with
  | nil => intro s; rfl
  | cons a l ih =>
    intro s
    rw [run_cons, ih]
    cases a <;> simp only [step] <;> (repeat' split) <;> rfl

/-- model sanity (both versions): the channel never holds more than its capacity -/
theorem chan_le_cap (p : Bool) (cap : Nat) (acts : List Act) :
    (run p (init cap) acts).chan.length ≤ cap := by
  have h := run_inv (P := fun s => s.chan.length ≤ s.cap) (p := p) (fun s a h => by
    cases a <;> simp only [step] <;> (repeat' split) <;>
      simp_all [List.length_append] <;> omega) acts (init cap) (Nat.zero_le _)
  rwa [run_cap] at h

/-- **C16, eventual delivery (repaired code, capacity ≥ 1).** From every reachable state with a live
context, however much is pending and wherever it sits, `settle n` — G1, G2, G2, receive, repeated —
with `n ≥ 6 * |pipeline| + 2` leaves nothing pending: the subscriber has received exactly the emitted
sequence. -/
theorem settle_drains (cap : Nat) (hcap : 0 < cap) (acts : List Act) (n : Nat) :
    let s := run false (init cap) acts
    s.cancelled = false → 6 * (pipeline s).length + 2 ≤ n →
    let t := run false s (settle n)
    t.cancelled = false ∧ pipeline t = [] ∧ t.delivered = s.emitted := by
  intro s hal hn t
  have hg : Good s := ⟨hal, ctl_run false cap acts, by
    show 0 < (run false (init cap) acts).cap
    rw [run_cap]; exact hcap⟩
  have hgt := (run_potential_le _ s (settle_quiet n) hg).1
  have hp : pipeline t = [] := settle_empties n s hg (Nat.le_trans (potential_le s) hn)
  refine ⟨hgt.alive, hp, ?_⟩
  have ht : t = run false (init cap) (acts ++ settle n) := by rw [run_append]
  have hnl := no_loss_while_alive cap (acts ++ settle n)
  simp only at hnl
  rw [← ht] at hnl
  rw [hnl hgt.alive hp]
  exact (run_quiet_emitted _ s (settle_quiet n)).1

set_option maxRecDepth 8192 in
/-- non-vacuity: capacity 1, four events spread over channel, in-flight slot, queue and bus -/
example : let s := run false (init 1) [.emit 1, .emit 2, .emit 3, .emit 4, .g1, .g1, .g2, .g1]
    pipeline s = [1, 2, 3, 4] ∧ (run false s (settle 3)).delivered = [1, 2, 3] ∧
    (run false s (settle 26)).delivered = [1, 2, 3, 4] := by decide

/-- capacity 0 really is stuck in this model (why `0 < cap` is assumed above) -/
example : ∀ n ∈ [0, 1, 5, 20],
    (run false (run false (init 0) [.emit 1]) (settle n)).delivered = [] := by decide

end Orbit.Emit
