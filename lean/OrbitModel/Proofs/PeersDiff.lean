import OrbitModel.Model.Codec
/-!
# pubsub adapters: membership diff, self filter, pairwise channel id   (C20)
-/
namespace Orbit.Codec

/-! ## list helpers (core has `mem_eraseDups` but no `Nodup` lemma for it) -/

private theorem nodup_eraseDups_aux {α : Type} [BEq α] [LawfulBEq α] :
    ∀ (n : Nat) (l : List α), l.length ≤ n → l.eraseDups.Nodup
  | _, [], _ => by simp
  | 0, a :: as, h => by simp at h
  | n + 1, a :: as, h => by
    rw [List.eraseDups_cons, List.nodup_cons]
    refine ⟨?_, nodup_eraseDups_aux n _ ?_⟩
    · simp [List.mem_eraseDups, List.mem_filter]
    · have := List.length_filter_le (fun b => !b == a) as
      simp only [List.length_cons] at h
      omega

theorem nodup_eraseDups {α : Type} [BEq α] [LawfulBEq α] (l : List α) : l.eraseDups.Nodup :=
  nodup_eraseDups_aux l.length l (Nat.le_refl _)

theorem nodup_filter {α : Type} (p : α → Bool) {l : List α} (h : l.Nodup) : (l.filter p).Nodup :=
  List.Nodup.sublist List.filter_sublist h

/-! ## A1. `peersDiff` -/

theorem mem_joining (old all : List Nat) (x : Nat) :
    x ∈ (peersDiff old all).1 ↔ x ∈ all ∧ x ∉ old := by
  simp [peersDiff, List.mem_filter]

theorem mem_leaving (old all : List Nat) (x : Nat) :
    x ∈ (peersDiff old all).2.1 ↔ x ∈ old ∧ x ∉ all := by
  simp [peersDiff, List.mem_filter, List.mem_eraseDups]

theorem leaving_nodup (old all : List Nat) : (peersDiff old all).2.1.Nodup :=
  nodup_filter _ (nodup_eraseDups old)

theorem joining_nodup (old all : List Nat) (h : all.Nodup) : (peersDiff old all).1.Nodup :=
  nodup_filter _ h

/-- **A1.** one poll: joining = in the snapshot and not recorded; leaving = recorded and not in the
snapshot (each once, whatever the map iteration order); the snapshot becomes the record. -/
theorem peersDiff_spec (old all : List Nat) :
    (∀ x, x ∈ (peersDiff old all).1 ↔ x ∈ all ∧ x ∉ old) ∧
    (∀ x, x ∈ (peersDiff old all).2.1 ↔ x ∈ old ∧ x ∉ all) ∧
    (peersDiff old all).2.2 = all ∧
    (peersDiff old all).2.1.Nodup ∧
    (all.Nodup → (peersDiff old all).1.Nodup) :=
  ⟨mem_joining old all, mem_leaving old all, rfl, leaving_nodup old all, joining_nodup old all⟩

/-- nobody is reported both joining and leaving in one poll -/
theorem joining_leaving_disjoint (old all : List Nat) (x : Nat) :
    ¬ (x ∈ (peersDiff old all).1 ∧ x ∈ (peersDiff old all).2.1) := by
  rw [mem_joining, mem_leaving]; intro h; exact h.1.2 h.2.1

/-! ## A2. replaying the events reproduces the membership -/

theorem mem_foldl_join (js m : List Nat) (x : Nat) :
    x ∈ (js.map PeerEv.join).foldl applyEv m ↔ x ∈ m ∨ x ∈ js := by
  induction js generalizing m with
  | nil => simp
  | cons j js ih =>
    simp only [List.map_cons, List.foldl_cons, ih, applyEv, List.mem_cons]
    by_cases hj : m.contains j = true
    · have : j ∈ m := by simpa using hj
      simp only [hj, if_true]
      constructor
      · rintro (h | h)
        · exact .inl h
        · exact .inr (.inr h)
      · rintro (h | h | h)
        · exact .inl h
        · exact .inl (h ▸ this)
        · exact .inr h
    · simp only [hj, if_false, List.mem_append, List.mem_singleton, Bool.false_eq_true]
      constructor
      · rintro ((h | h) | h)
        · exact .inl h
        · exact .inr (.inl h)
        · exact .inr (.inr h)
      · rintro (h | h | h)
        · exact .inl (.inl h)
        · exact .inl (.inr h)
        · exact .inr h

theorem mem_foldl_leave (ls m : List Nat) (x : Nat) :
    x ∈ (ls.map PeerEv.leave).foldl applyEv m ↔ x ∈ m ∧ x ∉ ls := by
  induction ls generalizing m with
  | nil => simp
  | cons l ls ih =>
    simp only [List.map_cons, List.foldl_cons, ih, applyEv, List.mem_cons, List.mem_filter, bne_iff_ne,
      ne_eq, not_or]
    constructor
    · rintro ⟨⟨h1, h2⟩, h3⟩; exact ⟨h1, h2, h3⟩
    · rintro ⟨h1, h2, h3⟩; exact ⟨⟨h1, h2⟩, h3⟩

theorem applyEv_nodup (m : List Nat) (e : PeerEv) (h : m.Nodup) : (applyEv m e).Nodup := by
  cases e with
  | join p =>
    show (if m.contains p then m else m ++ [p]).Nodup
    by_cases hc : m.contains p = true
    · rw [if_pos hc]; exact h
    · have hp : p ∉ m := by simpa using hc
      rw [if_neg hc, List.nodup_append]
      refine ⟨h, by simp, ?_⟩
      intro a ha b hb
      simp only [List.mem_singleton] at hb
      subst hb
      intro hab; subst hab; exact hp ha
  | leave p => exact nodup_filter _ h

theorem foldl_applyEv_nodup (evs : List PeerEv) (m : List Nat) (h : m.Nodup) :
    (evs.foldl applyEv m).Nodup := by
  induction evs generalizing m with
  | nil => exact h
  | cons e evs ih => exact ih _ (applyEv_nodup m e h)

/-- after the events of one poll the replayed set has the members of the snapshot -/
theorem mem_replay_poll (old all m : List Nat) (hm : ∀ x, x ∈ m ↔ x ∈ old) (x : Nat) :
    x ∈ ((peersDiff old all).2.1.map PeerEv.leave).foldl applyEv
          (((peersDiff old all).1.map PeerEv.join).foldl applyEv m) ↔ x ∈ all := by
  rw [mem_foldl_leave, mem_foldl_join, mem_joining, mem_leaving, hm]
  by_cases h1 : x ∈ old <;> by_cases h2 : x ∈ all <;> simp [h1, h2]

/-- **A2** (general start): a subscriber that starts from any list with the members of `old` and
applies the reported events ends with the members of the last snapshot -/
theorem membership_replay_from (snaps : List (List Nat)) :
    ∀ (old m : List Nat), (∀ x, x ∈ m ↔ x ∈ old) →
      ∀ x, x ∈ (watchPeers old snaps).foldl applyEv m ↔ x ∈ snaps.getLastD old := by
  induction snaps with
  | nil => intro old m hm x; simpa [watchPeers] using hm x
  | cons s rest ih =>
    intro old m hm x
    simp only [watchPeers, List.foldl_append, List.getLastD_cons]
    exact ih s _ (mem_replay_poll old s m hm) x

/-- **A2.** folding the events `WatchPeers` reports (starting with no members) gives the members of
the last snapshot. (Holds for arbitrary snapshots; duplicate-freeness is not needed for membership.) -/
theorem membership_replay (snaps : List (List Nat)) :
    ∀ x, x ∈ (watchPeers [] snaps).foldl applyEv [] ↔ x ∈ snaps.getLastD [] :=
  membership_replay_from snaps [] [] (fun _ => Iff.rfl)

/-- the form asked for: duplicate-free snapshots, duplicate-free record, any starting list with the
members of the record -/
theorem membership_replay_nodup_from (snaps : List (List Nat)) (_hs : ∀ s ∈ snaps, s.Nodup)
    (old m : List Nat) (_ho : old.Nodup) (hm : ∀ x, x ∈ m ↔ x ∈ old) :
    ∀ x, x ∈ (watchPeers old snaps).foldl applyEv m ↔ x ∈ snaps.getLastD old :=
  membership_replay_from snaps old m hm

/-- the replayed membership never lists a peer twice -/
theorem membership_replay_nodup (snaps : List (List Nat)) :
    ((watchPeers [] snaps).foldl applyEv []).Nodup :=
  foldl_applyEv_nodup _ [] List.nodup_nil

/-- with a duplicate-free last snapshot the replayed membership is that snapshot up to order -/
theorem membership_replay_perm (snaps : List (List Nat)) (h : (snaps.getLastD []).Nodup) :
    ((watchPeers [] snaps).foldl applyEv []).Perm (snaps.getLastD []) := by
  rw [List.perm_iff_count]
  intro a
  rw [(membership_replay_nodup snaps).count, h.count]
  simp only [membership_replay snaps a]

/-! ## A3. every change is reported exactly once -/

theorem count_join_map_join (l : List Nat) (x : Nat) :
    (l.map PeerEv.join).count (.join x) = l.count x := by
  induction l with
  | nil => rfl
  | cons a l ih => simp [List.count_cons, ih]

theorem count_leave_map_leave (l : List Nat) (x : Nat) :
    (l.map PeerEv.leave).count (.leave x) = l.count x := by
  induction l with
  | nil => rfl
  | cons a l ih => simp [List.count_cons, ih]

theorem count_leave_map_join (l : List Nat) (x : Nat) : (l.map PeerEv.join).count (.leave x) = 0 := by
  induction l with
  | nil => rfl
  | cons a l ih => simp [ih]

theorem count_join_map_leave (l : List Nat) (x : Nat) : (l.map PeerEv.leave).count (.join x) = 0 := by
  induction l with
  | nil => rfl
  | cons a l ih => simp [ih]

theorem count_of_nodup {l : List Nat} (h : l.Nodup) (x : Nat) (P : Prop) [Decidable P]
    (hx : x ∈ l ↔ P) : l.count x = if P then 1 else 0 := by
  rw [h.count]; simp only [hx]

/-- number of `join x` events in one poll -/
theorem count_join_poll (a b : List Nat) (hb : b.Nodup) (x : Nat) :
    (watchPeers a [b]).count (.join x) = if x ∈ b ∧ x ∉ a then 1 else 0 := by
  simp only [watchPeers, List.append_nil, List.count_append, count_join_map_join, count_join_map_leave,
    Nat.add_zero]
  exact count_of_nodup (joining_nodup a b hb) x _ (mem_joining a b x)

/-- number of `leave x` events in one poll (no assumption: the record is a Go map) -/
theorem count_leave_poll (a b : List Nat) (x : Nat) :
    (watchPeers a [b]).count (.leave x) = if x ∈ a ∧ x ∉ b then 1 else 0 := by
  simp only [watchPeers, List.append_nil, List.count_append, count_leave_map_leave, count_leave_map_join,
    Nat.zero_add]
  exact count_of_nodup (leaving_nodup a b) x _ (mem_leaving a b x)

/-- **A3.** between two consecutive duplicate-free snapshots `a`, `b`: a newcomer gets exactly one
`join` and no `leave`; a peer that went away exactly one `leave` and no `join`; a peer in both or in
neither no event at all. -/
theorem each_change_once (a b : List Nat) (_ha : a.Nodup) (hb : b.Nodup) (x : Nat) :
    (x ∈ b → x ∉ a → (watchPeers a [b]).count (.join x) = 1 ∧ (watchPeers a [b]).count (.leave x) = 0) ∧
    (x ∈ a → x ∉ b → (watchPeers a [b]).count (.leave x) = 1 ∧ (watchPeers a [b]).count (.join x) = 0) ∧
    ((x ∈ a ↔ x ∈ b) → (watchPeers a [b]).count (.join x) = 0 ∧ (watchPeers a [b]).count (.leave x) = 0) := by
  rw [count_join_poll a b hb, count_leave_poll]
  refine ⟨fun h1 h2 => ?_, fun h1 h2 => ?_, fun h => ?_⟩
  · simp [h1, h2]
  · simp [h1, h2]
  · by_cases h1 : x ∈ a
    · simp [h1, h.1 h1]
    · have h2 : x ∉ b := fun hb' => h1 (h.2 hb')
      simp [h1, h2]

/-! ## A4. the self filter -/

/-- **A4.** what is delivered is exactly the payloads of the messages from other peers, in order -/
theorem filterSelf_spec (self : Nat) (msgs : List (Nat × List Nat)) :
    filterSelf self msgs = msgs.filterMap (fun m => if m.1 ≠ self then some m.2 else none) := by
  induction msgs with
  | nil => rfl
  | cons m ms ih =>
    unfold filterSelf at ih ⊢
    by_cases h : m.1 = self
    · simp [h, ih]
    · simp [h, ih]

theorem filterSelf_append (self : Nat) (xs ys : List (Nat × List Nat)) :
    filterSelf self (xs ++ ys) = filterSelf self xs ++ filterSelf self ys := by
  simp [filterSelf]

/-- a message of the local peer is not delivered, wherever it is in the stream -/
theorem filterSelf_drops_self (self : Nat) (pre post : List (Nat × List Nat)) (p : List Nat) :
    filterSelf self (pre ++ (self, p) :: post) = filterSelf self pre ++ filterSelf self post := by
  simp [filterSelf]

/-- a message of another peer is delivered exactly once, in its place -/
theorem filterSelf_keeps_remote (self s : Nat) (hs : s ≠ self) (pre post : List (Nat × List Nat))
    (p : List Nat) :
    filterSelf self (pre ++ (s, p) :: post) = filterSelf self pre ++ p :: filterSelf self post := by
  simp [filterSelf, hs]

theorem filterSelf_length (self : Nat) (msgs : List (Nat × List Nat)) :
    (filterSelf self msgs).length = msgs.countP (fun m => m.1 != self) := by
  simp [filterSelf, List.countP_eq_length_filter]

theorem mem_filterSelf (self : Nat) (msgs : List (Nat × List Nat)) (p : List Nat) :
    p ∈ filterSelf self msgs ↔ ∃ s, s ≠ self ∧ (s, p) ∈ msgs := by
  simp only [filterSelf, List.mem_map, List.mem_filter, bne_iff_ne, ne_eq]
  constructor
  · rintro ⟨⟨s, q⟩, ⟨hm, hs⟩, rfl⟩; exact ⟨s, hs, hm⟩
  · rintro ⟨s, hs, hm⟩; exact ⟨(s, p), ⟨hm, hs⟩, rfl⟩

/-- if the local peer is the only publisher nothing is delivered -/
theorem filterSelf_only_self (self : Nat) (msgs : List (Nat × List Nat)) (h : ∀ m ∈ msgs, m.1 = self) :
    filterSelf self msgs = [] := by
  simp only [filterSelf, List.map_eq_nil_iff, List.filter_eq_nil_iff, bne_iff_ne, ne_eq, Decidable.not_not]
  exact h

/-- if the local peer published nothing, everything is delivered -/
theorem filterSelf_no_self (self : Nat) (msgs : List (Nat × List Nat)) (h : ∀ m ∈ msgs, m.1 ≠ self) :
    filterSelf self msgs = msgs.map (·.2) := by
  unfold filterSelf
  rw [List.filter_eq_self.2]
  intro m hm
  simpa using h m hm

/-! ## A5. channel id -/

/-- **A5.** both ends of a pair compute the same channel name -/
theorem channelId_symm (a b : Nat) : channelId a b = channelId b a := by
  unfold channelId
  split <;> split <;> simp only [Prod.mk.injEq] <;> omega

/-- and different pairs get different names -/
theorem channelId_inj (a b c d : Nat) (h : channelId a b = channelId c d) :
    (a = c ∧ b = d) ∨ (a = d ∧ b = c) := by
  unfold channelId at h
  split at h <;> split at h <;> simp only [Prod.mk.injEq] at h <;> omega

theorem channelId_eq_iff (a b c d : Nat) :
    channelId a b = channelId c d ↔ (a = c ∧ b = d) ∨ (a = d ∧ b = c) := by
  constructor
  · exact channelId_inj a b c d
  · rintro (⟨rfl, rfl⟩ | ⟨rfl, rfl⟩)
    · rfl
    · exact channelId_symm _ _

/-! ## non-vacuity -/

example : peersDiff [1, 2, 3] [2, 3, 4] = ([4], [1], [2, 3, 4]) := by decide
example : watchPeers [] [[1, 2], [2, 3], []] =
    [.join 1, .join 2, .join 3, .leave 1, .leave 2, .leave 3] := by decide
example : (watchPeers [] [[1, 2], [2, 3]]).foldl applyEv [] = [2, 3] := by decide
example : (watchPeers [] [[1, 2], [2, 3], [3, 1]]).foldl applyEv [] = [3, 1] := by decide
example : (watchPeers [1, 2] [[2, 3]]).count (.join 3) = 1 := by decide
example : (watchPeers [1, 2] [[2, 3]]).count (.leave 1) = 1 := by decide
example : (watchPeers [1, 2] [[2, 3]]).count (.join 2) = 0 := by decide
example : filterSelf 1 [(1, [10]), (2, [20]), (1, [11]), (3, [30])] = [[20], [30]] := by decide
example : channelId 5 3 = (3, 5) ∧ channelId 3 5 = (3, 5) := by decide
example : channelId 3 5 ≠ channelId 3 6 := by decide

end Orbit.Codec
