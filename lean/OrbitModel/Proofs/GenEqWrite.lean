import OrbitModel.Generated.GenWrite
import OrbitModel.Model.Order
/-!
# Regenerated Go fragment = hand-written model (tie 2); one small module per fragment, so that a
change to one Go function only stops the theorems tied to it
-/
namespace Orbit

/-- the order of effects in the Go text of this run is the order the models assume -/
theorem gen_addOperation_order : Gen.addOperationOrder = Order.addOperation := by decide

theorem gen_updateIndex_order : Gen.kvIndexOrder = Order.updateIndex ∧ Gen.docIndexOrder = Order.updateIndex := by decide

end Orbit
