import OrbitModel.Proofs.LoadFresh
/-!
# `Load(n)` of a single-writer chain: the newest `min n T` entries, or everything   (C15)
-/
namespace Orbit

/-- a chain listed newest first: each entry links to the next one of the list only, which is older;
the last one links to nothing -/
def Linked : List Entry → Prop
  | [] => True
  | [a] => a.next = []
  | a :: b :: rest => a.next = [b.hash] ∧ b.time < a.time ∧ Linked (b :: rest)

/-- a single-writer chain `c₁ ← c₂ ← … ← c_T` of the log `id`, listed oldest first -/
structure IsChain (id : Nat) (c : List Entry) : Prop where
  linked : Linked c.reverse
  hashes : c.Pairwise (fun a b => a.hash ≠ b.hash)
  lid    : ∀ e ∈ c, e.logId = id
  /-- every entry sits at the address of its content (what an honest writer's `Append` produces) -/
  canon  : ∀ e ∈ c, e.hashOk = true

instance decLinked : (r : List Entry) → Decidable (Linked r)
  | [] => isTrue trivial
  | [a] => inferInstanceAs (Decidable (a.next = []))
  | a :: b :: rest =>
    have := decLinked (b :: rest)
    inferInstanceAs (Decidable (a.next = [b.hash] ∧ b.time < a.time ∧ Linked (b :: rest)))

theorem linked_tail {a : Entry} {r : List Entry} (h : Linked (a :: r)) : Linked r := by
  cases r with
  | nil => trivial
  | cons b rest => exact h.2.2

theorem linked_times : ∀ {r : List Entry}, Linked r → r.Pairwise (fun a b => b.time < a.time)
  | [], _ => List.Pairwise.nil
  | [_], _ => List.pairwise_singleton _ _
  | a :: b :: rest, h => by
    have ih := linked_times h.2.2
    refine List.pairwise_cons.mpr ⟨?_, ih⟩
    intro x hx
    rcases List.mem_cons.mp hx with rfl | hx
    · exact h.2.1
    · exact Nat.lt_trans ((List.pairwise_cons.mp ih).1 x hx) h.2.1

/-- every link of a member names the next entry of the list -/
theorem linked_next : ∀ {r : List Entry}, Linked r → ∀ p ∈ r, ∀ n ∈ p.next,
    ∃ x ∈ r, x.hash = n ∧ x.time < p.time
  | [], _, p, hp, _, _ => by cases hp
  | [a], h, p, hp, n, hn => by
    rw [List.mem_singleton] at hp; subst hp
    have : p.next = [] := h
    rw [this] at hn; cases hn
  | a :: b :: rest, h, p, hp, n, hn => by
    rcases List.mem_cons.mp hp with rfl | hp
    · rw [h.1, List.mem_singleton] at hn
      exact ⟨b, List.mem_cons_of_mem _ List.mem_cons_self, hn.symm, h.2.1⟩
    · obtain ⟨x, hx, h1, h2⟩ := linked_next h.2.2 p hp n hn
      exact ⟨x, List.mem_cons_of_mem _ hx, h1, h2⟩

/-- members of a list whose elements pairwise differ under `f` are determined by `f` -/
theorem inj_of_pairwise {f : Entry → Nat} : ∀ {c : List Entry}, c.Pairwise (fun a b => f a ≠ f b) →
    ∀ e ∈ c, ∀ e' ∈ c, f e = f e' → e = e'
  | [], _ => fun e he => by cases he
  | a :: l, h => by
    obtain ⟨h1, h2⟩ := List.pairwise_cons.mp h
    have ih := inj_of_pairwise h2
    intro e he e' he' hh
    rcases List.mem_cons.mp he with hea | hel
    · rcases List.mem_cons.mp he' with hea' | hel'
      · rw [hea, hea']
      · rw [hea] at hh; exact absurd hh (h1 e' hel')
    · rcases List.mem_cons.mp he' with hea' | hel'
      · rw [hea'] at hh; exact absurd hh.symm (h1 e hel)
      · exact ih e hel e' hel' hh

theorem hashDet_of_pairwise {c : List Entry} (h : c.Pairwise (fun a b => a.hash ≠ b.hash)) : HashDet c :=
  inj_of_pairwise (f := (·.hash)) h

section
variable {id : Nat} {c : List Entry} (hc : IsChain id c)
include hc

theorem IsChain.times : c.Pairwise (fun a b => a.time < b.time) :=
  List.pairwise_reverse.mp (linked_times hc.linked)

theorem IsChain.hashDet : HashDet c := hashDet_of_pairwise hc.hashes

theorem IsChain.sorted : c.Pairwise (fun a b => Entry.lt a b = true) :=
  hc.times.imp (fun h => (Entry.lt_iff _ _).mpr (Or.inl h))

theorem IsChain.tieFree : TieFree c :=
  fun a ha b hb ht _ =>
    inj_of_pairwise (f := (·.time)) (hc.times.imp (fun h => Nat.ne_of_lt h)) a ha b hb ht

theorem IsChain.clockMono : ClockMono c := by
  intro p hp x hx hn
  obtain ⟨y, hy, hyh, hyt⟩ := linked_next hc.linked p (List.mem_reverse.mpr hp) x.hash hn
  have : y = x := hc.hashDet y (List.mem_reverse.mp hy) x hx hyh
  subst this
  exact (Entry.lt_iff _ _).mpr (Or.inl hyt)

end

/-- `Load` with one cached head is `loadHead` on it -/
theorem load_single {acl : Acl} {s : Store} {fetch : Nat → OMap} {n : Int} {mh : Option Int} {hd : Nat}
    {L' : Log} (hl : s.localHeads = some [hd]) (hr : s.remoteHeads = none)
    (h : loadHead acl (goodFetch acl s.log.id fetch) (loadAmount n mh) s.log hd = .ok L') :
    ∃ s', Store.load acl s fetch n mh = .ok s' ∧ s'.log = L' := by
  unfold Store.load
  simp only [hl, hr, Option.getD_some, Option.getD_none, List.append_nil]
  unfold loadHeads loadHeadsWith
  simp only [h]
  unfold loadHeadsWith
  exact ⟨_, rfl, rfl⟩

/-- 4. **`Load(n)` of a chain from a fresh store.** `c` is the chain (oldest first), the store is
fresh with one cached head `hd` (in practice `c_T`), the bounded fetcher returns, as a set, the
suffix `c.drop j` of the chain, which contains at least the newest `min n T` entries when `n > 0`
(`j ≤ T - min n T`) and is the whole chain when `n ≤ 0` (`j = 0`). Then `Values()` is exactly
the newest `min n T` entries of the chain, oldest first — the whole chain when `n ≤ 0`. -/
theorem load_single_head_chain {id : Nat} {c : List Entry} (hc : IsChain id c) (acl : Acl)
    (hacc : ∀ e ∈ c, acceptable acl.canAppend e = true)
    (s : Store) (hd : Nat) (hlog : s.log = Log.empty id) (hl : s.localHeads = some [hd])
    (hr : s.remoteHeads = none) (fetch : Nat → OMap) (n : Int) (j : Nat)
    (hf : ∀ e, e ∈ fetch hd ↔ e ∈ c.drop j)
    (hj : if n ≤ 0 then j = 0 else j ≤ c.length - min n.toNat c.length) :
    ∃ s', Store.load acl s fetch n = .ok s' ∧
      values s'.log = if n ≤ 0 then c else c.drop (c.length - min n.toNat c.length) := by
  have hU := hc.hashDet
  have hT := hc.tieFree
  have hM := hc.clockMono
  -- every entry of the chain was written for this log and is acceptable: the filters of `Load` keep all of them
  have hf0 := hf
  have hf : ∀ e, e ∈ goodFetch acl id fetch hd ↔ e ∈ c.drop j := by
    intro e
    unfold goodFetch goodFetch1 ownFetch
    rw [List.mem_filter, List.mem_filter, List.mem_filter, hf0 e]
    constructor
    · exact fun h => h.1.1.1
    · intro h
      exact ⟨⟨⟨h, by simpa using hc.lid e (List.mem_of_mem_drop h)⟩, hacc e (List.mem_of_mem_drop h)⟩,
        hc.canon e (List.mem_of_mem_drop h)⟩
  have hsubc : ∀ e ∈ goodFetch acl id fetch hd, e ∈ c := fun e he => List.mem_of_mem_drop ((hf e).mp he)
  have hF : Fetched c (Log.empty id) (goodFetch acl id fetch hd) := ⟨hsubc, fun e he => hc.lid e (hsubc e he)⟩
  obtain ⟨L1, hI1, hnd1, hent, L', hload, _, hv⟩ :=
    loadHead_fresh hU hT hM acl (goodFetch acl id fetch) (loadAmount n none) id hd hF
      (fun e he => hacc e (hsubc e he))
  have hsid : s.log.id = id := by rw [hlog]; rfl
  obtain ⟨s', hs', hlog'⟩ := load_single (mh := none) (fetch := fetch) hl hr (by rw [hsid, hlog]; exact hload)
  refine ⟨s', hs', ?_⟩
  rw [hlog', hv]
  -- the merged log lists the fetched suffix of the chain
  have hV : values L1 = c.drop j := by
    obtain ⟨hs1, hm1⟩ := values_sorted hU hT hM L1 hI1 hnd1
    exact sorted_lt_unique hs1 (hc.sorted.sublist (List.drop_sublist _ _))
      (fun x => by rw [hm1, hent, hf])
  rw [hV, List.length_drop, List.drop_drop]
  by_cases hn : n ≤ 0
  · rw [if_pos hn] at hj ⊢
    have : loadAmount n none = -1 := (loadAmount_none n).mpr hn
    rw [this, if_neg (by omega), hj, List.drop_zero]
  · rw [if_neg hn] at hj ⊢
    have : loadAmount n none = n := by
      have := (loadAmount_spec n none).2
      unfold effAmount at this
      simp only [Option.getD_none, ite_self] at this
      exact this (by omega)
    rw [this]
    split
    · congr 1; omega
    · congr 1; omega

/-- the same when the fetcher returns exactly the newest `min n T` entries, newest first -/
theorem load_single_head_chain_exact {id : Nat} {c : List Entry} (hc : IsChain id c) (acl : Acl)
    (hacc : ∀ e ∈ c, acceptable acl.canAppend e = true) (hne : c ≠ [])
    (s : Store) (hlog : s.log = Log.empty id) (hl : s.localHeads = some [(c.getLast hne).hash])
    (hr : s.remoteHeads = none) (fetch : Nat → OMap) (n : Int) (hn : 0 < n)
    (hf : fetch (c.getLast hne).hash = (c.drop (c.length - min n.toNat c.length)).reverse) :
    ∃ s', Store.load acl s fetch n = .ok s' ∧
      values s'.log = c.drop (c.length - min n.toNat c.length) := by
  have := load_single_head_chain hc acl hacc s _ hlog hl hr fetch n
    (c.length - min n.toNat c.length) (fun e => by rw [hf, List.mem_reverse])
    (by rw [if_neg (by omega)]; exact Nat.le_refl _)
  rw [if_neg (by omega)] at this
  exact this

/-- and with no limit (`n ≤ 0`, no `maxHistory`) when the fetcher returns the whole chain -/
theorem load_single_head_chain_all {id : Nat} {c : List Entry} (hc : IsChain id c) (acl : Acl)
    (hacc : ∀ e ∈ c, acceptable acl.canAppend e = true)
    (s : Store) (hd : Nat) (hlog : s.log = Log.empty id) (hl : s.localHeads = some [hd])
    (hr : s.remoteHeads = none) (fetch : Nat → OMap) (n : Int) (hn : n ≤ 0)
    (hf : ∀ e, e ∈ fetch hd ↔ e ∈ c) :
    ∃ s', Store.load acl s fetch n = .ok s' ∧ values s'.log = c := by
  have := load_single_head_chain hc acl hacc s hd hlog hl hr fetch n 0
    (fun e => by rw [List.drop_zero]; exact hf e) (by rw [if_pos hn])
  rw [if_pos hn] at this
  exact this

end Orbit
