import OrbitModel.Generated.GenSnap
import OrbitModel.Model.Snapshot
import OrbitModel.Model.Order
/-!
# Regenerated Go fragment = hand-written model (tie 2); one small module per fragment, so that a
change to one Go function only stops the theorems tied to it
-/
namespace Orbit

/-- the size guards of `SaveSnapshot` in the Go text of this run are the model's `encodeRec` refusal -/
theorem gen_snapRefused (r : List Nat) :
    Gen.genSnapEntryRefused r.length = (Snap.encodeRec r).isNone ∧
    Gen.genSnapHeaderRefused r.length = (Snap.encodeRec r).isNone := by
  unfold Gen.genSnapEntryRefused Gen.genSnapHeaderRefused Snap.encodeRec Snap.maxRec
  by_cases h : r.length > 65535
  · have h' : (r.length : Int) > 65535 := by omega
    simp [h, h']
  · have h' : ¬ (r.length : Int) > 65535 := by omega
    simp [h, h']

theorem gen_saveSnapshot_order : Gen.saveSnapshotOrder = Order.saveSnapshot := by decide

theorem gen_loadSnapshot_order : Gen.loadSnapshotOrder = Order.loadSnapshot := by decide

end Orbit
