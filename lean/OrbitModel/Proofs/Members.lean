import OrbitModel.Proofs.LogValues
/-!
# Everything a traversal outputs is a member — with no hypothesis on the order

`values_sorted` (LogValues) needs `TieFree` and `ClockMono`: an honest universe.  An authorised
writer who forges clocks breaks both.  What survives without them is the *membership* half: every
element `traverse` outputs is a root or a child of an output, and roots (heads) and children (`get`
on `Entries`) are members.  So whatever the clocks, `Values()` never shows a non-member.
-/
set_option linter.unusedSectionVars false
namespace Trav
variable {α : Type} [DecidableEq α]
variable {lt : α → α → Bool} {children : α → List α}

/-- one `step` keeps stack and output inside any child-closed predicate -/
theorem step_closed (P : α → Prop) (hkids : ∀ p, P p → ∀ c ∈ children p, P c) (s : St α)
    (hs : ∀ x ∈ s.stack, P x) (ho : ∀ x ∈ s.out, P x) :
    (∀ x ∈ (step lt children s).stack, P x) ∧ (∀ x ∈ (step lt children s).out, P x) := by
  unfold step
  cases hst : s.stack with
  | nil => simp only; exact ⟨by rw [hst]; simp, ho⟩
  | cons e rest =>
    have he : P e := hs e (by rw [hst]; exact List.mem_cons_self)
    have hrest : ∀ x ∈ rest, P x := fun x hx => hs x (by rw [hst]; exact List.mem_cons_of_mem _ hx)
    simp only
    constructor
    · intro x hx
      rw [mem_sortDesc] at hx
      rcases ((pushKids_spec (children e) rest (e :: s.seen)).2.1 x).mp hx with h | ⟨h, _⟩
      · exact hrest x h
      · exact hkids e he x h
    · intro x hx
      split at hx
      · exact ho x hx
      · rcases List.mem_append.mp hx with h | h
        · exact ho x h
        · simp only [List.mem_singleton] at h; exact h ▸ he

theorem run_closed (P : α → Prop) (hkids : ∀ p, P p → ∀ c ∈ children p, P c) :
    ∀ (n : Nat) (s : St α), (∀ x ∈ s.stack, P x) → (∀ x ∈ s.out, P x) →
      ∀ x ∈ (run lt children n s).out, P x := by
  intro n
  induction n with
  | zero => intro s _ ho; exact ho
  | succ n ih =>
    intro s hs ho
    obtain ⟨h1, h2⟩ := step_closed (lt := lt) P hkids s hs ho
    exact ih _ h1 h2

/-- **every output of `traverse` satisfies any predicate that holds of the roots and is closed
under `children`** — no order, no duplicate-freeness, any fuel -/
theorem traverse_closed (P : α → Prop) (roots : List α) (hroots : ∀ r ∈ roots, P r)
    (hkids : ∀ p, P p → ∀ c ∈ children p, P c) (fuel : Nat) :
    ∀ x ∈ traverse lt children roots fuel, P x := by
  unfold traverse
  apply run_closed P hkids
  · intro x hx; simp only at hx; rw [mem_sortDesc] at hx; exact hroots x hx
  · intro x hx; simp at hx

end Trav

namespace Orbit

/-- `get` returns a member -/
theorem get_mem {m : OMap} {h : Nat} {e : Entry} (hg : get m h = some e) : e ∈ m := (get_some hg).1

/-- **a traversal of any length outputs only members** (no `TieFree`, no `ClockMono`) -/
theorem traverseN_subset_entries {U : List Entry} (L : Log) (hI : Inv U L) (n : Nat) :
    ∀ x ∈ traverseN L n, x ∈ L.entries := by
  unfold traverseN
  apply Trav.traverse_closed (fun x => x ∈ L.entries)
  · exact fun r hr => ((hI.heads r).mp hr).1
  · exact fun _ _ c hc => (mem_children hc).1

/-- **`Values()` shows only members**, whatever clocks the entries carry -/
theorem values_subset_entries {U : List Entry} (L : Log) (hI : Inv U L) :
    ∀ x ∈ values L, x ∈ L.entries := by
  intro x hx
  unfold values at hx
  rw [List.mem_reverse] at hx
  exact traverseN_subset_entries L hI _ x hx

/-- the same from the only fact used: the heads are members (e.g. for a log under a failed
invariant, or the pinned tree's foreign-head state as long as heads ⊆ entries) -/
theorem values_subset_of_heads (L : Log) (hh : ∀ e ∈ L.heads, e ∈ L.entries) :
    ∀ x ∈ values L, x ∈ L.entries := by
  intro x hx
  unfold values traverseN at hx
  rw [List.mem_reverse] at hx
  exact Trav.traverse_closed (fun x => x ∈ L.entries) L.heads hh
    (fun _ _ c hc => (mem_children hc).1) _ x hx

end Orbit
