import OrbitModel.Proofs.LogReach
/-!
# A concrete 3-entry fork: the hypotheses are satisfiable and the theorem applies

Replica 1 appends `a` then `b`; replica 2 joins `a` and appends `c` concurrently with `b`
(same Lamport time 2, different clock ids). Each then joins the other. The entry maps differ in
insertion order, `Values()` agrees.
-/
namespace Orbit.Example

def a : Entry := { hash := 1, logId := 9, time := 1, cid := 0, next := [] }
def b : Entry := { hash := 2, logId := 9, time := 2, cid := 0, next := [1] }
def c : Entry := { hash := 3, logId := 9, time := 2, cid := 1, next := [1] }
def U : List Entry := [a, b, c]
def ca : Entry → Bool := fun _ => true

/-- the universe hypotheses hold on the fork -/
example : HashDet U ∧ TieFree U ∧ ClockMono U := by
  unfold HashDet TieFree ClockMono; decide

theorem hU : HashDet U := by unfold HashDet; decide
theorem hT : TieFree U := by unfold TieFree; decide
theorem hM : ClockMono U := by unfold ClockMono; decide

def okOr (x : Except Err Log) (d : Log) : Log := match x with | .ok l => l | .error _ => d

def E  : Log := Log.empty 9
def P1 : Log := (append ca E (fun _ _ => a)).1
def P2 : Log := (append ca P1 (fun _ _ => b)).1
def Q1 : Log := okOr (join ca E [a] [a] 9) E
def Q2 : Log := (append ca Q1 (fun _ _ => c)).1
def R1 : Log := okOr (join ca P2 Q2.entries Q2.heads 9) P2
def R2 : Log := okOr (join ca Q2 P2.entries P2.heads 9) Q2

theorem reach_P2 : Reachable ca U 9 P2 := by
  have h1 : Reachable ca U 9 P1 :=
    .step .empty (.appendOk E (fun _ _ => a) (by decide) (by decide) (by decide) (by decide) rfl)
  exact .step h1 (.appendOk P1 (fun _ _ => b) (by decide) (by decide) (by decide) (by decide) rfl)

theorem reach_Q2 : Reachable ca U 9 Q2 := by
  have h1 : Reachable ca U 9 Q1 :=
    .step .empty (.join E Q1 [a] [a] 9 ⟨by decide, by decide⟩ (by decide) rfl)
  exact .step h1 (.appendOk Q1 (fun _ _ => c) (by decide) (by decide) (by decide) (by decide) rfl)

theorem reach_R1 : Reachable ca U 9 R1 :=
  .step reach_P2 (.join P2 R1 Q2.entries Q2.heads 9 ⟨by decide, by decide⟩ (by decide) rfl)

theorem reach_R2 : Reachable ca U 9 R2 :=
  .step reach_Q2 (.join Q2 R2 P2.entries P2.heads 9 ⟨by decide, by decide⟩ (by decide) rfl)

/-- the two replicas hold the same three entries in different insertion orders -/
example : R1.entries = [a, b, c] ∧ R2.entries = [a, c, b] := by decide

theorem same_entries : ∀ x, x ∈ R1.entries ↔ x ∈ R2.entries := by
  have h1 : R1.entries = [a, b, c] := by decide
  have h2 : R2.entries = [a, c, b] := by decide
  intro x
  rw [h1, h2]
  simp only [List.mem_cons, List.mem_nil_iff, or_false]
  constructor <;> rintro (h | h | h) <;> simp [h]

/-- the convergence theorem applies -/
example : values R1 = values R2 ∧ sortedHeads R1 = sortedHeads R2 :=
  reachable_same_entries_same_values hU hT hM reach_R1 reach_R2 same_entries

/-- and agrees with direct evaluation -/
example : values R1 = [a, b, c] ∧ values R2 = [a, b, c] ∧ sortedHeads R1 = [c, b] := by decide

end Orbit.Example
