import OrbitModel.Generated.GenSubClose
import OrbitModel.Model.Order
/-!
# Regenerated Go fragment = hand-written model (tie 2): the legacy forwarder drains while it closes
-/
namespace Orbit

theorem gen_subscriberClose_order : Gen.subscriberCloseOrder = Order.subscriberClose := by decide

end Orbit
