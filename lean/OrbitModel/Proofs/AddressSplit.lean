import OrbitModel.Proofs.AddressClean
/-!
# Strings and segments: `strings.Split`/`strings.Join` on "/" and `address.Parse` of a rendered path  (C14)

`segments` splits the list of characters, so the core lemmas on `List.splitOn` apply; `parse0` of a
rendered clean path is characterised in both directions (`parse_render_root`, `parse_render`).
-/
namespace Orbit.Path

/-- the string has no `/` -/
def NoSlash (s : String) : Prop := '/' ∉ s.toList

instance (s : String) : Decidable (NoSlash s) := by unfold NoSlash; exact inferInstance

/-- a path segment in the proper sense: kept by `path.Clean`, not cut by `strings.Split` -/
def Seg (s : String) : Prop := Plain s ∧ NoSlash s

instance (s : String) : Decidable (Seg s) := by unfold Seg; exact inferInstance

theorem splitOn_noSep (c : Char) (l : List Char) : ∀ p ∈ l.splitOn c, c ∉ p := by
  induction l with
  | nil => intro p hp; simp at hp; subst hp; simp
  | cons x xs ih =>
    intro p hp
    rw [List.splitOn_cons_eq_if_modifyHead] at hp
    split at hp
    · rcases List.mem_cons.mp hp with rfl | hp
      · simp
      · exact ih p hp
    · rename_i hx
      have hne := List.splitOn_ne_nil c xs
      cases hsp : List.splitOn c xs with
      | nil => exact absurd hsp hne
      | cons p0 ps =>
        rw [hsp] at hp ih
        simp only [List.modifyHead_cons] at hp
        rcases List.mem_cons.mp hp with rfl | hp
        · intro hc
          rcases List.mem_cons.mp hc with h | h
          · exact hx (by rw [h]; exact BEq.refl _)
          · exact ih p0 List.mem_cons_self h
        · exact ih p (List.mem_cons_of_mem _ hp)

theorem segments_noSlash (s : String) : ∀ x ∈ segments s, NoSlash x := by
  intro x hx
  unfold segments at hx
  obtain ⟨p, hp, rfl⟩ := List.mem_map.mp hx
  unfold NoSlash
  rw [String.toList_ofList]
  exact splitOn_noSep '/' _ p hp

theorem segments_ne_nil (s : String) : segments s ≠ [] := by
  unfold segments
  intro h
  exact List.splitOn_ne_nil '/' s.toList (List.map_eq_nil_iff.mp h)

theorem segments_empty : segments "" = [""] := by decide

/-- `strings.Split(strings.Join(l, "/"), "/") = l` for a non-empty list of slash-free strings -/
theorem segments_intercalate (l : List String) (h : ∀ x ∈ l, NoSlash x) (hne : l ≠ []) :
    segments ("/".intercalate l) = l := by
  unfold segments
  rw [String.toList_intercalate]
  have h1 : "/".toList = ['/'] := rfl
  rw [h1, List.splitOn_intercalate]
  · rw [List.map_map]
    have : (String.ofList ∘ String.toList) = id := by funext s; simp
    rw [this, List.map_id]
  · intro p hp
    obtain ⟨s, hs, rfl⟩ := List.mem_map.mp hp
    exact h s hs
  · intro hm; exact hne (List.map_eq_nil_iff.mp hm)

theorem segments_intercalate' (l : List String) (h : ∀ x ∈ l, NoSlash x) :
    segments ("/".intercalate l) = if l = [] then [""] else l := by
  by_cases hl : l = []
  · subst hl; simp only [String.intercalate_nil, if_true]; exact segments_empty
  · simp only [hl, if_false]; exact segments_intercalate l h hl

theorem segments_slash_append (t : String) : segments ("/" ++ t) = "" :: segments t := by
  unfold segments
  rw [String.toList_append]
  have h1 : "/".toList = ['/'] := rfl
  rw [h1, List.singleton_append, List.splitOn_cons_eq_if_modifyHead]
  simp

theorem segments_orbitdb (t : String) :
    segments ("/orbitdb/" ++ t) = "" :: "orbitdb" :: segments t := by
  have h1 : "/orbitdb/" = "/" ++ ("orbitdb" ++ "/") := by decide
  rw [h1, String.append_assoc, segments_slash_append, String.append_assoc]
  congr 1
  unfold segments
  rw [String.toList_append, String.toList_append]
  have h2 : "/".toList = ['/'] := rfl
  rw [h2, List.singleton_append, List.splitOn_append_cons_self_of_not_mem (by decide)]
  simp

theorem hasPrefix_iff (p s : String) : hasPrefix p s = true ↔ p.toList <+: s.toList := by
  unfold hasPrefix; exact List.isPrefixOf_iff_prefix

/-- the two model-level string primitives are the core ones: `hasPrefix` is `String.startsWith`,
`segments` is `String.split` on `'/'` -/
theorem hasPrefix_eq_startsWith (p s : String) : hasPrefix p s = s.startsWith p := by
  rw [Bool.eq_iff_iff, hasPrefix_iff, String.startsWith_string_iff]

theorem segments_eq_split (s : String) : segments s = (s.split '/').toList.map (·.copy) := by
  unfold segments; rw [String.toList_split_char]

/-- `strings.TrimPrefix(s, "/orbitdb/")` when the prefix is there -/
theorem strip_orbitdb {s : String} (h : hasPrefix "/orbitdb/" s = true) :
    s = "/orbitdb/" ++ (s.drop "/orbitdb/".length).copy := by
  obtain ⟨t, ht⟩ := (hasPrefix_iff _ _).mp h
  apply String.toList_inj.mp
  rw [String.toList_append, String.toList_copy_drop, ← ht]
  have : "/orbitdb/".length = "/orbitdb/".toList.length := by decide
  rw [this, List.drop_left]

theorem hasPrefix_append (p t : String) : hasPrefix p (p ++ t) = true := by
  rw [hasPrefix_iff, String.toList_append]; exact List.prefix_append _ _

theorem drop_orbitdb (t : String) : (("/orbitdb/" ++ t).drop "/orbitdb/".length).copy = t := by
  have h := strip_orbitdb (hasPrefix_append "/orbitdb/" t)
  have h2 := congrArg String.toList h
  rw [String.toList_append, String.toList_append] at h2
  exact (String.toList_inj.mp (List.append_cancel_left h2)).symm

theorem parse_eq (isCid : String → Bool) (s : String) :
    parse0 isCid s =
      match segments (if hasPrefix "/orbitdb/" s then (s.drop "/orbitdb/".length).copy else s) with
      | [] => none
      | r :: rest => if isCid r then some { root := r, path := "/".intercalate rest } else none := rfl

/-- parsing `/orbitdb/<t>` looks at the segments of `t` -/
theorem parse_orbitdb (isCid : String → Bool) (t : String) :
    parse0 isCid ("/orbitdb/" ++ t) =
      match segments t with
      | [] => none
      | r :: rest => if isCid r then some { root := r, path := "/".intercalate rest } else none := by
  rw [parse_eq, hasPrefix_append, if_pos rfl, drop_orbitdb]

theorem render_orbitdb (l : List String) (hne : l ≠ []) :
    render ("orbitdb" :: l) = "/orbitdb/" ++ "/".intercalate l := by
  unfold render
  rw [String.intercalate_cons_of_ne_nil hne, ← String.append_assoc, ← String.append_assoc]
  rfl

/-- **`Parse` of a rendered `/orbitdb/<root>/<rest…>`** -/
theorem parse_render_root (isCid : String → Bool) (r : String) (rest : List String)
    (h : ∀ x ∈ r :: rest, NoSlash x) (hc : isCid r = true) :
    parse0 isCid (render ("orbitdb" :: r :: rest)) = some { root := r, path := "/".intercalate rest } := by
  rw [render_orbitdb _ (by simp), parse_orbitdb, segments_intercalate _ h (by simp)]
  simp only [hc, if_true]

/-- **`Parse` of any rendered clean path**: it answers either the empty root (the path does not
start with `/orbitdb/<x>`) or the second segment as root and the others as path -/
theorem parse_render (isCid : String → Bool) (cl : List String) (h : ∀ x ∈ cl, NoSlash x) (a : Addr)
    (hp : parse0 isCid (render cl) = some a) :
    a.root = "" ∨ ∃ rest, cl = "orbitdb" :: a.root :: rest ∧ a.path = "/".intercalate rest ∧
      isCid a.root = true := by
  have hseg : segments (render cl) = "" :: segments ("/".intercalate cl) := segments_slash_append _
  rw [parse_eq] at hp
  by_cases hpre : hasPrefix "/orbitdb/" (render cl) = true
  · right
    rw [if_pos hpre] at hp
    have hs := strip_orbitdb hpre
    generalize (String.drop (render cl) "/orbitdb/".length).copy = t at hp hs
    rw [hs, segments_orbitdb, segments_intercalate' cl h] at hseg
    have hcl : cl = "orbitdb" :: segments t := by
      by_cases hnil : cl = []
      · simp only [hnil, if_true] at hseg
        injection hseg with _ h2
        injection h2 with h3 _
        exact absurd h3 (by decide)
      · simp only [hnil, if_false] at hseg
        injection hseg with _ h2
        exact h2.symm
    cases hst : segments t with
    | nil => exact absurd hst (segments_ne_nil t)
    | cons r rest =>
      rw [hst] at hp hcl
      simp only at hp
      split at hp
      · rename_i hc
        injection hp with hp
        subst hp
        exact ⟨rest, hcl, rfl, hc⟩
      · cases hp
  · left
    rw [if_neg hpre, hseg] at hp
    simp only at hp
    split at hp
    · injection hp with hp; subst hp; rfl
    · cases hp

end Orbit.Path
