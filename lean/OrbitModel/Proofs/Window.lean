import OrbitModel.Spec.Replay
/-!
# Range queries of the event log store: `queryWin` (the Go `query`/`read`) against `windowSpec`

`queryWin` is the line-by-line model (forward read for gt/gte; reverse, read, reverse for
lt/lte/none).  `windowSpec` is the contiguous window a user expects.

**Finding.**  The two agree exactly when the options do not *clash* (`NoClash`): the Go code takes
the bound from `GT` (resp. `LT`) but the inclusive flag from `GTE != nil` (resp. `LTE != nil`), so
with both `GT` and `GTE` set (resp. `LT` and `LTE`, no lower bound) the read is *inclusive* at the
`GT` (resp. `LT`) hash, while the spec (precedence gt > gte > lt > lte) is exclusive.
`queryWin_eq_windowSpec_iff` shows that under `HashNodup` and `boundOk` this is the only
disagreement; `queryWin_corner_gt_gte`, `queryWin_corner_lt_lte` are the `decide` witnesses.
-/
namespace Orbit

/-- the hashes of the listing are pairwise distinct -/
def HashNodup (L : List Entry) : Prop := (L.map (·.hash)).Nodup

/-- every bound that is set is the hash of some entry of `L` (for a hash that is not in the log the
Go code falls back to index 0; excluded here) -/
def boundOk (L : List Entry) (o : StreamOpts) : Prop :=
  ∀ h, (o.gt = some h ∨ o.gte = some h ∨ o.lt = some h ∨ o.lte = some h) → ∃ e ∈ L, e.hash = h

/-- the options do not set both bounds of the same side: not (`gt` and `gte`), and when no lower
bound is set, not (`lt` and `lte`) -/
def NoClash (o : StreamOpts) : Prop :=
  (o.gt.isSome = true → o.gte = none) ∧
  (o.gt = none → o.gte = none → o.lt.isSome = true → o.lte = none)

instance (o : StreamOpts) : Decidable (NoClash o) := by unfold NoClash; exact inferInstance

/-- the index of hash `h` in the listing (0 if absent), as in `windowSpec` -/
def idxOf (L : List Entry) (h : Nat) : Nat := (L.findIdx? (fun e => e.hash == h)).getD 0

/-! ### Index lemmas -/

theorem findIdx?_of_mem {L : List Entry} {h : Nat} {e : Entry} (he : e ∈ L) (hh : e.hash = h) :
    ∃ i, L.findIdx? (fun e => e.hash == h) = some i ∧ i < L.length := by
  have hs : (L.findIdx? (fun e => e.hash == h)).isSome = true := by
    rw [List.findIdx?_isSome, List.any_eq_true]
    exact ⟨e, he, by simp [hh]⟩
  obtain ⟨i, hi⟩ := Option.isSome_iff_exists.mp hs
  obtain ⟨hlt, _⟩ := List.findIdx?_eq_some_iff_getElem.mp hi
  exact ⟨i, hi, hlt⟩

/-- under `HashNodup` the bound occurs exactly once, so its index in the reversed listing is the
mirror of its index in the listing -/
theorem findIdx?_reverse_hash (L : List Entry) (h : Nat) (hnd : HashNodup L) (i : Nat)
    (hi : L.findIdx? (fun e => e.hash == h) = some i) :
    L.reverse.findIdx? (fun e => e.hash == h) = some (L.length - 1 - i) := by
  induction L generalizing i with
  | nil => simp at hi
  | cons x xs ih =>
    unfold HashNodup at hnd
    rw [List.map_cons, List.nodup_cons] at hnd
    rw [List.reverse_cons, List.findIdx?_append, List.findIdx?_cons] at *
    by_cases hx : (x.hash == h) = true
    · simp only [hx, if_true, Option.some.injEq] at hi
      subst hi
      have hnone : xs.reverse.findIdx? (fun e => e.hash == h) = none := by
        rw [List.findIdx?_eq_none_iff]
        intro y hy
        apply Bool.eq_false_iff.mpr
        intro hyh
        apply hnd.1
        rw [List.mem_map]
        exact ⟨y, List.mem_reverse.mp hy, by simp at hx hyh; omega⟩
      simp [hnone, hx]
    · simp only [hx, Bool.false_eq_true, if_false] at hi
      obtain ⟨j, hj, rfl⟩ := Option.map_eq_some_iff.mp hi
      have := ih hnd.2 j hj
      obtain ⟨hlt, _⟩ := List.findIdx?_eq_some_iff_getElem.mp hj
      rw [this]
      rw [Option.some_or, List.length_cons]
      congr 1
      omega

/-! ### take/drop/reverse arithmetic -/

/-- read `n` from position `s` of the reversed listing, then reverse -/
theorem reverse_read (l : List Entry) (s n : Nat) :
    ((l.reverse.drop s).take n).reverse = (l.take (l.length - s)).drop (l.length - s - n) := by
  rw [List.drop_reverse, List.take_reverse, List.reverse_reverse, List.length_take]
  congr 1
  omega

/-! ### `queryWin` by bound kind (the readable windows) -/

theorem normAmount_pos {a : Option Int} {len : Nat} (h : 0 < len) : 0 < normAmount a len := by
  unfold normAmount
  split
  · omega
  · rename_i a
    by_cases h0 : a = 0
    · simp [h0]
    · by_cases h1 : a > -1
      · simp only [beq_iff_eq, h0, if_false, h1, if_true]; omega
      · simp only [beq_iff_eq, h0, if_false, h1]; exact h

/-- `gt h` (no `gte`): the `n` entries after index `i` -/
theorem queryWin_gt (L : List Entry) (o : StreamOpts) (h : Nat) (hgt : o.gt = some h)
    (hgte : o.gte = none) :
    queryWin L o = (L.drop (idxOf L h + 1)).take (normAmount o.amount L.length) := by
  unfold queryWin readWin idxOf
  simp only [hgt, hgte, Option.isSome_some, Option.isSome_none, Bool.or_false, if_true,
    Bool.false_eq_true, if_false]
  cases L.findIdx? (fun e => e.hash == h) <;> rfl

/-- `gte h` (no `gt`): the `n` entries from index `i` on -/
theorem queryWin_gte (L : List Entry) (o : StreamOpts) (h : Nat) (hgt : o.gt = none)
    (hgte : o.gte = some h) :
    queryWin L o = (L.drop (idxOf L h)).take (normAmount o.amount L.length) := by
  unfold queryWin readWin idxOf
  simp only [hgt, hgte, Option.isSome_some, Option.isSome_none, Bool.false_or, if_true]
  cases L.findIdx? (fun e => e.hash == h) <;> rfl

/-- both `gt h` and `gte h'`: the Go code reads **inclusively from the `gt` hash** -/
theorem queryWin_gt_gte (L : List Entry) (o : StreamOpts) (h h' : Nat) (hgt : o.gt = some h)
    (hgte : o.gte = some h') :
    queryWin L o = (L.drop (idxOf L h)).take (normAmount o.amount L.length) := by
  unfold queryWin readWin idxOf
  simp only [hgt, hgte, Option.isSome_some, Bool.or_true, if_true]
  cases L.findIdx? (fun e => e.hash == h) <;> rfl

/-- the common shape of the reversed reads -/
theorem queryWin_rev (L : List Entry) (o : StreamOpts) (hgt : o.gt = none) (hgte : o.gte = none) :
    queryWin L o = (readWin L.reverse (match o.lt with | some c => some c | none => o.lte)
      (normAmount o.amount L.length) (o.lte.isSome || o.lt.isNone)).reverse := by
  unfold queryWin
  simp only [hgt, hgte, Option.isSome_none, Bool.or_false, Bool.false_eq_true, if_false]
  rfl

/-- no bound: the last `n` entries -/
theorem queryWin_none (L : List Entry) (o : StreamOpts) (hgt : o.gt = none) (hgte : o.gte = none)
    (hlt : o.lt = none) (hlte : o.lte = none) :
    queryWin L o = L.drop (L.length - normAmount o.amount L.length) := by
  rw [queryWin_rev L o hgt hgte]
  unfold readWin
  simp only [hlt, hlte, Option.isSome_none, Option.isNone_none, Bool.or_true, if_true]
  have := reverse_read L 0 (normAmount o.amount L.length)
  rw [Nat.sub_zero, List.take_length] at this
  exact this

/-- `lte h` (no other bound): the `n` entries ending at index `i` (inclusive) -/
theorem queryWin_lte (L : List Entry) (o : StreamOpts) (h : Nat) (hnd : HashNodup L)
    (hgt : o.gt = none) (hgte : o.gte = none) (hlt : o.lt = none) (hlte : o.lte = some h)
    (hb : ∃ e ∈ L, e.hash = h) :
    queryWin L o = (L.take (idxOf L h + 1)).drop (idxOf L h + 1 - normAmount o.amount L.length) := by
  obtain ⟨e, he, hh⟩ := hb
  obtain ⟨i, hi, hlt'⟩ := findIdx?_of_mem he hh
  rw [queryWin_rev L o hgt hgte]
  unfold readWin idxOf
  simp only [hlt, hlte, Option.isSome_some, Bool.true_or, if_true, hi,
    findIdx?_reverse_hash L h hnd i hi, Option.getD_some]
  rw [reverse_read]
  congr 2 <;> omega

/-- `lt h` (no `lte`, no lower bound): the `n` entries before index `i` -/
theorem queryWin_lt (L : List Entry) (o : StreamOpts) (h : Nat) (hnd : HashNodup L)
    (hgt : o.gt = none) (hgte : o.gte = none) (hlt : o.lt = some h) (hlte : o.lte = none)
    (hb : ∃ e ∈ L, e.hash = h) :
    queryWin L o = (L.take (idxOf L h)).drop (idxOf L h - normAmount o.amount L.length) := by
  obtain ⟨e, he, hh⟩ := hb
  obtain ⟨i, hi, hlt'⟩ := findIdx?_of_mem he hh
  rw [queryWin_rev L o hgt hgte]
  unfold readWin idxOf
  simp only [hlt, hlte, Option.isSome_none, Option.isNone_some, Bool.or_false, Bool.false_eq_true,
    if_false, hi, findIdx?_reverse_hash L h hnd i hi, Option.getD_some]
  rw [reverse_read]
  congr 2 <;> omega

/-- both `lt h` and `lte h'` (no lower bound): the Go code reads **inclusively up to the `lt` hash** -/
theorem queryWin_lt_lte (L : List Entry) (o : StreamOpts) (h h' : Nat) (hnd : HashNodup L)
    (hgt : o.gt = none) (hgte : o.gte = none) (hlt : o.lt = some h) (hlte : o.lte = some h')
    (hb : ∃ e ∈ L, e.hash = h) :
    queryWin L o = (L.take (idxOf L h + 1)).drop (idxOf L h + 1 - normAmount o.amount L.length) := by
  obtain ⟨e, he, hh⟩ := hb
  obtain ⟨i, hi, hlt'⟩ := findIdx?_of_mem he hh
  rw [queryWin_rev L o hgt hgte]
  unfold readWin idxOf
  simp only [hlt, hlte, Option.isSome_some, Bool.true_or, if_true, hi,
    findIdx?_reverse_hash L h hnd i hi, Option.getD_some]
  rw [reverse_read]
  congr 2 <;> omega

/-! ### `windowSpec` by bound kind -/

theorem windowSpec_gt (L : List Entry) (o : StreamOpts) (h : Nat) (hgt : o.gt = some h) :
    windowSpec L o = (L.drop (idxOf L h + 1)).take (normAmount o.amount L.length) := by
  unfold windowSpec idxOf; simp only [hgt]

theorem windowSpec_gte (L : List Entry) (o : StreamOpts) (h : Nat) (hgt : o.gt = none)
    (hgte : o.gte = some h) :
    windowSpec L o = (L.drop (idxOf L h)).take (normAmount o.amount L.length) := by
  unfold windowSpec idxOf; simp only [hgt, hgte]

theorem windowSpec_lt (L : List Entry) (o : StreamOpts) (h : Nat) (hgt : o.gt = none)
    (hgte : o.gte = none) (hlt : o.lt = some h) :
    windowSpec L o = (L.take (idxOf L h)).drop (idxOf L h - normAmount o.amount L.length) := by
  unfold windowSpec idxOf; simp only [hgt, hgte, hlt]

theorem windowSpec_lte (L : List Entry) (o : StreamOpts) (h : Nat) (hgt : o.gt = none)
    (hgte : o.gte = none) (hlt : o.lt = none) (hlte : o.lte = some h) :
    windowSpec L o = (L.take (idxOf L h + 1)).drop (idxOf L h + 1 - normAmount o.amount L.length) := by
  unfold windowSpec idxOf; simp only [hgt, hgte, hlt, hlte]

theorem windowSpec_none (L : List Entry) (o : StreamOpts) (hgt : o.gt = none) (hgte : o.gte = none)
    (hlt : o.lt = none) (hlte : o.lte = none) :
    windowSpec L o = L.drop (L.length - normAmount o.amount L.length) := by
  unfold windowSpec; simp only [hgt, hgte, hlt, hlte]

/-! ### The main theorem -/

/-- **The Go `query` returns the specified window**, for every `amount`, provided the listing has
distinct hashes, the bounds are hashes of the log, and the options do not clash (see `NoClash`;
the hypothesis cannot be dropped: `queryWin_eq_windowSpec_iff`). -/
theorem queryWin_eq_windowSpec (L : List Entry) (o : StreamOpts) (hnd : HashNodup L)
    (hb : boundOk L o) (hc : NoClash o) : queryWin L o = windowSpec L o := by
  obtain ⟨hc1, hc2⟩ := hc
  cases hgt : o.gt with
  | some h =>
    rw [queryWin_gt L o h hgt (hc1 (by rw [hgt]; rfl)), windowSpec_gt L o h hgt]
  | none =>
    cases hgte : o.gte with
    | some h => rw [queryWin_gte L o h hgt hgte, windowSpec_gte L o h hgt hgte]
    | none =>
      cases hlt : o.lt with
      | some h =>
        rw [queryWin_lt L o h hnd hgt hgte hlt (hc2 hgt hgte (by rw [hlt]; rfl))
          (hb h (Or.inr (Or.inr (Or.inl hlt)))), windowSpec_lt L o h hgt hgte hlt]
      | none =>
        cases hlte : o.lte with
        | some h =>
          rw [queryWin_lte L o h hnd hgt hgte hlt hlte (hb h (Or.inr (Or.inr (Or.inr hlte)))),
            windowSpec_lte L o h hgt hgte hlt hlte]
        | none => rw [queryWin_none L o hgt hgte hlt hlte, windowSpec_none L o hgt hgte hlt hlte]

/-! ### The corner: clashing options -/

/-- `GT` and `GTE` both set: Go reads inclusively from the `GT` hash, the spec excludes it -/
theorem queryWin_corner_gt_gte :
    let x : Entry := { hash := 1, logId := 0, time := 1, cid := 0, next := [] }
    let y : Entry := { hash := 2, logId := 0, time := 2, cid := 0, next := [1] }
    let o : StreamOpts := { gt := some 1, gte := some 1, amount := some (-1) }
    HashNodup [x, y] ∧ boundOk [x, y] o ∧
      queryWin [x, y] o = [x, y] ∧ windowSpec [x, y] o = [y] := by
  refine ⟨by unfold HashNodup; decide, ?_, by decide, by decide⟩
  intro h hh
  simp only [Option.some.injEq, reduceCtorEq, or_false, or_self] at hh
  exact ⟨_, List.mem_cons_self, hh⟩

/-- `LT` and `LTE` both set (no lower bound): Go reads inclusively up to the `LT` hash -/
theorem queryWin_corner_lt_lte :
    let x : Entry := { hash := 1, logId := 0, time := 1, cid := 0, next := [] }
    let y : Entry := { hash := 2, logId := 0, time := 2, cid := 0, next := [1] }
    let o : StreamOpts := { lt := some 2, lte := some 2, amount := some (-1) }
    HashNodup [x, y] ∧ boundOk [x, y] o ∧
      queryWin [x, y] o = [x, y] ∧ windowSpec [x, y] o = [x] := by
  refine ⟨by unfold HashNodup; decide, ?_, by decide, by decide⟩
  intro h hh
  simp only [Option.some.injEq, reduceCtorEq, false_or, or_self] at hh
  exact ⟨_, List.mem_cons_of_mem _ List.mem_cons_self, hh⟩

/-- with distinct hashes, the windows starting at `i` and at `i+1` differ -/
theorem window_shift_ne (L : List Entry) (hnd : HashNodup L) (i n : Nat) (hi : i < L.length)
    (hn : 0 < n) : (L.drop i).take n ≠ (L.drop (i + 1)).take n := by
  intro heq
  have h0 : ((L.drop i).take n)[0]? = ((L.drop (i + 1)).take n)[0]? := by rw [heq]
  rw [List.getElem?_take_of_lt hn, List.getElem?_take_of_lt hn, List.getElem?_drop,
    List.getElem?_drop, Nat.add_zero, Nat.add_zero] at h0
  have h1 : (L.map (·.hash))[i]? = (L.map (·.hash))[i + 1]? := by
    rw [List.getElem?_map, List.getElem?_map, h0]
  have := (List.getElem?_inj (by rw [List.length_map]; exact hi) hnd).mp h1
  omega

theorem hashNodup_reverse {L : List Entry} (hnd : HashNodup L) : HashNodup L.reverse := by
  unfold HashNodup at *
  rw [List.map_reverse]
  exact List.pairwise_reverse.mpr (hnd.imp Ne.symm)

/-- **`NoClash` is exactly what is needed**: with distinct hashes and bounds in the log, the Go
query returns the specified window if and only if the options do not clash. -/
theorem queryWin_eq_windowSpec_iff (L : List Entry) (o : StreamOpts) (hnd : HashNodup L)
    (hb : boundOk L o) : queryWin L o = windowSpec L o ↔ NoClash o := by
  refine ⟨fun heq => ?_, queryWin_eq_windowSpec L o hnd hb⟩
  refine ⟨fun hgt => ?_, fun hgt hgte hlt => ?_⟩
  · obtain ⟨h, hgt⟩ := Option.isSome_iff_exists.mp hgt
    cases hgte : o.gte with
    | none => rfl
    | some h' =>
      exfalso
      obtain ⟨e, he, hh⟩ := hb h (Or.inl hgt)
      obtain ⟨i, hi, hlt⟩ := findIdx?_of_mem he hh
      rw [queryWin_gt_gte L o h h' hgt hgte, windowSpec_gt L o h hgt] at heq
      have hidx : idxOf L h = i := by unfold idxOf; rw [hi]; rfl
      rw [hidx] at heq
      exact window_shift_ne L hnd i _ hlt (normAmount_pos (by omega)) heq
  · obtain ⟨h, hlt⟩ := Option.isSome_iff_exists.mp hlt
    cases hlte : o.lte with
    | none => rfl
    | some h' =>
      exfalso
      obtain ⟨e, he, hh⟩ := hb h (Or.inr (Or.inr (Or.inl hlt)))
      obtain ⟨i, hi, hil⟩ := findIdx?_of_mem he hh
      rw [queryWin_lt_lte L o h h' hnd hgt hgte hlt hlte ⟨e, he, hh⟩,
        windowSpec_lt L o h hgt hgte hlt] at heq
      have hidx : idxOf L h = i := by unfold idxOf; rw [hi]; rfl
      rw [hidx] at heq
      have r1 := reverse_read L (L.length - 1 - i) (normAmount o.amount L.length)
      have r2 := reverse_read L (L.length - 1 - i + 1) (normAmount o.amount L.length)
      have e1 : L.length - (L.length - 1 - i) = i + 1 := by omega
      have e2 : L.length - (L.length - 1 - i + 1) = i := by omega
      rw [e1] at r1
      rw [e2] at r2
      rw [← r1, ← r2] at heq
      refine window_shift_ne L.reverse (hashNodup_reverse hnd) (L.length - 1 - i) _ ?_
        (normAmount_pos (a := o.amount) (len := L.length) (by omega)) (List.reverse_inj.mp heq)
      rw [List.length_reverse]; omega

/-! ### `Get(hash)` -/

theorem hashNodup_inj {L : List Entry} (hnd : HashNodup L) {a b : Entry} (ha : a ∈ L) (hb : b ∈ L)
    (h : a.hash = b.hash) : a = b := by
  induction L with
  | nil => cases ha
  | cons x xs ih =>
    unfold HashNodup at hnd
    rw [List.map_cons, List.nodup_cons, List.mem_map] at hnd
    rcases List.mem_cons.mp ha with rfl | ha' <;> rcases List.mem_cons.mp hb with rfl | hb'
    · rfl
    · exact absurd ⟨b, hb', h.symm⟩ hnd.1
    · exact absurd ⟨a, ha', h⟩ hnd.1
    · exact ih hnd.2 ha' hb'

/-- **`Get(hash)`**: `gte = hash, amount = 1` returns exactly the entry with that hash -/
theorem get_eq (L : List Entry) (h : Nat) (hnd : HashNodup L) (e : Entry) (he : e ∈ L)
    (hh : e.hash = h) : queryWin L { gte := some h, amount := some 1 } = [e] := by
  obtain ⟨i, hi, hlt⟩ := findIdx?_of_mem he hh
  rw [queryWin_gte L _ h rfl rfl]
  have hidx : idxOf L h = i := by unfold idxOf; rw [hi]; rfl
  have hn : normAmount (some 1) L.length = 1 := by simp [normAmount]
  obtain ⟨_, hp, _⟩ := List.findIdx?_eq_some_iff_getElem.mp hi
  have : L[i] = e :=
    hashNodup_inj hnd (List.getElem_mem hlt) he (by rw [hh]; exact beq_iff_eq.mp hp)
  rw [hidx, hn, List.drop_eq_getElem_cons hlt, this]
  rfl

/-! ### The result is always a contiguous piece of the listing (no hypothesis) -/

theorem readWin_infix (ops : List Entry) (c : Option Nat) (n : Nat) (inc : Bool) :
    readWin ops c n inc <:+: ops := by
  unfold readWin
  exact (List.take_prefix _ _).isInfix.trans (List.drop_suffix _ _).isInfix

theorem queryWin_infix (L : List Entry) (o : StreamOpts) : queryWin L o <:+: L := by
  unfold queryWin
  split
  · exact readWin_infix _ _ _ _
  · exact List.reverse_infix.mp (by rw [List.reverse_reverse]; exact readWin_infix _ _ _ _)

/-- the result is a contiguous infix of the listing -/
theorem queryWin_contiguous (L : List Entry) (o : StreamOpts) :
    ∃ a b, L = a ++ queryWin L o ++ b := by
  obtain ⟨a, b, h⟩ := queryWin_infix L o
  exact ⟨a, b, h.symm⟩

/-- in particular it lists entries of `L` in the order of `L` -/
theorem queryWin_sublist (L : List Entry) (o : StreamOpts) : (queryWin L o).Sublist L :=
  (queryWin_infix L o).sublist

end Orbit
