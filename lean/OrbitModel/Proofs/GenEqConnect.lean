import OrbitModel.Generated.GenConnect
import OrbitModel.Generated.GenConnectCtx
import OrbitModel.Model.Order
/-!
# Regenerated Go fragment = hand-written model (tie 2)
-/
namespace Orbit

theorem gen_connect_order : Gen.connectOrder = Order.connect := by decide

theorem gen_connectCtx_order : Gen.connectCtxOrder = Order.connectCtx := by decide

end Orbit
