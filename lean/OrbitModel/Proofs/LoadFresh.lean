import OrbitModel.Proofs.LoadNoPanic
/-!
# `Load` of one head into a fresh store: the last `amount` values of the fetched log   (C15)
-/
namespace Orbit

theorem has_nil (h : Nat) : has [] h = false := rfl

theorem filter_not_has_nil (m : OMap) : m.filter (fun e => !has [] e.hash) = m := by
  apply List.filter_eq_self.mpr
  intro a _; rfl

/-- `loadHead1`, unfolded -/
theorem loadHead1_eq (acl : Acl) (fetch : Nat → OMap) (amount : Int) (L : Log) (h : Nat) :
    loadHead1 acl fetch amount L h =
      match joinSize acl.canAppend L (ofList (fetch h)) (ofList (findHeads (ofList (fetch h)))) L.id (-1) with
      | .ok L' =>
        if amount > -1 && (values L').length > amount then (trim L' amount.toNat).map bumpClock else .ok L'
      | .error .panic => .error .panic
      | .error _ => .ok L := rfl

/-- **one head into a fresh log**: all the fetched entries are merged (`L1`), then the listing is cut
to its last `amount` values when `0 ≤ amount < |fetched|`, and left whole otherwise -/
theorem loadHead1_fresh {U : List Entry} (hU : HashDet U) (hT : TieFree U) (hM : ClockMono U)
    (acl : Acl) (fetch : Nat → OMap) (amount : Int) (id h : Nat)
    (hF : Fetched U (Log.empty id) (fetch h))
    (hacc : ∀ e ∈ fetch h, acceptable acl.canAppend e = true) :
    ∃ L1, Inv U L1 ∧ L1.entries.Nodup ∧ (∀ e, e ∈ L1.entries ↔ e ∈ fetch h) ∧
      ∃ L', loadHead1 acl fetch amount (Log.empty id) h = .ok L' ∧ L'.id = id ∧
        values L' = if amount > -1 ∧ amount < (values L1).length
          then (values L1).drop ((values L1).length - amount.toNat) else values L1 := by
  have hG : Good U (Log.empty id) := good_empty U id
  obtain ⟨hI1, hnd1⟩ := fetched_joinCore hU hG hF
  have hA := fetched_honest hF
  have hlid := fetched_lid hF
  have hcov := fetched_covered hU hM hF
  have hmem : ∀ e, e ∈ ofList (fetch h) ↔ e ∈ fetch h := mem_ofList hU hF.sub
  have hL1id : (joinCore (Log.empty id) (ofList (fetch h)) (ofList (findHeads (ofList (fetch h))))
      (Log.empty id).id).id = id := by rw [joinCore_eq _ _ _ _ rfl]; rfl
  rw [loadHead1_eq]
  generalize hm : ofList (fetch h) = m at *
  have hmnd : m.Nodup := hm ▸ ofList_nodup _
  have hdiff : ∀ e ∈ m, e ∈ difference m (ofList (findHeads m)) (Log.empty id) :=
    difference_all hU (Log.empty id) m _ hA hG.inv.sub hlid (fun _ _ => rfl) hcov
  generalize hL1 : joinCore (Log.empty id) m (ofList (findHeads m)) (Log.empty id).id = L1 at *
  have hent : ∀ e, e ∈ L1.entries ↔ e ∈ m := by
    intro e
    rw [← hL1, joinCore_eq _ _ _ _ rfl]
    show e ∈ merge [] (difference m (ofList (findHeads m)) (Log.empty id)) ↔ _
    rw [mem_merge_iff hU [] _ (fun x hx => by cases hx)
      (fun x hx => hA.sub x (difference_item _ _ _ x hx).1)]
    constructor
    · rintro (h | h)
      · cases h
      · exact (difference_item _ _ _ e h).1
    · exact fun h => Or.inr (hdiff e h)
  have hlen : (values L1).length = m.length := by
    rw [values_length hU hT hM L1 hI1 hnd1]
    exact ((List.perm_ext_iff_of_nodup hnd1 hmnd).mpr hent).length_eq
  refine ⟨L1, hI1, hnd1, fun e => (hent e).trans (hmem e), ?_⟩
  have hall : (difference m (ofList (findHeads m)) (Log.empty id)).all (acceptable acl.canAppend) = true :=
    List.all_eq_true.mpr (fun x hx => hacc x ((hmem x).mp (difference_item _ _ _ x hx).1))
  rcases joinSize_cases acl.canAppend (Log.empty id) m (ofList (findHeads m)) (-1) with ⟨hna, _⟩ | ⟨_, hj⟩
  · exact absurd hall hna
  rw [hj, hL1, if_neg (by decide)]
  dsimp only
  have hvb : (values (bumpClock L1)).length = (values L1).length := rfl
  have hIb : Inv U (bumpClock L1) := ⟨hI1.sub, hI1.heads, hI1.nidx, hI1.hnodup⟩
  have hndb : (bumpClock L1).entries.Nodup := hnd1
  by_cases hcut : amount > -1 ∧ amount < (values L1).length
  · rw [if_pos hcut]
    split
    · obtain ⟨L2, ht⟩ := trim_ok (L := bumpClock L1) (size := amount.toNat) (by rw [hvb]; omega)
      obtain ⟨_, hv, _, _, hid2⟩ := trim_values_inv hU hT hM hIb hndb ht
      rw [ht]
      refine ⟨bumpClock L2, rfl, ?_, ?_⟩
      · show L2.id = id; rw [hid2]; exact hL1id
      · rw [values_bumpClock, hv, values_bumpClock]
    · rename_i hc
      simp only [Bool.and_eq_true, decide_eq_true_eq, hvb] at hc
      omega
  · rw [if_neg hcut]
    split
    · rename_i hc
      simp only [Bool.and_eq_true, decide_eq_true_eq, hvb] at hc
      omega
    · exact ⟨bumpClock L1, rfl, hL1id, values_bumpClock L1⟩

/-- **`Load` of one head never panics** — for EVERY log (with holes, partially loaded, whatever its
heads and link index), every fetched log and every amount: the merge asks for no trim, and the trim is
only asked for when the listing is longer than the amount (after the `fix:` commit, finding F30) -/
theorem loadHead1_never_panics (acl : Acl) (fetch : Nat → OMap) (amount : Int) (L : Log) (h : Nat) :
    loadHead1 acl fetch amount L h ≠ .error .panic := by
  rw [loadHead1_eq]
  generalize ofList (fetch h) = m
  rcases joinSize_cases acl.canAppend L m (ofList (findHeads m)) (-1) with ⟨_, e, he, hne⟩ | ⟨_, hj⟩
  · rw [he]
    cases e <;> first | exact absurd rfl hne | (intro hc; cases hc)
  · rw [hj, if_neg (by decide)]
    dsimp only
    split
    · rename_i hc
      simp only [Bool.and_eq_true, decide_eq_true_eq] at hc
      obtain ⟨L2, ht⟩ := trim_ok (L := bumpClock (joinCore L m (ofList (findHeads m)) L.id))
        (size := amount.toNat) (by omega)
      rw [ht]
      intro hc'; cases hc'
    · intro hc'; cases hc'

/-! ### `loadHead`: only what the log does not hold is handed to `Join` (finding F36) -/

theorem loadHead_def (acl : Acl) (fetch : Nat → OMap) (amount : Int) (L : Log) (h : Nat) :
    loadHead acl fetch amount L h = loadHead1 acl (missingFetch L fetch) amount L h := rfl

/-- on a log that holds nothing (every freshly opened store) nothing is left out -/
theorem missingFetch_empty (id : Nat) (fetch : Nat → OMap) (h : Nat) :
    missingFetch (Log.empty id) fetch h = fetch h := filter_not_has_nil (fetch h)

theorem loadHead_empty (acl : Acl) (fetch : Nat → OMap) (amount : Int) (id h : Nat) :
    loadHead acl fetch amount (Log.empty id) h = loadHead1 acl fetch amount (Log.empty id) h := by
  unfold loadHead loadHead1
  rw [missingFetch_empty]

theorem loadHead_fresh {U : List Entry} (hU : HashDet U) (hT : TieFree U) (hM : ClockMono U)
    (acl : Acl) (fetch : Nat → OMap) (amount : Int) (id h : Nat)
    (hF : Fetched U (Log.empty id) (fetch h))
    (hacc : ∀ e ∈ fetch h, acceptable acl.canAppend e = true) :
    ∃ L1, Inv U L1 ∧ L1.entries.Nodup ∧ (∀ e, e ∈ L1.entries ↔ e ∈ fetch h) ∧
      ∃ L', loadHead acl fetch amount (Log.empty id) h = .ok L' ∧ L'.id = id ∧
        values L' = if amount > -1 ∧ amount < (values L1).length
          then (values L1).drop ((values L1).length - amount.toNat) else values L1 := by
  rw [loadHead_empty]
  exact loadHead1_fresh hU hT hM acl fetch amount id h hF hacc

theorem loadHead_never_panics (acl : Acl) (fetch : Nat → OMap) (amount : Int) (L : Log) (h : Nat) :
    loadHead acl fetch amount L h ≠ .error .panic :=
  loadHead1_never_panics acl (missingFetch L fetch) amount L h

/-- what is handed to `Join` is still a fetched log of this store -/
theorem fetched_missing {U : List Entry} {L : Log} {fetch : Nat → OMap} {h : Nat}
    (hF : Fetched U L (fetch h)) : Fetched U L (missingFetch L fetch h) :=
  ⟨fun e he => hF.sub e (List.mem_filter.mp he).1, fun e he => hF.lid e (List.mem_filter.mp he).1⟩

end Orbit
